//! C44 — Kademlia wire codec: `req_msg_to_proto` / `proto_to_req_msg` / `resp_msg_to_proto` /
//! `proto_to_resp_msg` + the real `Codec` (unsigned-varint framing + prost) vs the Lean model `C44.*`.
//!
//! Token syntax: message fields `|`, peers `,` (`-` = none), peer / record fields `+`,
//! addresses `;` (`~` = none).  Proto-level peer ids carry the verdict of `PeerId::from_bytes`
//! (`v…`/`x…`), proto-level addresses the verdict of `Multiaddr::try_from` (`m<addr>`/`x<hex>`):
//! both parsers are external to the property and enter the model as oracles.
use std::time::{Duration, Instant};

use hcore::{hex, maddr_tok, unhex, Args, Multiaddr, Out, Protocol, Rng};
use libp2p_identity::PeerId;
use libp2p_kad::{
    verif_c44::{self as hook, KadRequestMsg, KadResponseMsg, PbMessage, PbPeer, PbRecord},
    ConnectionType, KadPeer, Record, RecordKey,
};

const S: u64 = 1_000_000_000;
const BASE: u64 = 1_000_000_000 * S;
const MAX: usize = hook::MAX_PACKET_SIZE;

// ---------------------------------------------------------------- tokens: time

fn rel(e: Option<Instant>) -> String {
    let now = Instant::now();
    match e {
        None => "none".into(),
        Some(t) if t > now => format!("in:{}", (t - now).as_nanos()),
        Some(t) => format!("ago:{}", (now - t).as_nanos()),
    }
}

fn dur_ns(ns: u128) -> Duration {
    Duration::new((ns / S as u128) as u64, (ns % S as u128) as u32)
}

fn abs(tok: &str) -> Option<Instant> {
    let now = Instant::now();
    if let Some(d) = tok.strip_prefix("in:") {
        Some(now + dur_ns(d.parse().unwrap()))
    } else if let Some(d) = tok.strip_prefix("ago:") {
        Some(now - dur_ns(d.parse().unwrap()))
    } else {
        None
    }
}

// ---------------------------------------------------------------- tokens: multiaddr (inverse of hcore::maddr_tok)

fn parse_maddr(tok: &str) -> Multiaddr {
    let mut a = Multiaddr::empty();
    if tok == "-" {
        return a;
    }
    for c in tok.split('/') {
        let mut it = c.splitn(2, ':');
        let name = it.next().unwrap();
        let v = it.next().unwrap_or("");
        let s = |v: &str| String::from_utf8(unhex(v)).unwrap();
        let p: Protocol<'static> = match name {
            "ip4" => Protocol::Ip4(v.parse::<u32>().unwrap().into()),
            "ip6" => Protocol::Ip6(v.parse::<u128>().unwrap().into()),
            "dns" => Protocol::Dns(s(v).into()),
            "dns4" => Protocol::Dns4(s(v).into()),
            "dns6" => Protocol::Dns6(s(v).into()),
            "dnsaddr" => Protocol::Dnsaddr(s(v).into()),
            "tcp" => Protocol::Tcp(v.parse().unwrap()),
            "udp" => Protocol::Udp(v.parse().unwrap()),
            "p2p" => Protocol::P2p(PeerId::from_bytes(&unhex(v)).unwrap()),
            "quic" => Protocol::Quic,
            "quic-v1" => Protocol::QuicV1,
            "p2p-circuit" => Protocol::P2pCircuit,
            "ws" => Protocol::Ws("/".into()),
            "wss" => Protocol::Wss("/".into()),
            "tls" => Protocol::Tls,
            "webtransport" => Protocol::WebTransport,
            "webrtc-direct" => Protocol::WebRTCDirect,
            "memory" => Protocol::Memory(v.parse().unwrap()),
            "ip6zone" => Protocol::Ip6zone(s(v).into()),
            "certhash" | "other" => {
                // `other:<name>:<binary encoding of the component>`; certhash: re-parse from bytes below
                let bytes = if name == "other" { unhex(v.split(':').nth(1).unwrap()) } else { vec![] };
                if name == "other" {
                    let sub = Multiaddr::try_from(bytes).unwrap();
                    for q in sub.iter() {
                        a.push(q.acquire());
                    }
                    continue;
                }
                panic!("certhash not generated")
            }
            other => panic!("unknown component {other}"),
        };
        a.push(p);
    }
    a
}

fn addrs_tok(l: &[Multiaddr]) -> String {
    hcore::maddr_list_tok(l)
}

fn parse_addrs(tok: &str) -> Vec<Multiaddr> {
    if tok == "~" {
        vec![]
    } else {
        tok.split(';').map(parse_maddr).collect()
    }
}

// ---------------------------------------------------------------- tokens: Kademlia level

fn conn_i(c: ConnectionType) -> i32 {
    match c {
        ConnectionType::NotConnected => 0,
        ConnectionType::Connected => 1,
        ConnectionType::CanConnect => 2,
        ConnectionType::CannotConnect => 3,
    }
}

fn conn_of(i: i32) -> ConnectionType {
    match i {
        0 => ConnectionType::NotConnected,
        1 => ConnectionType::Connected,
        2 => ConnectionType::CanConnect,
        _ => ConnectionType::CannotConnect,
    }
}

fn peer_tok(p: &KadPeer) -> String {
    format!("{}+{}+{}", hex(&p.node_id.to_bytes()), conn_i(p.connection_ty), addrs_tok(&p.multiaddrs))
}

fn parse_peer(t: &str) -> KadPeer {
    let f: Vec<&str> = t.split('+').collect();
    KadPeer {
        node_id: PeerId::from_bytes(&unhex(f[0])).unwrap(),
        connection_ty: conn_of(f[1].parse().unwrap()),
        multiaddrs: parse_addrs(f[2]),
    }
}

fn peers_tok(l: &[KadPeer]) -> String {
    if l.is_empty() {
        "-".into()
    } else {
        l.iter().map(peer_tok).collect::<Vec<_>>().join(",")
    }
}

fn parse_peers(t: &str) -> Vec<KadPeer> {
    if t == "-" {
        vec![]
    } else {
        t.split(',').map(parse_peer).collect()
    }
}

fn record_tok(r: &Record) -> String {
    format!(
        "{}+{}+{}+{}",
        hex(r.key.as_ref()),
        hex(&r.value),
        r.publisher.map(|p| hex(&p.to_bytes())).unwrap_or("-".into()),
        rel(r.expires)
    )
}

fn parse_record(t: &str) -> Record {
    let f: Vec<&str> = t.split('+').collect();
    Record {
        key: RecordKey::from(unhex(f[0])),
        value: unhex(f[1]),
        publisher: if f[2] == "-" { None } else { Some(PeerId::from_bytes(&unhex(f[2])).unwrap()) },
        expires: abs(f[3]),
    }
}

fn req_tok(m: &KadRequestMsg) -> String {
    match m {
        KadRequestMsg::Ping => "ping".into(),
        KadRequestMsg::FindNode { key } => format!("findnode|{}", hex(key)),
        KadRequestMsg::GetProviders { key } => format!("getprov|{}", hex(key.as_ref())),
        KadRequestMsg::GetValue { key } => format!("getval|{}", hex(key.as_ref())),
        KadRequestMsg::AddProvider { key, provider } => format!("addprov|{}|{}", hex(key.as_ref()), peer_tok(provider)),
        KadRequestMsg::PutValue { record } => format!("putval|{}", record_tok(record)),
    }
}

fn parse_req(t: &str) -> KadRequestMsg {
    let f: Vec<&str> = t.split('|').collect();
    match f[0] {
        "ping" => KadRequestMsg::Ping,
        "findnode" => KadRequestMsg::FindNode { key: unhex(f[1]) },
        "getprov" => KadRequestMsg::GetProviders { key: RecordKey::from(unhex(f[1])) },
        "getval" => KadRequestMsg::GetValue { key: RecordKey::from(unhex(f[1])) },
        "addprov" => KadRequestMsg::AddProvider { key: RecordKey::from(unhex(f[1])), provider: parse_peer(f[2]) },
        "putval" => KadRequestMsg::PutValue { record: parse_record(f[1]) },
        o => panic!("bad req {o}"),
    }
}

fn resp_tok(m: &KadResponseMsg) -> String {
    match m {
        KadResponseMsg::Pong => "pong".into(),
        KadResponseMsg::FindNode { closer_peers } => format!("findnode|{}", peers_tok(closer_peers)),
        KadResponseMsg::GetProviders { closer_peers, provider_peers } => {
            format!("getprov|{}|{}", peers_tok(closer_peers), peers_tok(provider_peers))
        }
        KadResponseMsg::GetValue { record, closer_peers } => format!(
            "getval|{}|{}",
            record.as_ref().map(record_tok).unwrap_or("nil".into()),
            peers_tok(closer_peers)
        ),
        KadResponseMsg::PutValue { key, value } => format!("putval|{}|{}", hex(key.as_ref()), hex(value)),
    }
}

fn parse_resp(t: &str) -> KadResponseMsg {
    let f: Vec<&str> = t.split('|').collect();
    match f[0] {
        "pong" => KadResponseMsg::Pong,
        "findnode" => KadResponseMsg::FindNode { closer_peers: parse_peers(f[1]) },
        "getprov" => KadResponseMsg::GetProviders { closer_peers: parse_peers(f[1]), provider_peers: parse_peers(f[2]) },
        "getval" => KadResponseMsg::GetValue {
            record: if f[1] == "nil" { None } else { Some(parse_record(f[1])) },
            closer_peers: parse_peers(f[2]),
        },
        "putval" => KadResponseMsg::PutValue { key: RecordKey::from(unhex(f[1])), value: unhex(f[2]) },
        o => panic!("bad resp {o}"),
    }
}

// ---------------------------------------------------------------- tokens: proto level

fn pid_tok(b: &[u8]) -> String {
    format!("{}{}", if PeerId::from_bytes(b).is_ok() { "v" } else { "x" }, hex(b))
}

fn paddr_tok(b: &[u8]) -> String {
    match Multiaddr::try_from(b.to_vec()) {
        Ok(a) => format!("m{}", maddr_tok(&a)),
        Err(_) => format!("x{}", hex(b)),
    }
}

fn parse_paddr(t: &str) -> Vec<u8> {
    if let Some(m) = t.strip_prefix('m') {
        parse_maddr(m).to_vec()
    } else {
        unhex(&t[1..])
    }
}

fn ppeer_tok(p: &PbPeer) -> String {
    format!(
        "{}+{}+{}",
        pid_tok(&p.id),
        p.connection,
        if p.addrs.is_empty() { "~".to_string() } else { p.addrs.iter().map(|a| paddr_tok(a)).collect::<Vec<_>>().join(";") }
    )
}

fn parse_ppeer(t: &str) -> PbPeer {
    let f: Vec<&str> = t.split('+').collect();
    PbPeer {
        id: unhex(&f[0][1..]),
        connection: f[1].parse().unwrap(),
        addrs: if f[2] == "~" { vec![] } else { f[2].split(';').map(parse_paddr).collect() },
    }
}

fn ppeers_tok(l: &[PbPeer]) -> String {
    if l.is_empty() {
        "-".into()
    } else {
        l.iter().map(ppeer_tok).collect::<Vec<_>>().join(",")
    }
}

fn parse_ppeers(t: &str) -> Vec<PbPeer> {
    if t == "-" {
        vec![]
    } else {
        t.split(',').map(parse_ppeer).collect()
    }
}

fn precord_tok(r: &Option<PbRecord>) -> String {
    match r {
        None => "nil".into(),
        Some(r) => format!(
            "{}+{}+{}+{}+{}",
            hex(&r.key),
            hex(&r.value),
            pid_tok(&r.publisher),
            r.ttl,
            hex(r.time_received.as_bytes())
        ),
    }
}

fn parse_precord(t: &str) -> Option<PbRecord> {
    if t == "nil" {
        return None;
    }
    let f: Vec<&str> = t.split('+').collect();
    Some(PbRecord {
        key: unhex(f[0]),
        value: unhex(f[1]),
        publisher: unhex(&f[2][1..]),
        ttl: f[3].parse().unwrap(),
        time_received: String::from_utf8(unhex(f[4])).unwrap(),
    })
}

fn pmsg_tok(m: &PbMessage) -> String {
    format!(
        "{}|{}|{}|{}|{}|{}",
        m.r#type,
        m.cluster_level_raw,
        hex(&m.key),
        precord_tok(&m.record),
        ppeers_tok(&m.closer_peers),
        ppeers_tok(&m.provider_peers)
    )
}

fn parse_pmsg(t: &str) -> PbMessage {
    let f: Vec<&str> = t.split('|').collect();
    PbMessage {
        r#type: f[0].parse().unwrap(),
        cluster_level_raw: f[1].parse().unwrap(),
        key: unhex(f[2]),
        record: parse_precord(f[3]),
        closer_peers: parse_ppeers(f[4]),
        provider_peers: parse_ppeers(f[5]),
    }
}

// ---------------------------------------------------------------- results

fn err_tag(e: &std::io::Error) -> String {
    let s = e.to_string();
    if s.contains("unknown message type") {
        "err:unknown_type".into()
    } else if s.contains("Invalid publisher peer ID") {
        "err:bad_publisher".into()
    } else if s.contains("AddProvider message with no valid peer") {
        "err:no_valid_peer".into()
    } else if s.contains("received PutValue message with no record") {
        "err:no_record".into()
    } else if s.contains("unexpected AddProvider") {
        "err:unexpected_add_provider".into()
    } else {
        "ferr".into()
    }
}

fn res_tok<T>(r: Result<Result<Option<(T, usize)>, std::io::Error>, String>, show: impl Fn(&T) -> String) -> String {
    match r {
        Err(m) => format!("panic {m}"),
        Ok(Err(e)) => err_tag(&e),
        Ok(Ok(None)) => "need".into(),
        Ok(Ok(Some((m, 0)))) => format!("ok {}", show(&m)),
        Ok(Ok(Some((m, rest)))) => format!("ok {} trailing={rest}", show(&m)),
    }
}

// ---------------------------------------------------------------- ops

fn exec(out: &mut Out, t: &[String]) {
    match t[0].as_str() {
        "req" => {
            let m = parse_req(&t[1]);
            out.op(&format!("req {}", req_tok(&m)));
            let line = hcore::guarded(|| {
                let p = hook::req_to_proto(m.clone());
                let bytes = hook::encode_req(m.clone(), MAX).expect("encode");
                let rt = matches!(hook::decode_proto(&bytes, MAX), Ok(Some((ref q, 0))) if *q == p);
                let dec = hcore::guarded(|| hook::decode_req(&bytes, MAX));
                format!("{} rt={} {}", pmsg_tok(&p), rt as u8, res_tok(dec, req_tok))
            });
            out.imp(&line.unwrap_or_else(|m| format!("panic {m}")));
        }
        "resp" => {
            let m = parse_resp(&t[1]);
            out.op(&format!("resp {}", resp_tok(&m)));
            let line = hcore::guarded(|| {
                let p = hook::resp_to_proto(m.clone());
                let bytes = hook::encode_resp(m.clone(), MAX).expect("encode");
                let rt = matches!(hook::decode_proto(&bytes, MAX), Ok(Some((ref q, 0))) if *q == p);
                let dec = hcore::guarded(|| hook::decode_resp(&bytes, MAX));
                format!("{} rt={} {}", pmsg_tok(&p), rt as u8, res_tok(dec, resp_tok))
            });
            out.imp(&line.unwrap_or_else(|m| format!("panic {m}")));
        }
        "dreq" | "dresp" => {
            let p = parse_pmsg(&t[1]);
            out.op(&format!("{} {}", t[0], pmsg_tok(&p)));
            let bytes = hook::encode_proto(p, 1 << 30).expect("encode");
            let line = if t[0] == "dreq" {
                res_tok(hcore::guarded(|| hook::decode_req(&bytes, MAX)), req_tok)
            } else {
                res_tok(hcore::guarded(|| hook::decode_resp(&bytes, MAX)), resp_tok)
            };
            out.imp(&line);
        }
        "bytes" => {
            out.op(&t.join(" "));
            let bytes = unhex(&t[2]);
            let pm = hcore::guarded(|| hook::decode_proto(&bytes, MAX));
            let res = if t[1] == "req" {
                res_tok(hcore::guarded(|| hook::decode_req(&bytes, MAX)), req_tok)
            } else {
                res_tok(hcore::guarded(|| hook::decode_resp(&bytes, MAX)), resp_tok)
            };
            let line = match pm {
                Err(m) => format!("panic {m}"),
                Ok(Ok(None)) if res == "need" => "need".into(),
                Ok(Err(_)) if res == "ferr" => "ferr".into(),
                Ok(Ok(Some((p, _)))) => {
                    // strip the trailing= marker: arbitrary bytes may continue after the first frame
                    let res = res.split(" trailing=").next().unwrap().to_string();
                    if res.starts_with("panic") { res } else { format!("{} {}", pmsg_tok(&p), res) }
                }
                _ => format!("inconsistent {res}"),
            };
            out.imp(&line);
        }
        o => panic!("unknown op {o}"),
    }
}

// ---------------------------------------------------------------- generators

fn rb(rng: &mut Rng, lens: &[usize]) -> Vec<u8> {
    let n = *rng.pick(lens);
    rng.bytes(n)
}

fn rand_peer_id(rng: &mut Rng) -> PeerId {
    if rng.chance(1, 3) {
        hcore::peer(rng.below(6) as u8)
    } else {
        let mut b = vec![0x12u8, 0x20];
        // a small pool so that "same peer" / "other peer" suffixes both occur
        let mut r = Rng::new(0xABCD + rng.below(6));
        b.extend(r.bytes(32));
        PeerId::from_bytes(&b).unwrap()
    }
}

fn rand_addr(rng: &mut Rng, me: &PeerId) -> Multiaddr {
    let mut a = Multiaddr::empty();
    match rng.below(8) {
        0 => return a,
        1 => a.push(Protocol::Ip6("2001:db8::1".parse().unwrap())),
        2 => a.push(Protocol::Dns(if rng.bool() { "example.com".into() } else { "a.b".into() })),
        3 => a.push(Protocol::Dns4("x".into())),
        4 => a.push(Protocol::Memory(rng.below(100))),
        _ => a.push(Protocol::Ip4((rng.next_u64() as u32).into())),
    }
    match rng.below(5) {
        0 => {
            a.push(Protocol::Udp(rng.below(65536) as u16));
            a.push(Protocol::QuicV1)
        }
        1 => {
            a.push(Protocol::Tcp(rng.below(65536) as u16));
            a.push(Protocol::Tls);
            a.push(Protocol::Ws("/".into()))
        }
        2 => {}
        _ => a.push(Protocol::Tcp(rng.below(65536) as u16)),
    }
    match rng.below(8) {
        0 | 1 => a.push(Protocol::P2p(*me)),
        2 => a.push(Protocol::P2p(rand_peer_id(rng))),
        3 => {
            a.push(Protocol::P2p(rand_peer_id(rng)));
            a.push(Protocol::P2pCircuit)
        }
        4 => {
            a.push(Protocol::P2p(rand_peer_id(rng)));
            a.push(Protocol::P2pCircuit);
            a.push(Protocol::P2p(*me))
        }
        _ => {}
    }
    a
}

fn rand_kad_peer(rng: &mut Rng) -> KadPeer {
    let id = rand_peer_id(rng);
    let n = *rng.pick(&[0usize, 1, 1, 2, 3, 4]);
    KadPeer {
        node_id: id,
        multiaddrs: (0..n).map(|_| rand_addr(rng, &id)).collect(),
        connection_ty: conn_of(rng.below(4) as i32),
    }
}

fn rand_key(rng: &mut Rng) -> Vec<u8> {
    let n = *rng.pick(&[0usize, 1, 2, 8, 32, 34, 40]);
    rng.bytes(n)
}

fn rand_exp(rng: &mut Rng) -> String {
    match rng.below(9) {
        0 | 1 => "none".into(),
        2 => format!("ago:{}", rng.below(5 * S)),
        3 => format!("in:{}", rng.range(1, 2 * S)),
        4 => format!("in:{}", rng.range(1, 200_000) * S),
        5 => format!("in:{}", rng.range(1, 200_000) * S + rng.range(1, S - 1)),
        6 => format!("in:{}", (1u64 << 32) * S - S + rng.below(3 * S)),
        7 => "in:1".into(),
        _ => format!("in:{}", 172_800 * S),
    }
}

fn rand_record_tok(rng: &mut Rng) -> String {
    let vlen = *rng.pick(&[0usize, 1, 3, 20, 300]);
    format!(
        "{}+{}+{}+{}",
        hex(&rand_key(rng)),
        hex(&rng.bytes(vlen)),
        if rng.bool() { "-".to_string() } else { hex(&rand_peer_id(rng).to_bytes()) },
        rand_exp(rng)
    )
}

fn rand_peers(rng: &mut Rng) -> Vec<KadPeer> {
    let n = *rng.pick(&[0usize, 1, 2, 3, 5, 20, 25]);
    (0..n).map(|_| rand_kad_peer(rng)).collect()
}

fn rand_req_op(rng: &mut Rng) -> String {
    let t = match rng.below(8) {
        0 => "ping".to_string(),
        1 => format!("findnode|{}", hex(&rand_key(rng))),
        2 => format!("getprov|{}", hex(&rand_key(rng))),
        3 => format!("getval|{}", hex(&rand_key(rng))),
        4 | 5 => format!("addprov|{}|{}", hex(&rand_key(rng)), peer_tok(&rand_kad_peer(rng))),
        _ => format!("putval|{}", rand_record_tok(rng)),
    };
    format!("req {t}")
}

fn rand_resp_op(rng: &mut Rng) -> String {
    let t = match rng.below(8) {
        0 => "pong".to_string(),
        1 | 2 => format!("findnode|{}", peers_tok(&rand_peers(rng))),
        3 | 4 => format!("getprov|{}|{}", peers_tok(&rand_peers(rng)), peers_tok(&rand_peers(rng))),
        5 | 6 => format!(
            "getval|{}|{}",
            if rng.chance(1, 3) { "nil".to_string() } else { rand_record_tok(rng) },
            peers_tok(&rand_peers(rng))
        ),
        _ => format!("putval|{}|{}", hex(&rand_key(rng)), hex(&rb(rng, &[0usize, 1, 7]))),
    };
    format!("resp {t}")
}

fn rand_pid_bytes(rng: &mut Rng) -> Vec<u8> {
    match rng.below(8) {
        0 => vec![],
        1 => rb(rng, &[1usize, 2, 33, 34, 35]),
        2 => {
            // right shape, unsupported hash code / wrong length
            let mut b = vec![*rng.pick(&[0x11u8, 0x13, 0x12, 0x00]), *rng.pick(&[0x20u8, 0x14, 0x40])];
            b.extend(rb(rng, &[20usize, 32, 31, 64]));
            b
        }
        _ => rand_peer_id(rng).to_bytes(),
    }
}

fn rand_pb_peer(rng: &mut Rng) -> PbPeer {
    let id = rand_pid_bytes(rng);
    let me = PeerId::from_bytes(&id).unwrap_or_else(|_| hcore::peer(9));
    let n = *rng.pick(&[0usize, 1, 2, 4]);
    PbPeer {
        id,
        connection: *rng.pick(&[0i32, 1, 2, 3, 3, 2, 1, 0, 4, -1, 77]),
        addrs: (0..n)
            .map(|_| match rng.below(5) {
                0 => rb(rng, &[1usize, 3, 8]),
                1 => vec![255; 8],
                _ => rand_addr(rng, &me).to_vec(),
            })
            .collect(),
    }
}

fn rand_pb_record(rng: &mut Rng) -> PbRecord {
    PbRecord {
        key: rand_key(rng),
        value: rb(rng, &[0usize, 1, 9]),
        publisher: if rng.bool() { vec![] } else { rand_pid_bytes(rng) },
        ttl: *rng.pick(&[0u32, 0, 1, 2, 3600, u32::MAX, 1 << 31]),
        time_received: rng.pick(&["", "", "2024-01-01T00:00:00Z", "x"]).to_string(),
    }
}

fn rand_pmsg(rng: &mut Rng) -> PbMessage {
    let np = *rng.pick(&[0usize, 0, 1, 2, 3, 6]);
    let nq = *rng.pick(&[0usize, 0, 1, 2, 3]);
    PbMessage {
        r#type: *rng.pick(&[0i32, 1, 2, 3, 4, 5, 0, 1, 2, 3, 4, 2, 2, 6, -1, 100]),
        cluster_level_raw: *rng.pick(&[0i32, 9, 10, -1, i32::MAX]),
        key: rand_key(rng),
        record: if rng.chance(1, 3) { None } else { Some(rand_pb_record(rng)) },
        closer_peers: (0..np).map(|_| rand_pb_peer(rng)).collect(),
        provider_peers: (0..nq).map(|_| rand_pb_peer(rng)).collect(),
    }
}

fn rand_bytes_op(rng: &mut Rng) -> String {
    let dir = if rng.bool() { "req" } else { "resp" };
    let bytes = match rng.below(6) {
        0 => { let n = rng.range(0, 40) as usize; rng.bytes(n) },
        1 => {
            // a length prefix beyond the packet limit
            let mut b = vec![0x81, 0x80, 0x01 + rng.below(4) as u8];
            b.extend(rng.bytes(5));
            b
        }
        _ => {
            // an encoded plausible message, mutated
            let mut b = hook::encode_proto(rand_pmsg(rng), 1 << 30).unwrap();
            for _ in 0..rng.below(4) {
                if b.is_empty() {
                    break;
                }
                let i = rng.usize(b.len());
                match rng.below(4) {
                    0 => b[i] ^= 1 << rng.below(8),
                    1 => b[i] = rng.next_u64() as u8,
                    2 => {
                        b.truncate(i);
                    }
                    _ => b.insert(i, rng.next_u64() as u8),
                }
            }
            b
        }
    };
    format!("bytes {dir} {}", hex(&bytes))
}

fn run_case(out: &mut Out, idx: u64, class: &str, now: u64, ops: &[String]) {
    crate::clock::freeze(now);
    let nt = ops.iter().any(|o| o.contains('+'));
    out.case(idx, &format!("{class} nt={} now={now}", nt as u8));
    for o in ops {
        let t: Vec<String> = o.split_whitespace().map(|x| x.to_string()).collect();
        exec(out, &t);
    }
    out.end();
}

pub fn run(args: &Args, out: &mut Out) {
    if let Some(cases) = args.replay_cases() {
        for (i, (hdr, ops)) in cases.iter().enumerate() {
            let now = hdr.iter().find_map(|t| t.strip_prefix("now=")).and_then(|s| s.parse().ok()).unwrap_or(BASE);
            let class = hdr.get(1).cloned().unwrap_or("replay".into());
            let ops: Vec<String> = ops.iter().map(|o| o.join(" ")).collect();
            run_case(out, i as u64, &class, now, &ops);
        }
        return;
    }
    let mut idx = 0u64;
    // --- fixed: every message kind, smallest forms, and the two unit tests of protocol.rs
    {
        let me = hcore::peer(1);
        let other = hcore::peer(2);
        let base: Multiaddr = "/ip6/2001:db8::/tcp/1234".parse().unwrap();
        let p = KadPeer {
            node_id: me,
            multiaddrs: vec![base.clone(), base.clone().with(Protocol::P2p(me)), base.clone().with(Protocol::P2p(other)), Multiaddr::empty()],
            connection_ty: ConnectionType::CanConnect,
        };
        let ops = vec![
            "req ping".to_string(),
            "resp pong".to_string(),
            "req findnode|-".to_string(),
            "req getprov|-".to_string(),
            "req getval|-".to_string(),
            "req putval|-+-+-+none".to_string(),
            format!("req addprov|-|{}", peer_tok(&p)),
            "resp findnode|-".to_string(),
            "resp getprov|-|-".to_string(),
            "resp getval|nil|-".to_string(),
            "resp putval|-|-".to_string(),
            format!("resp findnode|{}", peers_tok(&[p.clone(), p.clone()])),
            "dreq 0|0|-|nil|-|-".to_string(),
            "dresp 0|0|-|nil|-|-".to_string(),
            "dreq 2|0|-|nil|-|-".to_string(),
            "dresp 2|0|-|nil|-|-".to_string(),
            "dreq 6|0|-|nil|-|-".to_string(),
            "dresp -1|0|-|nil|-|-".to_string(),
            "bytes req -".to_string(),
            "bytes resp 00".to_string(),
            "bytes req 0208".to_string(),
        ];
        run_case(out, idx, "fixed", BASE, &ops);
        idx += 1;
    }
    let n = args.n(2500, 120_000);
    for i in 0..n {
        let mut rng = Rng::for_case(args.seed, i);
        let now = BASE + rng.below(2 * S);
        crate::clock::freeze(now);
        let (class, ops): (&str, Vec<String>) = match i % 5 {
            0 => ("req", (0..rng.range(1, 4)).map(|_| rand_req_op(&mut rng)).collect()),
            1 => ("resp", (0..rng.range(1, 3)).map(|_| rand_resp_op(&mut rng)).collect()),
            2 => ("dreq", (0..rng.range(1, 4)).map(|_| format!("dreq {}", pmsg_tok(&rand_pmsg(&mut rng)))).collect()),
            3 => ("dresp", (0..rng.range(1, 4)).map(|_| format!("dresp {}", pmsg_tok(&rand_pmsg(&mut rng)))).collect()),
            _ => ("bytes", (0..rng.range(1, 6)).map(|_| rand_bytes_op(&mut rng)).collect()),
        };
        run_case(out, idx, class, now, &ops);
        idx += 1;
    }
}
