//! C43 — inbound ADD_PROVIDER / PUT_VALUE acceptance: real `kad::Behaviour<MemoryStore>` fed with
//! `HandlerEvent::{AddProvider, PutRecord}` through `on_connection_handler_event`, vs the Lean
//! model `C43.step`.  Peers / keys / addresses are small integers (`peer(i)`, key `[k]`,
//! `/ip4/10.0.0.<a>/tcp/1`); the store is dumped canonically (sorted by key) after every op.
use std::{
    num::NonZeroUsize,
    task::{Context, Poll},
};

use hcore::{hex, unhex, Args, Multiaddr, Out, Protocol, Rng};
use libp2p_identity::PeerId;
use libp2p_kad::{
    self as kad,
    store::{MemoryStore, MemoryStoreConfig, RecordStore},
    verif_c42 as hook42, verif_c43 as hook43, Behaviour, Config, ConnectionType, KadPeer, ProviderRecord, Record,
    RecordKey, StoreInserts,
};
use libp2p_swarm::{ConnectionId, NetworkBehaviour, ToSwarm};

const NPEERS: u8 = 16;
const NKEYS: u8 = 16;

#[derive(Clone, Debug)]
struct Cfg {
    local: u8,
    filt: bool,
    maxrec: usize,
    maxval: usize,
    maxppk: usize,
    maxpk: usize,
}

impl Cfg {
    fn header(&self, class: &str, nt: bool) -> String {
        format!(
            "{class} nt={} local={} filt={} maxrec={} maxval={} maxppk={} maxpk={}",
            nt as u8, self.local, self.filt as u8, self.maxrec, self.maxval, self.maxppk, self.maxpk
        )
    }
    fn parse(t: &[String]) -> Cfg {
        let kv = |k: &str, d: usize| {
            t.iter().find_map(|x| x.strip_prefix(&format!("{k}=")).and_then(|s| s.parse().ok())).unwrap_or(d)
        };
        Cfg {
            local: kv("local", 0) as u8,
            filt: kv("filt", 0) == 1,
            maxrec: kv("maxrec", 1024),
            maxval: kv("maxval", 65 * 1024),
            maxppk: kv("maxppk", 20),
            maxpk: kv("maxpk", 1024),
        }
    }
}

struct World {
    beh: Behaviour<MemoryStore>,
    peers: Vec<PeerId>,
    me: PeerId,
}

fn peer_idx(w: &World, p: &PeerId) -> String {
    w.peers.iter().position(|q| q == p).map(|i| i.to_string()).unwrap_or_else(|| "?".into())
}

fn key_of(k: u8) -> RecordKey {
    RecordKey::from(vec![k])
}

fn key_idx(k: &RecordKey) -> String {
    let b: &[u8] = k.as_ref();
    if b.len() == 1 {
        b[0].to_string()
    } else {
        format!("?{}", hex(b))
    }
}

fn addr_of(a: u8) -> Multiaddr {
    let mut m = Multiaddr::empty();
    m.push(Protocol::Ip4([10, 0, 0, a].into()));
    m.push(Protocol::Tcp(1));
    m
}

fn addrs_tok(l: &[Multiaddr]) -> String {
    if l.is_empty() {
        return "~".into();
    }
    l.iter()
        .map(|m| match m.iter().next() {
            Some(Protocol::Ip4(ip)) => ip.octets()[3].to_string(),
            _ => "?".into(),
        })
        .collect::<Vec<_>>()
        .join(".")
}

fn parse_addrs(t: &str) -> Vec<Multiaddr> {
    if t == "~" {
        vec![]
    } else {
        t.split('.').map(|a| addr_of(a.parse().unwrap())).collect()
    }
}

fn pub_tok(w: &World, p: &Option<PeerId>) -> String {
    p.as_ref().map(|p| peer_idx(w, p)).unwrap_or("n".into())
}

fn rec_tok(w: &World, r: &Record) -> String {
    format!("{}:{}:{}", key_idx(&r.key), hex(&r.value), pub_tok(w, &r.publisher))
}

fn prov_tok(w: &World, p: &ProviderRecord) -> String {
    format!("{}/{}", peer_idx(w, &p.provider), addrs_tok(&p.addresses))
}

fn list(v: Vec<String>) -> String {
    if v.is_empty() {
        "-".into()
    } else {
        v.join(",")
    }
}

fn dump(w: &mut World) -> String {
    let mut recs: Vec<(Vec<u8>, String)> = vec![];
    let all: Vec<Record> = w.beh.store_mut().records().map(|r| r.into_owned()).collect();
    for r in &all {
        recs.push((r.key.to_vec(), rec_tok(w, r)));
    }
    recs.sort();
    let mut provs = vec![];
    for k in 0..NKEYS {
        let l = w.beh.store_mut().providers(&key_of(k));
        if !l.is_empty() {
            provs.push(format!("{}:{}", k, l.iter().map(|p| prov_tok(w, p)).collect::<Vec<_>>().join(";")));
        }
    }
    let mut provd: Vec<Vec<u8>> = w.beh.store_mut().provided().map(|p| p.key.to_vec()).collect();
    provd.sort();
    format!(
        "recs={} provs={} provd={}",
        list(recs.into_iter().map(|x| x.1).collect()),
        list(provs),
        list(provd.iter().map(|k| key_idx(&RecordKey::from(k.clone()))).collect())
    )
}

fn drain(beh: &mut Behaviour<MemoryStore>) -> Vec<ToSwarm<kad::Event, libp2p_swarm::THandlerInEvent<Behaviour<MemoryStore>>>> {
    let waker = futures::task::noop_waker();
    let mut cx = Context::from_waker(&waker);
    let mut v = vec![];
    for _ in 0..10_000 {
        match beh.poll(&mut cx) {
            Poll::Ready(e) => v.push(e),
            Poll::Pending => break,
        }
    }
    v
}

fn build(cfg: &Cfg) -> World {
    crate::clock::freeze(1_000_000_000 * 1_000_000_000);
    let peers: Vec<PeerId> = (0..NPEERS).map(hcore::peer).collect();
    let local = peers[cfg.local as usize];
    let mut c = Config::new(kad::PROTOCOL_NAME);
    c.set_replication_factor(NonZeroUsize::new(20).unwrap());
    c.set_record_ttl(None);
    c.set_provider_record_ttl(None);
    c.set_record_filtering(if cfg.filt { StoreInserts::FilterBoth } else { StoreInserts::Unfiltered });
    c.set_replication_interval(None);
    c.set_publication_interval(None);
    c.set_provider_publication_interval(None);
    c.set_periodic_bootstrap_interval(None);
    let sc = MemoryStoreConfig {
        max_records: cfg.maxrec,
        max_value_bytes: cfg.maxval,
        max_providers_per_key: cfg.maxppk,
        max_provided_keys: cfg.maxpk,
    };
    let beh = Behaviour::with_config(local, MemoryStore::with_config(local, sc), c);
    World { beh, peers, me: local }
}

fn parse_pub(w: &World, t: &str) -> Option<PeerId> {
    if t == "n" {
        None
    } else {
        Some(w.peers[t.parse::<usize>().unwrap()])
    }
}

/// events of one injected request: (`ev=…`, `ack=…`)
fn events(w: &mut World) -> (String, String) {
    let mut ev = "absent".to_string();
    let mut ack = "none".to_string();
    for e in drain(&mut w.beh) {
        match e {
            ToSwarm::GenerateEvent(kad::Event::InboundRequest { request }) => match request {
                kad::InboundRequest::AddProvider { record: None } => ev = "ap:null".into(),
                kad::InboundRequest::AddProvider { record: Some(r) } => {
                    ev = format!("ap:{}:{}", key_idx(&r.key), prov_tok(w, &r))
                }
                kad::InboundRequest::PutRecord { record: None, .. } => ev = "pr:null".into(),
                kad::InboundRequest::PutRecord { record: Some(r), .. } => ev = format!("pr:{}", rec_tok(w, &r)),
                other => ev = format!("other:{}", format!("{other:?}").split_whitespace().next().unwrap_or("?")),
            },
            ToSwarm::NotifyHandler { event, .. } => {
                // `PutRecordRes:<keyhex>:<valhex>:<req>` / `Reset:<req>` from the C42 hook
                let t = hook42::handler_in_tag(&event);
                let f: Vec<&str> = t.split(':').collect();
                ack = match f[0] {
                    "PutRecordRes" => format!("ack:{}:{}:{}", key_idx(&RecordKey::from(unhex(f[1]))), f[2], f[3]),
                    "Reset" => format!("reset:{}", f[1]),
                    _ => t.clone(),
                };
            }
            _ => {}
        }
    }
    (ev, ack)
}

fn exec(w: &mut World, out: &mut Out, t: &[String]) {
    out.op(&t.join(" "));
    let line = match t[0].as_str() {
        "lput" => {
            let r = Record { key: key_of(t[1].parse().unwrap()), value: unhex(&t[2]), publisher: parse_pub(w, &t[3]), expires: None };
            let res = hcore::guarded(|| w.beh.store_mut().put(r));
            match res {
                Ok(r) => format!("{} r={}", dump(w), if r.is_ok() { "ok" } else { "err" }),
                Err(m) => format!("panic {m}"),
            }
        }
        "lprov" => {
            let me = w.me;
            let r = ProviderRecord { key: key_of(t[1].parse().unwrap()), provider: me, expires: None, addresses: parse_addrs(&t[2]) };
            let res = hcore::guarded(|| w.beh.store_mut().add_provider(r));
            match res {
                Ok(r) => format!("{} r={}", dump(w), if r.is_ok() { "ok" } else { "err" }),
                Err(m) => format!("panic {m}"),
            }
        }
        "addprov" => {
            let src = w.peers[t[1].parse::<usize>().unwrap()];
            let provider = KadPeer {
                node_id: w.peers[t[3].parse::<usize>().unwrap()],
                multiaddrs: parse_addrs(&t[4]),
                connection_ty: ConnectionType::Connected,
            };
            let key = key_of(t[2].parse().unwrap());
            let res = hcore::guarded(|| hook43::inject_add_provider(&mut w.beh, src, ConnectionId::new_unchecked(3), key, provider));
            match res {
                Ok(()) => {
                    let (ev, ack) = events(w);
                    format!("{} ev={ev} ack={ack}", dump(w))
                }
                Err(m) => format!("panic {m}"),
            }
        }
        "put" => {
            let src = w.peers[t[1].parse::<usize>().unwrap()];
            let r = Record { key: key_of(t[2].parse().unwrap()), value: unhex(&t[3]), publisher: parse_pub(w, &t[4]), expires: None };
            let req: u64 = t[5].parse().unwrap();
            let res = hcore::guarded(|| hook42::inject_put_record(&mut w.beh, src, ConnectionId::new_unchecked(3), r, req));
            match res {
                Ok(()) => {
                    let (ev, ack) = events(w);
                    format!("{} ev={ev} ack={ack}", dump(w))
                }
                Err(m) => format!("panic {m}"),
            }
        }
        o => panic!("unknown op {o}"),
    };
    out.imp(&line);
}

fn run_case(out: &mut Out, idx: u64, class: &str, cfg: &Cfg, ops: &[String]) {
    let nt = ops.iter().any(|o| o.starts_with("addprov") || o.starts_with("put"));
    out.case(idx, &cfg.header(class, nt));
    let mut w = build(cfg);
    for o in ops {
        let t: Vec<String> = o.split_whitespace().map(|x| x.to_string()).collect();
        exec(&mut w, out, &t);
    }
    out.end();
}

fn rand_addrs(rng: &mut Rng) -> String {
    let n = rng.below(3);
    if n == 0 {
        "~".into()
    } else {
        (0..n).map(|_| rng.below(10).to_string()).collect::<Vec<_>>().join(".")
    }
}

fn rand_op(rng: &mut Rng, cfg: &Cfg, j: u64) -> String {
    let src = rng.below(6);
    let other = |rng: &mut Rng| rng.below(6);
    match rng.below(10) {
        0 => format!("lput {} {} {}", rng.below(5), { let n = rng.below(4) as usize; hex(&rng.bytes(n)) }, match rng.below(3) {
            0 => "n".to_string(),
            1 => cfg.local.to_string(),
            _ => other(rng).to_string(),
        }),
        1 => format!("lprov {} {}", rng.below(5), rand_addrs(rng)),
        2..=5 => {
            let prov = match rng.below(10) {
                0..=5 => src,
                6 | 7 => cfg.local as u64,
                _ => other(rng),
            };
            // a sender that claims to BE the local node also occurs (src = local)
            let src = if rng.chance(1, 12) { cfg.local as u64 } else { src };
            format!("addprov {} {} {} {}", src, rng.below(5), prov, rand_addrs(rng))
        }
        _ => {
            let publ = match rng.below(8) {
                0 | 1 => "n".to_string(),
                2 | 3 => src.to_string(),
                4 | 5 => cfg.local.to_string(),
                _ => other(rng).to_string(),
            };
            let n = rng.below(5) as usize;
            format!("put {} {} {} {} {}", src, rng.below(5), hex(&rng.bytes(n)), publ, j)
        }
    }
}

pub fn run(args: &Args, out: &mut Out) {
    if let Some(cases) = args.replay_cases() {
        for (i, (hdr, ops)) in cases.iter().enumerate() {
            let cfg = Cfg::parse(hdr);
            let class = hdr.get(1).cloned().unwrap_or("replay".into());
            let ops: Vec<String> = ops.iter().map(|o| o.join(" ")).collect();
            run_case(out, i as u64, &class, &cfg, &ops);
        }
        return;
    }
    let mut idx = 0u64;
    // --- bounded exhaustive: every sequence (length 2; length 3 in the thorough tier) over the
    // alphabet {ADD_PROVIDER src x provider in {local, a, b}} ∪ {PUT_VALUE publisher in {none, local, a, b}}
    // ∪ {local setup put}, both filter modes
    let mut alphabet: Vec<String> = vec![];
    for src in 0..3 {
        for prov in 0..3 {
            alphabet.push(format!("addprov {src} 0 {prov} {}", if src == 1 { "4" } else { "~" }));
        }
    }
    for (i, p) in ["n", "0", "1", "2"].iter().enumerate() {
        alphabet.push(format!("put 1 0 0{} {p} {}", i + 1, i));
    }
    alphabet.push("lput 0 aa 0".to_string());
    alphabet.push("lprov 0 7".to_string());
    let depth = if args.thorough { 3 } else { 2 };
    for filt in [false, true] {
        let cfg = Cfg { local: 0, filt, maxrec: 1024, maxval: 65 * 1024, maxppk: 20, maxpk: 1024 };
        let n = alphabet.len();
        let total = n.pow(depth);
        for code in 0..total {
            let mut c = code;
            let mut ops = vec![];
            for _ in 0..depth {
                ops.push(alphabet[c % n].clone());
                c /= n;
            }
            run_case(out, idx, "exhaustive", &cfg, &ops);
            idx += 1;
        }
    }
    // --- random histories, incl. tiny store limits (store errors: Reset / provider not stored)
    let n = args.n(1500, 40_000);
    for i in 0..n {
        let mut rng = Rng::for_case(args.seed, i);
        let small = rng.chance(1, 3);
        let cfg = Cfg {
            local: *rng.pick(&[0u8, 0, 3, 5]),
            filt: rng.chance(1, 3),
            maxrec: if small { rng.range(0, 3) as usize } else { 1024 },
            maxval: if small { rng.range(1, 4) as usize } else { 65 * 1024 },
            maxppk: if small { rng.range(1, 3) as usize } else { 20 },
            maxpk: if small { rng.range(0, 3) as usize } else { 1024 },
        };
        let len = rng.range(1, 25);
        let ops: Vec<String> = (0..len).map(|j| rand_op(&mut rng, &cfg, j)).collect();
        run_case(out, idx, "random", &cfg, &ops);
        idx += 1;
    }
}
