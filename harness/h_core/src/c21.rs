//! C21 — signatures, `SignedEnvelope`, `PeerRecord` through the public API.
//!
//! ops:  `sigver <ty> <msg mutated> <sig mutated>`                      Keypair::sign / PublicKey::verify
//!       `env <dom> <ty> <pay> <sig> <key> <expty>` (1 = unchanged)     verify + payload_and_signing_key
//!       `rec <envok> <recdec> <pidparse> <pidsigner> <addrs>`           PeerRecord::from_signed_envelope(_interop)
//!       `mutate <keyty> <pos> <xor>`                                    one byte of an encoded envelope changed
//!       `sigstruct <keyty> <variant> <changed>`                          structure-aware signature mutation (ECDSA twin (r, n-s), s+n, r+n,
//!                                                                       DER integer/length laxness, ed25519 S+L / small-order R, RSA s+N …)
//!                                                                       through PublicKey::verify, SignedEnvelope and PeerRecord
//!       `sigpayload <d> <t> <p>`                                        the exact signed bytes (cfg(libp2p_verif) hook)
//!       `resplit <keyty> <d> <t> <p> <d'> <t'> <p'> <full|omit>`        envelope signed for (d,t,p) presented as (d',t',p')
//!                                                                       with the same key and signature
use hcore::{Args, Multiaddr, Out, Rng};
use libp2p_core::{peer_record::FromEnvelopeError, PeerRecord, SignedEnvelope};
use libp2p_identity::{ecdsa, secp256k1, Keypair, PeerId};

const RSA_FIXTURE: &[u8] = include_bytes!("/repo/identity/src/test/rsa-2048.pk8");

fn keypair(rng: &mut Rng, ty: u32) -> Keypair {
    match ty {
        0 => {
            let mut der = RSA_FIXTURE.to_vec();
            Keypair::rsa_from_pkcs8(&mut der).expect("fixture")
        }
        1 => Keypair::ed25519_from_bytes(rng.bytes(32)).expect("ed25519 secret"),
        2 => loop {
            if let Ok(sk) = secp256k1::SecretKey::try_from_bytes(rng.bytes(32)) {
                break secp256k1::Keypair::from(sk).into();
            }
        },
        _ => loop {
            if let Ok(sk) = ecdsa::SecretKey::try_from_bytes(rng.bytes(32)) {
                break ecdsa::Keypair::from(sk).into();
            }
        },
    }
}

fn varint(mut n: u64) -> Vec<u8> {
    let mut v = vec![];
    loop {
        let b = (n & 0x7f) as u8;
        n >>= 7;
        if n == 0 {
            v.push(b);
            return v;
        }
        v.push(b | 0x80);
    }
}

fn field(tag: u8, data: &[u8]) -> Vec<u8> {
    let mut v = vec![tag << 3 | 2];
    v.extend(varint(data.len() as u64));
    v.extend_from_slice(data);
    v
}

/// the four byte fields (1, 2, 3, 5) of an encoded envelope produced by `into_protobuf_encoding`
fn split_envelope(enc: &[u8]) -> [Vec<u8>; 4] {
    let mut out: [Vec<u8>; 4] = Default::default();
    let mut i = 0;
    while i < enc.len() {
        let tag = enc[i] >> 3;
        i += 1;
        let mut len = 0usize;
        let mut shift = 0;
        loop {
            let b = enc[i];
            i += 1;
            len |= ((b & 0x7f) as usize) << shift;
            shift += 7;
            if b & 0x80 == 0 {
                break;
            }
        }
        let slot = match tag {
            1 => 0,
            2 => 1,
            3 => 2,
            _ => 3,
        };
        out[slot] = enc[i..i + len].to_vec();
        i += len;
    }
    out
}

fn join_envelope(f: &[Vec<u8>; 4]) -> Vec<u8> {
    let mut v = field(1, &f[0]);
    v.extend(field(2, &f[1]));
    v.extend(field(3, &f[2]));
    v.extend(field(5, &f[3]));
    v
}

fn record_payload(peer_id: &[u8], seq: u64, addrs: &[Vec<u8>]) -> Vec<u8> {
    let mut v = field(1, peer_id);
    v.push(2 << 3);
    v.extend(varint(seq));
    for a in addrs {
        v.extend(field(3, &field(1, a)));
    }
    v
}

fn b(x: bool) -> &'static str {
    if x {
        "1"
    } else {
        "0"
    }
}

// ---------------------------------------------------------------- ops

fn op_sigver(out: &mut Out, rng: &mut Rng, ty: u32, mm: bool, sm: bool) {
    out.op(&format!("sigver {} {} {}", ty, b(mm), b(sm)));
    let r = hcore::guarded(|| {
        let kp = keypair(rng, ty);
        let n = 1 + rng.usize(64);
        let mut msg = rng.bytes(n);
        let mut sig = kp.sign(&msg).expect("sign");
        if mm {
            match rng.below(3) {
                0 => msg.push(0),
                1 => {
                    msg.pop();
                }
                _ => {
                    let i = rng.usize(msg.len());
                    msg[i] ^= 1 << rng.below(8)
                }
            }
        }
        if sm {
            match rng.below(4) {
                0 => sig.push(0),
                1 => {
                    sig.pop();
                }
                _ => {
                    let i = rng.usize(sig.len());
                    sig[i] ^= 1 << rng.below(8)
                }
            }
        }
        kp.public().verify(&msg, &sig)
    });
    match r {
        Ok(v) => out.imp(&format!("verify={}", b(v))),
        Err(m) => out.imp(&format!("panic:{m}")),
    }
}

fn flip(rng: &mut Rng, v: &mut Vec<u8>) {
    if v.is_empty() {
        v.push(1);
    } else {
        let i = rng.usize(v.len());
        v[i] ^= 1 << rng.below(8);
    }
}

fn op_env(out: &mut Out, rng: &mut Rng, ty: u32, same: [bool; 6]) {
    out.op(&format!("env {}", same.iter().map(|x| b(*x)).collect::<Vec<_>>().join(" ")));
    let r = hcore::guarded(|| {
        let kp = keypair(rng, ty);
        let other = keypair(rng, 1);
        let domain = String::from_utf8(gen_field(rng, false)).unwrap();
        let ptype = gen_field(rng, false);
        let payload = gen_field(rng, false);
        let env = SignedEnvelope::new(&kp, domain.clone(), ptype.clone(), payload).expect("sign");
        let mut f = split_envelope(&env.into_protobuf_encoding());
        if !same[1] {
            flip(rng, &mut f[1]);
        }
        if !same[2] {
            flip(rng, &mut f[2]);
        }
        if !same[3] {
            flip(rng, &mut f[3]);
        }
        if !same[4] {
            f[0] = other.public().encode_protobuf();
        }
        let env2 = SignedEnvelope::from_protobuf_encoding(&join_envelope(&f)).expect("re-decode");
        // a wrong domain of the same length (last byte changed), a longer one, or a shorter one
        let dom2 = if same[0] {
            domain
        } else if domain.is_empty() {
            "x".to_string()
        } else {
            match rng.below(3) {
                0 => {
                    let mut d = domain.clone().into_bytes();
                    let l = d.len() - 1;
                    d[l] = if d[l] == b'z' { b'a' } else { b'z' };
                    String::from_utf8(d).unwrap()
                }
                1 => format!("{domain}x"),
                _ => domain[..domain.len() - 1].to_string(),
            }
        };
        let mut expected = f[1].clone();
        if !same[5] {
            flip(rng, &mut expected);
        }
        let v = env2.verify(dom2.clone());
        let res = match env2.payload_and_signing_key(dom2, &expected) {
            Ok((p, _)) => {
                if p == f[2].as_slice() {
                    "ok"
                } else {
                    "ok-wrong-payload"
                }
            }
            Err(libp2p_core::signed_envelope::ReadPayloadError::InvalidSignature) => "err:sig",
            Err(libp2p_core::signed_envelope::ReadPayloadError::UnexpectedPayloadType { .. }) => "err:type",
        };
        format!("verify={} {}", b(v), res)
    });
    match r {
        Ok(t) => out.imp(&t),
        Err(m) => out.imp(&format!("panic:{m} -")),
    }
}

/// field content: lowercase ASCII (any split of a concatenation stays valid UTF-8); empty with high
/// probability, lengths on both sides of the varint boundaries
fn gen_field(rng: &mut Rng, allow_huge: bool) -> Vec<u8> {
    let n = match rng.below(100) {
        0..=39 => 0,
        40..=51 => 1,
        52..=75 => 2 + rng.usize(5),
        76..=81 => 127,
        82..=87 => 128,
        88..=89 if allow_huge => 16383,
        90..=91 if allow_huge => 16384,
        _ => 7 + rng.usize(34),
    };
    (0..n).map(|_| b'a' + rng.below(26) as u8).collect()
}

fn op_sigpayload(out: &mut Out, d: &[u8], t: &[u8], p: &[u8]) {
    out.op(&format!("sigpayload {} {} {}", hcore::hex(d), hcore::hex(t), hcore::hex(p)));
    let r = hcore::guarded(|| {
        libp2p_core::signed_envelope::verif_c21::verif_signature_payload(String::from_utf8(d.to_vec()).expect("utf8"), t, p)
    });
    match r {
        Ok(bytes) => out.imp(&hcore::hex(&bytes)),
        Err(m) => out.imp(&format!("panic:{m}")),
    }
}

/// envelope bytes with every field written (`full`) or empty fields omitted as prost does (`omit`)
fn encode_envelope(f: &[Vec<u8>; 4], omit_empty: bool) -> Vec<u8> {
    let mut v = vec![];
    for (tag, data) in [(1u8, &f[0]), (2, &f[1]), (3, &f[2]), (5, &f[3])] {
        if !(omit_empty && data.is_empty()) {
            v.extend(field(tag, data));
        }
    }
    v
}

#[allow(clippy::too_many_arguments)]
fn op_resplit(out: &mut Out, key_seed: u64, kty: u32, orig: [&[u8]; 3], pres: [&[u8]; 3], omit: bool) {
    out.op(&format!(
        "resplit {} {} {} {} {} {} {} {}",
        kty,
        hcore::hex(orig[0]),
        hcore::hex(orig[1]),
        hcore::hex(orig[2]),
        hcore::hex(pres[0]),
        hcore::hex(pres[1]),
        hcore::hex(pres[2]),
        if omit { "omit" } else { "full" }
    ));
    let r = hcore::guarded(|| {
        let kp = keypair(&mut Rng::new(key_seed), kty);
        let env = SignedEnvelope::new(&kp, String::from_utf8(orig[0].to_vec()).expect("utf8"), orig[1].to_vec(), orig[2].to_vec())
            .expect("sign");
        let mut f = split_envelope(&env.into_protobuf_encoding());
        f[1] = pres[1].to_vec();
        f[2] = pres[2].to_vec();
        let env2 = SignedEnvelope::from_protobuf_encoding(&encode_envelope(&f, omit)).expect("re-decode");
        let dom2 = String::from_utf8(pres[0].to_vec()).expect("utf8");
        let v = env2.verify(dom2.clone());
        let res = match env2.payload_and_signing_key(dom2, pres[1]) {
            Ok((p, _)) => {
                if p == pres[2] {
                    "ok"
                } else {
                    "ok-wrong-payload"
                }
            }
            Err(libp2p_core::signed_envelope::ReadPayloadError::InvalidSignature) => "err:sig",
            Err(libp2p_core::signed_envelope::ReadPayloadError::UnexpectedPayloadType { .. }) => "err:type",
        };
        format!("verify={} {}", b(v), res)
    });
    match r {
        Ok(t) => out.imp(&t),
        Err(m) => out.imp(&format!("panic:{m} -")),
    }
}

/// every way to cut `x` into three consecutive (possibly empty) pieces
fn splits(x: &[u8]) -> Vec<[Vec<u8>; 3]> {
    let mut v = vec![];
    for i in 0..=x.len() {
        for j in i..=x.len() {
            v.push([x[..i].to_vec(), x[i..j].to_vec(), x[j..].to_vec()]);
        }
    }
    v
}

// ---------------------------------------------------------------- structure-aware signature mutations

/// secp256k1 group order
const N_K256: &str = "fffffffffffffffffffffffffffffffebaaedce6af48a03bbfd25e8cd0364141";
/// NIST P-256 group order
const N_P256: &str = "ffffffff00000000ffffffffffffffffbce6faada7179e84f3b9cac2fc632551";
/// ed25519 group order L, little endian
const L_ED25519: &str = "edd3f55c1a631258d69cf7a2def9de1400000000000000000000000000000010";

fn strip0(a: &[u8]) -> Vec<u8> {
    let i = a.iter().take_while(|x| **x == 0).count();
    a[i..].to_vec()
}

/// big-endian a + b
fn be_add(a: &[u8], b: &[u8]) -> Vec<u8> {
    let n = a.len().max(b.len()) + 1;
    let mut out = vec![0u8; n];
    let mut carry = 0u16;
    for i in 0..n {
        let x = if i < a.len() { a[a.len() - 1 - i] as u16 } else { 0 };
        let y = if i < b.len() { b[b.len() - 1 - i] as u16 } else { 0 };
        let t = x + y + carry;
        out[n - 1 - i] = t as u8;
        carry = t >> 8;
    }
    strip0(&out)
}

/// big-endian a - b (a >= b)
fn be_sub(a: &[u8], b: &[u8]) -> Vec<u8> {
    let n = a.len();
    let mut out = vec![0u8; n];
    let mut borrow = 0i16;
    for i in 0..n {
        let x = a[n - 1 - i] as i16;
        let y = if i < b.len() { b[b.len() - 1 - i] as i16 } else { 0 };
        let mut t = x - y - borrow;
        borrow = 0;
        if t < 0 {
            t += 256;
            borrow = 1;
        }
        out[n - 1 - i] = t as u8;
    }
    strip0(&out)
}

fn der_len_bytes(n: usize) -> Vec<u8> {
    if n < 128 {
        vec![n as u8]
    } else if n < 256 {
        vec![0x81, n as u8]
    } else {
        vec![0x82, (n >> 8) as u8, n as u8]
    }
}

/// strict DER INTEGER of a non-negative big-endian magnitude
fn der_int(mag: &[u8]) -> Vec<u8> {
    let mut m = strip0(mag);
    if m.is_empty() {
        m.push(0);
    }
    if m[0] & 0x80 != 0 {
        m.insert(0, 0);
    }
    let mut v = vec![0x02];
    v.extend(der_len_bytes(m.len()));
    v.extend(m);
    v
}

fn der_seq(items: &[Vec<u8>]) -> Vec<u8> {
    let body: Vec<u8> = items.concat();
    let mut v = vec![0x30];
    v.extend(der_len_bytes(body.len()));
    v.extend(body);
    v
}

/// (tag, content, rest) of the first TLV
fn tlv(b: &[u8]) -> (u8, &[u8], &[u8]) {
    let (len, hdr) = match b[1] {
        l if l < 128 => (l as usize, 2),
        0x81 => (b[2] as usize, 3),
        _ => (((b[2] as usize) << 8) | b[3] as usize, 4),
    };
    (b[0], &b[hdr..hdr + len], &b[hdr + len..])
}

/// the two INTEGER magnitudes of `SEQUENCE { INTEGER, INTEGER }`
fn two_ints(der: &[u8]) -> (Vec<u8>, Vec<u8>) {
    let (_, body, _) = tlv(der);
    let (_, a, rest) = tlv(body);
    let (_, b2, _) = tlv(rest);
    (strip0(a), strip0(b2))
}

const ECDSA_VARIANTS: [&str; 17] = [
    "reencode", "high_s", "s_plus_n", "r_plus_n", "s_plus_2n", "s_leading_zero", "r_leading_zero", "s_no_pad",
    "trailing_byte", "trailing_in_seq", "seq_long_form", "int_long_form", "zero_s", "zero_r", "s_equals_n", "swap_r_s", "indefinite",
];
const ED_VARIANTS: [&str; 14] = [
    "reencode", "s_plus_l", "s_plus_2l", "s_top_bit", "r_sign_flip", "r_small_0", "r_small_1", "r_small_2", "r_small_3",
    "r_small_4", "r_small_5", "r_small_6", "r_small_7", "trailing_byte",
];
const RSA_VARIANTS: [&str; 6] = ["reencode", "s_plus_n", "leading_zero", "trailing_byte", "n_minus_s", "s_plus_n_wrapped"];

/// ed25519 points of small order (canonical and non-canonical encodings)
const ED_SMALL_ORDER: [&str; 8] = [
    "0100000000000000000000000000000000000000000000000000000000000000",
    "ecffffffffffffffffffffffffffffffffffffffffffffffffffffffffffff7f",
    "0000000000000000000000000000000000000000000000000000000000000080",
    "0000000000000000000000000000000000000000000000000000000000000000",
    "c7176a703d4dd84fba3c0b760d10670f2a2053fa2c39ccc64ec7fd7792ac037a",
    "c7176a703d4dd84fba3c0b760d10670f2a2053fa2c39ccc64ec7fd7792ac03fa",
    "26e8958fc2b227b045c3f489f2ef98f0d5dfac05d3c63339b13802886d53fc05",
    "26e8958fc2b227b045c3f489f2ef98f0d5dfac05d3c63339b13802886d53fc85",
];

fn variants_of(kty: u32) -> &'static [&'static str] {
    match kty {
        0 => &RSA_VARIANTS,
        1 => &ED_VARIANTS,
        _ => &ECDSA_VARIANTS,
    }
}

/// the mutated signature, or None when the variant does not apply to this signature
fn mutate_sig(kty: u32, variant: &str, sig: &[u8], rsa_modulus: &[u8]) -> Option<Vec<u8>> {
    match kty {
        2 | 3 => {
            let n = hcore::unhex(if kty == 2 { N_K256 } else { N_P256 });
            let (r, s_) = two_ints(sig);
            let strict = |r: &[u8], s_: &[u8]| der_seq(&[der_int(r), der_int(s_)]);
            let raw_int = |content: Vec<u8>| {
                let mut v = vec![0x02];
                v.extend(der_len_bytes(content.len()));
                v.extend(content);
                v
            };
            Some(match variant {
                "reencode" => strict(&r, &s_),
                "high_s" => strict(&r, &be_sub(&n, &s_)),
                "s_plus_n" => strict(&r, &be_add(&s_, &n)),
                "s_plus_2n" => strict(&r, &be_add(&be_add(&s_, &n), &n)),
                "r_plus_n" => strict(&be_add(&r, &n), &s_),
                "s_leading_zero" => {
                    let mut c = tlv(&der_int(&s_)).1.to_vec();
                    c.insert(0, 0);
                    der_seq(&[der_int(&r), raw_int(c)])
                }
                "r_leading_zero" => {
                    let mut c = tlv(&der_int(&r)).1.to_vec();
                    c.insert(0, 0);
                    der_seq(&[raw_int(c), der_int(&s_)])
                }
                "s_no_pad" => {
                    if s_[0] & 0x80 == 0 {
                        return None;
                    }
                    der_seq(&[der_int(&r), raw_int(s_.clone())])
                }
                "trailing_byte" => [strict(&r, &s_), vec![0]].concat(),
                "trailing_in_seq" => der_seq(&[der_int(&r), der_int(&s_), vec![0]]),
                "seq_long_form" => {
                    let body = [der_int(&r), der_int(&s_)].concat();
                    let mut v = vec![0x30, 0x81, body.len() as u8];
                    v.extend(body);
                    v
                }
                "int_long_form" => {
                    let c = tlv(&der_int(&s_)).1.to_vec();
                    let mut i = vec![0x02, 0x81, c.len() as u8];
                    i.extend(c);
                    der_seq(&[der_int(&r), i])
                }
                "zero_s" => strict(&r, &[0]),
                "zero_r" => strict(&[0], &s_),
                "s_equals_n" => strict(&r, &n),
                "swap_r_s" => strict(&s_, &r),
                _ => {
                    let body = [der_int(&r), der_int(&s_)].concat();
                    let mut v = vec![0x30, 0x80];
                    v.extend(body);
                    v.extend([0, 0]);
                    v
                }
            })
        }
        1 => {
            let (r, s_) = (sig[..32].to_vec(), sig[32..].to_vec());
            let l_be: Vec<u8> = hcore::unhex(L_ED25519).into_iter().rev().collect();
            let s_be: Vec<u8> = s_.iter().rev().cloned().collect();
            let le32 = |be: Vec<u8>| -> Option<Vec<u8>> {
                let be = strip0(&be);
                if be.len() > 32 {
                    return None;
                }
                let mut v: Vec<u8> = be.into_iter().rev().collect();
                v.resize(32, 0);
                Some(v)
            };
            Some(match variant {
                "reencode" => sig.to_vec(),
                "s_plus_l" => [r, le32(be_add(&s_be, &l_be))?].concat(),
                "s_plus_2l" => [r, le32(be_add(&be_add(&s_be, &l_be), &l_be))?].concat(),
                "s_top_bit" => {
                    let mut s2 = s_.clone();
                    s2[31] |= 0x80;
                    [r, s2].concat()
                }
                "r_sign_flip" => {
                    let mut r2 = r.clone();
                    r2[31] ^= 0x80;
                    [r2, s_].concat()
                }
                "trailing_byte" => [sig.to_vec(), vec![0]].concat(),
                v => {
                    let i: usize = v.strip_prefix("r_small_")?.parse().ok()?;
                    [hcore::unhex(ED_SMALL_ORDER[i]), s_].concat()
                }
            })
        }
        _ => {
            let k = sig.len();
            let fit = |v: Vec<u8>| -> Vec<u8> {
                // left-pad to the modulus length when it fits, otherwise keep the longer form
                let v = strip0(&v);
                if v.len() <= k {
                    [vec![0u8; k - v.len()], v].concat()
                } else {
                    v
                }
            };
            Some(match variant {
                "reencode" => sig.to_vec(),
                "s_plus_n" => fit(be_add(sig, rsa_modulus)),
                "leading_zero" => [vec![0u8], sig.to_vec()].concat(),
                "trailing_byte" => [sig.to_vec(), vec![0u8]].concat(),
                "n_minus_s" => fit(be_sub(rsa_modulus, &strip0(sig))),
                _ => {
                    // s + N truncated to the modulus length (what a fixed-width reader would see)
                    let v = be_add(sig, rsa_modulus);
                    if v.len() <= k {
                        return None;
                    }
                    v[v.len() - k..].to_vec()
                }
            })
        }
    }
}

fn scheme_name(kty: u32) -> &'static str {
    ["rsa", "ed25519", "secp256k1", "ecdsa"][kty as usize]
}

/// one structure-aware signature mutation, through `PublicKey::verify`, a `SignedEnvelope` and a `PeerRecord`
fn op_sigstruct(out: &mut Out, key_seed: u64, kty: u32, variant: &str) {
    let r = hcore::guarded(|| {
        let mut rng = Rng::new(key_seed);
        let kp = keypair(&mut rng, kty);
        let me = kp.public().to_peer_id();
        let addrs: Vec<Vec<u8>> = sample_addrs(&mut rng).iter().map(|a| a.to_vec()).collect();
        let payload = record_payload(&me.to_bytes(), 1 + rng.below(1 << 40), &addrs);
        let (dom, pty) = DOMAINS[1];
        let env = SignedEnvelope::new(&kp, dom.to_string(), pty.to_vec(), payload.clone()).expect("sign");
        let mut f = split_envelope(&env.into_protobuf_encoding());
        let sig = f[3].clone();
        let msg = libp2p_core::signed_envelope::verif_c21::verif_signature_payload(dom.to_string(), pty, &payload);
        assert!(kp.public().verify(&msg, &sig), "generator: own signature must verify");
        let modulus = if kty == 0 {
            let pk = kp.public().try_into_rsa().unwrap().encode_pkcs1();
            two_ints(&pk).0
        } else {
            vec![]
        };
        let mutated = mutate_sig(kty, variant, &sig, &modulus)?;
        let changed = mutated != sig;
        let v = kp.public().verify(&msg, &mutated);
        f[3] = mutated;
        let (e, rec) = match SignedEnvelope::from_protobuf_encoding(&join_envelope(&f)) {
            Err(_) => ("err:decode", "err:decode"),
            Ok(env2) => {
                let e = match env2.payload_and_signing_key(dom.to_string(), pty) {
                    Ok(_) => "ok",
                    Err(libp2p_core::signed_envelope::ReadPayloadError::InvalidSignature) => "err:sig",
                    Err(libp2p_core::signed_envelope::ReadPayloadError::UnexpectedPayloadType { .. }) => "err:type",
                };
                (e, rec_verdict(PeerRecord::from_signed_envelope_interop(env2)))
            }
        };
        Some((changed, format!("verify={} env={} rec={}", b(v), e, rec)))
    });
    match r {
        Ok(None) => {}
        Ok(Some((changed, t))) => {
            out.op(&format!("sigstruct {} {} {}", scheme_name(kty), variant, b(changed)));
            out.imp(&t);
        }
        Err(m) => {
            out.op(&format!("sigstruct {} {} 1", scheme_name(kty), variant));
            out.imp(&format!("panic:{m} - -"));
        }
    }
}

fn rec_verdict(r: Result<PeerRecord, FromEnvelopeError>) -> &'static str {
    match r {
        Ok(_) => "ok",
        Err(FromEnvelopeError::BadPayload(_)) => "err:payload",
        Err(FromEnvelopeError::InvalidPeerRecord(_)) => "err:record",
        Err(FromEnvelopeError::InvalidPeerId(_)) => "err:peerid",
        Err(FromEnvelopeError::MismatchedSignature) => "err:mismatch",
        Err(FromEnvelopeError::InvalidMultiaddr(_)) => "err:multiaddr",
    }
}

const DOMAINS: [(&str, &[u8]); 2] =
    [("libp2p-routing-state", b"/libp2p/routing-state-record"), ("libp2p-peer-record", &[0x03, 0x01])];

fn sample_addrs(rng: &mut Rng) -> Vec<Multiaddr> {
    let all: Vec<Multiaddr> =
        ["/ip4/1.2.3.4/tcp/4001", "/ip6/2a00::1/udp/9/quic-v1", "/dns4/example.com/tcp/443/wss", "/memory/7"]
            .iter()
            .map(|s| s.parse().unwrap())
            .collect();
    let n = rng.usize(4);
    (0..n).map(|_| rng.pick(&all).clone()).collect()
}

/// scenario: 0 good (library constructor), 1 wrong format, 2 tampered signature, 3 undecodable record,
/// 4 bad peer id bytes, 5 foreign peer id, 6 bad multiaddr, 7 good (hand-built payload)
fn op_rec(out: &mut Out, rng: &mut Rng, ty: u32, scenario: u32) {
    let facts: [bool; 5] = match scenario {
        0 | 7 => [true, true, true, true, true],
        1 | 2 => [false, true, true, true, true],
        3 => [true, false, true, true, true],
        4 => [true, true, false, true, true],
        5 => [true, true, true, false, true],
        _ => [true, true, true, true, false],
    };
    out.op(&format!("rec {}", facts.iter().map(|x| b(*x)).collect::<Vec<_>>().join(" ")));
    let r = hcore::guarded(|| {
        let kp = keypair(rng, ty);
        let other = keypair(rng, 1);
        let interop = rng.bool();
        let (dom, pty) = DOMAINS[interop as usize];
        let addrs = sample_addrs(rng);
        let parse = |env: SignedEnvelope, interop: bool| {
            if interop {
                PeerRecord::from_signed_envelope_interop(env)
            } else {
                PeerRecord::from_signed_envelope(env)
            }
        };
        let me = kp.public().to_peer_id();
        let addr_bytes: Vec<Vec<u8>> = addrs.iter().map(|a| a.to_vec()).collect();
        let mk = |payload: Vec<u8>| SignedEnvelope::new(&kp, dom.to_string(), pty.to_vec(), payload).expect("sign");
        match scenario {
            0 => {
                let rec = if interop { PeerRecord::new_interop(&kp, addrs.clone()) } else { PeerRecord::new(&kp, addrs.clone()) }
                    .expect("record");
                let env = rec.to_signed_envelope();
                // through the wire encoding as well
                let env = SignedEnvelope::from_protobuf_encoding(&env.into_protobuf_encoding()).expect("decode");
                match parse(env, interop) {
                    Ok(r2) if r2.peer_id() == me && r2.addresses() == addrs.as_slice() && r2.seq() == rec.seq() => "ok",
                    Ok(_) => "ok-but-different",
                    Err(e) => rec_verdict(Err(e)),
                }
            }
            1 => {
                let rec = if interop { PeerRecord::new_interop(&kp, addrs) } else { PeerRecord::new(&kp, addrs) }.expect("record");
                rec_verdict(parse(rec.into_signed_envelope(), !interop))
            }
            2 => {
                let env = mk(record_payload(&me.to_bytes(), 7, &addr_bytes));
                let mut f = split_envelope(&env.into_protobuf_encoding());
                flip(rng, &mut f[3]);
                let env = SignedEnvelope::from_protobuf_encoding(&join_envelope(&f)).expect("decode");
                rec_verdict(parse(env, interop))
            }
            3 => rec_verdict(parse(mk(vec![0x0a, 0x7f, 0x01]), interop)),
            4 => rec_verdict(parse(mk(record_payload(&[0x13, 0x02, 0x01, 0x02], 7, &addr_bytes)), interop)),
            5 => rec_verdict(parse(mk(record_payload(&other.public().to_peer_id().to_bytes(), 7, &addr_bytes)), interop)),
            6 => {
                let mut bad = addr_bytes.clone();
                bad.push(vec![0x04, 0x01]); // ip4 with a truncated address
                rec_verdict(parse(mk(record_payload(&me.to_bytes(), 7, &bad)), interop))
            }
            _ => match parse(mk(record_payload(&me.to_bytes(), 7, &addr_bytes)), interop) {
                Ok(r2) if r2.peer_id() == me && r2.addresses() == addrs.as_slice() && r2.seq() == 7 => "ok",
                Ok(_) => "ok-but-different",
                Err(e) => rec_verdict(Err(e)),
            },
        }
    });
    match r {
        Ok(t) => out.imp(t),
        Err(m) => out.imp(&format!("panic:{m}")),
    }
}

/// deterministic encoded peer-record envelope for `mutate` (fixed key seed, seq, addresses)
fn base_envelope(ty: u32) -> (Vec<u8>, PeerId, Vec<Multiaddr>) {
    let mut rng = Rng::new(0xC21 + ty as u64);
    let kp = keypair(&mut rng, ty);
    let addrs: Vec<Multiaddr> = vec!["/ip4/1.2.3.4/tcp/4001".parse().unwrap(), "/dns4/example.com/tcp/443/wss".parse().unwrap()];
    let me = kp.public().to_peer_id();
    let payload = record_payload(&me.to_bytes(), 1_700_000_000, &addrs.iter().map(|a| a.to_vec()).collect::<Vec<_>>());
    let env = SignedEnvelope::new(&kp, DOMAINS[1].0.to_string(), DOMAINS[1].1.to_vec(), payload).expect("sign");
    (env.into_protobuf_encoding(), me, addrs)
}

fn op_mutate(out: &mut Out, base: &(Vec<u8>, PeerId, Vec<Multiaddr>), ty: u32, pos: usize, xor: u8) {
    out.op(&format!("mutate {} {} {}", ty, pos, xor));
    let r = hcore::guarded(|| {
        let mut bytes = base.0.clone();
        bytes[pos] ^= xor;
        match SignedEnvelope::from_protobuf_encoding(&bytes) {
            Err(_) => "rejected:decode".to_string(),
            Ok(env) => match PeerRecord::from_signed_envelope_interop(env) {
                Err(e) => format!("rejected:{}", &rec_verdict(Err(e))[4..]),
                Ok(rec) => {
                    if rec.peer_id() == base.1 && rec.seq() == 1_700_000_000 && rec.addresses() == base.2.as_slice() {
                        "accepted:same".to_string()
                    } else {
                        "accepted:DIFFERENT".to_string()
                    }
                }
            },
        }
    });
    match r {
        Ok(t) => out.imp(&t),
        Err(m) => out.imp(&format!("panic:{m}")),
    }
}

pub fn run(args: &Args, out: &mut Out) {
    let bases: Vec<(Vec<u8>, PeerId, Vec<Multiaddr>)> = (0..4).map(base_envelope).collect();
    if let Some(cases) = args.replay_cases() {
        for (i, (hdr, ops)) in cases.iter().enumerate() {
            out.case(i as u64, "replay nt=1");
            // the generator's rng stream of the original case: `seed=<n>` in the case header
            let seed: u64 = hdr.iter().find_map(|t| t.strip_prefix("rng=")).and_then(|s| s.parse().ok()).unwrap_or(0);
            let kty: u32 = hdr.iter().find_map(|t| t.strip_prefix("kty=")).and_then(|s| s.parse().ok()).unwrap_or(1);
            for op in ops {
                let mut rng = Rng::new(seed);
                let flag = |i: usize| op[i] == "1";
                match op[0].as_str() {
                    "sigver" => op_sigver(out, &mut rng, op[1].parse().unwrap(), flag(2), flag(3)),
                    "env" => op_env(out, &mut rng, kty, [flag(1), flag(2), flag(3), flag(4), flag(5), flag(6)]),
                    "rec" => {
                        let sc: u32 = hdr.iter().find_map(|t| t.strip_prefix("sc=")).and_then(|s| s.parse().ok()).unwrap_or(0);
                        op_rec(out, &mut rng, kty, sc)
                    }
                    "sigstruct" => {
                        let kty = ["rsa", "ed25519", "secp256k1", "ecdsa"].iter().position(|x| *x == op[1]).unwrap() as u32;
                        op_sigstruct(out, seed, kty, &op[2])
                    }
                    "sigpayload" => op_sigpayload(out, &hcore::unhex(&op[1]), &hcore::unhex(&op[2]), &hcore::unhex(&op[3])),
                    "resplit" => {
                        let u = |i: usize| hcore::unhex(&op[i]);
                        let (o, q) = ([u(2), u(3), u(4)], [u(5), u(6), u(7)]);
                        op_resplit(out, seed, op[1].parse().unwrap(), [&o[0], &o[1], &o[2]], [&q[0], &q[1], &q[2]], op[8] == "omit")
                    }
                    "mutate" => {
                        let ty: u32 = op[1].parse().unwrap();
                        op_mutate(out, &bases[ty as usize], ty, op[2].parse().unwrap(), op[3].parse().unwrap())
                    }
                    other => panic!("replay: unknown op {other}"),
                }
            }
            out.end();
        }
        return;
    }
    let mut idx = 0u64;
    // 1. sign / verify with message and signature mutations, every key type (one op per case so
    //    that a case replays from its own rng seed)
    let n = args.n(400, 20_000);
    for i in 0..n {
        let seed = args.seed.wrapping_mul(1_000_003).wrapping_add(i);
        let ty = (i % 4) as u32;
        let (mm, sm) = match (i / 4) % 4 {
            0 => (false, false),
            1 => (true, false),
            2 => (false, true),
            _ => (true, true),
        };
        out.case(idx, &format!("sigver nt=1 rng={seed} kty={ty}"));
        op_sigver(out, &mut Rng::new(seed), ty, mm, sm);
        out.end();
        idx += 1;
    }
    // 2. envelopes: every combination of the six "unchanged" flags, every key type
    let reps = args.n(2, 40);
    for rep in 0..reps {
        for ty in 0..4u32 {
            for mask in 0..64u32 {
                let same = [mask & 1 == 0, mask & 2 == 0, mask & 4 == 0, mask & 8 == 0, mask & 16 == 0, mask & 32 == 0];
                let seed = args.seed.wrapping_mul(7_000_003).wrapping_add((rep * 1000 + ty as u64 * 64 + mask as u64) as u64);
                out.case(idx, &format!("env nt=1 rng={seed} kty={ty}"));
                op_env(out, &mut Rng::new(seed), ty, same);
                out.end();
                idx += 1;
            }
        }
    }
    // 3. peer records: every scenario, every key type, both formats (format chosen by the rng)
    let reps = args.n(6, 100);
    for rep in 0..reps {
        for ty in 0..4u32 {
            for sc in 0..8u32 {
                let seed = args.seed.wrapping_mul(9_000_011).wrapping_add(rep * 100 + ty as u64 * 8 + sc as u64);
                out.case(idx, &format!("rec nt=1 rng={seed} kty={ty} sc={sc}"));
                op_rec(out, &mut Rng::new(seed), ty, sc);
                out.end();
                idx += 1;
            }
        }
    }
    // 5. the signed bytes themselves (hook) for every combination of boundary lengths, empty fields first
    {
        let small = [0usize, 1, 127, 128];
        let big = [16383usize, 16384];
        let mut combos: Vec<[usize; 3]> = vec![];
        for a in small {
            for b2 in small {
                for c in small {
                    combos.push([a, b2, c]);
                }
            }
        }
        for pos in 0..3 {
            for g in big {
                for a in small {
                    for b2 in small {
                        let mut v = vec![a, b2];
                        v.insert(pos, g);
                        let l = [v[0], v[1], v[2]];
                        combos.push(l);
                    }
                }
            }
        }
        if args.thorough && args.count == 0 {
            for a in big {
                for b2 in big {
                    for c in [0usize, 1, 16383, 16384] {
                        combos.push([a, b2, c]);
                        combos.push([c, a, b2]);
                        combos.push([a, c, b2]);
                    }
                }
            }
        }
        for (k, l) in combos.iter().enumerate() {
            let mut rng = Rng::for_case(args.seed, 7_000_000 + k as u64);
            let mk = |rng: &mut Rng, n: usize| -> Vec<u8> { (0..n).map(|_| b'a' + rng.below(26) as u8).collect() };
            let (d, t, p) = (mk(&mut rng, l[0]), mk(&mut rng, l[1]), mk(&mut rng, l[2]));
            out.case(idx, "sigpayload nt=1");
            op_sigpayload(out, &d, &t, &p);
            out.end();
            idx += 1;
        }
        let n = args.n(300, 20_000);
        for i in 0..n {
            let mut rng = Rng::for_case(args.seed, 7_100_000 + i);
            let (d, t, p) = (gen_field(&mut rng, true), gen_field(&mut rng, true), gen_field(&mut rng, true));
            out.case(idx, "sigpayloadrnd nt=1");
            op_sigpayload(out, &d, &t, &p);
            out.end();
            idx += 1;
        }
    }
    // 6. re-split attacks: exhaustively, every signed split of a short string presented as every
    //    other split of the same string (same key, same signature), both envelope encodings
    {
        let strings: Vec<Vec<u8>> = vec![
            b"".to_vec(),
            b"a".to_vec(),
            b"ab".to_vec(),
            b"abc".to_vec(),
            b"aaaa".to_vec(),
            vec![0x01, b'a', 0x01, b'b'], // content that looks like length prefixes
            vec![0x00, 0x00, 0x01],
            b"abcde".to_vec(),
        ];
        for (si, x) in strings.iter().enumerate() {
            let all = splits(x);
            for kty in 0..4u32 {
                // RSA and the 5-byte string only in the thorough tier (21 x 21 presentations)
                if !(args.thorough && args.count == 0) && (x.len() >= 5 || (kty == 0 && x.len() >= 4)) {
                    continue;
                }
                for (oi, o) in all.iter().enumerate() {
                    let seed = args.seed.wrapping_mul(11_000_027).wrapping_add((si * 1000 + oi) as u64 * 4 + kty as u64);
                    out.case(idx, &format!("resplit nt=1 rng={seed} kty={kty}"));
                    for q in &all {
                        let omit = (oi + q[1].len() + kty as usize) % 2 == 0;
                        op_resplit(out, seed, kty, [&o[0], &o[1], &o[2]], [&q[0], &q[1], &q[2]], omit);
                        if q[1].is_empty() || q[2].is_empty() {
                            op_resplit(out, seed, kty, [&o[0], &o[1], &o[2]], [&q[0], &q[1], &q[2]], !omit);
                        }
                    }
                    out.end();
                    idx += 1;
                }
            }
        }
        // longer fields at the varint boundaries: move one boundary by one byte or all the way
        let n = args.n(150, 5_000);
        for i in 0..n {
            let mut rng = Rng::for_case(args.seed, 7_200_000 + i);
            let kty = (i % 4) as u32;
            let o = [gen_field(&mut rng, i % 10 == 0), gen_field(&mut rng, i % 10 == 0), gen_field(&mut rng, i % 10 == 0)];
            let x: Vec<u8> = o.concat();
            let (b1, b2) = (o[0].len(), o[0].len() + o[1].len());
            let mut cands: Vec<(usize, usize)> = vec![(b1, b2)];
            for (i2, j2) in [
                (b1.wrapping_sub(1), b2), (b1 + 1, b2), (b1, b2.wrapping_sub(1)), (b1, b2 + 1),
                (0, b2), (b2, b2), (b1, b1), (b1, x.len()), (0, 0), (x.len(), x.len()), (0, x.len()), (b2, x.len()), (0, b1),
            ] {
                if i2 <= j2 && j2 <= x.len() {
                    cands.push((i2, j2));
                }
            }
            let seed = args.seed.wrapping_mul(13_000_027).wrapping_add(i);
            out.case(idx, &format!("resplitrnd nt=1 rng={seed} kty={kty}"));
            for (i2, j2) in cands {
                let q = [x[..i2].to_vec(), x[i2..j2].to_vec(), x[j2..].to_vec()];
                op_resplit(out, seed, kty, [&o[0], &o[1], &o[2]], [&q[0], &q[1], &q[2]], rng.bool());
            }
            out.end();
            idx += 1;
        }
    }
    // 7. structure-aware signature mutations: every variant, every key type, many keys/messages
    {
        let reps = args.n(12, 400);
        for rep in 0..reps {
            for kty in 0..4u32 {
                if kty == 0 && rep % 4 != 0 {
                    continue; // one RSA fixture key: fewer repetitions
                }
                let seed = args.seed.wrapping_mul(17_000_023).wrapping_add(rep * 4 + kty as u64);
                out.case(idx, &format!("sigstruct{kty} nt=1 rng={seed} kty={kty}"));
                for v in variants_of(kty) {
                    op_sigstruct(out, seed, kty, v);
                }
                out.end();
                idx += 1;
            }
        }
    }
    // 4. single-byte mutations of an encoded peer-record envelope: every position; thorough: every
    //    xor value for ed25519/secp256k1/ecdsa and 16 per position for RSA; quick: 4 per position
    for ty in 0..4u32 {
        let base = &bases[ty as usize];
        for pos in 0..base.0.len() {
            let mut rng = Rng::for_case(args.seed, 5_000_000 + (ty as u64) * 100_000 + pos as u64);
            let xors: Vec<u8> = if args.thorough && args.count == 0 {
                if ty == 0 {
                    let mut v = vec![0x01u8, 0x80, 0xff];
                    v.extend((0..13).map(|_| rng.range(1, 255) as u8));
                    v
                } else {
                    (1..=255u8).collect()
                }
            } else {
                vec![0x01, 0x80, 0xff, rng.range(1, 255) as u8]
            };
            out.case(idx, &format!("mutate{} nt=1", ty));
            for x in xors {
                op_mutate(out, base, ty, pos, x);
            }
            out.end();
            idx += 1;
        }
    }
}
