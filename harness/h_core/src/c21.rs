//! C21 — signatures, `SignedEnvelope`, `PeerRecord` through the public API.
//!
//! ops:  `sigver <ty> <msg mutated> <sig mutated>`                      Keypair::sign / PublicKey::verify
//!       `env <dom> <ty> <pay> <sig> <key> <expty>` (1 = unchanged)     verify + payload_and_signing_key
//!       `rec <envok> <recdec> <pidparse> <pidsigner> <addrs>`           PeerRecord::from_signed_envelope(_interop)
//!       `mutate <keyty> <pos> <xor>`                                    one byte of an encoded envelope changed
//!       `sigpayload <d> <t> <p>`                                        the exact signed bytes (cfg(libp2p_verif) hook)
//!       `resplit <keyty> <d> <t> <p> <d'> <t'> <p'> <full|omit>`        envelope signed for (d,t,p) presented as (d',t',p')
//!                                                                       with the same key and signature
use hcore::{Args, Multiaddr, Out, Rng};
use libp2p_core::{peer_record::FromEnvelopeError, PeerRecord, SignedEnvelope};
use libp2p_identity::{ecdsa, secp256k1, Keypair, PeerId};

const RSA_FIXTURE: &[u8] = include_bytes!("/repo/identity/src/test/rsa-2048.pk8");

fn keypair(rng: &mut Rng, ty: u32) -> Keypair {
    match ty {
        0 => {
            let mut der = RSA_FIXTURE.to_vec();
            Keypair::rsa_from_pkcs8(&mut der).expect("fixture")
        }
        1 => Keypair::ed25519_from_bytes(rng.bytes(32)).expect("ed25519 secret"),
        2 => loop {
            if let Ok(sk) = secp256k1::SecretKey::try_from_bytes(rng.bytes(32)) {
                break secp256k1::Keypair::from(sk).into();
            }
        },
        _ => loop {
            if let Ok(sk) = ecdsa::SecretKey::try_from_bytes(rng.bytes(32)) {
                break ecdsa::Keypair::from(sk).into();
            }
        },
    }
}

fn varint(mut n: u64) -> Vec<u8> {
    let mut v = vec![];
    loop {
        let b = (n & 0x7f) as u8;
        n >>= 7;
        if n == 0 {
            v.push(b);
            return v;
        }
        v.push(b | 0x80);
    }
}

fn field(tag: u8, data: &[u8]) -> Vec<u8> {
    let mut v = vec![tag << 3 | 2];
    v.extend(varint(data.len() as u64));
    v.extend_from_slice(data);
    v
}

/// the four byte fields (1, 2, 3, 5) of an encoded envelope produced by `into_protobuf_encoding`
fn split_envelope(enc: &[u8]) -> [Vec<u8>; 4] {
    let mut out: [Vec<u8>; 4] = Default::default();
    let mut i = 0;
    while i < enc.len() {
        let tag = enc[i] >> 3;
        i += 1;
        let mut len = 0usize;
        let mut shift = 0;
        loop {
            let b = enc[i];
            i += 1;
            len |= ((b & 0x7f) as usize) << shift;
            shift += 7;
            if b & 0x80 == 0 {
                break;
            }
        }
        let slot = match tag {
            1 => 0,
            2 => 1,
            3 => 2,
            _ => 3,
        };
        out[slot] = enc[i..i + len].to_vec();
        i += len;
    }
    out
}

fn join_envelope(f: &[Vec<u8>; 4]) -> Vec<u8> {
    let mut v = field(1, &f[0]);
    v.extend(field(2, &f[1]));
    v.extend(field(3, &f[2]));
    v.extend(field(5, &f[3]));
    v
}

fn record_payload(peer_id: &[u8], seq: u64, addrs: &[Vec<u8>]) -> Vec<u8> {
    let mut v = field(1, peer_id);
    v.push(2 << 3);
    v.extend(varint(seq));
    for a in addrs {
        v.extend(field(3, &field(1, a)));
    }
    v
}

fn b(x: bool) -> &'static str {
    if x {
        "1"
    } else {
        "0"
    }
}

// ---------------------------------------------------------------- ops

fn op_sigver(out: &mut Out, rng: &mut Rng, ty: u32, mm: bool, sm: bool) {
    out.op(&format!("sigver {} {} {}", ty, b(mm), b(sm)));
    let r = hcore::guarded(|| {
        let kp = keypair(rng, ty);
        let n = 1 + rng.usize(64);
        let mut msg = rng.bytes(n);
        let mut sig = kp.sign(&msg).expect("sign");
        if mm {
            match rng.below(3) {
                0 => msg.push(0),
                1 => {
                    msg.pop();
                }
                _ => {
                    let i = rng.usize(msg.len());
                    msg[i] ^= 1 << rng.below(8)
                }
            }
        }
        if sm {
            match rng.below(4) {
                0 => sig.push(0),
                1 => {
                    sig.pop();
                }
                _ => {
                    let i = rng.usize(sig.len());
                    sig[i] ^= 1 << rng.below(8)
                }
            }
        }
        kp.public().verify(&msg, &sig)
    });
    match r {
        Ok(v) => out.imp(&format!("verify={}", b(v))),
        Err(m) => out.imp(&format!("panic:{m}")),
    }
}

fn flip(rng: &mut Rng, v: &mut Vec<u8>) {
    if v.is_empty() {
        v.push(1);
    } else {
        let i = rng.usize(v.len());
        v[i] ^= 1 << rng.below(8);
    }
}

fn op_env(out: &mut Out, rng: &mut Rng, ty: u32, same: [bool; 6]) {
    out.op(&format!("env {}", same.iter().map(|x| b(*x)).collect::<Vec<_>>().join(" ")));
    let r = hcore::guarded(|| {
        let kp = keypair(rng, ty);
        let other = keypair(rng, 1);
        let domain = String::from_utf8(gen_field(rng, false)).unwrap();
        let ptype = gen_field(rng, false);
        let payload = gen_field(rng, false);
        let env = SignedEnvelope::new(&kp, domain.clone(), ptype.clone(), payload).expect("sign");
        let mut f = split_envelope(&env.into_protobuf_encoding());
        if !same[1] {
            flip(rng, &mut f[1]);
        }
        if !same[2] {
            flip(rng, &mut f[2]);
        }
        if !same[3] {
            flip(rng, &mut f[3]);
        }
        if !same[4] {
            f[0] = other.public().encode_protobuf();
        }
        let env2 = SignedEnvelope::from_protobuf_encoding(&join_envelope(&f)).expect("re-decode");
        // a wrong domain of the same length (last byte changed), a longer one, or a shorter one
        let dom2 = if same[0] {
            domain
        } else if domain.is_empty() {
            "x".to_string()
        } else {
            match rng.below(3) {
                0 => {
                    let mut d = domain.clone().into_bytes();
                    let l = d.len() - 1;
                    d[l] = if d[l] == b'z' { b'a' } else { b'z' };
                    String::from_utf8(d).unwrap()
                }
                1 => format!("{domain}x"),
                _ => domain[..domain.len() - 1].to_string(),
            }
        };
        let mut expected = f[1].clone();
        if !same[5] {
            flip(rng, &mut expected);
        }
        let v = env2.verify(dom2.clone());
        let res = match env2.payload_and_signing_key(dom2, &expected) {
            Ok((p, _)) => {
                if p == f[2].as_slice() {
                    "ok"
                } else {
                    "ok-wrong-payload"
                }
            }
            Err(libp2p_core::signed_envelope::ReadPayloadError::InvalidSignature) => "err:sig",
            Err(libp2p_core::signed_envelope::ReadPayloadError::UnexpectedPayloadType { .. }) => "err:type",
        };
        format!("verify={} {}", b(v), res)
    });
    match r {
        Ok(t) => out.imp(&t),
        Err(m) => out.imp(&format!("panic:{m} -")),
    }
}

/// field content: lowercase ASCII (any split of a concatenation stays valid UTF-8); empty with high
/// probability, lengths on both sides of the varint boundaries
fn gen_field(rng: &mut Rng, allow_huge: bool) -> Vec<u8> {
    let n = match rng.below(100) {
        0..=39 => 0,
        40..=51 => 1,
        52..=75 => 2 + rng.usize(5),
        76..=81 => 127,
        82..=87 => 128,
        88..=89 if allow_huge => 16383,
        90..=91 if allow_huge => 16384,
        _ => 7 + rng.usize(34),
    };
    (0..n).map(|_| b'a' + rng.below(26) as u8).collect()
}

fn op_sigpayload(out: &mut Out, d: &[u8], t: &[u8], p: &[u8]) {
    out.op(&format!("sigpayload {} {} {}", hcore::hex(d), hcore::hex(t), hcore::hex(p)));
    let r = hcore::guarded(|| {
        libp2p_core::signed_envelope::verif_c21::verif_signature_payload(String::from_utf8(d.to_vec()).expect("utf8"), t, p)
    });
    match r {
        Ok(bytes) => out.imp(&hcore::hex(&bytes)),
        Err(m) => out.imp(&format!("panic:{m}")),
    }
}

/// envelope bytes with every field written (`full`) or empty fields omitted as prost does (`omit`)
fn encode_envelope(f: &[Vec<u8>; 4], omit_empty: bool) -> Vec<u8> {
    let mut v = vec![];
    for (tag, data) in [(1u8, &f[0]), (2, &f[1]), (3, &f[2]), (5, &f[3])] {
        if !(omit_empty && data.is_empty()) {
            v.extend(field(tag, data));
        }
    }
    v
}

#[allow(clippy::too_many_arguments)]
fn op_resplit(out: &mut Out, key_seed: u64, kty: u32, orig: [&[u8]; 3], pres: [&[u8]; 3], omit: bool) {
    out.op(&format!(
        "resplit {} {} {} {} {} {} {} {}",
        kty,
        hcore::hex(orig[0]),
        hcore::hex(orig[1]),
        hcore::hex(orig[2]),
        hcore::hex(pres[0]),
        hcore::hex(pres[1]),
        hcore::hex(pres[2]),
        if omit { "omit" } else { "full" }
    ));
    let r = hcore::guarded(|| {
        let kp = keypair(&mut Rng::new(key_seed), kty);
        let env = SignedEnvelope::new(&kp, String::from_utf8(orig[0].to_vec()).expect("utf8"), orig[1].to_vec(), orig[2].to_vec())
            .expect("sign");
        let mut f = split_envelope(&env.into_protobuf_encoding());
        f[1] = pres[1].to_vec();
        f[2] = pres[2].to_vec();
        let env2 = SignedEnvelope::from_protobuf_encoding(&encode_envelope(&f, omit)).expect("re-decode");
        let dom2 = String::from_utf8(pres[0].to_vec()).expect("utf8");
        let v = env2.verify(dom2.clone());
        let res = match env2.payload_and_signing_key(dom2, pres[1]) {
            Ok((p, _)) => {
                if p == pres[2] {
                    "ok"
                } else {
                    "ok-wrong-payload"
                }
            }
            Err(libp2p_core::signed_envelope::ReadPayloadError::InvalidSignature) => "err:sig",
            Err(libp2p_core::signed_envelope::ReadPayloadError::UnexpectedPayloadType { .. }) => "err:type",
        };
        format!("verify={} {}", b(v), res)
    });
    match r {
        Ok(t) => out.imp(&t),
        Err(m) => out.imp(&format!("panic:{m} -")),
    }
}

/// every way to cut `x` into three consecutive (possibly empty) pieces
fn splits(x: &[u8]) -> Vec<[Vec<u8>; 3]> {
    let mut v = vec![];
    for i in 0..=x.len() {
        for j in i..=x.len() {
            v.push([x[..i].to_vec(), x[i..j].to_vec(), x[j..].to_vec()]);
        }
    }
    v
}

fn rec_verdict(r: Result<PeerRecord, FromEnvelopeError>) -> &'static str {
    match r {
        Ok(_) => "ok",
        Err(FromEnvelopeError::BadPayload(_)) => "err:payload",
        Err(FromEnvelopeError::InvalidPeerRecord(_)) => "err:record",
        Err(FromEnvelopeError::InvalidPeerId(_)) => "err:peerid",
        Err(FromEnvelopeError::MismatchedSignature) => "err:mismatch",
        Err(FromEnvelopeError::InvalidMultiaddr(_)) => "err:multiaddr",
    }
}

const DOMAINS: [(&str, &[u8]); 2] =
    [("libp2p-routing-state", b"/libp2p/routing-state-record"), ("libp2p-peer-record", &[0x03, 0x01])];

fn sample_addrs(rng: &mut Rng) -> Vec<Multiaddr> {
    let all: Vec<Multiaddr> =
        ["/ip4/1.2.3.4/tcp/4001", "/ip6/2a00::1/udp/9/quic-v1", "/dns4/example.com/tcp/443/wss", "/memory/7"]
            .iter()
            .map(|s| s.parse().unwrap())
            .collect();
    let n = rng.usize(4);
    (0..n).map(|_| rng.pick(&all).clone()).collect()
}

/// scenario: 0 good (library constructor), 1 wrong format, 2 tampered signature, 3 undecodable record,
/// 4 bad peer id bytes, 5 foreign peer id, 6 bad multiaddr, 7 good (hand-built payload)
fn op_rec(out: &mut Out, rng: &mut Rng, ty: u32, scenario: u32) {
    let facts: [bool; 5] = match scenario {
        0 | 7 => [true, true, true, true, true],
        1 | 2 => [false, true, true, true, true],
        3 => [true, false, true, true, true],
        4 => [true, true, false, true, true],
        5 => [true, true, true, false, true],
        _ => [true, true, true, true, false],
    };
    out.op(&format!("rec {}", facts.iter().map(|x| b(*x)).collect::<Vec<_>>().join(" ")));
    let r = hcore::guarded(|| {
        let kp = keypair(rng, ty);
        let other = keypair(rng, 1);
        let interop = rng.bool();
        let (dom, pty) = DOMAINS[interop as usize];
        let addrs = sample_addrs(rng);
        let parse = |env: SignedEnvelope, interop: bool| {
            if interop {
                PeerRecord::from_signed_envelope_interop(env)
            } else {
                PeerRecord::from_signed_envelope(env)
            }
        };
        let me = kp.public().to_peer_id();
        let addr_bytes: Vec<Vec<u8>> = addrs.iter().map(|a| a.to_vec()).collect();
        let mk = |payload: Vec<u8>| SignedEnvelope::new(&kp, dom.to_string(), pty.to_vec(), payload).expect("sign");
        match scenario {
            0 => {
                let rec = if interop { PeerRecord::new_interop(&kp, addrs.clone()) } else { PeerRecord::new(&kp, addrs.clone()) }
                    .expect("record");
                let env = rec.to_signed_envelope();
                // through the wire encoding as well
                let env = SignedEnvelope::from_protobuf_encoding(&env.into_protobuf_encoding()).expect("decode");
                match parse(env, interop) {
                    Ok(r2) if r2.peer_id() == me && r2.addresses() == addrs.as_slice() && r2.seq() == rec.seq() => "ok",
                    Ok(_) => "ok-but-different",
                    Err(e) => rec_verdict(Err(e)),
                }
            }
            1 => {
                let rec = if interop { PeerRecord::new_interop(&kp, addrs) } else { PeerRecord::new(&kp, addrs) }.expect("record");
                rec_verdict(parse(rec.into_signed_envelope(), !interop))
            }
            2 => {
                let env = mk(record_payload(&me.to_bytes(), 7, &addr_bytes));
                let mut f = split_envelope(&env.into_protobuf_encoding());
                flip(rng, &mut f[3]);
                let env = SignedEnvelope::from_protobuf_encoding(&join_envelope(&f)).expect("decode");
                rec_verdict(parse(env, interop))
            }
            3 => rec_verdict(parse(mk(vec![0x0a, 0x7f, 0x01]), interop)),
            4 => rec_verdict(parse(mk(record_payload(&[0x13, 0x02, 0x01, 0x02], 7, &addr_bytes)), interop)),
            5 => rec_verdict(parse(mk(record_payload(&other.public().to_peer_id().to_bytes(), 7, &addr_bytes)), interop)),
            6 => {
                let mut bad = addr_bytes.clone();
                bad.push(vec![0x04, 0x01]); // ip4 with a truncated address
                rec_verdict(parse(mk(record_payload(&me.to_bytes(), 7, &bad)), interop))
            }
            _ => match parse(mk(record_payload(&me.to_bytes(), 7, &addr_bytes)), interop) {
                Ok(r2) if r2.peer_id() == me && r2.addresses() == addrs.as_slice() && r2.seq() == 7 => "ok",
                Ok(_) => "ok-but-different",
                Err(e) => rec_verdict(Err(e)),
            },
        }
    });
    match r {
        Ok(t) => out.imp(t),
        Err(m) => out.imp(&format!("panic:{m}")),
    }
}

/// deterministic encoded peer-record envelope for `mutate` (fixed key seed, seq, addresses)
fn base_envelope(ty: u32) -> (Vec<u8>, PeerId, Vec<Multiaddr>) {
    let mut rng = Rng::new(0xC21 + ty as u64);
    let kp = keypair(&mut rng, ty);
    let addrs: Vec<Multiaddr> = vec!["/ip4/1.2.3.4/tcp/4001".parse().unwrap(), "/dns4/example.com/tcp/443/wss".parse().unwrap()];
    let me = kp.public().to_peer_id();
    let payload = record_payload(&me.to_bytes(), 1_700_000_000, &addrs.iter().map(|a| a.to_vec()).collect::<Vec<_>>());
    let env = SignedEnvelope::new(&kp, DOMAINS[1].0.to_string(), DOMAINS[1].1.to_vec(), payload).expect("sign");
    (env.into_protobuf_encoding(), me, addrs)
}

fn op_mutate(out: &mut Out, base: &(Vec<u8>, PeerId, Vec<Multiaddr>), ty: u32, pos: usize, xor: u8) {
    out.op(&format!("mutate {} {} {}", ty, pos, xor));
    let r = hcore::guarded(|| {
        let mut bytes = base.0.clone();
        bytes[pos] ^= xor;
        match SignedEnvelope::from_protobuf_encoding(&bytes) {
            Err(_) => "rejected:decode".to_string(),
            Ok(env) => match PeerRecord::from_signed_envelope_interop(env) {
                Err(e) => format!("rejected:{}", &rec_verdict(Err(e))[4..]),
                Ok(rec) => {
                    if rec.peer_id() == base.1 && rec.seq() == 1_700_000_000 && rec.addresses() == base.2.as_slice() {
                        "accepted:same".to_string()
                    } else {
                        "accepted:DIFFERENT".to_string()
                    }
                }
            },
        }
    });
    match r {
        Ok(t) => out.imp(&t),
        Err(m) => out.imp(&format!("panic:{m}")),
    }
}

pub fn run(args: &Args, out: &mut Out) {
    let bases: Vec<(Vec<u8>, PeerId, Vec<Multiaddr>)> = (0..4).map(base_envelope).collect();
    if let Some(cases) = args.replay_cases() {
        for (i, (hdr, ops)) in cases.iter().enumerate() {
            out.case(i as u64, "replay nt=1");
            // the generator's rng stream of the original case: `seed=<n>` in the case header
            let seed: u64 = hdr.iter().find_map(|t| t.strip_prefix("rng=")).and_then(|s| s.parse().ok()).unwrap_or(0);
            let kty: u32 = hdr.iter().find_map(|t| t.strip_prefix("kty=")).and_then(|s| s.parse().ok()).unwrap_or(1);
            for op in ops {
                let mut rng = Rng::new(seed);
                let flag = |i: usize| op[i] == "1";
                match op[0].as_str() {
                    "sigver" => op_sigver(out, &mut rng, op[1].parse().unwrap(), flag(2), flag(3)),
                    "env" => op_env(out, &mut rng, kty, [flag(1), flag(2), flag(3), flag(4), flag(5), flag(6)]),
                    "rec" => {
                        let sc: u32 = hdr.iter().find_map(|t| t.strip_prefix("sc=")).and_then(|s| s.parse().ok()).unwrap_or(0);
                        op_rec(out, &mut rng, kty, sc)
                    }
                    "sigpayload" => op_sigpayload(out, &hcore::unhex(&op[1]), &hcore::unhex(&op[2]), &hcore::unhex(&op[3])),
                    "resplit" => {
                        let u = |i: usize| hcore::unhex(&op[i]);
                        let (o, q) = ([u(2), u(3), u(4)], [u(5), u(6), u(7)]);
                        op_resplit(out, seed, op[1].parse().unwrap(), [&o[0], &o[1], &o[2]], [&q[0], &q[1], &q[2]], op[8] == "omit")
                    }
                    "mutate" => {
                        let ty: u32 = op[1].parse().unwrap();
                        op_mutate(out, &bases[ty as usize], ty, op[2].parse().unwrap(), op[3].parse().unwrap())
                    }
                    other => panic!("replay: unknown op {other}"),
                }
            }
            out.end();
        }
        return;
    }
    let mut idx = 0u64;
    // 1. sign / verify with message and signature mutations, every key type (one op per case so
    //    that a case replays from its own rng seed)
    let n = args.n(400, 20_000);
    for i in 0..n {
        let seed = args.seed.wrapping_mul(1_000_003).wrapping_add(i);
        let ty = (i % 4) as u32;
        let (mm, sm) = match (i / 4) % 4 {
            0 => (false, false),
            1 => (true, false),
            2 => (false, true),
            _ => (true, true),
        };
        out.case(idx, &format!("sigver nt=1 rng={seed} kty={ty}"));
        op_sigver(out, &mut Rng::new(seed), ty, mm, sm);
        out.end();
        idx += 1;
    }
    // 2. envelopes: every combination of the six "unchanged" flags, every key type
    let reps = args.n(2, 40);
    for rep in 0..reps {
        for ty in 0..4u32 {
            for mask in 0..64u32 {
                let same = [mask & 1 == 0, mask & 2 == 0, mask & 4 == 0, mask & 8 == 0, mask & 16 == 0, mask & 32 == 0];
                let seed = args.seed.wrapping_mul(7_000_003).wrapping_add((rep * 1000 + ty as u64 * 64 + mask as u64) as u64);
                out.case(idx, &format!("env nt=1 rng={seed} kty={ty}"));
                op_env(out, &mut Rng::new(seed), ty, same);
                out.end();
                idx += 1;
            }
        }
    }
    // 3. peer records: every scenario, every key type, both formats (format chosen by the rng)
    let reps = args.n(6, 100);
    for rep in 0..reps {
        for ty in 0..4u32 {
            for sc in 0..8u32 {
                let seed = args.seed.wrapping_mul(9_000_011).wrapping_add(rep * 100 + ty as u64 * 8 + sc as u64);
                out.case(idx, &format!("rec nt=1 rng={seed} kty={ty} sc={sc}"));
                op_rec(out, &mut Rng::new(seed), ty, sc);
                out.end();
                idx += 1;
            }
        }
    }
    // 5. the signed bytes themselves (hook) for every combination of boundary lengths, empty fields first
    {
        let small = [0usize, 1, 127, 128];
        let big = [16383usize, 16384];
        let mut combos: Vec<[usize; 3]> = vec![];
        for a in small {
            for b2 in small {
                for c in small {
                    combos.push([a, b2, c]);
                }
            }
        }
        for pos in 0..3 {
            for g in big {
                for a in small {
                    for b2 in small {
                        let mut v = vec![a, b2];
                        v.insert(pos, g);
                        let l = [v[0], v[1], v[2]];
                        combos.push(l);
                    }
                }
            }
        }
        if args.thorough && args.count == 0 {
            for a in big {
                for b2 in big {
                    for c in [0usize, 1, 16383, 16384] {
                        combos.push([a, b2, c]);
                        combos.push([c, a, b2]);
                        combos.push([a, c, b2]);
                    }
                }
            }
        }
        for (k, l) in combos.iter().enumerate() {
            let mut rng = Rng::for_case(args.seed, 7_000_000 + k as u64);
            let mk = |rng: &mut Rng, n: usize| -> Vec<u8> { (0..n).map(|_| b'a' + rng.below(26) as u8).collect() };
            let (d, t, p) = (mk(&mut rng, l[0]), mk(&mut rng, l[1]), mk(&mut rng, l[2]));
            out.case(idx, "sigpayload nt=1");
            op_sigpayload(out, &d, &t, &p);
            out.end();
            idx += 1;
        }
        let n = args.n(300, 20_000);
        for i in 0..n {
            let mut rng = Rng::for_case(args.seed, 7_100_000 + i);
            let (d, t, p) = (gen_field(&mut rng, true), gen_field(&mut rng, true), gen_field(&mut rng, true));
            out.case(idx, "sigpayloadrnd nt=1");
            op_sigpayload(out, &d, &t, &p);
            out.end();
            idx += 1;
        }
    }
    // 6. re-split attacks: exhaustively, every signed split of a short string presented as every
    //    other split of the same string (same key, same signature), both envelope encodings
    {
        let strings: Vec<Vec<u8>> = vec![
            b"".to_vec(),
            b"a".to_vec(),
            b"ab".to_vec(),
            b"abc".to_vec(),
            b"aaaa".to_vec(),
            vec![0x01, b'a', 0x01, b'b'], // content that looks like length prefixes
            vec![0x00, 0x00, 0x01],
            b"abcde".to_vec(),
        ];
        for (si, x) in strings.iter().enumerate() {
            let all = splits(x);
            for kty in 0..4u32 {
                // RSA and the 5-byte string only in the thorough tier (21 x 21 presentations)
                if !(args.thorough && args.count == 0) && (x.len() >= 5 || (kty == 0 && x.len() >= 4)) {
                    continue;
                }
                for (oi, o) in all.iter().enumerate() {
                    let seed = args.seed.wrapping_mul(11_000_027).wrapping_add((si * 1000 + oi) as u64 * 4 + kty as u64);
                    out.case(idx, &format!("resplit nt=1 rng={seed} kty={kty}"));
                    for q in &all {
                        let omit = (oi + q[1].len() + kty as usize) % 2 == 0;
                        op_resplit(out, seed, kty, [&o[0], &o[1], &o[2]], [&q[0], &q[1], &q[2]], omit);
                        if q[1].is_empty() || q[2].is_empty() {
                            op_resplit(out, seed, kty, [&o[0], &o[1], &o[2]], [&q[0], &q[1], &q[2]], !omit);
                        }
                    }
                    out.end();
                    idx += 1;
                }
            }
        }
        // longer fields at the varint boundaries: move one boundary by one byte or all the way
        let n = args.n(150, 5_000);
        for i in 0..n {
            let mut rng = Rng::for_case(args.seed, 7_200_000 + i);
            let kty = (i % 4) as u32;
            let o = [gen_field(&mut rng, i % 10 == 0), gen_field(&mut rng, i % 10 == 0), gen_field(&mut rng, i % 10 == 0)];
            let x: Vec<u8> = o.concat();
            let (b1, b2) = (o[0].len(), o[0].len() + o[1].len());
            let mut cands: Vec<(usize, usize)> = vec![(b1, b2)];
            for (i2, j2) in [
                (b1.wrapping_sub(1), b2), (b1 + 1, b2), (b1, b2.wrapping_sub(1)), (b1, b2 + 1),
                (0, b2), (b2, b2), (b1, b1), (b1, x.len()), (0, 0), (x.len(), x.len()), (0, x.len()), (b2, x.len()), (0, b1),
            ] {
                if i2 <= j2 && j2 <= x.len() {
                    cands.push((i2, j2));
                }
            }
            let seed = args.seed.wrapping_mul(13_000_027).wrapping_add(i);
            out.case(idx, &format!("resplitrnd nt=1 rng={seed} kty={kty}"));
            for (i2, j2) in cands {
                let q = [x[..i2].to_vec(), x[i2..j2].to_vec(), x[j2..].to_vec()];
                op_resplit(out, seed, kty, [&o[0], &o[1], &o[2]], [&q[0], &q[1], &q[2]], rng.bool());
            }
            out.end();
            idx += 1;
        }
    }
    // 4. single-byte mutations of an encoded peer-record envelope: every position; thorough: every
    //    xor value for ed25519/secp256k1/ecdsa and 16 per position for RSA; quick: 4 per position
    for ty in 0..4u32 {
        let base = &bases[ty as usize];
        for pos in 0..base.0.len() {
            let mut rng = Rng::for_case(args.seed, 5_000_000 + (ty as u64) * 100_000 + pos as u64);
            let xors: Vec<u8> = if args.thorough && args.count == 0 {
                if ty == 0 {
                    let mut v = vec![0x01u8, 0x80, 0xff];
                    v.extend((0..13).map(|_| rng.range(1, 255) as u8));
                    v
                } else {
                    (1..=255u8).collect()
                }
            } else {
                vec![0x01, 0x80, 0xff, rng.range(1, 255) as u8]
            };
            out.case(idx, &format!("mutate{} nt=1", ty));
            for x in xors {
                op_mutate(out, base, ty, pos, x);
            }
            out.end();
            idx += 1;
        }
    }
}
