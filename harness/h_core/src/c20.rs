//! C20 — PeerId / key encodings through the public API of `libp2p-identity`.
//!
//! ops:  `frombytes <hex>`                 PeerId::from_bytes
//!       `fromstr <hex of the string>`     PeerId::from_str
//!       `pubkey <ty> <data> <sha256>`     encode_protobuf / try_decode_protobuf / to_peer_id of a real key
//!       `decpub <hex> <oracle>`           PublicKey::try_decode_protobuf on arbitrary bytes
//!       `decpriv <hex> <oracle>`          Keypair::from_protobuf_encoding on arbitrary bytes
//!       `privkey <ty> <enc|unsupported>`  Keypair::{to,from}_protobuf_encoding round trip
//! The oracle of `decpub/decpriv` is read off the implementation's own answer: `-` key parser not
//! reached, `0` key bytes rejected, `1:<canonical re-encoding>` accepted (key-type validity is
//! abstract in the model; the model validates that the parser was reached exactly when it says so).
use std::str::FromStr;

use hcore::{hex, Args, Out, Rng};
use libp2p_identity::{ecdsa, secp256k1, Keypair, PeerId, PublicKey};
use sha2::Digest;

fn parse_tok(r: Result<PeerId, libp2p_identity::ParseError>) -> String {
    match r {
        Ok(p) => {
            let mh: &multihash::Multihash<64> = p.as_ref();
            format!(
                "ok:{}:{} {} {}",
                mh.code(),
                hex(mh.digest()),
                hex(&p.to_bytes()),
                hex(p.to_base58().as_bytes())
            )
        }
        Err(libp2p_identity::ParseError::B58(_)) => "err:b58 - -".into(),
        Err(libp2p_identity::ParseError::UnsupportedCode(c)) => format!("err:code:{c} - -"),
        Err(libp2p_identity::ParseError::InvalidMultihash(_)) => "err:mh - -".into(),
    }
}

fn op_frombytes(out: &mut Out, bs: &[u8]) {
    out.op(&format!("frombytes {}", hex(bs)));
    match hcore::guarded(|| parse_tok(PeerId::from_bytes(bs))) {
        Ok(t) => out.imp(&t),
        Err(m) => out.imp(&format!("panic:{m} - -")),
    }
}

fn op_fromstr(out: &mut Out, s: &str) {
    out.op(&format!("fromstr {}", hex(s.as_bytes())));
    match hcore::guarded(|| parse_tok(PeerId::from_str(s))) {
        Ok(t) => out.imp(&t),
        Err(m) => out.imp(&format!("panic:{m} - -")),
    }
}

/// (type number, `Data` bytes) of a public key via the key-type specific public API
fn pub_parts(pk: &PublicKey) -> (u32, Vec<u8>) {
    if let Ok(k) = pk.clone().try_into_ed25519() {
        return (1, k.to_bytes().to_vec());
    }
    if let Ok(k) = pk.clone().try_into_secp256k1() {
        return (2, k.to_bytes().to_vec());
    }
    if let Ok(k) = pk.clone().try_into_ecdsa() {
        return (3, k.encode_der());
    }
    let k = pk.clone().try_into_rsa().expect("rsa");
    (0, k.encode_x509())
}

fn err_class(e: &libp2p_identity::DecodingError) -> String {
    let m = e.to_string();
    if m.contains("from protobuf") {
        "err:protobuf".into()
    } else if m.contains("unknown key type") {
        "err:keytype".into()
    } else if m.contains("failed to parse") {
        "err:key".into()
    } else {
        format!("err:other:{}", m.replace(' ', "_"))
    }
}

fn op_pubkey(out: &mut Out, pk: &PublicKey) {
    let (ty, data) = pub_parts(pk);
    let r = hcore::guarded(|| {
        let enc = pk.encode_protobuf();
        let dec = match PublicKey::try_decode_protobuf(&enc) {
            Ok(k) => {
                let (t2, d2) = pub_parts(&k);
                if &k == pk {
                    format!("ok:{}:{}", t2, hex(&d2))
                } else {
                    format!("ok-but-different:{}:{}", t2, hex(&d2))
                }
            }
            Err(e) => err_class(&e),
        };
        let pid = pk.to_peer_id();
        let pid2 = PeerId::from_public_key(pk);
        let mh: &multihash::Multihash<64> = pid.as_ref();
        let pid_tok = if pid == pid2 {
            format!("{}:{}", mh.code(), hex(mh.digest()))
        } else {
            "nondeterministic".to_string()
        };
        (enc, dec, pid_tok)
    });
    match r {
        Ok((enc, dec, pid)) => {
            // SHA-256 of the encoding, computed independently of the crate under test
            let sha = sha2::Sha256::digest(&enc);
            out.op(&format!("pubkey {} {} {}", ty, hex(&data), hex(&sha)));
            out.imp(&format!("{} {} {}", hex(&enc), dec, pid));
        }
        Err(m) => {
            out.op(&format!("pubkey {} {} -", ty, hex(&data)));
            out.imp(&format!("panic:{m} - -"));
        }
    }
}

fn op_dec(out: &mut Out, private: bool, bs: &[u8]) {
    let r = hcore::guarded(|| {
        if private {
            match Keypair::from_protobuf_encoding(bs) {
                Ok(kp) => {
                    let canon = match kp.to_protobuf_encoding() {
                        Ok(e) => e,
                        Err(_) => b"unsupported".to_vec(),
                    };
                    let ty = pub_parts(&kp.public()).0;
                    (format!("ok:{}:{}", ty, hex(&canon)), format!("1:{}", hex(&canon)))
                }
                Err(e) => {
                    let c = err_class(&e);
                    let o = if c == "err:key" { "0" } else { "-" };
                    (c, o.to_string())
                }
            }
        } else {
            match PublicKey::try_decode_protobuf(bs) {
                Ok(pk) => {
                    let canon = pk.encode_protobuf();
                    let ty = pub_parts(&pk).0;
                    (format!("ok:{}:{}", ty, hex(&canon)), format!("1:{}", hex(&canon)))
                }
                Err(e) => {
                    let c = err_class(&e);
                    let o = if c == "err:key" { "0" } else { "-" };
                    (c, o.to_string())
                }
            }
        }
    });
    let which = if private { "decpriv" } else { "decpub" };
    match r {
        Ok((imp, oracle)) => {
            out.op(&format!("{} {} {}", which, hex(bs), oracle));
            out.imp(&imp);
        }
        Err(m) => {
            out.op(&format!("{} {} -", which, hex(bs)));
            out.imp(&format!("panic:{m}"));
        }
    }
}

fn op_privkey(out: &mut Out, kp: &Keypair) {
    let ty = pub_parts(&kp.public()).0;
    let r = hcore::guarded(|| match kp.to_protobuf_encoding() {
        Err(_) => ("unsupported".to_string(), "unsupported -".to_string()),
        Ok(enc) => {
            let imp = match Keypair::from_protobuf_encoding(&enc) {
                Ok(k2) => {
                    let same = k2.public() == kp.public();
                    let re = k2.to_protobuf_encoding().map(|e| e == enc).unwrap_or(false);
                    format!("{} {}", if same { "ok:same" } else { "ok:different" }, if re { "same" } else { "diff" })
                }
                Err(e) => format!("{} -", err_class(&e)),
            };
            (hex(&enc), imp)
        }
    });
    match r {
        Ok((enc, imp)) => {
            out.op(&format!("privkey {} {}", ty, enc));
            out.imp(&imp);
        }
        Err(m) => {
            out.op(&format!("privkey {} -", ty));
            out.imp(&format!("panic:{m} -"));
        }
    }
}

// ---------------------------------------------------------------- generators

const RSA_FIXTURES: [&[u8]; 3] = [
    include_bytes!("/repo/identity/src/test/rsa-2048.pk8"),
    include_bytes!("/repo/identity/src/test/rsa-3072.pk8"),
    include_bytes!("/repo/identity/src/test/rsa-4096.pk8"),
];

fn keypair(rng: &mut Rng, ty: u32) -> Keypair {
    match ty {
        0 => {
            let mut der = RSA_FIXTURES[rng.usize(3)].to_vec();
            Keypair::rsa_from_pkcs8(&mut der).expect("fixture")
        }
        1 => Keypair::ed25519_from_bytes(rng.bytes(32)).expect("ed25519 secret"),
        2 => loop {
            if let Ok(sk) = secp256k1::SecretKey::try_from_bytes(rng.bytes(32)) {
                break secp256k1::Keypair::from(sk).into();
            }
        },
        _ => loop {
            if let Ok(sk) = ecdsa::SecretKey::try_from_bytes(rng.bytes(32)) {
                break ecdsa::Keypair::from(sk).into();
            }
        },
    }
}

fn varint(mut n: u64) -> Vec<u8> {
    let mut v = vec![];
    loop {
        let b = (n & 0x7f) as u8;
        n >>= 7;
        if n == 0 {
            v.push(b);
            return v;
        }
        v.push(b | 0x80);
    }
}

/// a byte string that is (mostly) a multihash: code, size, digest — with seeded defects
fn multihash_like(rng: &mut Rng) -> Vec<u8> {
    let code: u64 = match rng.below(8) {
        0 | 1 | 2 => 0x12,
        3 | 4 => 0,
        5 => *rng.pick(&[0x11u64, 0x13, 0x14, 0x16, 0x1b, 0xb220, 0x55, 1]),
        6 => rng.below(300),
        _ => rng.next_u64() >> rng.below(64),
    };
    let len: usize = match rng.below(8) {
        0 | 1 => 32,
        2 => *rng.pick(&[0usize, 1, 36, 41, 42, 43, 44, 63, 64, 65, 127, 128, 255, 256]),
        _ => rng.usize(70),
    };
    let mut v = varint(code);
    match rng.below(12) {
        0 => v.extend(varint((len as u64).wrapping_add(rng.range(1, 3)))), // size larger than digest
        1 => v.extend(varint((len as u64).saturating_sub(1))),             // trailing bytes
        2 => {
            // non-minimal size varint (trailing zero group)
            let mut s = varint(len as u64);
            let l = s.len();
            s[l - 1] |= 0x80;
            s.push(0);
            v.extend(s)
        }
        _ => v.extend(varint(len as u64)),
    }
    v.extend(rng.bytes(len));
    match rng.below(16) {
        0 => {
            v.pop();
        }
        1 => v.push(rng.next_u64() as u8),
        2 => {
            // the 10-byte varint whose bits above 2^64 are dropped by unsigned-varint
            let mut w = vec![(code as u8 & 0x7f) | 0x80];
            w.extend([0x80u8; 8]);
            w.push(*rng.pick(&[0x02u8, 0x04, 0x7e, 0x01, 0x00, 0x80]));
            w.extend(varint(len as u64));
            w.extend(rng.bytes(len));
            v = w;
        }
        3 if !v.is_empty() => {
            let i = rng.usize(v.len());
            v[i] ^= 1 << rng.below(8);
        }
        _ => {}
    }
    v
}

const ALPHABET: &[u8] = b"123456789ABCDEFGHJKLMNPQRSTUVWXYZabcdefghijkmnopqrstuvwxyz";

fn protobuf_like(rng: &mut Rng, valid_keys: &[(u32, Vec<u8>)]) -> Vec<u8> {
    // field soup: mostly fields 1 and 2 with sensible wire types, plus unknown fields, groups, junk
    let mut v = vec![];
    let n = rng.usize(5);
    for _ in 0..n {
        match rng.below(12) {
            0 | 1 | 2 => {
                v.push(0x08);
                let t = match rng.below(6) {
                    0 => rng.next_u64(),
                    1 => (1u64 << 32) + rng.below(4),
                    2 => rng.below(8),
                    _ => rng.below(4),
                };
                v.extend(varint(t));
            }
            3 | 4 | 5 => {
                v.push(0x12);
                let (_, d) = rng.pick(valid_keys);
                let mut d = d.clone();
                match rng.below(6) {
                    0 => {
                        let l = rng.usize(d.len() + 1);
                        d.truncate(l)
                    }
                    1 => {
                        let i = rng.usize(d.len());
                        d[i] ^= 1 << rng.below(8)
                    }
                    2 => {
                        let l = rng.usize(40);
                        d = rng.bytes(l)
                    }
                    _ => {}
                }
                let l = d.len() as u64;
                v.extend(varint(if rng.chance(1, 10) { l + rng.range(1, 300) } else { l }));
                v.extend(d);
            }
            6 => {
                // unknown field, any wire type
                let tag = rng.range(3, 40);
                let wt = rng.below(6);
                v.extend(varint(tag << 3 | wt));
                match wt {
                    0 => v.extend(varint(rng.next_u64() >> rng.below(64))),
                    1 => v.extend(rng.bytes(8)),
                    2 => {
                        let l = rng.usize(6);
                        let b = rng.bytes(l);
                        v.extend(varint(b.len() as u64));
                        v.extend(b)
                    }
                    3 => {
                        // a group, possibly nested, closed by the matching end tag (mostly)
                        let depth = rng.usize(4);
                        for d in 0..depth {
                            v.extend(varint((tag + 1 + d as u64) << 3 | 3));
                        }
                        v.extend(varint(5 << 3));
                        v.extend(varint(7));
                        for d in (0..depth).rev() {
                            v.extend(varint((tag + 1 + d as u64) << 3 | 4));
                        }
                        let end = if rng.chance(1, 5) { tag + 1 } else { tag };
                        v.extend(varint(end << 3 | 4));
                    }
                    5 => v.extend(rng.bytes(4)),
                    _ => {}
                }
            }
            7 => v.extend(varint((rng.below(3)) << 3 | rng.below(8))), // wrong wire type / tag 0 / wt 6,7
            8 => {
                let l = rng.usize(12);
                v.extend(rng.bytes(l))
            }
            9 => {
                v.push(0x12);
                v.extend([0xffu8; 9]);
                v.push(rng.below(4) as u8)
            }
            _ => {
                v.push(0x08);
                v.extend([0x80u8; 9]);
                v.push(rng.below(3) as u8)
            }
        }
    }
    v
}

pub fn run(args: &Args, out: &mut Out) {
    if let Some(cases) = args.replay_cases() {
        for (i, (_, ops)) in cases.iter().enumerate() {
            out.case(i as u64, "replay nt=1");
            for op in ops {
                match op[0].as_str() {
                    "frombytes" => op_frombytes(out, &hcore::unhex(&op[1])),
                    "fromstr" => op_fromstr(out, &String::from_utf8(hcore::unhex(&op[1])).expect("utf8")),
                    "decpub" => op_dec(out, false, &hcore::unhex(&op[1])),
                    "decpriv" => op_dec(out, true, &hcore::unhex(&op[1])),
                    "pubkey" => {
                        // rebuild the key from its protobuf encoding
                        let ty: u32 = op[1].parse().unwrap();
                        let data = hcore::unhex(&op[2]);
                        let mut enc = vec![0x08, ty as u8, 0x12];
                        enc.extend(varint(data.len() as u64));
                        enc.extend(data);
                        let pk = PublicKey::try_decode_protobuf(&enc).expect("replay: key");
                        op_pubkey(out, &pk)
                    }
                    "privkey" => {
                        if op[2] == "unsupported" {
                            let mut der = RSA_FIXTURES[0].to_vec();
                            op_privkey(out, &Keypair::rsa_from_pkcs8(&mut der).unwrap())
                        } else {
                            let kp = Keypair::from_protobuf_encoding(&hcore::unhex(&op[2])).expect("replay: keypair");
                            op_privkey(out, &kp)
                        }
                    }
                    other => panic!("replay: unknown op {other}"),
                }
            }
            out.end();
        }
        return;
    }
    let mut idx = 0u64;

    // 1. real keys of every type: encoding, decoding, peer id, bytes/base58 round trips
    let nkeys = args.n(60, 600);
    let mut valid_pub: Vec<(u32, Vec<u8>)> = vec![];
    let mut valid_priv: Vec<(u32, Vec<u8>)> = vec![];
    let mut peer_ids: Vec<PeerId> = vec![];
    for i in 0..nkeys {
        let mut rng = Rng::for_case(args.seed, i);
        let ty = (i % 4) as u32;
        let kp = keypair(&mut rng, ty);
        let pk = kp.public();
        out.case(idx, &format!("key{} nt=1", ty));
        op_pubkey(out, &pk);
        op_privkey(out, &kp);
        let pid = pk.to_peer_id();
        op_frombytes(out, &pid.to_bytes());
        op_fromstr(out, &pid.to_base58());
        out.end();
        idx += 1;
        valid_pub.push(pub_parts(&pk));
        if let Ok(enc) = kp.to_protobuf_encoding() {
            // the Data field of the private key message: strip `08 ty 12 len`
            let (_, d) = split_key_msg(&enc);
            valid_priv.push((ty, d));
        }
        peer_ids.push(pid);
    }
    // keys around the inline threshold do not exist for real key types other than ed25519 (36) and
    // secp256k1 (37); the threshold itself is swept with identity multihashes below.

    // 2. boundary multihashes: identity 0..=64, sha256 0..=65, other codes
    for code in [0u64, 0x12, 0x11, 0x13, 0x16, 0xb220] {
        out.case(idx, "mhsizes nt=1");
        for len in 0..=66usize {
            let mut v = varint(code);
            v.extend(varint(len as u64));
            v.extend(vec![0xabu8; len]);
            op_frombytes(out, &v);
            if len == 42 || len == 43 || len == 32 {
                op_fromstr(out, &bs58_encode(&v));
            }
        }
        out.end();
        idx += 1;
    }
    // 3. varint edge cases in front of a 32-byte digest
    {
        out.case(idx, "varints nt=1");
        let heads: Vec<Vec<u8>> = vec![
            vec![0x92, 0x00],                                                       // non-minimal 0x12
            vec![0x92, 0x80, 0x00],
            vec![0x92, 0x80, 0x80, 0x80, 0x80, 0x80, 0x80, 0x80, 0x80, 0x00],       // 10 bytes, zero tail
            vec![0x92, 0x80, 0x80, 0x80, 0x80, 0x80, 0x80, 0x80, 0x80, 0x01],       // 0x12 + 2^63
            vec![0x92, 0x80, 0x80, 0x80, 0x80, 0x80, 0x80, 0x80, 0x80, 0x02],       // truncated to 0x12
            vec![0x80, 0x80, 0x80, 0x80, 0x80, 0x80, 0x80, 0x80, 0x80, 0x7e],       // truncated to 0
            vec![0x92, 0x80, 0x80, 0x80, 0x80, 0x80, 0x80, 0x80, 0x80, 0x80, 0x01], // 11 bytes
            vec![0x80],
            vec![],
            vec![0x12],
            vec![0x00],
        ];
        for h in heads {
            let mut v = h.clone();
            v.push(32);
            v.extend([7u8; 32]);
            op_frombytes(out, &v);
            op_frombytes(out, &h);
        }
        // the same games with the size varint
        for s in [vec![0xa0u8, 0x00], vec![0xa0, 0x80, 0x80, 0x80, 0x80, 0x80, 0x80, 0x80, 0x80, 0x02]] {
            let mut v = vec![0x12];
            v.extend(s);
            v.extend([7u8; 32]);
            op_frombytes(out, &v);
        }
        out.end();
        idx += 1;
    }
    // 4. base58 strings: valid ids with a character replaced / inserted, bad alphabet, non-ASCII, empty
    {
        out.case(idx, "b58edge nt=1");
        for s in ["", "1", "11", "0", "O", "I", "l", "Qm", "é", "1é", " 1", "1 ", "zzzzzzzzzzzzzzzzzzzzzzzzzzzzzzzzzzzzzzzzzzzzzzzzzzzz"] {
            op_fromstr(out, s);
        }
        out.end();
        idx += 1;
    }
    let n = args.n(6000, 300_000);
    for i in 0..n {
        let mut rng = Rng::for_case(args.seed, 1_000_000 + i);
        match rng.below(6) {
            0 | 1 => {
                out.case(idx, "mhlike nt=1");
                let v = multihash_like(&mut rng);
                op_frombytes(out, &v);
                // and through base58, with leading zero bytes sometimes
                let mut w = v.clone();
                if rng.chance(1, 4) {
                    for _ in 0..rng.usize(3) {
                        w.insert(0, 0);
                    }
                }
                op_fromstr(out, &bs58_encode(&w));
                out.end();
            }
            2 => {
                out.case(idx, "b58mut nt=1");
                let p = rng.pick(&peer_ids);
                let mut s = p.to_base58().into_bytes();
                match rng.below(5) {
                    0 => {
                        let i = rng.usize(s.len());
                        s[i] = *rng.pick(ALPHABET)
                    }
                    1 => {
                        let i = rng.usize(s.len());
                        s[i] = *rng.pick(b"0OIl+/= _")
                    }
                    2 => {
                        let i = rng.usize(s.len() + 1);
                        s.insert(i, *rng.pick(ALPHABET))
                    }
                    3 => {
                        let i = rng.usize(s.len());
                        s.remove(i);
                    }
                    _ => s.insert(0, b'1'),
                }
                op_fromstr(out, std::str::from_utf8(&s).unwrap());
                out.end();
            }
            3 => {
                out.case(idx, "rawbytes nt=1");
                let l = rng.usize(80);
                let v = rng.bytes(l);
                op_frombytes(out, &v);
                op_dec(out, false, &v);
                op_dec(out, true, &v);
                out.end();
            }
            4 => {
                out.case(idx, "pubsoup nt=1");
                let v = protobuf_like(&mut rng, &valid_pub);
                op_dec(out, false, &v);
                out.end();
            }
            _ => {
                out.case(idx, "privsoup nt=1");
                let v = if valid_priv.is_empty() { rng.bytes(8) } else { protobuf_like(&mut rng, &valid_priv) };
                op_dec(out, true, &v);
                out.end();
            }
        }
        idx += 1;
    }
    // 5. deep group nesting (prost's recursion limit)
    {
        out.case(idx, "deepgroups nt=1");
        for depth in [1usize, 50, 99, 100, 101, 150] {
            let mut v = vec![];
            for _ in 0..depth {
                v.push(0x1b); // field 3, start group
            }
            for _ in 0..depth {
                v.push(0x1c); // field 3, end group
            }
            v.extend([0x08, 0x01, 0x12, 0x00]);
            op_dec(out, false, &v);
        }
        out.end();
    }
}

fn split_key_msg(enc: &[u8]) -> (u8, Vec<u8>) {
    // `08 ty 12 <varint len> data`
    let ty = enc[1];
    let mut i = 3;
    while enc[i] & 0x80 != 0 {
        i += 1;
    }
    (ty, enc[i + 1..].to_vec())
}

/// independent base58 encoder (big-number division), so that generated strings do not depend on bs58
fn bs58_encode(bytes: &[u8]) -> String {
    let zeros = bytes.iter().take_while(|b| **b == 0).count();
    let mut digits: Vec<u8> = vec![];
    let mut num: Vec<u8> = bytes[zeros..].to_vec();
    while !num.is_empty() {
        let mut rem = 0u32;
        let mut next = vec![];
        for b in &num {
            let acc = rem * 256 + *b as u32;
            let q = acc / 58;
            rem = acc % 58;
            if !next.is_empty() || q != 0 {
                next.push(q as u8);
            }
        }
        digits.push(rem as u8);
        num = next;
    }
    let mut s = String::new();
    for _ in 0..zeros {
        s.push('1');
    }
    for d in digits.iter().rev() {
        s.push(ALPHABET[*d as usize] as char);
    }
    s
}
