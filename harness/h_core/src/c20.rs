//! C20 — PeerId / key encodings through the public API of `libp2p-identity`.
//!
//! ops:  `frombytes <hex>`                 PeerId::from_bytes
//!       `fromstr <hex of the string>`     PeerId::from_str
//!       `pubkey <ty> <data> <sha256>`     encode_protobuf / try_decode_protobuf / to_peer_id of a real key
//!       `decpub <hex> <oracle>`           PublicKey::try_decode_protobuf on arbitrary bytes
//!       `decpriv <hex> <oracle>`          Keypair::from_protobuf_encoding on arbitrary bytes
//!       `privkey <ty> <enc|unsupported>`  Keypair::{to,from}_protobuf_encoding round trip
//!       `rawdec <pkcs8|secpder> <hex>`    Keypair::rsa_from_pkcs8 / secp256k1_from_der (totality only)
//! Malformed key material is STRUCTURE-AWARE: well-formed DER containers of real keys (RSA SPKI and
//! PKCS#1, ECDSA SPKI and private DER, PKCS#8, SEC1) are parsed into a tree and exactly one element
//! is damaged at a time; fixed-size keys (ed25519, secp256k1) get length/prefix/range damage.
//! The oracle of `decpub/decpriv` is read off the implementation's own answer: `-` key parser not
//! reached, `0` key bytes rejected, `1:<canonical re-encoding>` accepted (key-type validity is
//! abstract in the model; the model validates that the parser was reached exactly when it says so).
use std::str::FromStr;

use hcore::{hex, Args, Out, Rng};
use libp2p_identity::{ecdsa, secp256k1, Keypair, PeerId, PublicKey};
use sha2::Digest;

fn parse_tok(r: Result<PeerId, libp2p_identity::ParseError>) -> String {
    match r {
        Ok(p) => {
            let mh: &multihash::Multihash<64> = p.as_ref();
            format!(
                "ok:{}:{} {} {}",
                mh.code(),
                hex(mh.digest()),
                hex(&p.to_bytes()),
                hex(p.to_base58().as_bytes())
            )
        }
        Err(libp2p_identity::ParseError::B58(_)) => "err:b58 - -".into(),
        Err(libp2p_identity::ParseError::UnsupportedCode(c)) => format!("err:code:{c} - -"),
        Err(libp2p_identity::ParseError::InvalidMultihash(_)) => "err:mh - -".into(),
    }
}

fn op_frombytes(out: &mut Out, bs: &[u8]) {
    out.op(&format!("frombytes {}", hex(bs)));
    match hcore::guarded(|| parse_tok(PeerId::from_bytes(bs))) {
        Ok(t) => out.imp(&t),
        Err(m) => out.imp(&format!("panic:{m} - -")),
    }
}

fn op_fromstr(out: &mut Out, s: &str) {
    out.op(&format!("fromstr {}", hex(s.as_bytes())));
    match hcore::guarded(|| parse_tok(PeerId::from_str(s))) {
        Ok(t) => out.imp(&t),
        Err(m) => out.imp(&format!("panic:{m} - -")),
    }
}

/// (type number, `Data` bytes) of a public key via the key-type specific public API
fn pub_parts(pk: &PublicKey) -> (u32, Vec<u8>) {
    if let Ok(k) = pk.clone().try_into_ed25519() {
        return (1, k.to_bytes().to_vec());
    }
    if let Ok(k) = pk.clone().try_into_secp256k1() {
        return (2, k.to_bytes().to_vec());
    }
    if let Ok(k) = pk.clone().try_into_ecdsa() {
        return (3, k.encode_der());
    }
    let k = pk.clone().try_into_rsa().expect("rsa");
    (0, k.encode_x509())
}

fn err_class(e: &libp2p_identity::DecodingError) -> String {
    let m = e.to_string();
    if m.contains("from protobuf") {
        "err:protobuf".into()
    } else if m.contains("unknown key type") {
        "err:keytype".into()
    } else if m.contains("failed to parse") {
        "err:key".into()
    } else {
        format!("err:other:{}", m.replace(' ', "_"))
    }
}

fn op_pubkey(out: &mut Out, pk: &PublicKey) {
    let (ty, data) = pub_parts(pk);
    let r = hcore::guarded(|| {
        let enc = pk.encode_protobuf();
        let dec = match PublicKey::try_decode_protobuf(&enc) {
            Ok(k) => {
                let (t2, d2) = pub_parts(&k);
                if &k == pk {
                    format!("ok:{}:{}", t2, hex(&d2))
                } else {
                    format!("ok-but-different:{}:{}", t2, hex(&d2))
                }
            }
            Err(e) => err_class(&e),
        };
        let pid = pk.to_peer_id();
        let pid2 = PeerId::from_public_key(pk);
        let mh: &multihash::Multihash<64> = pid.as_ref();
        let pid_tok = if pid == pid2 {
            format!("{}:{}", mh.code(), hex(mh.digest()))
        } else {
            "nondeterministic".to_string()
        };
        (enc, dec, pid_tok)
    });
    match r {
        Ok((enc, dec, pid)) => {
            // SHA-256 of the encoding, computed independently of the crate under test
            let sha = sha2::Sha256::digest(&enc);
            out.op(&format!("pubkey {} {} {}", ty, hex(&data), hex(&sha)));
            out.imp(&format!("{} {} {}", hex(&enc), dec, pid));
        }
        Err(m) => {
            out.op(&format!("pubkey {} {} -", ty, hex(&data)));
            out.imp(&format!("panic:{m} - -"));
        }
    }
}

fn op_dec(out: &mut Out, private: bool, bs: &[u8]) {
    let r = hcore::guarded(|| {
        if private {
            match Keypair::from_protobuf_encoding(bs) {
                Ok(kp) => {
                    let canon = match kp.to_protobuf_encoding() {
                        Ok(e) => e,
                        Err(_) => b"unsupported".to_vec(),
                    };
                    let ty = pub_parts(&kp.public()).0;
                    (format!("ok:{}:{}", ty, hex(&canon)), format!("1:{}", hex(&canon)))
                }
                Err(e) => {
                    let c = err_class(&e);
                    let o = if c == "err:key" { "0" } else { "-" };
                    (c, o.to_string())
                }
            }
        } else {
            match PublicKey::try_decode_protobuf(bs) {
                Ok(pk) => {
                    let canon = pk.encode_protobuf();
                    let ty = pub_parts(&pk).0;
                    (format!("ok:{}:{}", ty, hex(&canon)), format!("1:{}", hex(&canon)))
                }
                Err(e) => {
                    let c = err_class(&e);
                    let o = if c == "err:key" { "0" } else { "-" };
                    (c, o.to_string())
                }
            }
        }
    });
    let which = if private { "decpriv" } else { "decpub" };
    match r {
        Ok((imp, oracle)) => {
            out.op(&format!("{} {} {}", which, hex(bs), oracle));
            out.imp(&imp);
        }
        Err(m) => {
            out.op(&format!("{} {} -", which, hex(bs)));
            out.imp(&format!("panic:{m}"));
        }
    }
}

fn op_privkey(out: &mut Out, kp: &Keypair) {
    let ty = pub_parts(&kp.public()).0;
    let r = hcore::guarded(|| match kp.to_protobuf_encoding() {
        Err(_) => ("unsupported".to_string(), "unsupported -".to_string()),
        Ok(enc) => {
            let imp = match Keypair::from_protobuf_encoding(&enc) {
                Ok(k2) => {
                    let same = k2.public() == kp.public();
                    let re = k2.to_protobuf_encoding().map(|e| e == enc).unwrap_or(false);
                    format!("{} {}", if same { "ok:same" } else { "ok:different" }, if re { "same" } else { "diff" })
                }
                Err(e) => format!("{} -", err_class(&e)),
            };
            (hex(&enc), imp)
        }
    });
    match r {
        Ok((enc, imp)) => {
            out.op(&format!("privkey {} {}", ty, enc));
            out.imp(&imp);
        }
        Err(m) => {
            out.op(&format!("privkey {} -", ty));
            out.imp(&format!("panic:{m} -"));
        }
    }
}


fn op_rawdec(out: &mut Out, kind: &str, bs: &[u8]) {
    out.op(&format!("rawdec {} {}", kind, hex(bs)));
    let r = hcore::guarded(|| {
        let mut v = bs.to_vec();
        match kind {
            "pkcs8" => Keypair::rsa_from_pkcs8(&mut v).is_ok(),
            _ => Keypair::secp256k1_from_der(&mut v).is_ok(),
        }
    });
    match r {
        Ok(true) => out.imp("ok"),
        Ok(false) => out.imp("err"),
        Err(m) => out.imp(&format!("panic:{m}")),
    }
}

// ---------------------------------------------------------------- structure-aware DER damage

#[derive(Clone, Debug)]
enum Body {
    Bytes(Vec<u8>),
    Kids(Vec<Node>),
}

/// one TLV; `prefix` are content bytes in front of nested DER (the unused-bits octet of a BIT STRING)
#[derive(Clone, Debug)]
struct Node {
    tag: u8,
    prefix: Vec<u8>,
    body: Body,
}

fn der_len(n: usize) -> Vec<u8> {
    if n < 128 {
        vec![n as u8]
    } else if n < 256 {
        vec![0x81, n as u8]
    } else {
        vec![0x82, (n >> 8) as u8, n as u8]
    }
}

fn parse_nodes(mut b: &[u8]) -> Option<Vec<Node>> {
    let mut out = vec![];
    while !b.is_empty() {
        let (n, used) = parse_node(b)?;
        out.push(n);
        b = &b[used..];
    }
    Some(out)
}

fn parse_node(b: &[u8]) -> Option<(Node, usize)> {
    if b.len() < 2 {
        return None;
    }
    let tag = b[0];
    let (len, hdr) = match b[1] {
        l if l < 128 => (l as usize, 2),
        0x81 if b.len() >= 3 => (b[2] as usize, 3),
        0x82 if b.len() >= 4 => (((b[2] as usize) << 8) | b[3] as usize, 4),
        _ => return None,
    };
    if b.len() < hdr + len {
        return None;
    }
    let content = &b[hdr..hdr + len];
    let node = if tag & 0x20 != 0 {
        Node { tag, prefix: vec![], body: Body::Kids(parse_nodes(content)?) }
    } else if tag == 3 && content.first() == Some(&0) && content.len() > 2 && content[1] == 0x30 {
        match parse_nodes(&content[1..]) {
            Some(k) => Node { tag, prefix: vec![0], body: Body::Kids(k) },
            None => Node { tag, prefix: vec![], body: Body::Bytes(content.to_vec()) },
        }
    } else if tag == 4 && content.len() > 2 && content[0] == 0x30 {
        match parse_nodes(content) {
            Some(k) => Node { tag, prefix: vec![], body: Body::Kids(k) },
            None => Node { tag, prefix: vec![], body: Body::Bytes(content.to_vec()) },
        }
    } else {
        Node { tag, prefix: vec![], body: Body::Bytes(content.to_vec()) }
    };
    Some((node, hdr + len))
}

fn content_of(n: &Node) -> Vec<u8> {
    let mut c = n.prefix.clone();
    match &n.body {
        Body::Bytes(b) => c.extend(b),
        Body::Kids(k) => {
            for x in k {
                c.extend(encode_node(x));
            }
        }
    }
    c
}

fn encode_node(n: &Node) -> Vec<u8> {
    if n.tag == 0xff {
        // raw replacement bytes (a damaged element)
        return match &n.body {
            Body::Bytes(b) => b.clone(),
            _ => vec![],
        };
    }
    let c = content_of(n);
    let mut v = vec![n.tag];
    v.extend(der_len(c.len()));
    v.extend(c);
    v
}

fn count_nodes(n: &Node) -> usize {
    1 + match &n.body {
        Body::Kids(k) => k.iter().map(count_nodes).sum(),
        _ => 0,
    }
}

/// replace the `k`-th node (preorder) by raw bytes computed from it
fn replace_node(n: &Node, k: &mut usize, f: &dyn Fn(&Node) -> Vec<u8>) -> Node {
    if *k == 0 {
        *k = usize::MAX;
        return Node { tag: 0xff, prefix: vec![], body: Body::Bytes(f(n)) };
    }
    if *k != usize::MAX {
        *k -= 1;
    }
    match &n.body {
        Body::Kids(kids) => {
            let mut nk = vec![];
            for x in kids {
                nk.push(if *k == usize::MAX { x.clone() } else { replace_node(x, k, f) });
            }
            Node { tag: n.tag, prefix: n.prefix.clone(), body: Body::Kids(nk) }
        }
        _ => n.clone(),
    }
}

const N_DAMAGE: usize = 34;

/// the damaged encoding of one element (everything around it stays well-formed)
fn damage(n: &Node, kind: usize) -> Vec<u8> {
    let c = content_of(n);
    let t = n.tag;
    let tlv = |tag: u8, len: Vec<u8>, content: &[u8]| {
        let mut v = vec![tag];
        v.extend(len);
        v.extend_from_slice(content);
        v
    };
    let enc = encode_node(n);
    match kind {
        0 => tlv(t, vec![0], &[]),                                        // empty content
        1 => tlv(t, vec![1], &c[..c.len().min(1)]),                       // one content byte (or lying length 1)
        2 => tlv(t, vec![2], &c[..c.len().min(2)]),
        3 => tlv(t, der_len(c.len() + 1), &c),                            // declared length + 1
        4 => tlv(t, der_len(c.len().saturating_sub(1)), &c),              // declared length - 1 (a trailing byte)
        5 => {                                                             // indefinite length
            let mut v = tlv(t, vec![0x80], &c);
            v.extend([0, 0]);
            v
        }
        6 => tlv(t, if c.len() < 128 { vec![0x81, c.len() as u8] } else { vec![0x83, 0, (c.len() >> 8) as u8, c.len() as u8] }, &c), // non-minimal long form
        7 => tlv(t, vec![0x84, 0xff, 0xff, 0xff, 0xff], &c),              // 4 GiB
        8 => tlv(t, vec![0x88, 0xff, 0xff, 0xff, 0xff, 0xff, 0xff, 0xff, 0xff], &c), // usize::MAX
        9 => tlv(t, vec![0x89, 1, 0, 0, 0, 0, 0, 0, 0, 0], &c),           // > usize
        10 => tlv(t, vec![0xff], &c),                                     // reserved length octet
        11 => tlv(t ^ 0x01, der_len(c.len()), &c),                        // neighbouring tag
        12 => tlv(if t == 3 { 4 } else { 3 }, der_len(c.len()), &c),      // BIT STRING <-> OCTET STRING
        13 => tlv(t ^ 0x20, der_len(c.len()), &c),                        // constructed bit flipped
        14 => tlv(0x1f, der_len(c.len()), &c),                            // high-tag-number form
        15 => vec![],                                                     // element dropped
        16 => [enc.clone(), enc].concat(),                                // element duplicated
        17 => [enc, vec![0x00]].concat(),                                 // a stray byte after it
        18 => [enc, vec![0x05, 0x00]].concat(),                           // a stray NULL after it
        19 => vec![t],                                                    // tag only
        20 => vec![t, 0x81],                                              // truncated length
        21 => tlv(t, der_len(c.len()), &c.iter().map(|x| x ^ 0xff).collect::<Vec<_>>()), // content inverted
        22 => tlv(t, der_len(c.len()), &vec![0u8; c.len()]),              // content zeroed
        23 => { let mut d = c.clone(); if let Some(x) = d.first_mut() { *x = 1 } tlv(t, der_len(d.len()), &d) }   // unused bits = 1 / first byte = 1
        24 => { let mut d = c.clone(); if let Some(x) = d.first_mut() { *x = 7 } tlv(t, der_len(d.len()), &d) }
        25 => { let mut d = c.clone(); if let Some(x) = d.first_mut() { *x = 8 } tlv(t, der_len(d.len()), &d) }
        26 => { let mut d = c.clone(); if let Some(x) = d.first_mut() { *x = 0xff } tlv(t, der_len(d.len()), &d) }
        27 => { let mut d = c.clone(); if let Some(x) = d.last_mut() { *x ^= 1 } tlv(t, der_len(d.len()), &d) }    // last byte changed (OID arc, LSB)
        28 => { let mut d = vec![0u8]; d.extend(&c); tlv(t, der_len(d.len()), &d) }                              // leading zero added
        29 => { let mut d = c.clone(); if let Some(x) = d.first_mut() { *x |= 0x80 } tlv(t, der_len(d.len()), &d) } // sign bit / arc continuation
        30 => tlv(6, vec![7], &[0x2a, 0x86, 0x48, 0xce, 0x3d, 0x02, 0x01]), // id-ecPublicKey instead
        31 => tlv(6, vec![9], &[0x2a, 0x86, 0x48, 0x86, 0xf7, 0x0d, 0x01, 0x01, 0x0b]), // sha256WithRSAEncryption instead
        32 => tlv(2, vec![1], &[0]),                                      // INTEGER 0 instead
        _ => tlv(t, der_len(c.len() / 2), &c[..c.len() / 2]),             // first half only
    }
}

/// every (element, damage) of a well-formed DER document
fn der_damages(doc: &[u8]) -> Vec<Vec<u8>> {
    let Some((root, used)) = parse_node(doc) else { return vec![] };
    assert_eq!(used, doc.len(), "generator: base DER must be well-formed");
    let n = count_nodes(&root);
    let mut out = vec![];
    for k in 0..n {
        for kind in 0..N_DAMAGE {
            let mut kk = k;
            let d = encode_node(&replace_node(&root, &mut kk, &|x| damage(x, kind)));
            if d != doc {
                out.push(d);
            }
        }
    }
    // document-level: trailing bytes, truncation at every element boundary is covered above; add cuts
    for cut in [0usize, 1, 2, 3, doc.len() / 2, doc.len() - 1] {
        out.push(doc[..cut.min(doc.len())].to_vec());
    }
    out.push([doc, &[0u8][..]].concat());
    out.push([doc, doc].concat());
    out
}

fn key_msg(ty: u64, data: &[u8]) -> Vec<u8> {
    let mut v = vec![0x08];
    v.extend(varint(ty));
    v.push(0x12);
    v.extend(varint(data.len() as u64));
    v.extend_from_slice(data);
    v
}

/// children of the PKCS#8 wrapper: the PKCS#1 RSAPrivateKey inside its OCTET STRING
fn pkcs1_of_pkcs8(pk8: &[u8]) -> Vec<u8> {
    let (root, _) = parse_node(pk8).expect("fixture");
    match &root.body {
        Body::Kids(k) => match &k[2].body {
            Body::Kids(inner) => encode_node(&inner[0]),
            Body::Bytes(b) => b.clone(),
        },
        _ => panic!("fixture shape"),
    }
}

// ---------------------------------------------------------------- generators

const RSA_FIXTURES: [&[u8]; 3] = [
    include_bytes!("/repo/identity/src/test/rsa-2048.pk8"),
    include_bytes!("/repo/identity/src/test/rsa-3072.pk8"),
    include_bytes!("/repo/identity/src/test/rsa-4096.pk8"),
];

fn keypair(rng: &mut Rng, ty: u32) -> Keypair {
    match ty {
        0 => {
            let mut der = RSA_FIXTURES[rng.usize(3)].to_vec();
            Keypair::rsa_from_pkcs8(&mut der).expect("fixture")
        }
        1 => Keypair::ed25519_from_bytes(rng.bytes(32)).expect("ed25519 secret"),
        2 => loop {
            if let Ok(sk) = secp256k1::SecretKey::try_from_bytes(rng.bytes(32)) {
                break secp256k1::Keypair::from(sk).into();
            }
        },
        _ => loop {
            if let Ok(sk) = ecdsa::SecretKey::try_from_bytes(rng.bytes(32)) {
                break ecdsa::Keypair::from(sk).into();
            }
        },
    }
}

fn varint(mut n: u64) -> Vec<u8> {
    let mut v = vec![];
    loop {
        let b = (n & 0x7f) as u8;
        n >>= 7;
        if n == 0 {
            v.push(b);
            return v;
        }
        v.push(b | 0x80);
    }
}

/// a byte string that is (mostly) a multihash: code, size, digest — with seeded defects
fn multihash_like(rng: &mut Rng) -> Vec<u8> {
    let code: u64 = match rng.below(8) {
        0 | 1 | 2 => 0x12,
        3 | 4 => 0,
        5 => *rng.pick(&[0x11u64, 0x13, 0x14, 0x16, 0x1b, 0xb220, 0x55, 1]),
        6 => rng.below(300),
        _ => rng.next_u64() >> rng.below(64),
    };
    let len: usize = match rng.below(8) {
        0 | 1 => 32,
        2 => *rng.pick(&[0usize, 1, 36, 41, 42, 43, 44, 63, 64, 65, 127, 128, 255, 256]),
        _ => rng.usize(70),
    };
    let mut v = varint(code);
    match rng.below(12) {
        0 => v.extend(varint((len as u64).wrapping_add(rng.range(1, 3)))), // size larger than digest
        1 => v.extend(varint((len as u64).saturating_sub(1))),             // trailing bytes
        2 => {
            // non-minimal size varint (trailing zero group)
            let mut s = varint(len as u64);
            let l = s.len();
            s[l - 1] |= 0x80;
            s.push(0);
            v.extend(s)
        }
        _ => v.extend(varint(len as u64)),
    }
    v.extend(rng.bytes(len));
    match rng.below(16) {
        0 => {
            v.pop();
        }
        1 => v.push(rng.next_u64() as u8),
        2 => {
            // the 10-byte varint whose bits above 2^64 are dropped by unsigned-varint
            let mut w = vec![(code as u8 & 0x7f) | 0x80];
            w.extend([0x80u8; 8]);
            w.push(*rng.pick(&[0x02u8, 0x04, 0x7e, 0x01, 0x00, 0x80]));
            w.extend(varint(len as u64));
            w.extend(rng.bytes(len));
            v = w;
        }
        3 if !v.is_empty() => {
            let i = rng.usize(v.len());
            v[i] ^= 1 << rng.below(8);
        }
        _ => {}
    }
    v
}

const ALPHABET: &[u8] = b"123456789ABCDEFGHJKLMNPQRSTUVWXYZabcdefghijkmnopqrstuvwxyz";

fn protobuf_like(rng: &mut Rng, valid_keys: &[(u32, Vec<u8>)]) -> Vec<u8> {
    // field soup: mostly fields 1 and 2 with sensible wire types, plus unknown fields, groups, junk
    let mut v = vec![];
    let n = rng.usize(5);
    for _ in 0..n {
        match rng.below(12) {
            0 | 1 | 2 => {
                v.push(0x08);
                let t = match rng.below(6) {
                    0 => rng.next_u64(),
                    1 => (1u64 << 32) + rng.below(4),
                    2 => rng.below(8),
                    _ => rng.below(4),
                };
                v.extend(varint(t));
            }
            3 | 4 | 5 => {
                v.push(0x12);
                let (_, d) = rng.pick(valid_keys);
                let mut d = d.clone();
                match rng.below(6) {
                    0 => {
                        let l = rng.usize(d.len() + 1);
                        d.truncate(l)
                    }
                    1 => {
                        let i = rng.usize(d.len());
                        d[i] ^= 1 << rng.below(8)
                    }
                    2 => {
                        let l = rng.usize(40);
                        d = rng.bytes(l)
                    }
                    _ => {}
                }
                let l = d.len() as u64;
                v.extend(varint(if rng.chance(1, 10) { l + rng.range(1, 300) } else { l }));
                v.extend(d);
            }
            6 => {
                // unknown field, any wire type
                let tag = rng.range(3, 40);
                let wt = rng.below(6);
                v.extend(varint(tag << 3 | wt));
                match wt {
                    0 => v.extend(varint(rng.next_u64() >> rng.below(64))),
                    1 => v.extend(rng.bytes(8)),
                    2 => {
                        let l = rng.usize(6);
                        let b = rng.bytes(l);
                        v.extend(varint(b.len() as u64));
                        v.extend(b)
                    }
                    3 => {
                        // a group, possibly nested, closed by the matching end tag (mostly)
                        let depth = rng.usize(4);
                        for d in 0..depth {
                            v.extend(varint((tag + 1 + d as u64) << 3 | 3));
                        }
                        v.extend(varint(5 << 3));
                        v.extend(varint(7));
                        for d in (0..depth).rev() {
                            v.extend(varint((tag + 1 + d as u64) << 3 | 4));
                        }
                        let end = if rng.chance(1, 5) { tag + 1 } else { tag };
                        v.extend(varint(end << 3 | 4));
                    }
                    5 => v.extend(rng.bytes(4)),
                    _ => {}
                }
            }
            7 => v.extend(varint((rng.below(3)) << 3 | rng.below(8))), // wrong wire type / tag 0 / wt 6,7
            8 => {
                let l = rng.usize(12);
                v.extend(rng.bytes(l))
            }
            9 => {
                v.push(0x12);
                v.extend([0xffu8; 9]);
                v.push(rng.below(4) as u8)
            }
            _ => {
                v.push(0x08);
                v.extend([0x80u8; 9]);
                v.push(rng.below(3) as u8)
            }
        }
    }
    v
}

pub fn run(args: &Args, out: &mut Out) {
    if let Some(cases) = args.replay_cases() {
        for (i, (_, ops)) in cases.iter().enumerate() {
            out.case(i as u64, "replay nt=1");
            for op in ops {
                match op[0].as_str() {
                    "frombytes" => op_frombytes(out, &hcore::unhex(&op[1])),
                    "fromstr" => op_fromstr(out, &String::from_utf8(hcore::unhex(&op[1])).expect("utf8")),
                    "decpub" => op_dec(out, false, &hcore::unhex(&op[1])),
                    "decpriv" => op_dec(out, true, &hcore::unhex(&op[1])),
                    "rawdec" => op_rawdec(out, &op[1], &hcore::unhex(&op[2])),
                    "pubkey" => {
                        // rebuild the key from its protobuf encoding
                        let ty: u32 = op[1].parse().unwrap();
                        let data = hcore::unhex(&op[2]);
                        let mut enc = vec![0x08, ty as u8, 0x12];
                        enc.extend(varint(data.len() as u64));
                        enc.extend(data);
                        let pk = PublicKey::try_decode_protobuf(&enc).expect("replay: key");
                        op_pubkey(out, &pk)
                    }
                    "privkey" => {
                        if op[2] == "unsupported" {
                            let mut der = RSA_FIXTURES[0].to_vec();
                            op_privkey(out, &Keypair::rsa_from_pkcs8(&mut der).unwrap())
                        } else {
                            let kp = Keypair::from_protobuf_encoding(&hcore::unhex(&op[2])).expect("replay: keypair");
                            op_privkey(out, &kp)
                        }
                    }
                    other => panic!("replay: unknown op {other}"),
                }
            }
            out.end();
        }
        return;
    }
    let mut idx = 0u64;

    // 1. real keys of every type: encoding, decoding, peer id, bytes/base58 round trips
    let nkeys = args.n(60, 600);
    let mut valid_pub: Vec<(u32, Vec<u8>)> = vec![];
    let mut valid_priv: Vec<(u32, Vec<u8>)> = vec![];
    let mut peer_ids: Vec<PeerId> = vec![];
    for i in 0..nkeys {
        let mut rng = Rng::for_case(args.seed, i);
        let ty = (i % 4) as u32;
        let kp = keypair(&mut rng, ty);
        let pk = kp.public();
        out.case(idx, &format!("key{} nt=1", ty));
        op_pubkey(out, &pk);
        op_privkey(out, &kp);
        let pid = pk.to_peer_id();
        op_frombytes(out, &pid.to_bytes());
        op_fromstr(out, &pid.to_base58());
        out.end();
        idx += 1;
        valid_pub.push(pub_parts(&pk));
        if let Ok(enc) = kp.to_protobuf_encoding() {
            // the Data field of the private key message: strip `08 ty 12 len`
            let (_, d) = split_key_msg(&enc);
            valid_priv.push((ty, d));
        }
        peer_ids.push(pid);
    }
    // keys around the inline threshold do not exist for real key types other than ed25519 (36) and
    // secp256k1 (37); the threshold itself is swept with identity multihashes below.

    // 2. boundary multihashes: identity 0..=64, sha256 0..=65, other codes
    for code in [0u64, 0x12, 0x11, 0x13, 0x16, 0xb220] {
        out.case(idx, "mhsizes nt=1");
        for len in 0..=66usize {
            let mut v = varint(code);
            v.extend(varint(len as u64));
            v.extend(vec![0xabu8; len]);
            op_frombytes(out, &v);
            if len == 42 || len == 43 || len == 32 {
                op_fromstr(out, &bs58_encode(&v));
            }
        }
        out.end();
        idx += 1;
    }
    // 3. varint edge cases in front of a 32-byte digest
    {
        out.case(idx, "varints nt=1");
        let heads: Vec<Vec<u8>> = vec![
            vec![0x92, 0x00],                                                       // non-minimal 0x12
            vec![0x92, 0x80, 0x00],
            vec![0x92, 0x80, 0x80, 0x80, 0x80, 0x80, 0x80, 0x80, 0x80, 0x00],       // 10 bytes, zero tail
            vec![0x92, 0x80, 0x80, 0x80, 0x80, 0x80, 0x80, 0x80, 0x80, 0x01],       // 0x12 + 2^63
            vec![0x92, 0x80, 0x80, 0x80, 0x80, 0x80, 0x80, 0x80, 0x80, 0x02],       // truncated to 0x12
            vec![0x80, 0x80, 0x80, 0x80, 0x80, 0x80, 0x80, 0x80, 0x80, 0x7e],       // truncated to 0
            vec![0x92, 0x80, 0x80, 0x80, 0x80, 0x80, 0x80, 0x80, 0x80, 0x80, 0x01], // 11 bytes
            vec![0x80],
            vec![],
            vec![0x12],
            vec![0x00],
        ];
        for h in heads {
            let mut v = h.clone();
            v.push(32);
            v.extend([7u8; 32]);
            op_frombytes(out, &v);
            op_frombytes(out, &h);
        }
        // the same games with the size varint
        for s in [vec![0xa0u8, 0x00], vec![0xa0, 0x80, 0x80, 0x80, 0x80, 0x80, 0x80, 0x80, 0x80, 0x02]] {
            let mut v = vec![0x12];
            v.extend(s);
            v.extend([7u8; 32]);
            op_frombytes(out, &v);
        }
        out.end();
        idx += 1;
    }
    // 4. base58 strings: valid ids with a character replaced / inserted, bad alphabet, non-ASCII, empty
    {
        out.case(idx, "b58edge nt=1");
        for s in ["", "1", "11", "0", "O", "I", "l", "Qm", "é", "1é", " 1", "1 ", "zzzzzzzzzzzzzzzzzzzzzzzzzzzzzzzzzzzzzzzzzzzzzzzzzzzz"] {
            op_fromstr(out, s);
        }
        out.end();
        idx += 1;
    }
    let n = args.n(6000, 300_000);
    for i in 0..n {
        let mut rng = Rng::for_case(args.seed, 1_000_000 + i);
        match rng.below(6) {
            0 | 1 => {
                out.case(idx, "mhlike nt=1");
                let v = multihash_like(&mut rng);
                op_frombytes(out, &v);
                // and through base58, with leading zero bytes sometimes
                let mut w = v.clone();
                if rng.chance(1, 4) {
                    for _ in 0..rng.usize(3) {
                        w.insert(0, 0);
                    }
                }
                op_fromstr(out, &bs58_encode(&w));
                out.end();
            }
            2 => {
                out.case(idx, "b58mut nt=1");
                let p = rng.pick(&peer_ids);
                let mut s = p.to_base58().into_bytes();
                match rng.below(5) {
                    0 => {
                        let i = rng.usize(s.len());
                        s[i] = *rng.pick(ALPHABET)
                    }
                    1 => {
                        let i = rng.usize(s.len());
                        s[i] = *rng.pick(b"0OIl+/= _")
                    }
                    2 => {
                        let i = rng.usize(s.len() + 1);
                        s.insert(i, *rng.pick(ALPHABET))
                    }
                    3 => {
                        let i = rng.usize(s.len());
                        s.remove(i);
                    }
                    _ => s.insert(0, b'1'),
                }
                op_fromstr(out, std::str::from_utf8(&s).unwrap());
                out.end();
            }
            3 => {
                out.case(idx, "rawbytes nt=1");
                let l = rng.usize(80);
                let v = rng.bytes(l);
                op_frombytes(out, &v);
                op_dec(out, false, &v);
                op_dec(out, true, &v);
                out.end();
            }
            4 => {
                out.case(idx, "pubsoup nt=1");
                let v = protobuf_like(&mut rng, &valid_pub);
                op_dec(out, false, &v);
                out.end();
            }
            _ => {
                out.case(idx, "privsoup nt=1");
                let v = if valid_priv.is_empty() { rng.bytes(8) } else { protobuf_like(&mut rng, &valid_priv) };
                op_dec(out, true, &v);
                out.end();
            }
        }
        idx += 1;
    }
    // 6. structure-aware damage of real key containers, one element at a time
    {
        let full = args.thorough && args.count == 0;
        let mut rng = Rng::for_case(args.seed, 9_000_000);
        // public: RSA SubjectPublicKeyInfo (three fixture keys), ECDSA SubjectPublicKeyInfo
        let mut pubs: Vec<(u64, Vec<u8>)> = vec![];
        for i in 0..(if full { 3 } else { 1 }) {
            let mut der = RSA_FIXTURES[i].to_vec();
            let kp = Keypair::rsa_from_pkcs8(&mut der).expect("fixture");
            pubs.push((0, pub_parts(&kp.public()).1));
        }
        for _ in 0..(if full { 3 } else { 1 }) {
            pubs.push((3, pub_parts(&keypair(&mut rng, 3).public()).1));
        }
        for (ty, der) in &pubs {
            let ds = der_damages(der);
            for chunk in ds.chunks(40) {
                out.case(idx, &format!("derpub{} nt=1", ty));
                for d in chunk {
                    op_dec(out, false, &key_msg(*ty, d));
                    // the same bytes under another key type now and then
                    if rng.chance(1, 12) {
                        op_dec(out, false, &key_msg(rng.below(4), d));
                    }
                }
                out.end();
                idx += 1;
            }
        }
        // hand-made SPKI with an empty / tiny BIT STRING (no unused-bits octet at all)
        {
            out.case(idx, "spkibits nt=1");
            let alg = [0x30u8, 0x0d, 0x06, 0x09, 0x2a, 0x86, 0x48, 0x86, 0xf7, 0x0d, 0x01, 0x01, 0x01, 0x05, 0x00];
            for bits in [vec![], vec![0u8], vec![1], vec![0, 0], vec![0, 0x30], vec![0, 0x30, 0x00], vec![7, 0x80]] {
                for null in [true, false] {
                    let mut a = alg.to_vec();
                    if !null {
                        a.truncate(13);
                        a[1] = 0x0b;
                    }
                    let mut body = a.clone();
                    body.push(0x03);
                    body.push(bits.len() as u8);
                    body.extend(&bits);
                    let mut spki = vec![0x30, body.len() as u8];
                    spki.extend(body);
                    op_dec(out, false, &key_msg(0, &spki));
                    op_dec(out, false, &key_msg(3, &spki));
                }
            }
            out.end();
            idx += 1;
        }
        // private: RSA PKCS#1 (from the PKCS#8 fixture), ECDSA private DER
        let mut privs: Vec<(u64, Vec<u8>)> = vec![(0, pkcs1_of_pkcs8(RSA_FIXTURES[0]))];
        if let Ok(enc) = keypair(&mut rng, 3).to_protobuf_encoding() {
            privs.push((3, split_key_msg(&enc).1));
        }
        for (ty, der) in &privs {
            let ds = der_damages(der);
            let stride = if full || *ty != 0 { 1 } else { 3 };
            let picked: Vec<&Vec<u8>> = ds.iter().step_by(stride).collect();
            for chunk in picked.chunks(40) {
                out.case(idx, &format!("derpriv{} nt=1", ty));
                for d in chunk {
                    op_dec(out, true, &key_msg(*ty, d));
                }
                out.end();
                idx += 1;
            }
        }
        // the non-protobuf decoders: PKCS#8 and SEC1 ECPrivateKey for secp256k1
        {
            let ds = der_damages(RSA_FIXTURES[0]);
            let stride = if full { 1 } else { 4 };
            let picked: Vec<&Vec<u8>> = ds.iter().step_by(stride).collect();
            for chunk in picked.chunks(40) {
                out.case(idx, "derpkcs8 nt=1");
                for d in chunk {
                    op_rawdec(out, "pkcs8", d);
                }
                out.end();
                idx += 1;
            }
            let mut sec1 = vec![0x30, 0x25, 0x02, 0x01, 0x01, 0x04, 0x20];
            sec1.extend(rng.bytes(32));
            out.case(idx, "dersec1 nt=1");
            op_rawdec(out, "secpder", &sec1);
            for d in der_damages(&sec1) {
                op_rawdec(out, "secpder", &d);
            }
            out.end();
            idx += 1;
        }
        // fixed-size keys: ed25519 (32), secp256k1 (33 / 65), their private counterparts (64 / 32)
        {
            let ed = pub_parts(&keypair(&mut rng, 1).public()).1;
            let kp2 = keypair(&mut rng, 2);
            let sp = pub_parts(&kp2.public()).1;
            let sp_unc = kp2.public().try_into_secp256k1().unwrap().to_bytes_uncompressed().to_vec();
            let mut variants: Vec<(u64, Vec<u8>)> = vec![];
            let lens = |v: &Vec<u8>| -> Vec<Vec<u8>> {
                let mut out = vec![vec![], v[..1].to_vec(), v[..v.len() - 1].to_vec(), [v.clone(), vec![0]].concat(), [v.clone(), v.clone()].concat()];
                out.push(vec![0xff; v.len()]);
                out.push(vec![0x00; v.len()]);
                let mut w = v.clone();
                let l = w.len() - 1;
                w[l] ^= 0x80;
                out.push(w);
                out
            };
            for v in lens(&ed) {
                variants.push((1, v));
            }
            // small-order / non-canonical ed25519 encodings
            for first in [0x00u8, 0x01, 0xec, 0xed, 0xee] {
                let mut v = vec![0xffu8; 32];
                v[0] = first;
                v[31] = 0x7f;
                variants.push((1, v.clone()));
                let mut z = vec![0u8; 32];
                z[0] = first;
                variants.push((1, z));
            }
            for base in [&sp, &sp_unc] {
                for v in lens(base) {
                    variants.push((2, v));
                }
                for prefix in [0x00u8, 0x01, 0x02, 0x03, 0x04, 0x05, 0x06, 0x07, 0xff] {
                    let mut v = base.clone();
                    v[0] = prefix;
                    variants.push((2, v));
                }
            }
            // x = field prime and above
            let mut v = vec![0x02u8];
            v.extend([0xff; 32]);
            variants.push((2, v));
            out.case(idx, "fixedpub nt=1");
            for (ty, v) in &variants {
                op_dec(out, false, &key_msg(*ty, v));
            }
            out.end();
            idx += 1;
            let mut pv: Vec<(u64, Vec<u8>)> = vec![];
            for ty in [1u32, 2] {
                if let Ok(enc) = keypair(&mut rng, ty).to_protobuf_encoding() {
                    let d = split_key_msg(&enc).1;
                    for v in lens(&d) {
                        pv.push((ty as u64, v));
                    }
                    if ty == 1 {
                        pv.push((1, d[..32].to_vec())); // secret half only
                        let mut w = d.clone();
                        w[40] ^= 1; // public half does not match the secret half
                        pv.push((1, w));
                    } else {
                        // the group order n and n-1 (big endian)
                        let n = hcore::unhex("fffffffffffffffffffffffffffffffebaaedce6af48a03bbfd25e8cd0364141");
                        pv.push((2, n.clone()));
                        let mut m = n;
                        m[31] -= 1;
                        pv.push((2, m));
                    }
                }
            }
            out.case(idx, "fixedpriv nt=1");
            for (ty, v) in &pv {
                op_dec(out, true, &key_msg(*ty, v));
            }
            out.end();
            idx += 1;
        }
    }
    // 5. deep group nesting (prost's recursion limit)
    {
        out.case(idx, "deepgroups nt=1");
        for depth in [1usize, 50, 99, 100, 101, 150] {
            let mut v = vec![];
            for _ in 0..depth {
                v.push(0x1b); // field 3, start group
            }
            for _ in 0..depth {
                v.push(0x1c); // field 3, end group
            }
            v.extend([0x08, 0x01, 0x12, 0x00]);
            op_dec(out, false, &v);
        }
        out.end();
    }
}

fn split_key_msg(enc: &[u8]) -> (u8, Vec<u8>) {
    // `08 ty 12 <varint len> data`
    let ty = enc[1];
    let mut i = 3;
    while enc[i] & 0x80 != 0 {
        i += 1;
    }
    (ty, enc[i + 1..].to_vec())
}

/// independent base58 encoder (big-number division), so that generated strings do not depend on bs58
fn bs58_encode(bytes: &[u8]) -> String {
    let zeros = bytes.iter().take_while(|b| **b == 0).count();
    let mut digits: Vec<u8> = vec![];
    let mut num: Vec<u8> = bytes[zeros..].to_vec();
    while !num.is_empty() {
        let mut rem = 0u32;
        let mut next = vec![];
        for b in &num {
            let acc = rem * 256 + *b as u32;
            let q = acc / 58;
            rem = acc % 58;
            if !next.is_empty() || q != 0 {
                next.push(q as u8);
            }
        }
        digits.push(rem as u8);
        num = next;
    }
    let mut s = String::new();
    for _ in 0..zeros {
        s.push('1');
    }
    for d in digits.iter().rev() {
        s.push(ALPHABET[*d as usize] as char);
    }
    s
}
