//! Harness binary `h_core <PROP> --seed S --tier T [--count N] [--replay F]`.
//! One module per property (`cNN.rs`, `pub fn run(args: &hcore::Args, out: &mut hcore::Out)`).

mod c20;
mod c21;
mod c22;

fn main() {
    let args = hcore::Args::parse();
    hcore::quiet_panics();
    let mut out = hcore::Out::new();
    match args.prop.as_str() {
        "C20" => c20::run(&args, &mut out),
        "C21" => c21::run(&args, &mut out),
        "C22" => c22::run(&args, &mut out),
        p => {
            let _ = &mut out;
            eprintln!("h_core: unknown property {p}");
            std::process::exit(2);
        }
    }
    #[allow(unreachable_code)]
    out.flush();
}
