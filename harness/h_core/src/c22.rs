//! C22 — `global_only::Transport::dial` vs the Lean model `C22.dial` / the registry Spec.
//!
//! ops:  `dial <maddr> <d|l> <n|r> <ok|unsup|other>`   one dial through the real wrapper around a
//!                                                      recording inner transport
//!       `sweep4 <lo> <hi>` / `sweep6 <lo> <hi>`         dial every address of the range, print the
//!                                                      maximal runs of refused addresses
//! impl: `<class>:<refused|passed> <result> <inner calls>` resp. `runs:<k> <lo-hi,…> anom=<n>`.
//! `<class>` is reporting only (which registry row the leading IP lies in; tier-B rows show up
//! as `either:<row>:passed` / `:refused` in the evidence's output kinds).
use std::{
    io,
    pin::Pin,
    task::{Context, Poll},
};

use futures::FutureExt;
use hcore::{maddr_tok, Args, Multiaddr, Out, Protocol, Rng};
use libp2p_core::{
    transport::{global_only, DialOpts, ListenerId, PortUse, TransportError, TransportEvent},
    Endpoint, Transport,
};

// ---------------------------------------------------------------- recording inner transport

#[derive(Clone, Copy, PartialEq, Eq)]
enum Script {
    Ok,
    Unsup,
    Other,
}

struct Recorder {
    script: Script,
    calls: Vec<(Multiaddr, DialOpts)>,
}

impl Transport for Recorder {
    type Output = ();
    type Error = io::Error;
    type ListenerUpgrade = futures::future::Pending<Result<(), io::Error>>;
    type Dial = futures::future::Ready<Result<(), io::Error>>;

    fn listen_on(&mut self, _id: ListenerId, addr: Multiaddr) -> Result<(), TransportError<io::Error>> {
        Err(TransportError::MultiaddrNotSupported(addr))
    }
    fn remove_listener(&mut self, _id: ListenerId) -> bool {
        false
    }
    fn dial(&mut self, addr: Multiaddr, opts: DialOpts) -> Result<Self::Dial, TransportError<io::Error>> {
        self.calls.push((addr.clone(), opts));
        match self.script {
            Script::Ok => Ok(futures::future::ready(Ok(()))),
            Script::Unsup => Err(TransportError::MultiaddrNotSupported(addr)),
            Script::Other => Err(TransportError::Other(io::Error::other("scripted"))),
        }
    }
    fn poll(self: Pin<&mut Self>, _: &mut Context<'_>) -> Poll<TransportEvent<Self::ListenerUpgrade, io::Error>> {
        Poll::Pending
    }
}

fn opts_of(listener: bool, reuse: bool) -> DialOpts {
    DialOpts {
        role: if listener { Endpoint::Listener } else { Endpoint::Dialer },
        port_use: if reuse { PortUse::Reuse } else { PortUse::New },
    }
}

fn opts_tok(o: &DialOpts) -> String {
    format!(
        "{},{}",
        if o.role == Endpoint::Listener { "l" } else { "d" },
        if o.port_use == PortUse::Reuse { "r" } else { "n" }
    )
}

// ---------------------------------------------------------------- registry rows (reporting only)

struct Row {
    name: &'static str,
    base: u128,
    len: u32,
}

fn v4(a: u32, b: u32, c: u32, d: u32) -> u128 {
    (((a * 256 + b) * 256 + c) * 256 + d) as u128
}

fn v6(s: [u16; 8]) -> u128 {
    s.iter().fold(0u128, |v, x| (v << 16) | *x as u128)
}

fn row(name: &'static str, base: u128, len: u32) -> Row {
    Row { name, base, len }
}

fn non_global4() -> Vec<Row> {
    vec![
        row("0.0.0.0/8", v4(0, 0, 0, 0), 8),
        row("10.0.0.0/8", v4(10, 0, 0, 0), 8),
        row("172.16.0.0/12", v4(172, 16, 0, 0), 12),
        row("192.168.0.0/16", v4(192, 168, 0, 0), 16),
        row("100.64.0.0/10", v4(100, 64, 0, 0), 10),
        row("127.0.0.0/8", v4(127, 0, 0, 0), 8),
        row("169.254.0.0/16", v4(169, 254, 0, 0), 16),
        row("192.0.0.0/24", v4(192, 0, 0, 0), 24),
        row("192.0.2.0/24", v4(192, 0, 2, 0), 24),
        row("198.51.100.0/24", v4(198, 51, 100, 0), 24),
        row("203.0.113.0/24", v4(203, 0, 113, 0), 24),
        row("198.18.0.0/15", v4(198, 18, 0, 0), 15),
        row("240.0.0.0/4", v4(240, 0, 0, 0), 4),
        row("255.255.255.255/32", v4(255, 255, 255, 255), 32),
    ]
}
fn either4() -> Vec<Row> {
    vec![
        row("192.0.0.9/32", v4(192, 0, 0, 9), 32),
        row("192.0.0.10/32", v4(192, 0, 0, 10), 32),
        row("192.88.99.0/24", v4(192, 88, 99, 0), 24),
    ]
}
fn global4() -> Vec<Row> {
    vec![
        row("192.31.196.0/24", v4(192, 31, 196, 0), 24),
        row("192.52.193.0/24", v4(192, 52, 193, 0), 24),
        row("192.175.48.0/24", v4(192, 175, 48, 0), 24),
    ]
}
fn non_global6() -> Vec<Row> {
    vec![
        row("::/128", v6([0, 0, 0, 0, 0, 0, 0, 0]), 128),
        row("::1/128", v6([0, 0, 0, 0, 0, 0, 0, 1]), 128),
        row("::ffff:0:0/96", v6([0, 0, 0, 0, 0, 0xffff, 0, 0]), 96),
        row("64:ff9b:1::/48", v6([0x64, 0xff9b, 1, 0, 0, 0, 0, 0]), 48),
        row("100::/64", v6([0x100, 0, 0, 0, 0, 0, 0, 0]), 64),
        row("2001::/23", v6([0x2001, 0, 0, 0, 0, 0, 0, 0]), 23),
        row("2001:db8::/32", v6([0x2001, 0xdb8, 0, 0, 0, 0, 0, 0]), 32),
        row("fc00::/7", v6([0xfc00, 0, 0, 0, 0, 0, 0, 0]), 7),
        row("fe80::/10", v6([0xfe80, 0, 0, 0, 0, 0, 0, 0]), 10),
    ]
}
fn carve_out6() -> Vec<Row> {
    vec![
        row("2001:1::1/128", v6([0x2001, 1, 0, 0, 0, 0, 0, 1]), 128),
        row("2001:1::2/128", v6([0x2001, 1, 0, 0, 0, 0, 0, 2]), 128),
        row("2001:3::/32", v6([0x2001, 3, 0, 0, 0, 0, 0, 0]), 32),
        row("2001:4:112::/48", v6([0x2001, 4, 0x112, 0, 0, 0, 0, 0]), 48),
        row("2001:20::/28", v6([0x2001, 0x20, 0, 0, 0, 0, 0, 0]), 28),
    ]
}
fn either6() -> Vec<Row> {
    vec![
        row("3fff::/20", v6([0x3fff, 0, 0, 0, 0, 0, 0, 0]), 20),
        row("5f00::/16", v6([0x5f00, 0, 0, 0, 0, 0, 0, 0]), 16),
        row("100:0:0:1::/64", v6([0x100, 0, 0, 1, 0, 0, 0, 0]), 64),
        row("2001:1::3/128", v6([0x2001, 1, 0, 0, 0, 0, 0, 3]), 128),
        row("2001:30::/28", v6([0x2001, 0x30, 0, 0, 0, 0, 0, 0]), 28),
        row("2002::/16", v6([0x2002, 0, 0, 0, 0, 0, 0, 0]), 16),
    ]
}
fn global6() -> Vec<Row> {
    vec![
        row("64:ff9b::/96", v6([0x64, 0xff9b, 0, 0, 0, 0, 0, 0]), 96),
        row("2620:4f:8000::/48", v6([0x2620, 0x4f, 0x8000, 0, 0, 0, 0, 0]), 48),
    ]
}

fn shr(a: u128, k: u32) -> u128 {
    if k >= 128 {
        0
    } else {
        a >> k
    }
}

impl Row {
    fn contains(&self, w: u32, a: u128) -> bool {
        shr(a, w - self.len) == shr(self.base, w - self.len)
    }
    fn first(&self, w: u32) -> u128 {
        let k = w - self.len;
        if k >= 128 {
            0
        } else {
            (self.base >> k) << k
        }
    }
    fn last(&self, w: u32) -> u128 {
        let k = w - self.len;
        if k >= 128 {
            u128::MAX
        } else {
            self.first(w) + ((1u128 << k) - 1)
        }
    }
}

fn row_of<'a>(w: u32, rows: &'a [Row], a: u128) -> Option<&'a Row> {
    rows.iter().find(|r| r.contains(w, a))
}

fn class_of(addr: &Multiaddr) -> String {
    let cls = |w: u32, a: u128, ng: Vec<Row>, ei: Vec<Row>, gl: Vec<Row>, co: Vec<Row>| -> String {
        if let Some(r) = row_of(w, &ei, a) {
            format!("either:{}", r.name)
        } else if let Some(r) = row_of(w, &co, a) {
            format!("carveout:{}", r.name)
        } else if let Some(r) = row_of(w, &ng, a) {
            format!("nonglobal:{}", r.name)
        } else if let Some(r) = row_of(w, &gl, a) {
            format!("globalrow:{}", r.name)
        } else {
            "plain".into()
        }
    };
    match addr.iter().next() {
        Some(Protocol::Ip4(a)) => cls(32, u32::from(a) as u128, non_global4(), either4(), global4(), vec![]),
        Some(Protocol::Ip6(a)) => cls(128, u128::from(a), non_global6(), either6(), global6(), carve_out6()),
        _ => "nonip".into(),
    }
}

// ---------------------------------------------------------------- one dial

fn one_dial(out: &mut Out, addr: &Multiaddr, listener: bool, reuse: bool, script: Script) {
    let st = match script {
        Script::Ok => "ok",
        Script::Unsup => "unsup",
        Script::Other => "other",
    };
    out.op(&format!(
        "dial {} {} {} {}",
        maddr_tok(addr),
        if listener { "l" } else { "d" },
        if reuse { "r" } else { "n" },
        st
    ));
    let r = hcore::guarded(|| {
        let mut t = global_only::Transport::new(Recorder { script, calls: vec![] });
        let res = t.dial(addr.clone(), opts_of(listener, reuse));
        let res_tok = match res {
            Ok(fut) => match fut.now_or_never() {
                Some(Ok(())) => "ok".to_string(),
                Some(Err(_)) => "dial-future-err".to_string(),
                None => "dial-future-pending".to_string(),
            },
            Err(TransportError::MultiaddrNotSupported(a)) => format!("notsupported={}", maddr_tok(&a)),
            Err(TransportError::Other(_)) => "other".to_string(),
        };
        // the wrapper has no accessor for its inner transport: recover the recorder through the
        // Debug-free route — the wrapper is `Clone`/`Default` only; so keep calls in a side channel
        (res_tok, t)
    });
    match r {
        Ok((res_tok, t)) => {
            let calls = take_calls(t);
            let calls_tok = if calls.is_empty() {
                "~".to_string()
            } else {
                calls.iter().map(|(a, o)| format!("{},{}", maddr_tok(a), opts_tok(o))).collect::<Vec<_>>().join(";")
            };
            let tag = if calls.is_empty() { "refused" } else { "passed" };
            out.imp(&format!("{}:{} {} {}", class_of(addr), tag, res_tok, calls_tok));
        }
        Err(m) => out.imp(&format!("panic:{m} panic ~")),
    }
}

thread_local! {
    static CALLS: std::cell::RefCell<Vec<(Multiaddr, DialOpts)>> = const { std::cell::RefCell::new(Vec::new()) };
}

/// the wrapper exposes no accessor for `inner`; the recorder publishes its calls when dropped
impl Drop for Recorder {
    fn drop(&mut self) {
        let calls = std::mem::take(&mut self.calls);
        CALLS.with(|c| *c.borrow_mut() = calls);
    }
}

fn take_calls(t: global_only::Transport<Recorder>) -> Vec<(Multiaddr, DialOpts)> {
    drop(t);
    CALLS.with(|c| std::mem::take(&mut *c.borrow_mut()))
}

// ---------------------------------------------------------------- sweeps

/// light inner transport for sweeps: counts calls and remembers the last one
struct Counter {
    calls: u32,
    last: Option<(Multiaddr, DialOpts)>,
}

impl Transport for Counter {
    type Output = ();
    type Error = io::Error;
    type ListenerUpgrade = futures::future::Pending<Result<(), io::Error>>;
    type Dial = futures::future::Ready<Result<(), io::Error>>;
    fn listen_on(&mut self, _id: ListenerId, addr: Multiaddr) -> Result<(), TransportError<io::Error>> {
        Err(TransportError::MultiaddrNotSupported(addr))
    }
    fn remove_listener(&mut self, _id: ListenerId) -> bool {
        false
    }
    fn dial(&mut self, addr: Multiaddr, opts: DialOpts) -> Result<Self::Dial, TransportError<io::Error>> {
        self.calls += 1;
        self.last = Some((addr, opts));
        Ok(futures::future::ready(Ok(())))
    }
    fn poll(self: Pin<&mut Self>, _: &mut Context<'_>) -> Poll<TransportEvent<Self::ListenerUpgrade, io::Error>> {
        Poll::Pending
    }
}

thread_local! {
    static COUNTER_OUT: std::cell::RefCell<(u32, Option<(Multiaddr, DialOpts)>)> = const { std::cell::RefCell::new((0, None)) };
}

impl Drop for Counter {
    fn drop(&mut self) {
        let v = (self.calls, self.last.take());
        COUNTER_OUT.with(|c| *c.borrow_mut() = v);
    }
}

fn addr_of(w: u32, a: u128) -> Multiaddr {
    let first = if w == 32 {
        Protocol::Ip4(std::net::Ipv4Addr::from(a as u32))
    } else {
        Protocol::Ip6(std::net::Ipv6Addr::from(a))
    };
    Multiaddr::empty().with(first).with(Protocol::Tcp((a & 0xffff) as u16))
}

/// dial every address of `[lo, hi]`; returns (refused runs, anomalies)
fn sweep(w: u32, lo: u128, hi: u128) -> (Vec<(u128, u128)>, u64) {
    let mut runs: Vec<(u128, u128)> = vec![];
    let mut anom = 0u64;
    let mut a = lo;
    loop {
        let addr = addr_of(w, a);
        let opts = opts_of(a & 1 == 1, a & 2 == 2);
        let mut t = global_only::Transport::new(Counter { calls: 0, last: None });
        let res = t.dial(addr.clone(), opts);
        drop(t);
        let (calls, last) = COUNTER_OUT.with(|c| std::mem::take(&mut *c.borrow_mut()));
        let refused = match res {
            Err(TransportError::MultiaddrNotSupported(back)) => {
                if calls != 0 || back != addr {
                    anom += 1;
                }
                true
            }
            Ok(_) => {
                let same = match &last {
                    Some((la, lo_)) => *la == addr && lo_.role == opts.role && lo_.port_use == opts.port_use,
                    None => false,
                };
                if calls != 1 || !same {
                    anom += 1;
                }
                false
            }
            Err(TransportError::Other(_)) => {
                anom += 1;
                false
            }
        };
        if refused {
            match runs.last_mut() {
                Some(r) if r.1 + 1 == a => r.1 = a,
                _ => runs.push((a, a)),
            }
        }
        if a == hi {
            break;
        }
        a += 1;
    }
    (runs, anom)
}

fn runs_tok(runs: &[(u128, u128)]) -> String {
    if runs.is_empty() {
        "-".into()
    } else {
        runs.iter().map(|(x, y)| format!("{x}-{y}")).collect::<Vec<_>>().join(",")
    }
}

fn one_sweep(out: &mut Out, w: u32, lo: u128, hi: u128) {
    out.op(&format!("sweep{} {} {}", if w == 32 { 4 } else { 6 }, lo, hi));
    match hcore::guarded(|| sweep(w, lo, hi)) {
        Ok((runs, anom)) => out.imp(&format!("runs:{} {} anom={}", runs.len(), runs_tok(&runs), anom)),
        Err(m) => out.imp(&format!("panic:{m} - anom=panic")),
    }
}

// ---------------------------------------------------------------- generators

fn all_rows(w: u32) -> Vec<Row> {
    let mut v = vec![];
    if w == 32 {
        v.extend(non_global4());
        v.extend(either4());
        v.extend(global4());
    } else {
        v.extend(non_global6());
        v.extend(carve_out6());
        v.extend(either6());
        v.extend(global6());
    }
    v
}

fn max_of(w: u32) -> u128 {
    if w == 32 {
        u32::MAX as u128
    } else {
        u128::MAX
    }
}

/// first-2 … first+2 and last-2 … last+2 of every row (inside the address space)
fn boundary_points(w: u32) -> Vec<u128> {
    let mut pts = vec![0, 1, max_of(w), max_of(w) - 1];
    for r in all_rows(w) {
        for b in [r.first(w), r.last(w)] {
            for d in 0..=2u128 {
                if let Some(x) = b.checked_sub(d) {
                    pts.push(x);
                }
                if let Some(x) = b.checked_add(d) {
                    if x <= max_of(w) {
                        pts.push(x);
                    }
                }
            }
        }
    }
    pts.sort();
    pts.dedup();
    pts
}

fn tails() -> Vec<Vec<Protocol<'static>>> {
    vec![
        vec![],
        vec![Protocol::Tcp(4001)],
        vec![Protocol::Udp(9), Protocol::QuicV1],
        vec![Protocol::Tcp(1), Protocol::P2p(hcore::peer(2))],
        // a second, non-global IP later in the address must not matter
        vec![Protocol::Ip4([10, 0, 0, 1].into()), Protocol::Tcp(2)],
        vec![Protocol::Tcp(443), Protocol::Tls, Protocol::Ws("/".into()), Protocol::P2p(hcore::peer(3))],
        vec![Protocol::Ip6("2a00::1".parse().unwrap()), Protocol::Udp(1)],
    ]
}

fn non_ip_firsts() -> Vec<Protocol<'static>> {
    vec![
        Protocol::Dns("example.com".into()),
        Protocol::Dns4("a.b".into()),
        Protocol::Dns6("x".into()),
        Protocol::Dnsaddr("bootstrap.libp2p.io".into()),
        Protocol::Tcp(4001),
        Protocol::Udp(1),
        Protocol::QuicV1,
        Protocol::P2p(hcore::peer(1)),
        Protocol::Memory(7),
        Protocol::P2pCircuit,
        Protocol::Ip6zone("eth0".into()),
        Protocol::Tls,
        Protocol::Unix("/tmp/s".into()),
        Protocol::Onion3(([7u8; 35], 80).into()),
    ]
}

fn build(first: Option<Protocol<'static>>, tail: &[Protocol<'static>]) -> Multiaddr {
    let mut a = Multiaddr::empty();
    if let Some(f) = first {
        a.push(f);
    }
    for p in tail {
        a.push(p.clone());
    }
    a
}

fn ip_proto(w: u32, a: u128) -> Protocol<'static> {
    if w == 32 {
        Protocol::Ip4(std::net::Ipv4Addr::from(a as u32))
    } else {
        Protocol::Ip6(std::net::Ipv6Addr::from(a))
    }
}

fn script_of(i: u64) -> Script {
    match i % 3 {
        0 => Script::Ok,
        1 => Script::Unsup,
        _ => Script::Other,
    }
}

pub fn run(args: &Args, out: &mut Out) {
    if let Some(cases) = args.replay_cases() {
        for (i, (_, ops)) in cases.iter().enumerate() {
            out.case(i as u64, "replay nt=1");
            for op in ops {
                match op[0].as_str() {
                    "dial" => {
                        let a = parse_tok(&op[1]);
                        let sc = match op[4].as_str() {
                            "ok" => Script::Ok,
                            "unsup" => Script::Unsup,
                            _ => Script::Other,
                        };
                        one_dial(out, &a, op[2] == "l", op[3] == "r", sc);
                    }
                    "sweep4" => one_sweep(out, 32, op[1].parse().unwrap(), op[2].parse().unwrap()),
                    "sweep6" => one_sweep(out, 128, op[1].parse().unwrap(), op[2].parse().unwrap()),
                    other => panic!("replay: unknown op {other}"),
                }
            }
            out.end();
        }
        return;
    }
    let tails = tails();
    let mut idx = 0u64;

    // 1. non-IP first components and the empty address
    {
        let mut k = 0u64;
        let mut firsts: Vec<Option<Protocol<'static>>> = vec![None];
        firsts.extend(non_ip_firsts().into_iter().map(Some));
        for f in firsts {
            for t in tails.iter().take(5) {
                out.case(idx, "nonip nt=1");
                one_dial(out, &build(f.clone(), t), k & 1 == 1, k & 2 == 2, script_of(k));
                out.end();
                idx += 1;
                k += 1;
            }
        }
    }

    // 2. both sides of every prefix boundary, every row, both families
    for w in [32u32, 128] {
        let pts = boundary_points(w);
        for (k, a) in pts.iter().enumerate() {
            let k = k as u64;
            out.case(idx, &format!("boundary{} nt=1", if w == 32 { 4 } else { 6 }));
            one_dial(out, &build(Some(ip_proto(w, *a)), &tails[(k % tails.len() as u64) as usize]), k & 1 == 1, k & 2 == 2, script_of(k));
            // and with the canonical inner transport, so every boundary is also seen "passed → ok"
            one_dial(out, &build(Some(ip_proto(w, *a)), &tails[1]), false, true, Script::Ok);
            out.end();
            idx += 1;
        }
    }

    // 3. single-bit flips of every row's first and last address
    for w in [32u32, 128] {
        for r in all_rows(w) {
            for b in [r.first(w), r.last(w)] {
                out.case(idx, &format!("bitflip{} nt=1", if w == 32 { 4 } else { 6 }));
                for bit in 0..w {
                    let a = b ^ (1u128 << bit);
                    one_dial(out, &build(Some(ip_proto(w, a)), &tails[1]), bit & 1 == 1, bit & 2 == 2, script_of(bit as u64));
                }
                out.end();
                idx += 1;
            }
        }
    }

    // 4. random: uniform, and a random suffix inside / just around a random row
    let n = args.n(20_000, 1_000_000);
    for i in 0..n {
        let mut rng = Rng::for_case(args.seed, i);
        let w = if rng.bool() { 32 } else { 128 };
        let mut a = ((rng.next_u64() as u128) << 64) | rng.next_u64() as u128;
        let cls;
        if rng.chance(1, 3) {
            cls = "uniform";
        } else {
            cls = "nearrow";
            let rows = all_rows(w);
            let r = rng.pick(&rows);
            let k = w - r.len;
            let mask = if k == 0 { 0 } else if k >= 128 { u128::MAX } else { (1u128 << k) - 1 };
            a = r.first(w) | (a & mask);
            if rng.chance(1, 4) && r.len > 0 {
                // flip one bit of the prefix itself: a near miss
                let bit = w - 1 - rng.below(r.len as u64) as u32;
                a ^= 1u128 << bit;
            }
        }
        a &= max_of(w);
        let t = rng.pick(&tails).clone();
        out.case(idx, &format!("{}{} nt=1", cls, if w == 32 { 4 } else { 6 }));
        one_dial(out, &build(Some(ip_proto(w, a)), &t), rng.bool(), rng.bool(), script_of(rng.below(3)));
        out.end();
        idx += 1;
    }

    // 5. sweeps
    if args.thorough && args.count == 0 {
        // the entire IPv4 space: 256 chunks of 2^24 addresses, dialled on all cores
        let chunks: Vec<(u128, u128)> = (0..256u128).map(|c| (c << 24, (c << 24) + ((1 << 24) - 1))).collect();
        let results: Vec<Result<(Vec<(u128, u128)>, u64), String>> = {
            let nthreads = std::thread::available_parallelism().map(|n| n.get()).unwrap_or(4).min(16);
            let next = std::sync::atomic::AtomicUsize::new(0);
            let slots: Vec<std::sync::Mutex<Option<Result<(Vec<(u128, u128)>, u64), String>>>> =
                (0..chunks.len()).map(|_| std::sync::Mutex::new(None)).collect();
            std::thread::scope(|s| {
                for _ in 0..nthreads {
                    s.spawn(|| loop {
                        let i = next.fetch_add(1, std::sync::atomic::Ordering::SeqCst);
                        if i >= chunks.len() {
                            break;
                        }
                        let (lo, hi) = chunks[i];
                        let r = hcore::guarded(|| sweep(32, lo, hi));
                        *slots[i].lock().unwrap() = Some(r);
                    });
                }
            });
            slots.into_iter().map(|m| m.into_inner().unwrap().unwrap()).collect()
        };
        for ((lo, hi), r) in chunks.iter().zip(results) {
            out.case(idx, "sweep4full nt=1");
            out.op(&format!("sweep4 {} {}", lo, hi));
            match r {
                Ok((runs, anom)) => out.imp(&format!("runs:{} {} anom={}", runs.len(), runs_tok(&runs), anom)),
                Err(m) => out.imp(&format!("panic:{m} - anom=panic")),
            }
            out.end();
            idx += 1;
        }
    }
    // windows around every boundary (both families); radius 2^12 quick / 2^16 thorough
    let radius: u128 = if args.thorough { 1 << 16 } else { 1 << 12 };
    for w in [32u32, 128] {
        let mut centres: Vec<u128> = vec![];
        for r in all_rows(w) {
            centres.push(r.first(w));
            centres.push(r.last(w));
        }
        centres.sort();
        centres.dedup();
        for c in centres {
            let lo = c.saturating_sub(radius);
            let hi = if max_of(w) - c < radius { max_of(w) } else { c + radius };
            out.case(idx, &format!("window{} nt=1", if w == 32 { 4 } else { 6 }));
            one_sweep(out, w, lo, hi);
            out.end();
            idx += 1;
        }
    }
}

/// inverse of `maddr_tok` (replay only)
fn parse_tok(tok: &str) -> Multiaddr {
    let mut a = Multiaddr::empty();
    if tok == "-" {
        return a;
    }
    for c in tok.split('/') {
        let mut it = c.splitn(2, ':');
        let name = it.next().unwrap();
        let v = it.next().unwrap_or("");
        let s = |v: &str| String::from_utf8(hcore::unhex(v)).unwrap();
        if name == "other" {
            // other:<hex name>:<hex of the binary encoding of the whole component>
            let payload = v.splitn(2, ':').nth(1).unwrap_or("");
            let single = Multiaddr::try_from(hcore::unhex(payload)).expect("replay: component bytes");
            for p in single.iter() {
                a.push(p.acquire());
            }
            continue;
        }
        a.push(match name {
            "ip4" => Protocol::Ip4(v.parse::<u32>().unwrap().into()),
            "ip6" => Protocol::Ip6(v.parse::<u128>().unwrap().into()),
            "dns" => Protocol::Dns(s(v).into()),
            "dns4" => Protocol::Dns4(s(v).into()),
            "dns6" => Protocol::Dns6(s(v).into()),
            "dnsaddr" => Protocol::Dnsaddr(s(v).into()),
            "tcp" => Protocol::Tcp(v.parse().unwrap()),
            "udp" => Protocol::Udp(v.parse().unwrap()),
            "p2p" => Protocol::P2p(libp2p_core::PeerId::from_bytes(&hcore::unhex(v)).unwrap()),
            "quic" => Protocol::Quic,
            "quic-v1" => Protocol::QuicV1,
            "p2p-circuit" => Protocol::P2pCircuit,
            "ws" => Protocol::Ws("/".into()),
            "wss" => Protocol::Wss("/".into()),
            "tls" => Protocol::Tls,
            "webtransport" => Protocol::WebTransport,
            "webrtc-direct" => Protocol::WebRTCDirect,
            "memory" => Protocol::Memory(v.parse().unwrap()),
            "ip6zone" => Protocol::Ip6zone(s(v).into()),
            other => panic!("replay: unsupported component {other}"),
        });
    }
    a
}
