//! Harness binary `h_noise <PROP> --seed S --tier T [--count N] [--replay F]`.
//! One module per property (`cNN.rs`, `pub fn run(args: &hcore::Args, out: &mut hcore::Out)`).

mod c16;
mod c17;

fn main() {
    let args = hcore::Args::parse();
    hcore::quiet_panics();
    if std::env::var_os("H_NOISE_PANICS").is_some() {
        std::panic::set_hook(Box::new(|i| eprintln!("{i}")));
    }
    let mut out = hcore::Out::new();
    match args.prop.as_str() {
        "C16" => c16::run(&args, &mut out),
        "C17" => c17::run(&args, &mut out),
        p => {
            let _ = &mut out;
            eprintln!("h_noise: unknown property {p}");
            std::process::exit(2);
        }
    }
    #[allow(unreachable_code)]
    out.flush();
}
