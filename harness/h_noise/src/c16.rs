//! C16 — Noise handshake authenticates exactly the remote identity.
//!
//! Real code under test: `libp2p_noise::Config::{new, with_prologue}` + `upgrade_outbound` /
//! `upgrade_inbound`.
//! * `mitm`: two REAL endpoints, the harness pipe is a man in the middle acting on the three
//!   handshake frames (flip/truncate/cut/drop/duplicate/replay/swap), optionally differing prologues.
//! * `mal`: one REAL endpoint against a malicious endpoint built here from raw `snow` (correct XX
//!   with its own static key) presenting a crafted identity payload (spliced keys/signatures).
//! See `Driver/C16.lean` for the op grammar.

use crate::c17::{lock, new_shared, poll_once, End, Shared};
use libp2p_core::upgrade::{InboundConnectionUpgrade, OutboundConnectionUpgrade};
use libp2p_core::PeerId;
use libp2p_identity as identity;
use libp2p_noise as noise;
use std::future::Future;
use std::pin::Pin;
use std::sync::{Arc, Mutex};
use std::task::Poll;

type HsFut = Pin<Box<dyn Future<Output = Result<(PeerId, noise::Output<End>), noise::Error>> + Send>>;

const KTS: &[&str] = &["ed", "rsa", "secp", "ecdsa"];
const STATIC_KEY_DOMAIN: &[u8] = b"noise-libp2p-static-key:";

fn repo_root() -> String {
    let alt = format!("{}/../../repo", env!("CARGO_MANIFEST_DIR"));
    if std::path::Path::new(&format!("{alt}/identity/src/test/rsa-2048.pk8")).exists() {
        alt
    } else {
        "/repo".into()
    }
}

/// identity keypair of type `kt` for principal slot `slot` (distinct slots = distinct keys)
fn keypair(kt: &str, slot: usize) -> identity::Keypair {
    match kt {
        "ed" => {
            let mut sk = [0u8; 32];
            sk[0] = slot as u8 + 1;
            sk[31] = 0x16;
            identity::Keypair::ed25519_from_bytes(sk).unwrap()
        }
        "rsa" => {
            let f = ["rsa-2048.pk8", "rsa-3072.pk8", "rsa-4096.pk8"][slot % 3];
            let mut der = std::fs::read(format!("{}/identity/src/test/{f}", repo_root())).expect("rsa test key");
            identity::Keypair::rsa_from_pkcs8(&mut der).unwrap()
        }
        "secp" => identity::Keypair::generate_secp256k1(),
        "ecdsa" => identity::Keypair::generate_ecdsa(),
        _ => panic!("key type"),
    }
}

fn err_class(e: &noise::Error) -> String {
    match e {
        noise::Error::Io(e) => match e.kind() {
            std::io::ErrorKind::InvalidData => "Io:InvalidData".into(),
            std::io::ErrorKind::UnexpectedEof => "Io:UnexpectedEof".into(),
            _ => "Io:Other".into(),
        },
        noise::Error::Noise(_) => "Noise".into(),
        noise::Error::InvalidKey(_) => "InvalidKey".into(),
        noise::Error::InvalidLength => "InvalidLength".into(),
        noise::Error::UnexpectedKey => "UnexpectedKey".into(),
        noise::Error::BadSignature => "BadSignature".into(),
        noise::Error::AuthenticationFailed => "AuthenticationFailed".into(),
        noise::Error::InvalidPayload(_) => "InvalidPayload".into(),
        noise::Error::SigningError(_) => "SigningError".into(),
        noise::Error::UnknownWebTransportCerthashes(_, _) => "Certhashes".into(),
        _ => "Other".into(),
    }
}

fn res_tok(r: &Result<(PeerId, noise::Output<End>), noise::Error>, names: &[(PeerId, u32)]) -> String {
    match r {
        Ok((p, _)) => format!("ok:{}", names.iter().find(|(q, _)| q == p).map(|(_, n)| *n).unwrap_or(9)),
        Err(e) => format!("err:{}", err_class(e)),
    }
}

/// split a byte string into u16-length-prefixed frames (whole frames only) + rest
fn frames_of(bytes: &[u8]) -> (Vec<Vec<u8>>, Vec<u8>) {
    let mut out = vec![];
    let mut p = 0;
    while p + 2 <= bytes.len() {
        let l = ((bytes[p] as usize) << 8) | bytes[p + 1] as usize;
        if p + 2 + l > bytes.len() {
            break;
        }
        out.push(bytes[p..p + 2 + l].to_vec());
        p += 2 + l;
    }
    (out, bytes[p..].to_vec())
}

#[derive(Clone, Debug)]
enum Act {
    None,
    /// (message k, [(pos, mask)])
    Flips(Vec<(usize, usize, usize)>),
    Trunc(usize, usize),
    CutStream(usize, usize),
    Drop(usize),
    Dup(usize),
    /// replace message k by message j of an independent honest session
    Splice(usize, usize),
}

struct MitmOut {
    lens: [usize; 3],
    res: [String; 2],
}

/// run two real endpoints; `other` = frames of an independent session (for Splice)
fn run_mitm(ka: &identity::Keypair, kb: &identity::Keypair, pro_eq: bool, act: &Act, other: Option<&[Vec<u8>; 3]>) -> (MitmOut, [Vec<u8>; 3]) {
    let sh = new_shared();
    let pa = b"verif-prologue".to_vec();
    let pb = if pro_eq { pa.clone() } else { b"verif-prologue2".to_vec() };
    let mut fa: Option<HsFut> = Some(noise::Config::new(ka).unwrap().with_prologue(pa).upgrade_outbound(End { sh: sh.clone(), side: 0 }, "/noise"));
    let mut fb: Option<HsFut> = Some(noise::Config::new(kb).unwrap().with_prologue(pb).upgrade_inbound(End { sh: sh.clone(), side: 1 }, "/noise"));
    let names = [(ka.public().to_peer_id(), 1u32), (kb.public().to_peer_id(), 2u32)];
    let mut res: [Option<String>; 2] = [None, None];
    let mut taken = [0usize; 2];
    let mut cut = [false; 2];
    let mut lens = [0usize; 3];
    let mut honest: [Vec<u8>; 3] = [vec![], vec![], vec![]];
    let mut sent_from = [0usize; 2]; // frames seen so far from each side
    let forward = |from: usize, sh: &Arc<Mutex<Shared>>, taken: &mut [usize; 2], cut: &mut [bool; 2], lens: &mut [usize; 3], honest: &mut [Vec<u8>; 3], sent_from: &mut [usize; 2]| -> bool {
        let new: Vec<u8> = {
            let s = lock(sh);
            s.wire[from][taken[from]..].to_vec()
        };
        if new.is_empty() {
            return false;
        }
        let (frames, rest) = frames_of(&new);
        assert!(rest.is_empty(), "endpoint wrote a partial frame");
        taken[from] += new.len();
        for f in frames {
            // message number: dialer sends 1 and 3, listener sends 2
            let k = if from == 0 { 1 + 2 * sent_from[0] } else { 2 };
            sent_from[from] += 1;
            if (1..=3).contains(&k) {
                lens[k - 1] = f.len() - 2;
                honest[k - 1] = f.clone();
            }
            let mut deliver: Vec<u8> = f.clone();
            match act {
                Act::None => {}
                Act::Flips(fl) => {
                    for (kk, pos, mask) in fl {
                        if *kk == k && *pos < deliver.len() {
                            deliver[*pos] ^= *mask as u8;
                        }
                    }
                }
                Act::Trunc(kk, n) => {
                    if *kk == k && *n < f.len() - 2 {
                        deliver = vec![(*n >> 8) as u8, (*n & 0xff) as u8];
                        deliver.extend_from_slice(&f[2..2 + n]);
                    }
                }
                Act::CutStream(kk, n) => {
                    if *kk == k {
                        deliver.truncate((*n).min(f.len().saturating_sub(1)));
                        let mut s = lock(sh);
                        if !cut[from] {
                            s.inbox[1 - from].extend(deliver.iter().copied());
                        }
                        cut[from] = true;
                        continue;
                    }
                }
                Act::Drop(kk) => {
                    if *kk == k {
                        continue;
                    }
                }
                Act::Dup(kk) => {
                    if *kk == k {
                        let d2 = deliver.clone();
                        deliver.extend(d2);
                    }
                }
                Act::Splice(kk, j) => {
                    if *kk == k {
                        deliver = other.expect("other session")[*j - 1].clone();
                    }
                }
            }
            if !cut[from] {
                lock(sh).inbox[1 - from].extend(deliver);
            }
        }
        true
    };
    let mut eof_set = false;
    for _round in 0..12 {
        let mut progress = false;
        if let Some(f) = fa.as_mut() {
            if let Poll::Ready(r) = poll_once(f.as_mut()) {
                res[0] = Some(res_tok(&r, &names));
                fa = None;
                progress = true;
            }
        }
        progress |= forward(0, &sh, &mut taken, &mut cut, &mut lens, &mut honest, &mut sent_from);
        if let Some(f) = fb.as_mut() {
            if let Poll::Ready(r) = poll_once(f.as_mut()) {
                res[1] = Some(res_tok(&r, &names));
                fb = None;
                progress = true;
            }
        }
        progress |= forward(1, &sh, &mut taken, &mut cut, &mut lens, &mut honest, &mut sent_from);
        if fa.is_none() && fb.is_none() {
            break;
        }
        if !progress {
            if eof_set {
                break;
            }
            // quiescent: nothing more will ever arrive
            let mut s = lock(&sh);
            s.eof = [true, true];
            eof_set = true;
        }
    }
    let r0 = res[0].clone().unwrap_or_else(|| "stuck".into());
    let r1 = res[1].clone().unwrap_or_else(|| "stuck".into());
    (MitmOut { lens, res: [r0, r1] }, honest)
}

// ---------------------------------------------------------------- malicious endpoint (raw snow)

struct XDh {
    sk: [u8; 32],
    pk: [u8; 32],
}
impl snow::types::Dh for XDh {
    fn name(&self) -> &'static str {
        "25519"
    }
    fn pub_len(&self) -> usize {
        32
    }
    fn priv_len(&self) -> usize {
        32
    }
    fn set(&mut self, sk: &[u8]) {
        self.sk.copy_from_slice(&sk[..32]);
        self.pk = x25519_dalek::x25519(self.sk, x25519_dalek::X25519_BASEPOINT_BYTES);
    }
    fn generate(&mut self, rng: &mut dyn snow::types::Random) -> Result<(), snow::Error> {
        let mut sk = [0u8; 32];
        rng.try_fill_bytes(&mut sk)?;
        self.set(&sk);
        Ok(())
    }
    fn pubkey(&self) -> &[u8] {
        &self.pk
    }
    fn privkey(&self) -> &[u8] {
        &self.sk
    }
    fn dh(&self, pk: &[u8], out: &mut [u8]) -> Result<(), snow::Error> {
        let mut p = [0u8; 32];
        p.copy_from_slice(&pk[..32]);
        out[..32].copy_from_slice(&x25519_dalek::x25519(self.sk, p));
        Ok(())
    }
}

struct XRng(hcore::Rng);
impl snow::types::Random for XRng {
    fn try_fill_bytes(&mut self, dest: &mut [u8]) -> Result<(), snow::Error> {
        for b in dest.iter_mut() {
            *b = self.0.next_u64() as u8;
        }
        Ok(())
    }
}

struct XResolver(u64);
impl snow::resolvers::CryptoResolver for XResolver {
    fn resolve_rng(&self) -> Option<Box<dyn snow::types::Random>> {
        Some(Box::new(XRng(hcore::Rng::new(self.0))))
    }
    fn resolve_dh(&self, choice: &snow::params::DHChoice) -> Option<Box<dyn snow::types::Dh>> {
        if let snow::params::DHChoice::Curve25519 = choice {
            Some(Box::new(XDh { sk: [0; 32], pk: [0; 32] }))
        } else {
            None
        }
    }
    fn resolve_hash(&self, choice: &snow::params::HashChoice) -> Option<Box<dyn snow::types::Hash>> {
        snow::resolvers::RingResolver.resolve_hash(choice)
    }
    fn resolve_cipher(&self, choice: &snow::params::CipherChoice) -> Option<Box<dyn snow::types::Cipher>> {
        snow::resolvers::RingResolver.resolve_cipher(choice)
    }
}

fn pb_field(tag: u8, data: &[u8], out: &mut Vec<u8>) {
    if data.is_empty() {
        return;
    }
    out.push(tag);
    let mut n = data.len();
    loop {
        let b = (n & 0x7f) as u8;
        n >>= 7;
        if n == 0 {
            out.push(b);
            break;
        }
        out.push(b | 0x80);
    }
    out.extend_from_slice(data);
}

/// `NoiseHandshakePayload { identity_key = 1, identity_sig = 2 }`
fn pb_payload(key: &[u8], sig: &[u8]) -> Vec<u8> {
    let mut v = vec![];
    pb_field(0x0a, key, &mut v);
    pb_field(0x12, sig, &mut v);
    v
}

/// fields 1 and 2 of an encoded payload
fn pb_parse(mut b: &[u8]) -> (Vec<u8>, Vec<u8>) {
    let (mut key, mut sig) = (vec![], vec![]);
    while b.len() >= 2 {
        let tag = b[0];
        let mut n = 0usize;
        let mut sh = 0;
        let mut i = 1;
        while i < b.len() {
            n |= ((b[i] & 0x7f) as usize) << sh;
            sh += 7;
            i += 1;
            if b[i - 1] & 0x80 == 0 {
                break;
            }
        }
        if i + n > b.len() {
            break;
        }
        match tag {
            0x0a => key = b[i..i + n].to_vec(),
            0x12 => sig = b[i..i + n].to_vec(),
            _ => {}
        }
        b = &b[i + n..];
    }
    (key, sig)
}

fn frame(body: &[u8]) -> Vec<u8> {
    let mut v = vec![(body.len() >> 8) as u8, (body.len() & 0xff) as u8];
    v.extend_from_slice(body);
    v
}

struct Attacker {
    hs: snow::HandshakeState,
    static_pub: Vec<u8>,
}

fn attacker(initiator: bool, seed: u64) -> Attacker {
    let params: snow::params::NoiseParams = "Noise_XX_25519_ChaChaPoly_SHA256".parse().unwrap();
    let kp = snow::Builder::with_resolver(params.clone(), Box::new(XResolver(seed))).generate_keypair().unwrap();
    let b = snow::Builder::with_resolver(params, Box::new(XResolver(seed ^ 0x5555))).local_private_key(&kp.private).unwrap().prologue(b"").unwrap();
    let hs = if initiator { b.build_initiator().unwrap() } else { b.build_responder().unwrap() };
    Attacker { hs, static_pub: kp.public }
}

/// drive one REAL endpoint against the attacker; `payload(static_pub)` builds the identity payload.
/// Returns (real endpoint's result, identity payload received from the real endpoint if any).
fn run_mal(real: &identity::Keypair, real_is_dialer: bool, seed: u64, names: &[(PeerId, u32)], payload: &dyn Fn(&[u8]) -> Vec<u8>) -> (String, Option<Vec<u8>>) {
    let sh = new_shared();
    let mut att = attacker(!real_is_dialer, seed);
    let cfg = noise::Config::new(real).unwrap();
    let mut fut: HsFut = if real_is_dialer { cfg.upgrade_outbound(End { sh: sh.clone(), side: 0 }, "/noise") } else { cfg.upgrade_inbound(End { sh: sh.clone(), side: 0 }, "/noise") };
    let mut taken = 0usize;
    let mut buf = vec![0u8; 70000];
    let mut out = vec![0u8; 70000];
    let mut got_payload = None;
    let mut result: Option<String> = None;
    let take_frame = |sh: &Arc<Mutex<Shared>>, taken: &mut usize| -> Option<Vec<u8>> {
        let s = lock(sh);
        let (fr, _) = frames_of(&s.wire[0][*taken..]);
        fr.first().map(|f| {
            *taken += f.len();
            f[2..].to_vec()
        })
    };
    let pl = payload(&att.static_pub.clone());
    if real_is_dialer {
        // -> e
        if let Poll::Ready(r) = poll_once(fut.as_mut()) {
            return (res_tok(&r, names), None);
        }
        let m1 = take_frame(&sh, &mut taken).expect("message 1");
        att.hs.read_message(&m1, &mut buf).expect("attacker reads message 1");
        // <- e, ee, s, es + crafted payload
        let n = att.hs.write_message(&pl, &mut out).expect("attacker writes message 2");
        lock(&sh).inbox[0].extend(frame(&out[..n]));
        if let Poll::Ready(r) = poll_once(fut.as_mut()) {
            result = Some(res_tok(&r, names));
        }
        // -> s, se + the real endpoint's identity payload (only if it went on)
        if let Some(m3) = take_frame(&sh, &mut taken) {
            if let Ok(k) = att.hs.read_message(&m3, &mut buf) {
                got_payload = Some(buf[..k].to_vec());
            }
        }
    } else {
        // -> e
        let n = att.hs.write_message(&[], &mut out).expect("attacker writes message 1");
        lock(&sh).inbox[0].extend(frame(&out[..n]));
        if let Poll::Ready(r) = poll_once(fut.as_mut()) {
            return (res_tok(&r, names), None);
        }
        // <- e, ee, s, es + the real endpoint's payload
        let m2 = take_frame(&sh, &mut taken).expect("message 2");
        let k = att.hs.read_message(&m2, &mut buf).expect("attacker reads message 2");
        got_payload = Some(buf[..k].to_vec());
        // -> s, se + crafted payload
        let n = att.hs.write_message(&pl, &mut out).expect("attacker writes message 3");
        lock(&sh).inbox[0].extend(frame(&out[..n]));
        if let Poll::Ready(r) = poll_once(fut.as_mut()) {
            result = Some(res_tok(&r, names));
        }
    }
    if result.is_none() {
        lock(&sh).eof = [true, true];
        if let Poll::Ready(r) = poll_once(fut.as_mut()) {
            result = Some(res_tok(&r, names));
        }
    }
    (result.unwrap_or_else(|| "stuck".into()), got_payload)
}

fn mal_case(role: &str, tv: &str, tm: &str, key: &str, sig: &str, seed: u64) -> String {
    let real = keypair(tv, 0);
    let km = keypair(tm, 1);
    let kv = keypair(tv, 2);
    let names = [(real.public().to_peer_id(), 1u32), (km.public().to_peer_id(), 3u32), (kv.public().to_peer_id(), 4u32)];
    // record V's own identity payload from an honest handshake of V (as dialer) with the attacker
    let honest_m = |st: &[u8]| pb_payload(&km.public().encode_protobuf(), &km.sign(&[STATIC_KEY_DOMAIN, st].concat()).unwrap());
    let (v_key, v_sig) = if key == "other" || sig == "v_rec" {
        let (_, rec) = run_mal(&kv, true, seed ^ 0xabc, &names, &honest_m);
        pb_parse(&rec.expect("V's recorded payload"))
    } else {
        (vec![], vec![])
    };
    let payload = |st: &[u8]| -> Vec<u8> {
        let k: Vec<u8> = match key {
            "own" => km.public().encode_protobuf(),
            "other" => v_key.clone(),
            "garbage" => vec![0xff, 0x03, 0x99, 0x10, 0x42],
            _ => vec![],
        };
        let s: Vec<u8> = match sig {
            "m_good" => km.sign(&[STATIC_KEY_DOMAIN, st].concat()).unwrap(),
            "v_rec" => v_sig.clone(),
            "m_nodomain" => km.sign(st).unwrap(),
            "m_wrongdomain" => km.sign(&[&b"noise-libp2p-static-key;"[..], st].concat()).unwrap(),
            "m_otherstatic" => {
                let mut o = st.to_vec();
                o[7] ^= 0x20;
                km.sign(&[STATIC_KEY_DOMAIN, &o].concat()).unwrap()
            }
            "garbage" => {
                let mut g = km.sign(&[STATIC_KEY_DOMAIN, st].concat()).unwrap();
                let n = g.len();
                g[n / 2] ^= 0x04;
                g
            }
            _ => vec![],
        };
        pb_payload(&k, &s)
    };
    let (res, _) = run_mal(&real, role == "d", seed, &names, &payload);
    res
}

// ---------------------------------------------------------------- ops

fn act_tokens(a: &Act) -> String {
    match a {
        Act::None => "none".into(),
        Act::Flips(f) if f.len() == 1 => format!("flip {} {} {}", f[0].0, f[0].1, f[0].2),
        Act::Flips(f) if f[0].0 == f[1].0 => format!("flip2 {} {} {} {} {}", f[0].0, f[0].1, f[0].2, f[1].1, f[1].2),
        Act::Flips(f) => format!("flipx {} {} {} {} {} {}", f[0].0, f[0].1, f[0].2, f[1].0, f[1].1, f[1].2),
        Act::Trunc(k, n) => format!("trunc {k} {n}"),
        Act::CutStream(k, n) => format!("cutstream {k} {n}"),
        Act::Drop(k) => format!("drop {k}"),
        Act::Dup(k) => format!("dup {k}"),
        Act::Splice(k, j) if k == j => format!("replay {k}"),
        Act::Splice(k, j) => format!("swap {k} {j}"),
    }
}

fn parse_act(t: &[String]) -> Option<Act> {
    let n = |i: usize| -> Option<usize> { t.get(i).and_then(|s| s.parse().ok()) };
    Some(match t.first()?.as_str() {
        "none" => Act::None,
        "flip" => Act::Flips(vec![(n(1)?, n(2)?, n(3)?)]),
        "flip2" => Act::Flips(vec![(n(1)?, n(2)?, n(3)?), (n(1)?, n(4)?, n(5)?)]),
        "flipx" => Act::Flips(vec![(n(1)?, n(2)?, n(3)?), (n(4)?, n(5)?, n(6)?)]),
        "trunc" => Act::Trunc(n(1)?, n(2)?),
        "cutstream" => Act::CutStream(n(1)?, n(2)?),
        "drop" => Act::Drop(n(1)?),
        "dup" => Act::Dup(n(1)?),
        "replay" => Act::Splice(n(1)?, n(1)?),
        "swap" => Act::Splice(n(1)?, n(2)?),
        _ => return None,
    })
}

fn do_mitm(out: &mut hcore::Out, ta: &str, tb: &str, pro: bool, act: &Act) {
    let r = hcore::guarded(|| {
        let ka = keypair(ta, 0);
        let kb = keypair(tb, 1);
        let other = if matches!(act, Act::Splice(_, _)) { Some(run_mitm(&ka, &kb, true, &Act::None, None).1) } else { None };
        run_mitm(&ka, &kb, pro, act, other.as_ref()).0
    });
    match r {
        Ok(m) => {
            out.op(&format!("mitm ta={ta} tb={tb} pro={} act {} lens={},{},{}", pro as u8, act_tokens(act), m.lens[0], m.lens[1], m.lens[2]));
            out.imp(&format!("{} {}", m.res[0], m.res[1]));
        }
        Err(p) => {
            out.op(&format!("mitm ta={ta} tb={tb} pro={} act {} lens=0,0,0", pro as u8, act_tokens(act)));
            out.imp(&format!("panic {p}"));
        }
    }
}

fn do_mal(out: &mut hcore::Out, role: &str, tv: &str, tm: &str, key: &str, sig: &str, seed: u64) {
    out.op(&format!("mal {role} {tv} {tm} {key} {sig}"));
    match hcore::guarded(|| mal_case(role, tv, tm, key, sig, seed)) {
        Ok(r) => out.imp(&r),
        Err(p) => out.imp(&format!("panic {p}")),
    }
}

const KEYV: &[&str] = &["own", "other", "garbage", "empty"];
const SIGV: &[&str] = &["m_good", "v_rec", "m_nodomain", "m_wrongdomain", "m_otherstatic", "empty", "garbage"];

/// typical frame lengths (prefix included) for choosing positions; the real ones are reported
fn approx_len(k: usize) -> usize {
    match k {
        1 => 34,
        2 => 200,
        _ => 170,
    }
}

fn random_act(rng: &mut hcore::Rng) -> Act {
    let k = 1 + rng.usize(3);
    let pos = |rng: &mut hcore::Rng, k: usize| -> usize {
        match rng.below(4) {
            0 => rng.usize(2),                 // length prefix
            1 => 2 + rng.usize(32.min(approx_len(k) - 2)), // e / start of the encrypted static key
            _ => rng.usize(approx_len(k)),
        }
    };
    let mask = |rng: &mut hcore::Rng| -> usize { *rng.pick(&[1usize, 2, 0x10, 0x80, 0xff]) };
    match rng.below(12) {
        0 => Act::None,
        1 | 2 | 3 => Act::Flips(vec![(k, pos(rng, k), mask(rng))]),
        4 => {
            let p1 = pos(rng, k);
            let mut p2 = pos(rng, k);
            if p2 == p1 {
                p2 = p1 + 1;
            }
            Act::Flips(vec![(k, p1, mask(rng)), (k, p2, mask(rng))])
        }
        5 => {
            let k1 = 1 + rng.usize(2);
            let k2 = k1 + 1 + rng.usize(3 - k1);
            Act::Flips(vec![(k1, pos(rng, k1), mask(rng)), (k2, pos(rng, k2), mask(rng))])
        }
        6 => Act::Trunc(k, rng.usize(approx_len(k) - 2)),
        7 => Act::CutStream(k, rng.usize(approx_len(k) - 1)),
        8 => Act::Drop(k),
        9 => Act::Dup(k),
        10 => Act::Splice(k, k),
        _ => {
            let kk = 2 + rng.usize(2);
            let mut j = 1 + rng.usize(3);
            if j == kk {
                j = 1;
            }
            Act::Splice(kk, j)
        }
    }
}

pub fn run(args: &hcore::Args, out: &mut hcore::Out) {
    if let Some(cases) = args.replay_cases() {
        for (hdr, ops) in cases {
            out.raw(&format!("case {}", hdr.join(" ")));
            for t in ops {
                let kvf = |key: &str| -> Option<String> { t.iter().find_map(|x| x.strip_prefix(&format!("{key}=")).map(|s| s.to_string())) };
                match t.first().map(|s| s.as_str()) {
                    Some("mitm") => {
                        let ai = t.iter().position(|x| x == "act").unwrap_or(t.len());
                        let at: Vec<String> = t[(ai + 1).min(t.len())..].iter().take_while(|x| !x.starts_with("lens=")).cloned().collect();
                        match (kvf("ta"), kvf("tb"), kvf("pro"), parse_act(&at)) {
                            (Some(ta), Some(tb), Some(pro), Some(act)) if KTS.contains(&ta.as_str()) && KTS.contains(&tb.as_str()) => do_mitm(out, &ta, &tb, pro == "1", &act),
                            _ => {
                                out.op(&t.join(" "));
                                out.imp("bad-op");
                            }
                        }
                    }
                    Some("mal") if t.len() == 6 && KTS.contains(&t[2].as_str()) && KTS.contains(&t[3].as_str()) => {
                        let idx: u64 = hdr.first().and_then(|s| s.parse().ok()).unwrap_or(0);
                        do_mal(out, &t[1], &t[2], &t[3], &t[4], &t[5], args.seed.wrapping_mul(977) ^ idx);
                    }
                    _ => {
                        out.op(&t.join(" "));
                        out.imp("bad-op");
                    }
                }
            }
            out.end();
        }
        return;
    }
    let n = args.n(600, 3000);
    let mut idx = 0u64;
    for _ in 0..n {
        let mut rng = hcore::Rng::for_case(args.seed, idx);
        if rng.below(100) < 60 {
            // key types: mostly ed25519 (cheap), every type regularly
            let ta = if rng.chance(1, 2) { "ed" } else { *rng.pick(KTS) };
            let tb = if rng.chance(1, 2) { "ed" } else { *rng.pick(KTS) };
            let pro = !rng.chance(1, 8);
            let act = random_act(&mut rng);
            out.case(idx, "mitm nt=1");
            do_mitm(out, ta, tb, pro, &act);
        } else {
            let role = *rng.pick(&["d", "l"]);
            let tv = *rng.pick(KTS);
            let tm = *rng.pick(KTS);
            let key = *rng.pick(KEYV);
            let sig = *rng.pick(SIGV);
            out.case(idx, "mal nt=1");
            do_mal(out, role, tv, tm, key, sig, args.seed.wrapping_mul(977) ^ idx);
        }
        out.end();
        idx += 1;
    }
    if args.thorough && args.count == 0 {
        // exhaustive sweeps (ed25519 endpoints): every position of every handshake message,
        // two masks; every truncation length; every drop/dup/replay/swap; prologue mismatch
        let lens = {
            let ka = keypair("ed", 0);
            let kb = keypair("ed", 1);
            run_mitm(&ka, &kb, true, &Act::None, None).0.lens
        };
        let mut acts: Vec<(bool, Act)> = vec![];
        for k in 1..=3usize {
            for pos in 0..lens[k - 1] + 2 {
                for mask in [0x01usize, 0x80] {
                    acts.push((true, Act::Flips(vec![(k, pos, mask)])));
                }
            }
            for nlen in 0..lens[k - 1] {
                acts.push((true, Act::Trunc(k, nlen)));
            }
            for cut in (0..lens[k - 1] + 2).step_by(7) {
                acts.push((true, Act::CutStream(k, cut)));
            }
            acts.push((true, Act::Drop(k)));
            acts.push((true, Act::Dup(k)));
            acts.push((true, Act::Splice(k, k)));
            acts.push((false, Act::Drop(k)));
            acts.push((false, Act::Flips(vec![(k, 5, 1)])));
            acts.push((false, Act::Splice(k, k)));
        }
        acts.push((false, Act::None));
        acts.push((true, Act::Splice(2, 1)));
        acts.push((true, Act::Splice(2, 3)));
        acts.push((true, Act::Splice(3, 1)));
        acts.push((true, Act::Splice(3, 2)));
        for (pro, act) in acts {
            out.case(idx, "mitm-sweep nt=1");
            do_mitm(out, "ed", "ed", pro, &act);
            out.end();
            idx += 1;
        }
        // every pair of key types x both roles x every payload variant
        for role in ["d", "l"] {
            for tv in KTS {
                for tm in KTS {
                    for key in KEYV {
                        for sig in SIGV {
                            out.case(idx, "mal-sweep nt=1");
                            do_mal(out, role, tv, tm, key, sig, args.seed.wrapping_mul(977) ^ idx);
                            out.end();
                            idx += 1;
                        }
                    }
                }
            }
        }
        // honest handshakes for every pair of key types, equal and differing prologues
        for ta in KTS {
            for tb in KTS {
                for pro in [true, false] {
                    out.case(idx, "mitm-types nt=1");
                    do_mitm(out, ta, tb, pro, &Act::None);
                    out.end();
                    idx += 1;
                }
            }
        }
    }
}
