//! C17 — secure channel delivers exactly the written bytes or fails.
//!
//! Real code under test: `libp2p_noise::Config::new` + `upgrade_outbound`/`upgrade_inbound`
//! (real XX handshake) over an in-memory duplex pipe owned by the harness, then
//! `Output::{poll_write, poll_flush, poll_read}` driven call by call with a noop waker.
//! The pipe logs every byte written; the harness (= the network adversary) decides which bytes
//! the reader gets, in which chunks, with which modifications.  See `Driver/C17.lean` for the ops.

use futures::{AsyncRead, AsyncWrite};
use libp2p_core::upgrade::{InboundConnectionUpgrade, OutboundConnectionUpgrade};
use libp2p_core::PeerId;
use libp2p_noise as noise;
use std::collections::VecDeque;
use std::future::Future;
use std::io;
use std::pin::Pin;
use std::sync::{Arc, Mutex};
use std::task::{Context, Poll};

pub struct Shared {
    /// every byte written by side i (0 = dialer, 1 = listener)
    pub wire: [Vec<u8>; 2],
    /// bytes readable by side i
    pub inbox: [VecDeque<u8>; 2],
    /// side i sees end-of-stream once its inbox is drained
    pub eof: [bool; 2],
    /// max bytes accepted per `poll_write` (0 = everything)
    pub wchunk: usize,
    /// every other `poll_write` returns `Pending`
    pub wpend: bool,
    pub wtoggle: [bool; 2],
}

pub struct End {
    pub sh: Arc<Mutex<Shared>>,
    pub side: usize,
}

pub fn lock(m: &Arc<Mutex<Shared>>) -> std::sync::MutexGuard<'_, Shared> {
    m.lock().unwrap_or_else(|e| e.into_inner())
}

impl AsyncRead for End {
    fn poll_read(self: Pin<&mut Self>, _cx: &mut Context<'_>, buf: &mut [u8]) -> Poll<io::Result<usize>> {
        let side = self.side;
        let mut s = lock(&self.sh);
        if s.inbox[side].is_empty() {
            if s.eof[side] {
                return Poll::Ready(Ok(0));
            }
            return Poll::Pending;
        }
        let n = buf.len().min(s.inbox[side].len());
        for b in buf.iter_mut().take(n) {
            *b = s.inbox[side].pop_front().unwrap();
        }
        Poll::Ready(Ok(n))
    }
}

impl AsyncWrite for End {
    fn poll_write(self: Pin<&mut Self>, _cx: &mut Context<'_>, buf: &[u8]) -> Poll<io::Result<usize>> {
        let side = self.side;
        let mut s = lock(&self.sh);
        if s.wpend {
            s.wtoggle[side] = !s.wtoggle[side];
            if s.wtoggle[side] {
                return Poll::Pending;
            }
        }
        let n = if s.wchunk == 0 { buf.len() } else { buf.len().min(s.wchunk) };
        s.wire[side].extend_from_slice(&buf[..n]);
        Poll::Ready(Ok(n))
    }
    fn poll_flush(self: Pin<&mut Self>, _cx: &mut Context<'_>) -> Poll<io::Result<()>> {
        Poll::Ready(Ok(()))
    }
    fn poll_close(self: Pin<&mut Self>, _cx: &mut Context<'_>) -> Poll<io::Result<()>> {
        Poll::Ready(Ok(()))
    }
}

pub fn new_shared() -> Arc<Mutex<Shared>> {
    Arc::new(Mutex::new(Shared {
        wire: [vec![], vec![]],
        inbox: [VecDeque::new(), VecDeque::new()],
        eof: [false, false],
        wchunk: 0,
        wpend: false,
        wtoggle: [false, false],
    }))
}

type HsFut = Pin<Box<dyn Future<Output = Result<(PeerId, noise::Output<End>), noise::Error>> + Send>>;

pub fn poll_once<F: Future + ?Sized>(f: Pin<&mut F>) -> Poll<F::Output> {
    let w = futures::task::noop_waker();
    let mut cx = Context::from_waker(&w);
    f.poll(&mut cx)
}

/// `MAX_FRAME_LEN` as defined in the source under test (generator boundary values only).
pub fn max_frame_len() -> usize {
    let alt = format!("{}/../../repo", env!("CARGO_MANIFEST_DIR"));
    let root = if std::path::Path::new(&format!("{alt}/transports/noise/src/io/framed.rs")).exists() { alt } else { "/repo".into() };
    let src = std::fs::read_to_string(format!("{root}/transports/noise/src/io/framed.rs")).unwrap_or_default();
    let num = |marker: &str| -> Option<usize> {
        let p = src.find(marker)?;
        let d: String = src[p + marker.len()..].chars().take_while(|c| c.is_ascii_digit()).collect();
        d.parse().ok()
    };
    match (num("const MAX_NOISE_MSG_LEN: usize = "), num("const EXTRA_ENCRYPT_SPACE: usize = ")) {
        (Some(a), Some(b)) if a > b => a - b,
        _ => 64511,
    }
}

pub fn pat(c: u64, p: u64) -> u8 {
    ((c + 31 * p + 17 * (p / 256)) % 256) as u8
}

pub fn data_tok(bs: &[u8]) -> String {
    if bs.len() <= 32 {
        hcore::hex(bs)
    } else {
        let mut h: u64 = 7;
        for b in bs {
            h = (h * 257 + *b as u64 + 1) % 4294967291;
        }
        format!("#{}:{}", bs.len(), h)
    }
}

struct Session {
    sh: Arc<Mutex<Shared>>,
    c: u64,
    out_a: noise::Output<End>,
    out_b: Option<noise::Output<End>>,
    fut_b: Option<HsFut>,
    /// end of the handshake bytes in wire[side]
    hs_len: [usize; 2],
    /// how much of wire[0] has been moved to the listener during the handshake
    pumped0: usize,
    /// per direction (0 = ab, 1 = ba)
    rep_pos: [usize; 2],
    awire: [Vec<u8>; 2],
    orig: [Vec<u8>; 2],
    dpos: [usize; 2],
    wpos: [u64; 2],
}

/// `rng.usize(n)` that tolerates `n == 0` (a mutated implementation may leave the wire empty)
fn us(rng: &mut hcore::Rng, n: usize) -> usize {
    if n == 0 {
        0
    } else {
        rng.usize(n)
    }
}

fn dir_of(s: &str) -> Option<usize> {
    match s {
        "ab" => Some(0),
        "ba" => Some(1),
        _ => None,
    }
}

impl Session {
    fn new(c: u64, wchunk: usize, wpend: bool, early: bool) -> Session {
        let sh = new_shared();
        let ka = hcore::keypair(1);
        let kb = hcore::keypair(2);
        let mut fa: HsFut = noise::Config::new(&ka).unwrap().upgrade_outbound(End { sh: sh.clone(), side: 0 }, "/noise");
        let mut fb: HsFut = noise::Config::new(&kb).unwrap().upgrade_inbound(End { sh: sh.clone(), side: 1 }, "/noise");
        let mut pumped = [0usize; 2];
        let pump = |from: usize, pumped: &mut [usize; 2]| {
            let mut s = lock(&sh);
            let new: Vec<u8> = s.wire[from][pumped[from]..].to_vec();
            pumped[from] = s.wire[from].len();
            s.inbox[1 - from].extend(new);
        };
        let mut out_a = None;
        let mut out_b = None;
        for _ in 0..10 {
            if out_a.is_none() {
                if let Poll::Ready(r) = poll_once(fa.as_mut()) {
                    out_a = Some(r.expect("dialer handshake").1);
                    if early {
                        break;
                    }
                }
            }
            pump(0, &mut pumped);
            if out_b.is_none() {
                if let Poll::Ready(r) = poll_once(fb.as_mut()) {
                    out_b = Some(r.expect("listener handshake").1);
                }
            }
            pump(1, &mut pumped);
            if out_a.is_some() && out_b.is_some() {
                break;
            }
        }
        let out_a = out_a.expect("dialer handshake did not complete");
        let hs_len = {
            let mut s = lock(&sh);
            s.wchunk = wchunk;
            s.wpend = wpend;
            [s.wire[0].len(), s.wire[1].len()]
        };
        let done_b = out_b.is_some();
        Session {
            sh,
            c,
            out_a,
            out_b,
            fut_b: if done_b { None } else { Some(fb) },
            hs_len,
            pumped0: pumped[0],
            rep_pos: hs_len,
            awire: [vec![], vec![]],
            orig: [vec![], vec![]],
            dpos: [0, 0],
            wpos: [0, 0],
        }
    }

    /// complete the listener's handshake (early mode): hand it message 3 (+ `extra` app bytes in
    /// the same socket buffer) and poll its future.
    fn ensure_b(&mut self, extra: &[u8]) {
        if self.out_b.is_some() {
            let mut s = lock(&self.sh);
            s.inbox[1].extend(extra.iter().copied());
            return;
        }
        {
            let mut s = lock(&self.sh);
            let msg3: Vec<u8> = s.wire[0][self.pumped0..self.hs_len[0]].to_vec();
            s.inbox[1].extend(msg3);
            s.inbox[1].extend(extra.iter().copied());
        }
        self.pumped0 = self.hs_len[0];
        let mut fb = self.fut_b.take().expect("listener future");
        for _ in 0..10 {
            if let Poll::Ready(r) = poll_once(fb.as_mut()) {
                self.out_b = Some(r.expect("listener handshake (early)").1);
                // the listener wrote nothing new, but keep the bookkeeping exact
                let s = lock(&self.sh);
                self.hs_len[1] = s.wire[1].len();
                self.rep_pos[1] = self.hs_len[1];
                return;
            }
        }
        panic!("listener handshake stuck");
    }

    fn sender(&mut self, d: usize) -> &mut noise::Output<End> {
        if d == 0 {
            &mut self.out_a
        } else {
            self.ensure_b(&[]);
            self.out_b.as_mut().unwrap()
        }
    }

    fn reader(&mut self, d: usize) -> &mut noise::Output<End> {
        if d == 1 {
            &mut self.out_a
        } else {
            self.ensure_b(&[]);
            self.out_b.as_mut().unwrap()
        }
    }

    /// returns (impl line, optional follow-up oracle op line)
    fn exec(&mut self, t: &[String]) -> (String, Option<String>) {
        let w = futures::task::noop_waker();
        let mut cx = Context::from_waker(&w);
        let name = t.first().map(|s| s.as_str()).unwrap_or("");
        let d = match t.get(1).and_then(|s| dir_of(s)) {
            Some(d) => d,
            None => return ("bad-op".into(), None),
        };
        let num = |i: usize| -> Option<usize> { t.get(i).and_then(|s| s.parse::<usize>().ok()) };
        match name {
            "w" => {
                let n = match num(2) {
                    Some(n) => n,
                    None => return ("bad-op".into(), None),
                };
                let start = self.wpos[d];
                let c = self.c;
                let buf: Vec<u8> = (0..n as u64).map(|i| pat(c, start + i)).collect();
                let o = self.sender(d);
                for _ in 0..1_000_000 {
                    match Pin::new(&mut *o).poll_write(&mut cx, &buf) {
                        Poll::Pending => continue,
                        Poll::Ready(Ok(k)) => {
                            self.wpos[d] += k as u64;
                            return (format!("ok {k}"), None);
                        }
                        Poll::Ready(Err(_)) => return ("err".into(), None),
                    }
                }
                ("stuck".into(), None)
            }
            "f" => {
                let o = self.sender(d);
                let mut res = None;
                for _ in 0..1_000_000 {
                    match Pin::new(&mut *o).poll_flush(&mut cx) {
                        Poll::Pending => continue,
                        Poll::Ready(r) => {
                            res = Some(r);
                            break;
                        }
                    }
                }
                match res {
                    None => ("stuck".into(), None),
                    Some(Err(_)) => ("err".into(), None),
                    Some(Ok(())) => {
                        let new: Vec<u8> = {
                            let s = lock(&self.sh);
                            s.wire[d][self.rep_pos[d]..].to_vec()
                        };
                        self.rep_pos[d] += new.len();
                        // frame lengths as they appear on the wire
                        let mut lens = vec![];
                        let mut p = 0usize;
                        while p + 2 <= new.len() {
                            let l = ((new[p] as usize) << 8) | new[p + 1] as usize;
                            if p + 2 + l > new.len() {
                                break;
                            }
                            lens.push(l);
                            p += 2 + l;
                        }
                        let mut line = format!("ok {}", hcore::list(&lens));
                        if p != new.len() {
                            line.push_str(&format!(" rest={}", new.len() - p));
                        }
                        self.awire[d].extend_from_slice(&new);
                        self.orig[d].extend_from_slice(&new);
                        let dn = if d == 0 { "ab" } else { "ba" };
                        (line, Some(format!("wire {dn} {}", hcore::hex(&new))))
                    }
                }
            }
            "d" => {
                let k = match num(2) {
                    Some(n) => n,
                    None => return ("bad-op".into(), None),
                };
                let rs = 1 - d;
                let eof = lock(&self.sh).eof[rs];
                let avail = self.awire[d].len() - self.dpos[d];
                let m = if eof { 0 } else { k.min(avail) };
                let chunk: Vec<u8> = self.awire[d][self.dpos[d]..self.dpos[d] + m].to_vec();
                self.dpos[d] += m;
                if d == 0 {
                    self.ensure_b(&chunk);
                } else {
                    lock(&self.sh).inbox[rs].extend(chunk);
                }
                (format!("ok {m}"), None)
            }
            "x" => {
                let (pos, m) = match (num(2), num(3)) {
                    (Some(a), Some(b)) => (a, b),
                    _ => return ("bad-op".into(), None),
                };
                if self.dpos[d] <= pos && pos < self.awire[d].len() && 0 < m && m < 256 {
                    self.awire[d][pos] ^= m as u8;
                    ("ok".into(), None)
                } else {
                    ("skip".into(), None)
                }
            }
            "cut" => {
                let (a, b) = match (num(2), num(3)) {
                    (Some(a), Some(b)) => (a, b),
                    _ => return ("bad-op".into(), None),
                };
                if self.dpos[d] <= a && a < b && b <= self.awire[d].len() {
                    self.awire[d].drain(a..b);
                    ("ok".into(), None)
                } else {
                    ("skip".into(), None)
                }
            }
            "rep" => {
                let (pos, a, b) = match (num(2), num(3), num(4)) {
                    (Some(p), Some(a), Some(b)) => (p, a, b),
                    _ => return ("bad-op".into(), None),
                };
                if self.dpos[d] <= pos && pos <= self.awire[d].len() && a < b && b <= self.orig[d].len() {
                    let ins: Vec<u8> = self.orig[d][a..b].to_vec();
                    let tail = self.awire[d].split_off(pos);
                    self.awire[d].extend(ins);
                    self.awire[d].extend(tail);
                    ("ok".into(), None)
                } else {
                    ("skip".into(), None)
                }
            }
            "e" => {
                lock(&self.sh).eof[1 - d] = true;
                ("ok".into(), None)
            }
            "r" => {
                let n = match num(2) {
                    Some(n) => n,
                    None => return ("bad-op".into(), None),
                };
                let mut buf = vec![0u8; n];
                let o = self.reader(d);
                match Pin::new(&mut *o).poll_read(&mut cx, &mut buf) {
                    Poll::Pending => ("pending".into(), None),
                    Poll::Ready(Ok(k)) => (format!("ok {k} {}", data_tok(&buf[..k.min(n)])), None),
                    Poll::Ready(Err(e)) => {
                        let kind = match e.kind() {
                            io::ErrorKind::InvalidData => "InvalidData".to_string(),
                            io::ErrorKind::UnexpectedEof => "UnexpectedEof".to_string(),
                            k => format!("Other:{k:?}"),
                        };
                        (format!("err {kind}"), None)
                    }
                }
            }
            _ => ("bad-op".into(), None),
        }
    }
}

struct Runner<'a> {
    sess: Session,
    out: &'a mut hcore::Out,
}

impl<'a> Runner<'a> {
    /// execute one op on the real code, print the protocol lines, return the impl line
    fn op(&mut self, line: &str) -> String {
        let t: Vec<String> = line.split_whitespace().map(|s| s.to_string()).collect();
        self.out.op(line);
        let sess = &mut self.sess;
        let (imp, follow) = match hcore::guarded(|| sess.exec(&t)) {
            Ok(x) => x,
            Err(m) => (format!("panic {m}"), None),
        };
        self.out.imp(&imp);
        if let Some(f) = follow {
            self.out.op(&f);
            self.out.imp("ok");
        }
        imp
    }
    fn avail(&self, d: usize) -> usize {
        self.sess.awire[d].len() - self.sess.dpos[d]
    }
    /// `AsyncWriteExt::write_all`-style loop
    fn write_all(&mut self, d: &str, n: usize) {
        let mut rem = n;
        for _ in 0..16 {
            let r = self.op(&format!("w {d} {rem}"));
            let k: usize = r.strip_prefix("ok ").and_then(|s| s.parse().ok()).unwrap_or(0);
            rem -= k.min(rem);
            if rem == 0 || k == 0 {
                break;
            }
        }
    }
    fn deliver(&mut self, d: &str, rng: &mut hcore::Rng, style: u64) {
        let di = dir_of(d).unwrap();
        for _ in 0..400 {
            let a = self.avail(di);
            if a == 0 {
                break;
            }
            let k = match style {
                0 => a,
                1 => 1 + us(rng, 8),
                2 => 8192,
                3 => 1 + us(rng, a.min(70000)),
                _ => 1 + us(rng, 40),
            };
            self.op(&format!("d {d} {k}"));
        }
        let a = self.avail(di);
        if a > 0 {
            self.op(&format!("d {d} {a}"));
        }
    }
    /// read until `pending` / end of stream, continuing `after_err` reads past an error
    fn read_all(&mut self, d: &str, rng: &mut hcore::Rng, sizes: &[usize], max_reads: usize, after_err: usize) {
        let mut errs = 0;
        for _ in 0..max_reads {
            let n = *rng.pick(sizes);
            let r = self.op(&format!("r {d} {n}"));
            if r.starts_with("pending") || r.starts_with("panic") {
                break;
            }
            if r.starts_with("err") {
                errs += 1;
                if errs > after_err {
                    break;
                }
            }
            if r.starts_with("ok 0 ") && n > 0 {
                break;
            }
        }
    }
}

/// plaintext frame sizes of the sessions whose ciphertext stream is corrupted at EVERY position
const SHAPES: &[&[usize]] = &[&[5], &[1, 12], &[2, 33, 3], &[300]];

const CLASSES: &[&str] = &["small", "boundary", "tamper", "tamperhdr", "cutrep", "eof", "early", "duplex", "tamperbig", "empty"];

fn gen_case(idx: u64, args: &hcore::Args, out: &mut hcore::Out, maxf: usize) {
    let mut rng = hcore::Rng::for_case(args.seed, idx);
    // class schedule: big cases are rarer
    let roll = rng.below(100);
    let class = if roll < 22 {
        "small"
    } else if roll < 32 {
        "boundary"
    } else if roll < 52 {
        "tamper"
    } else if roll < 60 {
        "tamperhdr"
    } else if roll < 72 {
        "cutrep"
    } else if roll < 80 {
        "eof"
    } else if roll < 87 {
        "early"
    } else if roll < 95 {
        "duplex"
    } else if roll < 98 {
        "tamperbig"
    } else {
        "empty"
    };
    run_class(class, idx, &mut rng, out, maxf, None);
}

/// `forced`: (session shape, position, mask) for the exhaustive corruption sweeps of the thorough tier
fn run_class(class: &str, idx: u64, rng: &mut hcore::Rng, out: &mut hcore::Out, maxf: usize, forced: Option<(usize, usize, usize)>) {
    let c = rng.below(256);
    let wchunk = *rng.pick(&[0usize, 0, 1, 7, 1000, 70000]);
    let wpend = rng.chance(1, 3);
    let early = class == "early";
    let nt = if class == "empty" { 0 } else { 1 };
    out.case(idx, &format!("{class} nt={nt} c={c} wc={wchunk} wp={} early={}", wpend as u8, early as u8));
    let sess = match hcore::guarded(|| Session::new(c, wchunk, wpend, early)) {
        Ok(s) => s,
        Err(m) => {
            out.op("handshake");
            out.imp(&format!("panic {m}"));
            out.end();
            return;
        }
    };
    let mut r = Runner { sess, out };
    let small_reads: &[usize] = &[0, 1, 2, 3, 5, 8, 13, 21, 64];
    let big_reads: &[usize] = &[maxf, maxf + 1, 65536, 100000, 8192, maxf - 1];
    match class {
        "small" => {
            for _ in 0..rng.range(1, 3) {
                let d = *rng.pick(&["ab", "ba"]);
                for _ in 0..rng.range(1, 6) {
                    match rng.below(5) {
                        0 => {
                            r.op(&format!("f {d}"));
                        }
                        _ => {
                            let n = *rng.pick(&[0usize, 1, 1, 2, 3, 7, 16, 31, 32, 33, 40, 100]);
                            r.write_all(d, n);
                        }
                    }
                    if rng.chance(1, 4) {
                        // partial delivery + reads before everything is flushed
                        r.op(&format!("d {d} {}", 1 + us(rng, 30)));
                        r.op(&format!("r {d} {}", rng.pick(small_reads)));
                    }
                }
                r.op(&format!("f {d}"));
                let style = *rng.pick(&[0u64, 1, 4, 4]);
                r.deliver(d, rng, style);
                r.read_all(d, rng, small_reads, 80, 0);
            }
        }
        "boundary" => {
            let d = *rng.pick(&["ab", "ba"]);
            let sizes = [0usize, 1, 2, maxf - 1, maxf, maxf + 1, 2 * maxf + 3, 1 + us(rng, 2 * maxf)];
            let nwrites = rng.range(1, 3);
            let mut total = 0usize;
            for _ in 0..nwrites {
                let n = *rng.pick(&sizes);
                if total + n > 3 * maxf {
                    continue;
                }
                total += n;
                r.write_all(d, n);
                if rng.chance(1, 3) {
                    r.op(&format!("f {d}"));
                }
            }
            r.op(&format!("f {d}"));
            let style = *rng.pick(&[0u64, 2, 3]);
            r.deliver(d, rng, style);
            r.read_all(d, rng, big_reads, 40, 0);
        }
        "tamper" | "tamperhdr" | "tamperbig" => {
            let d = *rng.pick(&["ab", "ba"]);
            let di = dir_of(d).unwrap();
            let nframes = match forced {
                Some((shape, _, _)) => SHAPES[shape].len() as u64,
                None => rng.range(1, 4),
            };
            for i in 0..nframes {
                let n = if let Some((shape, _, _)) = forced {
                    SHAPES[shape][i as usize]
                } else if class == "tamperbig" {
                    *rng.pick(&[maxf, maxf - 1, 300, 1])
                } else {
                    *rng.pick(&[1usize, 2, 5, 12, 33, 200])
                };
                let n = if class == "tamperbig" && i > 1 { 5 } else { n };
                r.write_all(d, n);
                r.op(&format!("f {d}"));
            }
            let wl = r.avail(di);
            if wl < 2 {
                r.out.end();
                return;
            }
            // frame starts (header positions) of the untouched wire
            let mut starts = vec![];
            {
                let w = &r.sess.awire[di];
                let mut p = 0;
                while p + 2 <= w.len() {
                    starts.push(p);
                    p += 2 + (((w[p] as usize) << 8) | w[p + 1] as usize);
                }
            }
            let (pos, mask) = match forced {
                Some((_, p, m)) => (p.min(wl.max(1) - 1), m),
                None => {
                    let pos = if class == "tamperhdr" {
                        *rng.pick(&starts) + us(rng, 2)
                    } else if rng.chance(1, 3) {
                        // boundaries: first/last ciphertext byte of a frame
                        let s = *rng.pick(&starts);
                        let l = ((r.sess.awire[di][s] as usize) << 8) | r.sess.awire[di][s + 1] as usize;
                        *rng.pick(&[s + 2, s + 1 + l, (s + 2 + l).saturating_sub(16), (s + 2 + l).saturating_sub(17)])
                    } else {
                        us(rng, wl)
                    };
                    let rm = 1 + us(rng, 255);
                    (pos.min(wl - 1), *rng.pick(&[1usize, 2, 0x80, 0xff, rm]))
                }
            };
            // optionally part of the wire is already delivered (and read) before the corruption
            if forced.is_none() && rng.chance(1, 3) {
                r.op(&format!("d {d} {}", us(rng, pos + 1)));
                r.op(&format!("r {d} {}", rng.pick(small_reads)));
            }
            r.op(&format!("x {d} {pos} {mask}"));
            if forced.is_none() && rng.chance(1, 6) {
                let p2 = us(rng, wl);
                r.op(&format!("x {d} {p2} {}", 1 + us(rng, 255)));
            }
            let style = if class == "tamperbig" { *rng.pick(&[0u64, 2, 3]) } else { *rng.pick(&[0u64, 1, 4]) };
            r.deliver(d, rng, style);
            let sizes = if class == "tamperbig" { big_reads } else { &[1usize, 4, 16, 64, 300][..] };
            r.read_all(d, rng, sizes, 60, 3);
            if rng.chance(1, 2) {
                // more honest traffic after the damage: still never altered plaintext
                r.write_all(d, 6);
                r.op(&format!("f {d}"));
                r.deliver(d, rng, 0);
                r.read_all(d, rng, sizes, 8, 2);
            }
        }
        "cutrep" => {
            let d = *rng.pick(&["ab", "ba"]);
            let di = dir_of(d).unwrap();
            let nframes = rng.range(2, 5);
            for _ in 0..nframes {
                r.write_all(d, *rng.pick(&[1usize, 3, 9, 20, 50]));
                r.op(&format!("f {d}"));
            }
            let mut starts = vec![];
            {
                let w = &r.sess.awire[di];
                let mut p = 0;
                while p + 2 <= w.len() {
                    starts.push(p);
                    p += 2 + (((w[p] as usize) << 8) | w[p + 1] as usize);
                }
                starts.push(w.len());
            }
            if starts.len() < 2 || *starts.last().unwrap() != r.sess.awire[di].len() {
                r.out.end();
                return;
            }
            let nf = starts.len() - 1;
            let i = us(rng, nf);
            let j = us(rng, nf);
            match rng.below(6) {
                0 => {
                    // drop frame i
                    r.op(&format!("cut {d} {} {}", starts[i], starts[i + 1]));
                }
                1 => {
                    // duplicate frame i in place
                    r.op(&format!("rep {d} {} {} {}", starts[i], starts[i], starts[i + 1]));
                }
                2 => {
                    // replay frame i at the end
                    r.op(&format!("rep {d} {} {} {}", starts[nf], starts[i], starts[i + 1]));
                }
                3 => {
                    // swap adjacent frames i, i+1 (if any): cut i, re-insert after the next one
                    if i + 1 < nf {
                        let li = starts[i + 1] - starts[i];
                        r.op(&format!("cut {d} {} {}", starts[i], starts[i + 1]));
                        r.op(&format!("rep {d} {} {} {}", starts[i + 2] - li, starts[i], starts[i + 1]));
                    } else {
                        r.op(&format!("cut {d} {} {}", starts[i], starts[i + 1]));
                    }
                }
                4 => {
                    // truncate at a random point, later append the remainder of another frame
                    let a = us(rng, starts[nf]);
                    r.op(&format!("cut {d} {a} {}", starts[nf]));
                    if rng.bool() {
                        r.op(&format!("rep {d} {a} {} {}", starts[j], starts[j + 1]));
                    }
                }
                _ => {
                    // arbitrary cut and arbitrary insertion
                    let a = us(rng, starts[nf]);
                    let b = a + 1 + us(rng, starts[nf] - a);
                    r.op(&format!("cut {d} {a} {b}"));
                    let p = us(rng, r.avail(di) + 1);
                    let s = us(rng, starts[nf]);
                    let e = s + 1 + us(rng, starts[nf] - s);
                    r.op(&format!("rep {d} {p} {s} {e}"));
                }
            }
            let style = *rng.pick(&[0u64, 1, 4]);
            r.deliver(d, rng, style);
            r.read_all(d, rng, &[1, 7, 64], 80, 4);
        }
        "eof" => {
            let d = *rng.pick(&["ab", "ba"]);
            let di = dir_of(d).unwrap();
            for _ in 0..rng.range(1, 3) {
                r.write_all(d, *rng.pick(&[1usize, 4, 30]));
                r.op(&format!("f {d}"));
            }
            let wl = r.avail(di);
            // deliver everything or stop in the middle, then end of stream
            let upto = if rng.bool() { wl } else { us(rng, wl + 1) };
            if upto > 0 {
                r.op(&format!("d {d} {upto}"));
            }
            if rng.chance(1, 3) {
                r.read_all(d, rng, small_reads, 30, 0);
            }
            r.op(&format!("e {d}"));
            r.op(&format!("d {d} 5"));
            r.read_all(d, rng, &[1, 5, 64], 60, 2);
            r.op(&format!("r {d} 8"));
        }
        "early" => {
            // the dialer writes application data before the listener has seen message 3
            let n = *rng.pick(&[1usize, 10, 100, 5000, maxf + 5]);
            r.write_all("ab", n);
            r.op("f ab");
            let a = r.avail(0);
            let first = *rng.pick(&[a, 1, 2, 19, a / 2 + 1]);
            r.op(&format!("d ab {first}"));
            let sizes: &[usize] = if n > 1000 { big_reads } else { small_reads };
            r.read_all("ab", rng, sizes, 40, 0);
            r.deliver("ab", rng, 0);
            r.read_all("ab", rng, sizes, 200, 0);
            r.write_all("ba", 9);
            r.op("f ba");
            r.deliver("ba", rng, 0);
            r.read_all("ba", rng, small_reads, 20, 0);
        }
        "duplex" => {
            for _ in 0..rng.range(4, 14) {
                let d = *rng.pick(&["ab", "ba"]);
                let di = dir_of(d).unwrap();
                match rng.below(6) {
                    0 | 1 => r.write_all(d, *rng.pick(&[1usize, 5, 64, 700, 3000])),
                    2 => {
                        r.op(&format!("f {d}"));
                    }
                    3 => {
                        let a = r.avail(di);
                        if a > 0 {
                            r.op(&format!("d {d} {}", 1 + us(rng, a)));
                        }
                    }
                    _ => {
                        r.op(&format!("r {d} {}", rng.pick(&[1usize, 10, 100, 1000, 5000])));
                    }
                }
            }
            for d in ["ab", "ba"] {
                r.op(&format!("f {d}"));
                r.deliver(d, rng, 3);
                r.read_all(d, rng, &[100, 1000, 5000], 80, 0);
            }
        }
        _ => {
            // "empty": zero-length writes, flush without data, reads on an idle channel
            let d = *rng.pick(&["ab", "ba"]);
            r.op(&format!("w {d} 0"));
            r.op(&format!("f {d}"));
            r.op(&format!("r {d} 4"));
            r.op(&format!("r {d} 0"));
            r.op(&format!("d {d} 3"));
        }
    }
    r.out.end();
}

fn hdr_val(hdr: &[String], key: &str) -> u64 {
    hdr.iter().find_map(|t| t.strip_prefix(&format!("{key}=")).and_then(|v| v.parse().ok())).unwrap_or(0)
}

pub fn run(args: &hcore::Args, out: &mut hcore::Out) {
    if let Some(cases) = args.replay_cases() {
        for (hdr, ops) in cases {
            out.raw(&format!("case {}", hdr.join(" ")));
            let (c, wc, wp, early) = (hdr_val(&hdr, "c"), hdr_val(&hdr, "wc") as usize, hdr_val(&hdr, "wp") == 1, hdr_val(&hdr, "early") == 1);
            match hcore::guarded(|| Session::new(c, wc, wp, early)) {
                Ok(sess) => {
                    let mut r = Runner { sess, out };
                    for t in ops {
                        // the `wire` oracle is regenerated after every `f`
                        if t.first().map(|s| s.as_str()) == Some("wire") {
                            continue;
                        }
                        r.op(&t.join(" "));
                    }
                }
                Err(m) => {
                    out.op("handshake");
                    out.imp(&format!("panic {m}"));
                }
            }
            out.end();
        }
        return;
    }
    let maxf = max_frame_len();
    let n = args.n(260, 2500);
    for idx in 0..n {
        gen_case(idx, args, out, maxf);
    }
    if args.thorough && args.count == 0 {
        // exhaustive single-byte corruption: EVERY position of the ciphertext stream of a fixed
        // family of small sessions, three masks each
        let mut idx = n;
        for mask in [0x01usize, 0x80, 0xff] {
            for (shape, sizes) in SHAPES.iter().enumerate() {
                let wl: usize = sizes.iter().map(|n| 2 + n + 16).sum();
                for pos in 0..wl {
                    let mut rng = hcore::Rng::for_case(args.seed ^ 0xC17, idx);
                    run_class("tamper", idx, &mut rng, out, maxf, Some((shape, pos, mask)));
                    idx += 1;
                }
            }
        }
    }
    let _ = CLASSES;
}
