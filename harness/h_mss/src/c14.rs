//! C14 — the real `dialer_select_proto` / `listener_select_proto` futures and the `Negotiated`
//! streams they return, connected by an in-memory duplex pipe whose chunking, delivery delay and
//! readiness (`Pending` injections on read / write / flush / close) follow a seeded schedule, and
//! polled by hand in a scheduled order.  Public API only.  Compared with `C14.simulate`.
use std::cell::RefCell;
use std::collections::VecDeque;
use std::future::Future;
use std::io;
use std::pin::Pin;
use std::rc::Rc;
use std::task::{Context, Poll};

use futures::future::poll_fn;
use futures::io::{AsyncRead, AsyncWrite};
use futures::task::noop_waker;
use hcore::{hex, unhex, Args, Out, Rng};
use multistream_select::{dialer_select_proto, listener_select_proto, Version};

use crate::c15::{io_err_tok, nerr_tok};

// ---------------------------------------------------------------- the pipe

#[derive(Default)]
struct Dir {
    /// written, still "on the network"
    inflight: VecDeque<u8>,
    /// arrived, readable
    ready: VecDeque<u8>,
    /// the writer closed its half or dropped the stream
    closed: bool,
    transcript: Vec<u8>,
}

struct Shared {
    dirs: [Dir; 2],
    rng: Rng,
    /// probability (in 1/16) of an injected `Pending` per I/O call
    pending16: u64,
    /// maximal chunk per read / write call (0 = unbounded), fixed or random per call
    max_chunk: usize,
    random_chunk: bool,
}

impl Shared {
    fn chunk(&mut self) -> usize {
        if self.random_chunk {
            match self.rng.below(5) {
                0 => 1,
                1 => 2,
                2 => 3,
                3 => 7,
                _ => usize::MAX,
            }
        } else if self.max_chunk == 0 {
            usize::MAX
        } else {
            self.max_chunk
        }
    }
    fn inject(&mut self) -> bool {
        self.pending16 > 0 && self.rng.below(16) < self.pending16
    }
}

/// one end: writes into `dirs[side]`, reads from `dirs[1 - side]`
struct End {
    sh: Rc<RefCell<Shared>>,
    side: usize,
}

impl Drop for End {
    fn drop(&mut self) {
        self.sh.borrow_mut().dirs[self.side].closed = true;
    }
}

impl AsyncRead for End {
    fn poll_read(self: Pin<&mut Self>, _: &mut Context<'_>, buf: &mut [u8]) -> Poll<io::Result<usize>> {
        let mut s = self.sh.borrow_mut();
        if s.inject() {
            return Poll::Pending;
        }
        let c = s.chunk();
        let d = &mut s.dirs[1 - self.side];
        if !d.ready.is_empty() {
            let n = buf.len().min(c).min(d.ready.len());
            for b in buf[..n].iter_mut() {
                *b = d.ready.pop_front().unwrap();
            }
            Poll::Ready(Ok(n))
        } else if d.closed && d.inflight.is_empty() {
            Poll::Ready(Ok(0))
        } else {
            Poll::Pending
        }
    }
}

impl AsyncWrite for End {
    fn poll_write(self: Pin<&mut Self>, _: &mut Context<'_>, buf: &[u8]) -> Poll<io::Result<usize>> {
        let mut s = self.sh.borrow_mut();
        if s.inject() {
            return Poll::Pending;
        }
        let c = s.chunk();
        let n = buf.len().min(c);
        let d = &mut s.dirs[self.side];
        d.inflight.extend(&buf[..n]);
        d.transcript.extend_from_slice(&buf[..n]);
        Poll::Ready(Ok(n))
    }
    fn poll_flush(self: Pin<&mut Self>, _: &mut Context<'_>) -> Poll<io::Result<()>> {
        let mut s = self.sh.borrow_mut();
        if s.inject() {
            return Poll::Pending;
        }
        Poll::Ready(Ok(()))
    }
    fn poll_close(self: Pin<&mut Self>, _: &mut Context<'_>) -> Poll<io::Result<()>> {
        let mut s = self.sh.borrow_mut();
        if s.inject() {
            return Poll::Pending;
        }
        s.dirs[self.side].closed = true;
        Poll::Ready(Ok(()))
    }
}

// ---------------------------------------------------------------- the two tasks

#[derive(Default)]
struct SideObs {
    res: Option<String>,
    recv: Vec<u8>,
    fin: Option<String>,
}

/// after a successful negotiation: write all application data, close the write half, read to the end
async fn app_phase<S: AsyncRead + AsyncWrite + Unpin>(mut neg: S, data: Vec<u8>, obs: Rc<RefCell<SideObs>>) {
    let mut off = 0;
    while off < data.len() {
        match poll_fn(|cx| Pin::new(&mut neg).poll_write(cx, &data[off..])).await {
            Ok(0) => {
                obs.borrow_mut().fin = Some("err:WriteZero".into());
                return;
            }
            Ok(n) => off += n,
            Err(e) => {
                obs.borrow_mut().fin = Some(format!("w:{}", io_err_tok(&e)));
                return;
            }
        }
    }
    if let Err(e) = poll_fn(|cx| Pin::new(&mut neg).poll_close(cx)).await {
        obs.borrow_mut().fin = Some(format!("c:{}", io_err_tok(&e)));
        return;
    }
    let mut buf = [0u8; 7];
    loop {
        match poll_fn(|cx| Pin::new(&mut neg).poll_read(cx, &mut buf)).await {
            Ok(0) => {
                obs.borrow_mut().fin = Some("eof".into());
                return;
            }
            Ok(n) => obs.borrow_mut().recv.extend_from_slice(&buf[..n]),
            Err(e) => {
                obs.borrow_mut().fin = Some(io_err_tok(&e));
                return;
            }
        }
    }
}

fn name_tok(b: &[u8]) -> String {
    if b.is_empty() {
        "~".into()
    } else {
        hex(b)
    }
}

fn names_tok(ns: &[String]) -> String {
    if ns.is_empty() {
        "-".into()
    } else {
        ns.iter().map(|n| name_tok(n.as_bytes())).collect::<Vec<_>>().join(",")
    }
}

fn parse_names(t: &str) -> Vec<String> {
    if t == "-" {
        vec![]
    } else {
        t.split(',')
            .map(|x| if x == "~" { String::new() } else { String::from_utf8_lossy(&unhex(x)).into_owned() })
            .collect()
    }
}

struct Run {
    lazy: bool,
    ds: Vec<String>,
    ls: Vec<String>,
    a: Vec<u8>,
    b: Vec<u8>,
    seed: u64,
}

fn one(out: &mut Out, r: &Run) {
    out.op(&format!(
        "run {} {} {} {} {} {}",
        if r.lazy { "lazy" } else { "v1" },
        names_tok(&r.ds),
        names_tok(&r.ls),
        hex(&r.a),
        hex(&r.b),
        r.seed
    ));
    let res = hcore::guarded(|| execute(r));
    match res {
        Ok(s) => out.imp(&s),
        Err(p) => out.imp(&format!("d:panic:{p} l:panic:{p} dl:- ld:- drecv:- dfin:none lrecv:- lfin:none")),
    }
}

fn execute(r: &Run) -> String {
    let mut rng = Rng::new(r.seed);
    // schedule profile
    let profile = rng.below(6);
    let (pending16, max_chunk, random_chunk) = match profile {
        0 => (0, 0, false),                       // everything ready, unbounded chunks
        1 => (0, 1, false),                       // byte by byte
        2 => (4, 0, true),
        3 => (8, 0, true),
        4 => (2, *rng.pick(&[2usize, 3, 7]), false),
        _ => (rng.below(12), 0, true),
    };
    // scheduler weights: poll dialer, poll listener, deliver d→l, deliver l→d
    let weights: [u64; 4] = match rng.below(5) {
        0 => [1, 1, 1, 1],
        1 => [8, 1, 1, 1],
        2 => [1, 8, 1, 1],
        3 => [4, 4, 1, 1],
        _ => [1 + rng.below(8), 1 + rng.below(8), 1 + rng.below(8), 1 + rng.below(8)],
    };
    let sh = Rc::new(RefCell::new(Shared {
        dirs: [Dir::default(), Dir::default()],
        rng: Rng::new(r.seed ^ 0x5555),
        pending16,
        max_chunk,
        random_chunk,
    }));
    let dobs = Rc::new(RefCell::new(SideObs::default()));
    let lobs = Rc::new(RefCell::new(SideObs::default()));
    let dend = End { sh: sh.clone(), side: 0 };
    let lend = End { sh: sh.clone(), side: 1 };
    let version = if r.lazy { Version::V1Lazy } else { Version::V1 };

    let (ds, a, dobs2) = (r.ds.clone(), r.a.clone(), dobs.clone());
    let mut dtask: Pin<Box<dyn Future<Output = ()>>> = Box::pin(async move {
        match dialer_select_proto(dend, ds, version).await {
            Err(e) => dobs2.borrow_mut().res = Some(nerr_tok(&e)),
            Ok((name, neg)) => {
                dobs2.borrow_mut().res = Some(format!("ok:{}", name_tok(name.as_bytes())));
                app_phase(neg, a, dobs2).await;
            }
        }
    });
    let (ls, b, lobs2) = (r.ls.clone(), r.b.clone(), lobs.clone());
    let mut ltask: Pin<Box<dyn Future<Output = ()>>> = Box::pin(async move {
        match listener_select_proto(lend, ls).await {
            Err(e) => lobs2.borrow_mut().res = Some(nerr_tok(&e)),
            Ok((name, neg)) => {
                lobs2.borrow_mut().res = Some(format!("ok:{}", name_tok(name.as_bytes())));
                app_phase(neg, b, lobs2).await;
            }
        }
    });

    let w = noop_waker();
    let mut cx = Context::from_waker(&w);
    let (mut ddone, mut ldone) = (false, false);
    let total: u64 = weights.iter().sum();
    let mut steps = 0u64;
    while !(ddone && ldone) && steps < 400_000 {
        steps += 1;
        let mut x = rng.below(total);
        let mut mv = 0;
        for (i, wgt) in weights.iter().enumerate() {
            if x < *wgt {
                mv = i;
                break;
            }
            x -= wgt;
        }
        match mv {
            0 if !ddone => {
                if dtask.as_mut().poll(&mut cx).is_ready() {
                    ddone = true;
                    // the task (and with it the stream) is gone
                    dtask = Box::pin(async {});
                }
            }
            1 if !ldone => {
                if ltask.as_mut().poll(&mut cx).is_ready() {
                    ldone = true;
                    ltask = Box::pin(async {});
                }
            }
            2 | 3 => {
                let mut s = sh.borrow_mut();
                let k = match s.rng.below(5) {
                    0 => 1,
                    1 => 2,
                    2 => 3,
                    3 => 7,
                    _ => usize::MAX,
                };
                let d = &mut s.dirs[mv - 2];
                let k = k.min(d.inflight.len());
                for _ in 0..k {
                    let b = d.inflight.pop_front().unwrap();
                    d.ready.push_back(b);
                }
            }
            _ => {}
        }
    }
    let s = sh.borrow();
    let d = dobs.borrow();
    let l = lobs.borrow();
    let o = |x: &Option<String>| x.clone().unwrap_or_else(|| "none".into());
    format!(
        "d:{} l:{} dl:{} ld:{} drecv:{} dfin:{} lrecv:{} lfin:{}",
        o(&d.res),
        o(&l.res),
        hex(&s.dirs[0].transcript),
        hex(&s.dirs[1].transcript),
        hex(&d.recv),
        o(&d.fin),
        hex(&l.recv),
        o(&l.fin)
    )
}

// ---------------------------------------------------------------- generators

const ALPHA: &[&str] = &["/a", "/b", "/c", "/proto/1.0.0", "/é", "/kad/1.0.0"];

fn gen_name(rng: &mut Rng, dialer: bool) -> String {
    match rng.below(40) {
        0 => "noslash".into(),
        1 if !dialer => "".into(),
        2 => "/x\ny".into(),
        3 => "/multistream/1.0.0".into(),
        4 => {
            let mut s = String::from("/");
            let l = *rng.pick(&[126usize, 127, 128, 300]);
            while s.len() < l {
                s.push('q');
            }
            s
        }
        5 => "/a/".into(),
        _ => {
            let k = if rng.chance(3, 4) { 3 } else { ALPHA.len() };
            ALPHA[rng.usize(k)].into()
        }
    }
}

fn gen_list(rng: &mut Rng, dialer: bool) -> Vec<String> {
    let n = match rng.below(8) {
        0 => 0,
        1 | 2 => 1,
        _ => 1 + rng.usize(4),
    };
    (0..n).map(|_| gen_name(rng, dialer)).collect()
}

fn gen_app(rng: &mut Rng) -> Vec<u8> {
    match rng.below(10) {
        0 => vec![],
        1 => vec![0xff, 0xff, 0x03, 0x01],            // looks like an oversized length prefix
        2 => vec![0x80, 0x00, 0x42],                  // non-minimal prefix
        3 => b"\x03/a\n".to_vec(),                    // a well-formed frame naming a protocol (V1Lazy pitfall)
        4 => b"\x03ls\n".to_vec(),
        5 => vec![0x00, 0x01, 0x02],                  // empty frame first
        6 => {
            let n = 20 + rng.usize(40);
            rng.bytes(n)
        }
        7 => b"\x04/\xff\xfe\n".to_vec(),             // a frame whose protocol name is not UTF-8
        _ => {
            let n = 1 + rng.usize(12);
            rng.bytes(n)
        }
    }
}

fn lists_upto(names: &[&str], max: usize) -> Vec<Vec<String>> {
    let mut all: Vec<Vec<String>> = vec![vec![]];
    let mut last: Vec<Vec<String>> = vec![vec![]];
    for _ in 0..max {
        let mut next = vec![];
        for l in &last {
            for n in names {
                let mut x = l.clone();
                x.push(n.to_string());
                next.push(x);
            }
        }
        all.extend(next.iter().cloned());
        last = next;
    }
    all
}

pub fn run(args: &Args, out: &mut Out) {
    if let Some(cases) = args.replay_cases() {
        for (i, (_, ops)) in cases.iter().enumerate() {
            out.case(i as u64, "replay nt=1");
            for op in ops {
                if op.len() == 7 && op[0] == "run" {
                    one(out, &Run {
                        lazy: op[1] == "lazy",
                        ds: parse_names(&op[2]),
                        ls: parse_names(&op[3]),
                        a: unhex(&op[4]),
                        b: unhex(&op[5]),
                        seed: op[6].parse().unwrap_or(0),
                    });
                }
            }
            out.end();
        }
        return;
    }
    let mut idx = 0u64;
    // bounded-exhaustive: all list pairs over 3 names up to length 2 (quick) / 3 (thorough), both versions
    let lists = lists_upto(&ALPHA[..3], if args.thorough { 3 } else { 2 });
    if args.count == 0 {
        for ds in &lists {
            for ls in &lists {
                for lazy in [false, true] {
                    let mut rng = Rng::for_case(args.seed ^ 0xabcdef, idx);
                    let nt = !ds.is_empty() && !ls.is_empty();
                    out.case(idx, &format!("pairs nt={}", nt as u8));
                    one(out, &Run { lazy, ds: ds.clone(), ls: ls.clone(), a: gen_app(&mut rng), b: gen_app(&mut rng), seed: rng.next_u64() >> 1 });
                    out.end();
                    idx += 1;
                }
            }
        }
    }
    let n = args.n(3000, 300_000);
    for i in 0..n {
        let mut rng = Rng::for_case(args.seed, i);
        let ds = gen_list(&mut rng, true);
        let ls = gen_list(&mut rng, false);
        let lazy = rng.bool();
        let nt = !ds.is_empty() && !ls.is_empty();
        out.case(idx, &format!("random nt={}", nt as u8));
        // the same lists under two different schedules
        for _ in 0..2 {
            one(out, &Run { lazy, ds: ds.clone(), ls: ls.clone(), a: gen_app(&mut rng), b: gen_app(&mut rng), seed: rng.next_u64() >> 1 });
        }
        out.end();
        idx += 1;
    }
}
