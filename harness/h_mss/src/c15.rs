//! C15 — `Message::{encode,decode}` (through the cfg(libp2p_verif) hook) and the real
//! `listener_select_proto` / `dialer_select_proto` futures on crafted, hostile input,
//! vs the Lean model `Mss.decodeMsg` / `C15.listenRun` / `C15.dialRun`.
use std::cell::RefCell;
use std::io;
use std::pin::Pin;
use std::rc::Rc;
use std::task::{Context, Poll};

use futures::io::{AsyncRead, AsyncWrite};
use futures::task::noop_waker;
use hcore::{hex, unhex, Args, Out, Rng};
use multistream_select::verif_c15::{self as hook, VMsg};
use multistream_select::{dialer_select_proto, listener_select_proto, NegotiationError, ProtocolError, Version};

// ---------------------------------------------------------------- tokens

fn name_tok(b: &[u8]) -> String {
    if b.is_empty() {
        "~".into()
    } else {
        hex(b)
    }
}

fn names_tok<T: AsRef<[u8]>>(ns: &[T]) -> String {
    if ns.is_empty() {
        "-".into()
    } else {
        ns.iter().map(|n| name_tok(n.as_ref())).collect::<Vec<_>>().join(",")
    }
}

fn parse_name(t: &str) -> Vec<u8> {
    if t == "~" {
        vec![]
    } else {
        unhex(t)
    }
}

fn parse_names(t: &str) -> Vec<Vec<u8>> {
    if t == "-" {
        vec![]
    } else {
        t.split(',').map(parse_name).collect()
    }
}

fn msg_tok(m: &VMsg) -> String {
    match m {
        VMsg::Header => "H".into(),
        VMsg::NotAvailable => "NA".into(),
        VMsg::ListProtocols => "LS".into(),
        VMsg::Protocol(p) => format!("P:{}", name_tok(p.as_bytes())),
        VMsg::Protocols(ps) => format!("PS:{}", names_tok(&ps.iter().map(|p| p.as_bytes()).collect::<Vec<_>>())),
    }
}

fn parse_msg(t: &str) -> Option<VMsg> {
    let s = |b: Vec<u8>| String::from_utf8(b).ok();
    Some(match t {
        "H" => VMsg::Header,
        "NA" => VMsg::NotAvailable,
        "LS" => VMsg::ListProtocols,
        _ if t.starts_with("PS:") => {
            VMsg::Protocols(parse_names(&t[3..]).into_iter().map(s).collect::<Option<Vec<_>>>()?)
        }
        _ if t.starts_with("P:") => VMsg::Protocol(s(parse_name(&t[2..]))?),
        _ => return None,
    })
}

pub fn io_err_tok(e: &io::Error) -> String {
    if let Some(inner) = e.get_ref() {
        if let Some(NegotiationError::Failed) = inner.downcast_ref::<NegotiationError>() {
            return "failed".into();
        }
    }
    let msg = e.to_string();
    let k = match e.kind() {
        io::ErrorKind::UnexpectedEof => "UnexpectedEof".to_string(),
        io::ErrorKind::InvalidData => match msg.as_str() {
            "invalid length prefix" => "InvalidPrefix".into(),
            "Maximum frame length exceeded" => "FrameTooLong".into(),
            "Maximum frame size exceeded." => "SendTooLarge".into(),
            "not enough input bytes" => "UviInsufficient".into(),
            "input bytes exceed maximum" => "UviOverflow".into(),
            "encoding is not minimal" => "UviNotMinimal".into(),
            _ if e.get_ref().is_none() => "InvalidData".into(),
            _ => format!("Io:InvalidData:{}", msg.replace(' ', "_")),
        },
        k => format!("Io:{:?}", k),
    };
    format!("err:{k}")
}

pub fn perr_tok(e: &ProtocolError) -> String {
    match e {
        ProtocolError::InvalidMessage => "err:InvalidMessage".into(),
        ProtocolError::InvalidProtocol => "err:InvalidProtocol".into(),
        ProtocolError::TooManyProtocols => "err:TooManyProtocols".into(),
        ProtocolError::IoError(e) => io_err_tok(e),
    }
}

pub fn nerr_tok(e: &NegotiationError) -> String {
    match e {
        NegotiationError::Failed => "failed".into(),
        NegotiationError::ProtocolError(p) => perr_tok(p),
    }
}

// ---------------------------------------------------------------- scripted one-directional I/O

struct IoState {
    input: Vec<u8>,
    pos: usize,
    out: Vec<u8>,
    rng: Rng,
}

/// reads deliver the scripted input in rng-sized chunks then EOF; writes accept rng-sized chunks
#[derive(Clone)]
struct ScriptIo(Rc<RefCell<IoState>>);

impl ScriptIo {
    fn new(input: Vec<u8>, seed: u64) -> Self {
        ScriptIo(Rc::new(RefCell::new(IoState { input, pos: 0, out: vec![], rng: Rng::new(seed) })))
    }
}

fn chunk(rng: &mut Rng) -> usize {
    match rng.below(6) {
        0 => 1,
        1 => 2,
        2 => 3,
        3 => 7,
        4 => 1 + rng.usize(64),
        _ => usize::MAX,
    }
}

impl AsyncRead for ScriptIo {
    fn poll_read(self: Pin<&mut Self>, _: &mut Context<'_>, buf: &mut [u8]) -> Poll<io::Result<usize>> {
        let mut s = self.0.borrow_mut();
        let c = chunk(&mut s.rng);
        let n = buf.len().min(c).min(s.input.len() - s.pos);
        let p = s.pos;
        buf[..n].copy_from_slice(&s.input[p..p + n]);
        s.pos += n;
        Poll::Ready(Ok(n))
    }
}

impl AsyncWrite for ScriptIo {
    fn poll_write(self: Pin<&mut Self>, _: &mut Context<'_>, buf: &[u8]) -> Poll<io::Result<usize>> {
        let mut s = self.0.borrow_mut();
        let c = chunk(&mut s.rng);
        let n = buf.len().min(c);
        s.out.extend_from_slice(&buf[..n]);
        Poll::Ready(Ok(n))
    }
    fn poll_flush(self: Pin<&mut Self>, _: &mut Context<'_>) -> Poll<io::Result<()>> {
        Poll::Ready(Ok(()))
    }
    fn poll_close(self: Pin<&mut Self>, _: &mut Context<'_>) -> Poll<io::Result<()>> {
        Poll::Ready(Ok(()))
    }
}

fn drive<F: std::future::Future + Unpin>(mut f: F) -> Option<F::Output> {
    let w = noop_waker();
    let mut cx = Context::from_waker(&w);
    for _ in 0..100_000 {
        if let Poll::Ready(v) = Pin::new(&mut f).poll(&mut cx) {
            return Some(v);
        }
    }
    None
}

fn fnv(s: &str) -> u64 {
    let mut h = 0xcbf29ce484222325u64;
    for b in s.bytes() {
        h ^= b as u64;
        h = h.wrapping_mul(0x100000001b3);
    }
    h
}

// ---------------------------------------------------------------- ops

fn dec_tok(r: Result<VMsg, ProtocolError>) -> String {
    match r {
        Ok(m) => format!("ok {}", msg_tok(&m)),
        Err(e) => perr_tok(&e),
    }
}

fn op_rt(out: &mut Out, m: &VMsg) {
    out.op(&format!("rt {}", msg_tok(m)));
    let r = hcore::guarded(|| {
        let e = hook::encode(m);
        let d = hook::decode(&e);
        format!("{} {}", hex(&e), dec_tok(d))
    });
    match r {
        Ok(s) => out.imp(&s),
        Err(p) => out.imp(&format!("- panic {p}")),
    }
}

fn op_dec(out: &mut Out, bytes: &[u8]) {
    out.op(&format!("dec {}", hex(bytes)));
    match hcore::guarded(|| dec_tok(hook::decode(bytes))) {
        Ok(s) => out.imp(&s),
        Err(p) => out.imp(&format!("panic {p}")),
    }
}

fn strs(names: &[Vec<u8>]) -> Vec<String> {
    // names are generated as valid UTF-8; a replayed non-UTF-8 name is replaced lossily
    names.iter().map(|n| String::from_utf8_lossy(n).into_owned()).collect()
}

fn op_listen(out: &mut Out, names: &[Vec<u8>], input: &[u8]) {
    let op = format!("listen {} {}", names_tok(names), hex(input));
    out.op(&op);
    let io = ScriptIo::new(input.to_vec(), fnv(&op));
    let io2 = io.clone();
    let names = strs(names);
    let r = hcore::guarded(move || drive(listener_select_proto(io2, names)));
    let res = match r {
        Ok(Some(Ok((name, _neg)))) => format!("ok:{}", name_tok(name.as_bytes())),
        Ok(Some(Err(e))) => nerr_tok(&e),
        Ok(None) => "stuck".into(),
        Err(p) => format!("panic:{p}"),
    };
    let s = io.0.borrow();
    out.imp(&format!("{} out:{} consumed:{}", res, hex(&s.out), s.pos));
}

fn op_dial(out: &mut Out, lazy: bool, names: &[Vec<u8>], input: &[u8]) {
    let op = format!("dial {} {} {}", if lazy { "lazy" } else { "v1" }, names_tok(names), hex(input));
    out.op(&op);
    let io = ScriptIo::new(input.to_vec(), fnv(&op));
    let io2 = io.clone();
    let names = strs(names);
    let version = if lazy { Version::V1Lazy } else { Version::V1 };
    let r = hcore::guarded(move || {
        let r = drive(dialer_select_proto(io2, names, version));
        match r {
            None => "stuck".to_string(),
            Some(Err(e)) => nerr_tok(&e),
            Some(Ok((name, mut neg))) => {
                // read the Negotiated stream to its end (EOF or first error)
                let w = noop_waker();
                let mut cx = Context::from_waker(&w);
                let mut data = vec![];
                let mut fin = "stuck".to_string();
                let mut buf = [0u8; 5];
                for _ in 0..200_000 {
                    match Pin::new(&mut neg).poll_read(&mut cx, &mut buf) {
                        Poll::Ready(Ok(0)) => {
                            fin = "eof".into();
                            break;
                        }
                        Poll::Ready(Ok(n)) => data.extend_from_slice(&buf[..n]),
                        Poll::Ready(Err(e)) => {
                            fin = io_err_tok(&e);
                            break;
                        }
                        Poll::Pending => {}
                    }
                }
                format!("{}|{}|{}", name_tok(name.as_bytes()), hex(&data), fin)
            }
        }
    });
    let s = io.0.borrow();
    let tail = format!("out:{} consumed:{}", hex(&s.out), s.pos);
    match r {
        Ok(t) if t.contains('|') => {
            // the future resolved Ok(name); then the Negotiated stream was read to its end
            let p: Vec<&str> = t.split('|').collect();
            out.imp(&format!("ok:{} data:{} fin:{} {}", p[0], p[1], p[2], tail));
        }
        Ok(t) => out.imp(&format!("{} {}", t, tail)),
        Err(p) => out.imp(&format!("panic:{p} {tail}")),
    }
}

// ---------------------------------------------------------------- generators

fn frame(payload: &[u8]) -> Vec<u8> {
    // unsigned-varint length prefix (any length; > 16383 gives a 3-byte prefix, i.e. an oversized frame)
    let mut v = vec![];
    let mut n = payload.len();
    loop {
        let b = (n & 0x7f) as u8;
        n >>= 7;
        if n == 0 {
            v.push(b);
            break;
        }
        v.push(b | 0x80);
    }
    v.extend_from_slice(payload);
    v
}

fn uvi(mut n: u64) -> Vec<u8> {
    let mut v = vec![];
    loop {
        let b = (n & 0x7f) as u8;
        n >>= 7;
        if n == 0 {
            v.push(b);
            return v;
        }
        v.push(b | 0x80);
    }
}

const WORDS: &[&str] = &["a", "b", "proto", "1.0.0", "ipfs", "kad", "é", "日本", "𝄞", "x y", "id", "0"];

fn gen_valid_name(rng: &mut Rng) -> String {
    let mut s = String::new();
    let segs = 1 + rng.usize(3);
    for _ in 0..segs {
        s.push('/');
        s.push_str(WORDS[rng.usize(WORDS.len())]);
    }
    if rng.chance(1, 12) {
        // long names, around the 1-byte/2-byte varint boundary and up to 300
        let target = *rng.pick(&[125usize, 126, 127, 128, 129, 200, 300]);
        while s.len() < target {
            s.push(char::from(b'a' + rng.below(26) as u8));
        }
    }
    s
}

fn gen_name(rng: &mut Rng) -> String {
    match rng.below(14) {
        0 => "noslash".into(),
        1 => "".into(),
        2 => "/x\ny".into(),
        3 => "/multistream/1.0.0".into(),
        4 => *rng.pick(&["na", "ls", "\n", "/", "/\n", "é/", "\u{3}/a\n"]),
        _ => return gen_valid_name(rng),
    }
    .to_string()
}

fn gen_msg(rng: &mut Rng) -> VMsg {
    match rng.below(12) {
        0 => VMsg::Header,
        1 => VMsg::NotAvailable,
        2 => VMsg::ListProtocols,
        3..=6 => VMsg::Protocol(if rng.chance(3, 4) { gen_valid_name(rng) } else { gen_name(rng) }),
        _ => {
            let n = match rng.below(10) {
                0 => 0,
                1 => 1,
                2 => *rng.pick(&[999usize, 1000, 1001, 1002, 1100]),
                _ => rng.usize(12),
            };
            let all_valid = rng.chance(2, 3);
            let base = gen_valid_name(rng);
            VMsg::Protocols(
                (0..n)
                    .map(|i| {
                        if n > 50 {
                            if !all_valid && i == n / 2 { "bad".to_string() } else { format!("{}{}", base, i % 7) }
                        } else if all_valid {
                            gen_valid_name(rng)
                        } else {
                            gen_name(rng)
                        }
                    })
                    .collect(),
            )
        }
    }
}

/// bytes for `dec`: hostile
fn gen_dec_bytes(rng: &mut Rng) -> Vec<u8> {
    match rng.below(12) {
        0 => {
            let n = rng.usize(40);
            rng.bytes(n)
        }
        1 => vec![],
        2 | 3 => {
            // bit-flipped / truncated / extended valid encoding
            let mut e = hook::encode(&gen_msg(rng));
            if e.len() > 4000 {
                e.truncate(200);
            }
            match rng.below(4) {
                0 if !e.is_empty() => {
                    let i = rng.usize(e.len());
                    e[i] ^= 1 << rng.below(8);
                }
                1 if !e.is_empty() => {
                    let i = rng.usize(e.len());
                    e.truncate(i);
                }
                2 => e.push(rng.next_u64() as u8),
                _ => {
                    let i = rng.usize(e.len() + 1);
                    e.insert(i, *rng.pick(&[b'\n', b'/', 0, 0x80, 0xff]));
                }
            }
            e
        }
        4 | 5 | 6 => {
            // hand-built ls response with varint oddities and bad names
            let mut v = vec![];
            let n = rng.usize(4);
            for _ in 0..n {
                let name: Vec<u8> = match rng.below(8) {
                    0 => b"bad".to_vec(),
                    1 => vec![b'/', 0xff, 0xfe],                 // not UTF-8
                    2 => vec![b'/', 0xed, 0xa0, 0x80],           // surrogate
                    3 => vec![b'/', 0xc0, 0xaf],                 // overlong
                    4 => vec![b'/', 0xf4, 0x90, 0x80, 0x80],     // > U+10FFFF
                    5 => vec![b'/', 0xe2, 0x82],                 // truncated sequence
                    _ => gen_valid_name(rng).into_bytes(),
                };
                let len = (name.len() + 1) as u64;
                match rng.below(10) {
                    0 => v.extend([0x80 | (len as u8 & 0x7f), 0x00]),       // non-minimal
                    1 => {
                        // 10-byte varint whose top bits fall off the u64: value wraps to `len`
                        v.push(0x80 | (len as u8 & 0x7f));
                        v.extend([0x80; 8]);
                        v.push(*rng.pick(&[0x02u8, 0x7e, 0x01, 0x03]));
                    }
                    2 => v.extend([0xff; 10]),                             // overflow
                    3 => v.extend(uvi((len + rng.below(5)).saturating_sub(2))), // length off by a little, either way
                    4 => v.push(0),                                        // zero length
                    5 => v.extend(uvi(*rng.pick(&[1u64 << 32, u64::MAX, 1 << 63]))),
                    _ => v.extend(uvi(len)),
                }
                v.extend_from_slice(&name);
                v.push(if rng.chance(1, 10) { b'x' } else { b'\n' });
            }
            if rng.chance(5, 6) {
                v.push(b'\n');
            }
            v
        }
        7 => {
            // protocol line with odd content
            let mut v = vec![b'/'];
            let n = rng.usize(6);
            v.extend(rng.bytes(n));
            v.push(b'\n');
            v
        }
        8 => rng.pick(&[&b"/multistream/1.0.0\n"[..], b"na\n", b"ls\n", b"\n", b"/\n", b"/", b"\n\n", b"na", b"/multistream/1.0.0", b"/multistream/1.0.1\n"]).to_vec(),
        9 => {
            // exactly / just over 1000 hand-encoded names
            let n = *rng.pick(&[999usize, 1000, 1001]);
            let mut v = vec![];
            for _ in 0..n {
                v.extend([3, b'/', b'a', b'\n']);
            }
            v.push(b'\n');
            v
        }
        _ => {
            let mut v = gen_valid_name(rng).into_bytes();
            v.push(b'\n');
            v
        }
    }
}

const NAMES: &[&str] = &["/a", "/b", "/proto/1.0.0", "/é", "/multistream/1.0.0", "noslash", "/x\ny", "", "/c"];

fn gen_names(rng: &mut Rng, max: usize) -> Vec<Vec<u8>> {
    let n = rng.usize(max + 1);
    (0..n)
        .map(|_| {
            if rng.chance(1, 25) {
                let mut s = String::from("/");
                let l = *rng.pick(&[126usize, 127, 128, 16380, 16381, 16382, 16383]);
                while s.len() < l {
                    s.push('q');
                }
                s.into_bytes()
            } else if rng.chance(4, 5) {
                NAMES[rng.usize(4)].as_bytes().to_vec()
            } else {
                rng.pick(NAMES).as_bytes().to_vec()
            }
        })
        .collect()
}

/// one hostile segment of a byte stream
fn gen_segment(rng: &mut Rng, names: &[Vec<u8>]) -> Vec<u8> {
    let line = |n: &[u8]| {
        let mut v = n.to_vec();
        v.push(b'\n');
        v
    };
    match rng.below(20) {
        0 => frame(b"/multistream/1.0.0\n"),
        1 => frame(b"ls\n"),
        2 => frame(b"na\n"),
        3..=7 => {
            if !names.is_empty() && rng.chance(2, 3) {
                frame(&line(&names[rng.usize(names.len())]))
            } else {
                frame(&line(NAMES[rng.usize(NAMES.len())].as_bytes()))
            }
        }
        8 => frame(&gen_dec_bytes(rng)),
        9 => vec![0x00],                      // empty frame
        10 => vec![0x80, 0x00],               // non-minimal prefix
        11 => vec![0x80, 0x80, 0x01],         // 16384: too long
        12 => vec![0xff, 0xff],
        13 => {
            // a frame of exactly MAX_FRAME_SIZE / MAX+1 bytes
            let l = *rng.pick(&[16383usize, 16384, 127, 128, 129]);
            let mut p = vec![b'/'];
            while p.len() < l - 1 {
                p.push(b'q');
            }
            p.push(b'\n');
            frame(&p)
        }
        14 => {
            let n = 1 + rng.usize(6);
            rng.bytes(n)
        }
        15 => frame(&hook::encode(&gen_msg(rng))),
        16 => {
            // truncated frame
            let mut f = frame(&line(b"/proto/1.0.0"));
            let k = rng.usize(f.len());
            f.truncate(k);
            f
        }
        _ => {
            if names.is_empty() {
                frame(b"/a\n")
            } else {
                frame(&line(&names[rng.usize(names.len())]))
            }
        }
    }
}

fn gen_stream(rng: &mut Rng, names: &[Vec<u8>], for_dialer: bool) -> Vec<u8> {
    let mut v = vec![];
    if rng.chance(5, 6) {
        v.extend(frame(b"/multistream/1.0.0\n"));
    }
    let n = rng.usize(5);
    for _ in 0..n {
        if for_dialer && rng.chance(1, 2) {
            v.extend(frame(b"na\n"));
        } else {
            v.extend(gen_segment(rng, names));
        }
    }
    if rng.chance(1, 3) {
        // application data / trailing garbage
        let k = rng.usize(9);
        v.extend(rng.bytes(k));
    }
    v
}

// ---------------------------------------------------------------- entry

fn exec(out: &mut Out, op: &[String]) {
    match op[0].as_str() {
        "rt" => {
            if let Some(m) = parse_msg(&op[1]) {
                op_rt(out, &m)
            }
        }
        "dec" => op_dec(out, &unhex(&op[1])),
        "listen" => op_listen(out, &parse_names(&op[1]), &unhex(&op[2])),
        "dial" => op_dial(out, op[1] == "lazy", &parse_names(&op[2]), &unhex(&op[3])),
        _ => {}
    }
}

pub fn run(args: &Args, out: &mut Out) {
    if let Some(cases) = args.replay_cases() {
        for (i, (_, ops)) in cases.iter().enumerate() {
            out.case(i as u64, "replay nt=1");
            for op in ops {
                exec(out, op);
            }
            out.end();
        }
        return;
    }
    let mut idx = 0u64;
    // fixed boundary cases first
    {
        out.case(idx, "fixed nt=1");
        for m in [VMsg::Header, VMsg::NotAvailable, VMsg::ListProtocols, VMsg::Protocols(vec![]),
                  VMsg::Protocol("/multistream/1.0.0".into()), VMsg::Protocol("/".into()), VMsg::Protocol("".into()),
                  VMsg::Protocols(vec!["/a".into(); 1000]), VMsg::Protocols(vec!["/a".into(); 1001]),
                  VMsg::Protocols(vec!["/".to_string() + &"z".repeat(45)]), VMsg::Protocols(vec!["/".to_string() + &"z".repeat(126)]),
                  VMsg::Protocols(vec!["/".to_string() + &"z".repeat(127)]), VMsg::Protocol("/".to_string() + &"z".repeat(20000))] {
            op_rt(out, &m);
        }
        for b in [&b""[..], b"\n", b"/", b"/\n", b"\x00", b"\x80", b"\x01\n\n", b"\x02/\n\n", b"\x01/\n"] {
            op_dec(out, b);
        }
        // ls-response entries whose announced length misses the bytes really present by -2..+2, around the
        // 1-/2-/3-byte varint boundaries (an entry length that overshoots by exactly one must be rejected, not indexed)
        for body_len in [1usize, 2, 3, 126, 127, 128, 129, 130, 200, 16382, 16383, 16384, 16385] {
            let mut body: Vec<u8> = std::iter::once(b'/').chain(std::iter::repeat(b'q').take(body_len.saturating_sub(2))).collect();
            body.truncate(body_len.saturating_sub(1));
            body.push(b'\n');
            for delta in [-2i64, -1, 0, 1, 2] {
                let announced = body_len as i64 + delta;
                if announced < 0 {
                    continue;
                }
                for (prefix, suffix) in [(&b""[..], &b""[..]), (b"", b"\n"), (b"\x03/a\n", b""), (b"\x03/a\n", b"\n")] {
                    let mut v = prefix.to_vec();
                    v.extend(uvi(announced as u64));
                    v.extend_from_slice(&body);
                    v.extend_from_slice(suffix);
                    op_dec(out, &v);
                }
            }
        }
        let names = vec![b"/a".to_vec(), b"/b".to_vec()];
        for input in [&b""[..], b"\x00", b"\x80", b"\x80\x00", b"\x80\x80", b"\xff\xff\x03", b"\x13/multistream/1.0.0\n", b"\x13/multistream/1.0.0\n\x03/b\n", b"\x13/multistream/1.0.0\n\x03/c\n\x03ls\n\x03/a\nrest"] {
            op_listen(out, &names, input);
            op_dial(out, false, &names, input);
            op_dial(out, true, &names[..1], input);
            op_dial(out, true, &names, input);
        }
        // frames of exactly MAX_FRAME_SIZE (16383) and MAX_FRAME_SIZE + 1 bytes, sent and received
        for l in [16382usize, 16383] {
            let long: Vec<u8> = std::iter::once(b'/').chain(std::iter::repeat(b'q').take(l - 1)).collect();
            let mut line = long.clone();
            line.push(b'\n');
            let mut input = frame(b"/multistream/1.0.0\n");
            input.extend(frame(&line));
            op_listen(out, &[long.clone()], &input);
            op_dial(out, false, &[long.clone()], &input);
            op_dial(out, true, &[long.clone()], &input);
        }
        out.end();
        idx += 1;
    }
    let n = args.n(2500, 120_000);
    for i in 0..n {
        let mut rng = Rng::for_case(args.seed, i);
        let class = rng.below(4);
        match class {
            0 => {
                out.case(idx, "rt nt=1");
                for _ in 0..3 {
                    let m = gen_msg(&mut rng);
                    op_rt(out, &m);
                }
            }
            1 => {
                out.case(idx, "dec nt=1");
                for _ in 0..4 {
                    let b = gen_dec_bytes(&mut rng);
                    op_dec(out, &b);
                }
            }
            2 => {
                out.case(idx, "listen nt=1");
                let names = gen_names(&mut rng, 4);
                for _ in 0..2 {
                    let s = gen_stream(&mut rng, &names, false);
                    op_listen(out, &names, &s);
                }
            }
            _ => {
                out.case(idx, "dial nt=1");
                let names = gen_names(&mut rng, 3);
                let lazy = rng.bool();
                for _ in 0..2 {
                    let s = gen_stream(&mut rng, &names, true);
                    op_dial(out, lazy, &names, &s);
                }
            }
        }
        out.end();
        idx += 1;
    }
}
