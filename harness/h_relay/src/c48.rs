//! C48 — the relay's precast rate limiters (`Config::reservation_rate_per_peer` / `_per_ip` →
//! `Box<dyn RateLimiter>`), driven through the public `RateLimiter::try_next(peer, addr, now)`
//! with explicit `Instant`s, vs the Lean model `C48.perPeer` / `C48.perIp`.
use std::{
    num::NonZeroU32,
    time::{Duration, Instant},
};

use hcore::{maddr_tok, Args, Multiaddr, Out, Protocol, Rng};
use libp2p_relay::{Config, RateLimiter};

fn limiter(kind: &str, limit: u32, interval_ns: u64) -> Box<dyn RateLimiter> {
    let mut cfg = Config::default();
    cfg.reservation_rate_limiters.clear();
    let l = NonZeroU32::new(limit).unwrap();
    let i = Duration::from_nanos(interval_ns);
    let mut cfg = match kind {
        "peer" => cfg.reservation_rate_per_peer(l, i),
        "ip" => cfg.reservation_rate_per_ip(l, i),
        k => panic!("kind {k}"),
    };
    assert_eq!(cfg.reservation_rate_limiters.len(), 1);
    cfg.reservation_rate_limiters.pop().unwrap()
}

fn addrs() -> Vec<Multiaddr> {
    let p = |v: Vec<Protocol<'static>>| {
        let mut a = Multiaddr::empty();
        for x in v {
            a.push(x);
        }
        a
    };
    vec![
        p(vec![Protocol::Ip4([10, 0, 0, 1].into()), Protocol::Tcp(1)]),
        p(vec![Protocol::Ip4([10, 0, 0, 2].into()), Protocol::Tcp(1)]),
        p(vec![Protocol::Ip6("2001:db8::1".parse().unwrap()), Protocol::Udp(9), Protocol::QuicV1]),
        // same numeric value as the first ip4, but v6: a different key
        p(vec![Protocol::Ip6((0x0A00_0001u128).into()), Protocol::Tcp(1)]),
        // no IP at all: always accepted by the per-IP limiter
        p(vec![Protocol::Memory(7)]),
        p(vec![Protocol::Dns("relay.example".into()), Protocol::Tcp(4001)]),
        Multiaddr::empty(),
        // the IP is not the first component / two IPs: the first one counts
        p(vec![Protocol::Dns4("x".into()), Protocol::Ip4([10, 0, 0, 1].into())]),
        p(vec![Protocol::Ip4([10, 0, 0, 2].into()), Protocol::Tcp(1), Protocol::Ip4([10, 0, 0, 1].into())]),
    ]
}

/// deterministic peer ids `0..1024` (ed25519 keys from the index), built once per process
fn peer_of(i: u16) -> libp2p_core::PeerId {
    static PEERS: std::sync::OnceLock<Vec<libp2p_core::PeerId>> = std::sync::OnceLock::new();
    PEERS.get_or_init(|| {
        (0..1024u16)
            .map(|i| {
                let mut sk = [0u8; 32];
                sk[0] = i as u8;
                sk[1] = (i >> 8) as u8;
                sk[31] = 0x42;
                libp2p_identity::Keypair::ed25519_from_bytes(sk).unwrap().public().to_peer_id()
            })
            .collect()
    })[i as usize % 1024]
}

/// the `k`-th address of a large crowd: distinct IPv4 hosts 10.1.x.y
fn crowd_addr(k: u16) -> Multiaddr {
    let mut a = Multiaddr::empty();
    a.push(Protocol::Ip4([10, 1, (k >> 8) as u8, k as u8].into()));
    a.push(Protocol::Tcp(4001));
    a
}

struct Run {
    kind: String,
    a: Box<dyn RateLimiter>,
    b: Option<Box<dyn RateLimiter>>,
    base: Instant,
}

impl Run {
    fn new(kind: &str, limit: u32, interval: u64) -> Run {
        Run {
            kind: kind.into(),
            a: limiter(kind, limit, interval),
            // per-IP: a second instance is fed the same (addr, time) history under other peer ids
            b: if kind == "ip" { Some(limiter(kind, limit, interval)) } else { None },
            base: Instant::now(),
        }
    }
    /// returns false after a panic (the limiter's state is then undefined: the case ends)
    fn req(&mut self, out: &mut Out, peer: u16, peer2: u16, addr: &Multiaddr, now: u64) -> bool {
        out.op(&format!("req {} {} {} {}", peer, peer2, maddr_tok(addr), now));
        let t = self.base + Duration::from_nanos(now);
        let a = &mut self.a;
        let b = &mut self.b;
        let (pa, pb) = (peer_of(peer), peer_of(peer2));
        let r = hcore::guarded(|| {
            let ra = a.try_next(pa, addr, t);
            let rb = b.as_mut().map(|b| b.try_next(pb, addr, t));
            (ra, rb)
        });
        match r {
            Ok((ra, None)) => out.imp(&format!("{ra}")),
            Ok((ra, Some(rb))) => out.imp(&format!("{ra} {rb}")),
            Err(m) => {
                out.imp(&format!("panic {m}"));
                return false;
            }
        }
        let _ = &self.kind;
        true
    }
}

const U32MAX: u64 = u32::MAX as u64;

fn gen_case(rng: &mut Rng, out: &mut Out, idx: u64, len: usize, mono: bool) {
    let kind = if rng.bool() { "peer" } else { "ip" };
    let limit: u32 = match rng.below(10) {
        0 => u32::MAX,
        1 => u32::MAX - 1,
        2 | 3 => 1,
        4 | 5 => 2,
        6 => 3,
        7 => 10,
        _ => rng.range(1, 6) as u32,
    };
    let interval: u64 = *rng.pick(&[
        1, 2, 7, 999, 1000, 1001, 1500, 1999, 2000, 2500, 10_000, 1_000_000, 1_000_001, 30_000_000_000,
    ]);
    let cls = if mono { "mono" } else { "nonmono" };
    out.case(idx, &format!("{cls} nt={} {kind} {limit} {interval}", (len >= 3) as u8));
    let mut run = Run::new(kind, limit, interval);
    let addrs = addrs();
    // a case concentrates on few keys so buckets actually run dry
    let nkeys = 1 + rng.usize(3);
    let l = limit as u64;
    let mut now: u64 = rng.below(3) * interval;
    for _ in 0..len {
        let gap = match rng.below(16) {
            0..=4 => 0,
            5 => 1,
            6 => interval - 1,
            7 => interval,
            8 => interval + 1,
            9 => rng.range(2, 5) * interval + rng.below(2) * (interval / 2),
            10 => l.min(1 << 20) * interval,
            11 => (l.min(1 << 20) * interval).saturating_sub(1),
            12 => rng.below(interval + 1),
            13 => interval / 2,
            14 => {
                if rng.chance(1, 8) {
                    // more than u32::MAX intervals: the u32 saturation branch
                    (U32MAX + 1 + rng.below(3)).saturating_mul(interval.min(3000))
                } else {
                    rng.below(3 * interval + 1)
                }
            }
            _ => rng.below(1 + interval / 1000) * 1000,
        };
        if !mono && rng.chance(1, 4) {
            now = now.saturating_sub(rng.below(2 * interval + 1));
        } else {
            now = (now + gap).min(1 << 60);
        }
        let peer = 1 + rng.usize(nkeys) as u16;
        let peer2 = 1 + rng.usize(3) as u16;
        let addr = if kind == "ip" {
            if rng.chance(1, 6) {
                rng.pick(&addrs).clone()
            } else {
                addrs[rng.usize(nkeys.min(4))].clone()
            }
        } else {
            rng.pick(&addrs).clone()
        };
        if !run.req(out, peer, peer2, &addr, now) {
            break;
        }
    }
    out.end();
}

/// A long refill queue: a crowd of 150-600 distinct identities (peers, or IPs under the per-IP
/// limiter) asks in bursts at the same or nearby instants, then a target identity exhausts its
/// bucket (its schedule entry is queued behind the whole crowd) and asks again after exactly
/// `limit * interval` (and one tick less / more), with some ordinary traffic in between.
fn crowd_case(rng: &mut Rng, out: &mut Out, idx: u64) {
    let kind = if rng.bool() { "peer" } else { "ip" };
    let limit: u32 = *rng.pick(&[1, 1, 2, 3]);
    let interval: u64 = *rng.pick(&[1000, 1500, 1_000_000, 30_000_000_000]);
    out.case(idx, &format!("crowd nt=1 {kind} {limit} {interval}"));
    let mut run = Run::new(kind, limit, interval);
    let n = 150 + rng.usize(451) as u16;
    // identity k: peer 10+k (per-peer) / address 10.1.x.y (per-IP, asked by arbitrary peers)
    let ask = |run: &mut Run, out: &mut Out, rng: &mut Rng, k: u16, now: u64| -> bool {
        if kind == "peer" {
            run.req(out, 10 + k, 1, &crowd_addr(rng.below(4) as u16), now)
        } else {
            run.req(out, 1 + rng.below(600) as u16, 1 + rng.below(600) as u16, &crowd_addr(k), now)
        }
    };
    let spread = *rng.pick(&[0u64, 0, 1, interval / 4]);
    let mut now = rng.below(3) * interval;
    let t0 = now;
    // the crowd, in bursts; some members ask twice
    let mut k = 0u16;
    while k < n {
        let burst = 1 + rng.usize(64) as u16;
        for _ in 0..burst.min(n - k) {
            if !ask(&mut run, out, rng, k, now) {
                out.end();
                return;
            }
            if rng.chance(1, 10) && !ask(&mut run, out, rng, k, now) {
                out.end();
                return;
            }
            k += 1;
        }
        if spread > 0 {
            now += rng.below(spread / 16 + 2);
        }
    }
    // the target (identity n) exhausts its bucket: `limit` accepted, one refused
    let target = n;
    for _ in 0..=limit {
        if !ask(&mut run, out, rng, target, now) {
            out.end();
            return;
        }
    }
    let t_target = now;
    // ordinary traffic while nothing is due yet (before t0 + interval)
    let quiet_until = t0 + interval - 1;
    for _ in 0..rng.usize(4) {
        if now < quiet_until {
            now += rng.below(quiet_until - now + 1);
        }
        let k = rng.below(n as u64) as u16;
        if !ask(&mut run, out, rng, k, now) {
            out.end();
            return;
        }
    }
    // the target comes back after limit * interval (-1, exact, +1, or later)
    let idle = limit as u64 * interval;
    let back = t_target
        + match rng.below(6) {
            0 => idle - 1,
            1 | 2 | 3 => idle,
            4 => idle + 1,
            _ => idle + rng.below(2 * interval),
        };
    now = now.max(back);
    if !ask(&mut run, out, rng, target, now) {
        out.end();
        return;
    }
    // and some more traffic, the target included
    for _ in 0..rng.usize(6) {
        now += *rng.pick(&[0, 1, interval / 2, interval]);
        let k = if rng.chance(1, 3) { target } else { rng.below(n as u64 + 1) as u16 };
        if !ask(&mut run, out, rng, k, now) {
            break;
        }
    }
    out.end();
}

/// bounded-exhaustive: one key, every gap sequence of length `n` over a small gap alphabet
fn exhaustive(out: &mut Out, idx: &mut u64, n: usize) {
    let addr = addrs()[0].clone();
    for (limit, interval) in [(1u32, 1000u64), (2, 1000), (3, 1500), (2, 999), (3, 2500)] {
        let gaps = [0, 1, interval / 2, interval - 1, interval, interval + 1, 2 * interval, limit as u64 * interval];
        let total = gaps.len().pow(n as u32);
        for code in 0..total {
            for kind in ["peer", "ip"] {
                out.case(*idx, &format!("exh nt=1 {kind} {limit} {interval}"));
                *idx += 1;
                let mut run = Run::new(kind, limit, interval);
                let mut now = 0u64;
                let mut c = code;
                for _ in 0..n {
                    now += gaps[c % gaps.len()];
                    c /= gaps.len();
                    if !run.req(out, 1, 2, &addr, now) {
                        break;
                    }
                }
                out.end();
            }
        }
    }
}

pub fn run(args: &Args, out: &mut Out) {
    if let Some(cases) = args.replay_cases() {
        for (i, (hdr, ops)) in cases.iter().enumerate() {
            // hdr = [idx, class, nt=.., kind, limit, interval]
            let kind = hdr[3].clone();
            let limit: u32 = hdr[4].parse().unwrap();
            let interval: u64 = hdr[5].parse().unwrap();
            out.case(i as u64, &format!("replay nt=1 {kind} {limit} {interval}"));
            let mut run = Run::new(&kind, limit, interval);
            for op in ops {
                let peer: u16 = op[1].parse().unwrap();
                let peer2: u16 = op[2].parse().unwrap();
                let addr = parse_tok(&op[3]);
                let now: u64 = op[4].parse().unwrap();
                if !run.req(out, peer, peer2, &addr, now) {
                    break;
                }
            }
            out.end();
        }
        return;
    }
    let mut idx = 0u64;
    exhaustive(out, &mut idx, if args.thorough { 4 } else { 3 });
    let crowds = if args.count > 0 { (args.count / 5).max(1) } else if args.thorough { 1500 } else { 200 };
    for i in 0..crowds {
        let mut rng = Rng::for_case(args.seed ^ 0xC0FFEE, i);
        crowd_case(&mut rng, out, idx);
        idx += 1;
    }
    let n = args.n(1000, 20_000);
    for i in 0..n {
        let mut rng = Rng::for_case(args.seed, i);
        let len = match rng.below(20) {
            0 => 400 + rng.usize(1600),
            1..=4 => 40 + rng.usize(100),
            _ => 1 + rng.usize(30),
        };
        let mono = !rng.chance(1, 10);
        gen_case(&mut rng, out, idx, len, mono);
        idx += 1;
    }
}

fn parse_tok(tok: &str) -> Multiaddr {
    let mut a = Multiaddr::empty();
    if tok == "-" {
        return a;
    }
    for c in tok.split('/') {
        let mut it = c.splitn(2, ':');
        let name = it.next().unwrap();
        let v = it.next().unwrap_or("");
        let s = |v: &str| String::from_utf8(hcore::unhex(v)).unwrap();
        a.push(match name {
            "ip4" => Protocol::Ip4(v.parse::<u32>().unwrap().into()),
            "ip6" => Protocol::Ip6(v.parse::<u128>().unwrap().into()),
            "dns" => Protocol::Dns(s(v).into()),
            "dns4" => Protocol::Dns4(s(v).into()),
            "tcp" => Protocol::Tcp(v.parse().unwrap()),
            "udp" => Protocol::Udp(v.parse().unwrap()),
            "quic-v1" => Protocol::QuicV1,
            "memory" => Protocol::Memory(v.parse().unwrap()),
            other => panic!("replay: unsupported component {other}"),
        });
    }
    a
}
