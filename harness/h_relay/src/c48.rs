//! C48 — the relay's precast rate limiters (`Config::reservation_rate_per_peer` / `_per_ip` →
//! `Box<dyn RateLimiter>`), driven through the public `RateLimiter::try_next(peer, addr, now)`
//! with explicit `Instant`s, vs the Lean model `C48.perPeer` / `C48.perIp`.
use std::{
    num::NonZeroU32,
    time::{Duration, Instant},
};

use hcore::{maddr_tok, Args, Multiaddr, Out, Protocol, Rng};
use libp2p_relay::{Config, RateLimiter};

fn limiter(kind: &str, limit: u32, interval_ns: u64) -> Box<dyn RateLimiter> {
    let mut cfg = Config::default();
    cfg.reservation_rate_limiters.clear();
    let l = NonZeroU32::new(limit).unwrap();
    let i = Duration::from_nanos(interval_ns);
    let mut cfg = match kind {
        "peer" => cfg.reservation_rate_per_peer(l, i),
        "ip" => cfg.reservation_rate_per_ip(l, i),
        k => panic!("kind {k}"),
    };
    assert_eq!(cfg.reservation_rate_limiters.len(), 1);
    cfg.reservation_rate_limiters.pop().unwrap()
}

fn addrs() -> Vec<Multiaddr> {
    let p = |v: Vec<Protocol<'static>>| {
        let mut a = Multiaddr::empty();
        for x in v {
            a.push(x);
        }
        a
    };
    vec![
        p(vec![Protocol::Ip4([10, 0, 0, 1].into()), Protocol::Tcp(1)]),
        p(vec![Protocol::Ip4([10, 0, 0, 2].into()), Protocol::Tcp(1)]),
        p(vec![Protocol::Ip6("2001:db8::1".parse().unwrap()), Protocol::Udp(9), Protocol::QuicV1]),
        // same numeric value as the first ip4, but v6: a different key
        p(vec![Protocol::Ip6((0x0A00_0001u128).into()), Protocol::Tcp(1)]),
        // no IP at all: always accepted by the per-IP limiter
        p(vec![Protocol::Memory(7)]),
        p(vec![Protocol::Dns("relay.example".into()), Protocol::Tcp(4001)]),
        Multiaddr::empty(),
        // the IP is not the first component / two IPs: the first one counts
        p(vec![Protocol::Dns4("x".into()), Protocol::Ip4([10, 0, 0, 1].into())]),
        p(vec![Protocol::Ip4([10, 0, 0, 2].into()), Protocol::Tcp(1), Protocol::Ip4([10, 0, 0, 1].into())]),
    ]
}

struct Run {
    kind: String,
    a: Box<dyn RateLimiter>,
    b: Option<Box<dyn RateLimiter>>,
    base: Instant,
    peers: Vec<libp2p_core::PeerId>,
}

impl Run {
    fn new(kind: &str, limit: u32, interval: u64) -> Run {
        Run {
            kind: kind.into(),
            a: limiter(kind, limit, interval),
            // per-IP: a second instance is fed the same (addr, time) history under other peer ids
            b: if kind == "ip" { Some(limiter(kind, limit, interval)) } else { None },
            base: Instant::now(),
            peers: (0..8).map(hcore::peer).collect(),
        }
    }
    /// returns false after a panic (the limiter's state is then undefined: the case ends)
    fn req(&mut self, out: &mut Out, peer: u8, peer2: u8, addr: &Multiaddr, now: u64) -> bool {
        out.op(&format!("req {} {} {} {}", peer, peer2, maddr_tok(addr), now));
        let t = self.base + Duration::from_nanos(now);
        let a = &mut self.a;
        let b = &mut self.b;
        let (pa, pb) = (self.peers[peer as usize % 8], self.peers[peer2 as usize % 8]);
        let r = hcore::guarded(|| {
            let ra = a.try_next(pa, addr, t);
            let rb = b.as_mut().map(|b| b.try_next(pb, addr, t));
            (ra, rb)
        });
        match r {
            Ok((ra, None)) => out.imp(&format!("{ra}")),
            Ok((ra, Some(rb))) => out.imp(&format!("{ra} {rb}")),
            Err(m) => {
                out.imp(&format!("panic {m}"));
                return false;
            }
        }
        let _ = &self.kind;
        true
    }
}

const U32MAX: u64 = u32::MAX as u64;

fn gen_case(rng: &mut Rng, out: &mut Out, idx: u64, len: usize, mono: bool) {
    let kind = if rng.bool() { "peer" } else { "ip" };
    let limit: u32 = match rng.below(10) {
        0 => u32::MAX,
        1 => u32::MAX - 1,
        2 | 3 => 1,
        4 | 5 => 2,
        6 => 3,
        7 => 10,
        _ => rng.range(1, 6) as u32,
    };
    let interval: u64 = *rng.pick(&[
        1, 2, 7, 999, 1000, 1001, 1500, 1999, 2000, 2500, 10_000, 1_000_000, 1_000_001, 30_000_000_000,
    ]);
    let cls = if mono { "mono" } else { "nonmono" };
    out.case(idx, &format!("{cls} nt={} {kind} {limit} {interval}", (len >= 3) as u8));
    let mut run = Run::new(kind, limit, interval);
    let addrs = addrs();
    // a case concentrates on few keys so buckets actually run dry
    let nkeys = 1 + rng.usize(3);
    let l = limit as u64;
    let mut now: u64 = rng.below(3) * interval;
    for _ in 0..len {
        let gap = match rng.below(16) {
            0..=4 => 0,
            5 => 1,
            6 => interval - 1,
            7 => interval,
            8 => interval + 1,
            9 => rng.range(2, 5) * interval + rng.below(2) * (interval / 2),
            10 => l.min(1 << 20) * interval,
            11 => (l.min(1 << 20) * interval).saturating_sub(1),
            12 => rng.below(interval + 1),
            13 => interval / 2,
            14 => {
                if rng.chance(1, 8) {
                    // more than u32::MAX intervals: the u32 saturation branch
                    (U32MAX + 1 + rng.below(3)).saturating_mul(interval.min(3000))
                } else {
                    rng.below(3 * interval + 1)
                }
            }
            _ => rng.below(1 + interval / 1000) * 1000,
        };
        if !mono && rng.chance(1, 4) {
            now = now.saturating_sub(rng.below(2 * interval + 1));
        } else {
            now = (now + gap).min(1 << 60);
        }
        let peer = 1 + rng.usize(nkeys) as u8;
        let peer2 = 1 + rng.usize(3) as u8;
        let addr = if kind == "ip" {
            if rng.chance(1, 6) {
                rng.pick(&addrs).clone()
            } else {
                addrs[rng.usize(nkeys.min(4))].clone()
            }
        } else {
            rng.pick(&addrs).clone()
        };
        if !run.req(out, peer, peer2, &addr, now) {
            break;
        }
    }
    out.end();
}

/// bounded-exhaustive: one key, every gap sequence of length `n` over a small gap alphabet
fn exhaustive(out: &mut Out, idx: &mut u64, n: usize) {
    let addr = addrs()[0].clone();
    for (limit, interval) in [(1u32, 1000u64), (2, 1000), (3, 1500), (2, 999), (3, 2500)] {
        let gaps = [0, 1, interval / 2, interval - 1, interval, interval + 1, 2 * interval, limit as u64 * interval];
        let total = gaps.len().pow(n as u32);
        for code in 0..total {
            for kind in ["peer", "ip"] {
                out.case(*idx, &format!("exh nt=1 {kind} {limit} {interval}"));
                *idx += 1;
                let mut run = Run::new(kind, limit, interval);
                let mut now = 0u64;
                let mut c = code;
                for _ in 0..n {
                    now += gaps[c % gaps.len()];
                    c /= gaps.len();
                    if !run.req(out, 1, 2, &addr, now) {
                        break;
                    }
                }
                out.end();
            }
        }
    }
}

pub fn run(args: &Args, out: &mut Out) {
    if let Some(cases) = args.replay_cases() {
        for (i, (hdr, ops)) in cases.iter().enumerate() {
            // hdr = [idx, class, nt=.., kind, limit, interval]
            let kind = hdr[3].clone();
            let limit: u32 = hdr[4].parse().unwrap();
            let interval: u64 = hdr[5].parse().unwrap();
            out.case(i as u64, &format!("replay nt=1 {kind} {limit} {interval}"));
            let mut run = Run::new(&kind, limit, interval);
            for op in ops {
                let peer: u8 = op[1].parse().unwrap();
                let peer2: u8 = op[2].parse().unwrap();
                let addr = parse_tok(&op[3]);
                let now: u64 = op[4].parse().unwrap();
                if !run.req(out, peer, peer2, &addr, now) {
                    break;
                }
            }
            out.end();
        }
        return;
    }
    let mut idx = 0u64;
    exhaustive(out, &mut idx, if args.thorough { 4 } else { 3 });
    let n = args.n(1000, 20_000);
    for i in 0..n {
        let mut rng = Rng::for_case(args.seed, i);
        let len = match rng.below(20) {
            0 => 400 + rng.usize(1600),
            1..=4 => 40 + rng.usize(100),
            _ => 1 + rng.usize(30),
        };
        let mono = !rng.chance(1, 10);
        gen_case(&mut rng, out, idx, len, mono);
        idx += 1;
    }
}

fn parse_tok(tok: &str) -> Multiaddr {
    let mut a = Multiaddr::empty();
    if tok == "-" {
        return a;
    }
    for c in tok.split('/') {
        let mut it = c.splitn(2, ':');
        let name = it.next().unwrap();
        let v = it.next().unwrap_or("");
        let s = |v: &str| String::from_utf8(hcore::unhex(v)).unwrap();
        a.push(match name {
            "ip4" => Protocol::Ip4(v.parse::<u32>().unwrap().into()),
            "ip6" => Protocol::Ip6(v.parse::<u128>().unwrap().into()),
            "dns" => Protocol::Dns(s(v).into()),
            "dns4" => Protocol::Dns4(s(v).into()),
            "tcp" => Protocol::Tcp(v.parse().unwrap()),
            "udp" => Protocol::Udp(v.parse().unwrap()),
            "quic-v1" => Protocol::QuicV1,
            "memory" => Protocol::Memory(v.parse().unwrap()),
            other => panic!("replay: unsupported component {other}"),
        });
    }
    a
}
