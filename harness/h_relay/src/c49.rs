//! C49 — the relay's `CopyFuture` (through the `cfg(libp2p_verif)` constructor hook) between two
//! scripted in-memory endpoints, polled by hand, vs the Lean model `C49.poll`.
use std::{
    cell::RefCell,
    collections::VecDeque,
    future::Future,
    io,
    pin::Pin,
    rc::Rc,
    task::{Context, Poll, Waker},
    time::Duration,
};

use futures::io::{AsyncRead, AsyncWrite};
use hcore::{Args, Out, Rng};

#[derive(Clone, Copy, Debug)]
enum REv {
    Chunk(usize),
    Pending,
    Err,
}
#[derive(Clone, Copy, Debug)]
enum WEv {
    Take(usize),
    Pending,
    Err,
}
#[derive(Clone, Copy, Debug)]
enum FEv {
    Ready,
    Pending,
    Err,
}

#[derive(Default)]
struct EndState {
    inp: Vec<u8>,
    pos: usize,
    rs: VecDeque<REv>,
    ws: VecDeque<WEv>,
    fs: VecDeque<FEv>,
    cs: VecDeque<FEv>,
    out: Vec<u8>,
    closes: u64,
}

#[derive(Clone)]
struct End(Rc<RefCell<EndState>>);

impl AsyncRead for End {
    fn poll_read(self: Pin<&mut Self>, _: &mut Context<'_>, buf: &mut [u8]) -> Poll<io::Result<usize>> {
        let mut e = self.0.borrow_mut();
        let k = match e.rs.pop_front() {
            None => usize::MAX,
            Some(REv::Pending) => return Poll::Pending,
            Some(REv::Err) => return Poll::Ready(Err(io::ErrorKind::ConnectionReset.into())),
            Some(REv::Chunk(k)) => k + 1,
        };
        let n = k.min(buf.len()).min(e.inp.len() - e.pos);
        let pos = e.pos;
        buf[..n].copy_from_slice(&e.inp[pos..pos + n]);
        e.pos += n;
        Poll::Ready(Ok(n))
    }
}

impl AsyncWrite for End {
    fn poll_write(self: Pin<&mut Self>, _: &mut Context<'_>, buf: &[u8]) -> Poll<io::Result<usize>> {
        let mut e = self.0.borrow_mut();
        let n = match e.ws.pop_front() {
            None => buf.len(),
            Some(WEv::Pending) => return Poll::Pending,
            Some(WEv::Err) => return Poll::Ready(Err(io::ErrorKind::BrokenPipe.into())),
            Some(WEv::Take(k)) => k.min(buf.len()),
        };
        e.out.extend_from_slice(&buf[..n]);
        Poll::Ready(Ok(n))
    }
    fn poll_flush(self: Pin<&mut Self>, _: &mut Context<'_>) -> Poll<io::Result<()>> {
        let mut e = self.0.borrow_mut();
        match e.fs.pop_front() {
            None | Some(FEv::Ready) => Poll::Ready(Ok(())),
            Some(FEv::Pending) => Poll::Pending,
            Some(FEv::Err) => Poll::Ready(Err(io::ErrorKind::ConnectionAborted.into())),
        }
    }
    fn poll_close(self: Pin<&mut Self>, _: &mut Context<'_>) -> Poll<io::Result<()>> {
        let mut e = self.0.borrow_mut();
        match e.cs.pop_front() {
            None | Some(FEv::Ready) => {
                e.closes += 1;
                Poll::Ready(Ok(()))
            }
            Some(FEv::Pending) => Poll::Pending,
            Some(FEv::Err) => Poll::Ready(Err(io::ErrorKind::NotConnected.into())),
        }
    }
}

/// the input stream of an endpoint: a fixed formula of (seed, index), the same in the Lean driver
fn input(len: usize, seed: u64) -> Vec<u8> {
    (0..len as u64).map(|i| ((seed + 7 * i + i / 251) % 256) as u8).collect()
}

#[derive(Clone, Debug, Default)]
struct Scripts {
    rs: Vec<REv>,
    ws: Vec<WEv>,
    fs: Vec<FEv>,
    cs: Vec<FEv>,
}

fn tok_r(v: &[REv]) -> String {
    hcore::list(&v.iter().map(|e| match e { REv::Chunk(k) => format!("c{k}"), REv::Pending => "p".into(), REv::Err => "e".into() }).collect::<Vec<_>>())
}
fn tok_w(v: &[WEv]) -> String {
    hcore::list(&v.iter().map(|e| match e { WEv::Take(k) => format!("t{k}"), WEv::Pending => "p".into(), WEv::Err => "e".into() }).collect::<Vec<_>>())
}
fn tok_f(v: &[FEv]) -> String {
    hcore::list(&v.iter().map(|e| match e { FEv::Ready => "r", FEv::Pending => "p", FEv::Err => "e" }.to_string()).collect::<Vec<_>>())
}
fn items(t: &str) -> Vec<&str> {
    if t == "-" { vec![] } else { t.split(',').collect() }
}
fn parse_r(t: &str) -> Vec<REv> {
    items(t).into_iter().map(|x| match x { "p" => REv::Pending, "e" => REv::Err, c => REv::Chunk(c[1..].parse().unwrap()) }).collect()
}
fn parse_w(t: &str) -> Vec<WEv> {
    items(t).into_iter().map(|x| match x { "p" => WEv::Pending, "e" => WEv::Err, c => WEv::Take(c[1..].parse().unwrap()) }).collect()
}
fn parse_f(t: &str) -> Vec<FEv> {
    items(t).into_iter().map(|x| match x { "p" => FEv::Pending, "e" => FEv::Err, _ => FEv::Ready }).collect()
}

#[derive(Clone, Debug)]
struct Case {
    max: u64,
    len_s: usize,
    seed_s: u64,
    len_d: usize,
    seed_d: u64,
    s: Scripts,
    d: Scripts,
    /// `fired` flag of every poll
    polls: Vec<bool>,
}

const CAP: usize = 8192;
const DURATION: Duration = Duration::from_secs(3600);

fn mk_end(len: usize, seed: u64, sc: &Scripts) -> End {
    End(Rc::new(RefCell::new(EndState {
        inp: input(len, seed),
        pos: 0,
        rs: sc.rs.iter().copied().collect(),
        ws: sc.ws.iter().copied().collect(),
        fs: sc.fs.iter().copied().collect(),
        cs: sc.cs.iter().copied().collect(),
        out: vec![],
        closes: 0,
    })))
}

/// advance the interposed clock past `DURATION` and wait until futures-timer has noticed: a probe
/// `Delay` created right after the CopyFuture's (same duration, so not earlier) must have fired
fn fire_timer(probe: &mut futures_timer::Delay) -> bool {
    hcore::warp(DURATION + Duration::from_secs(1));
    let waker = Waker::noop();
    let mut cx = Context::from_waker(waker);
    for _ in 0..5000 {
        // creating a timer wakes futures-timer's helper thread, which then re-reads the clock
        let _kick = futures_timer::Delay::new(Duration::from_millis(1));
        if Pin::new(&mut *probe).poll(&mut cx).is_ready() {
            return true;
        }
        std::thread::sleep(Duration::from_millis(1));
    }
    false
}

fn run_case(out: &mut Out, idx: u64, class: &str, c: &Case) {
    out.case(
        idx,
        &format!(
            "{class} nt=1 {CAP} {} {} {} {} {} {} {} {} {} {} {} {} {}",
            c.max, c.len_s, c.seed_s, c.len_d, c.seed_d,
            tok_r(&c.s.rs), tok_w(&c.s.ws), tok_f(&c.s.fs), tok_f(&c.s.cs),
            tok_r(&c.d.rs), tok_w(&c.d.ws), tok_f(&c.d.fs), tok_f(&c.d.cs),
        ),
    );
    let s = mk_end(c.len_s, c.seed_s, &c.s);
    let d = mk_end(c.len_d, c.seed_d, &c.d);
    let mut fut = libp2p_relay::verif_c49::copy_future(s.clone(), d.clone(), DURATION, c.max);
    let mut probe = futures_timer::Delay::new(DURATION);
    let waker = Waker::noop();
    let mut cx = Context::from_waker(waker);
    let mut fired = false;
    let (mut seen_s, mut seen_d) = (0usize, 0usize);
    for want_fired in &c.polls {
        if *want_fired && !fired {
            if !fire_timer(&mut probe) {
                out.op("poll 1");
                out.imp("err:harness-timer-did-not-fire");
                break;
            }
            fired = true;
        }
        out.op(&format!("poll {}", fired as u8));
        let r = hcore::guarded(|| Pin::new(&mut fut).poll(&mut cx));
        let (new_d, closes_d) = {
            let e = d.0.borrow();
            let v = e.out[seen_d..].to_vec();
            seen_d = e.out.len();
            (v, e.closes)
        };
        let (new_s, closes_s) = {
            let e = s.0.borrow();
            let v = e.out[seen_s..].to_vec();
            seen_s = e.out.len();
            (v, e.closes)
        };
        let res = match &r {
            Ok(Poll::Pending) => "pending".to_string(),
            Ok(Poll::Ready(Ok(()))) => "ok".to_string(),
            Ok(Poll::Ready(Err(e))) => match e.kind() {
                io::ErrorKind::ConnectionReset => "err:read".into(),
                io::ErrorKind::BrokenPipe => "err:write".into(),
                io::ErrorKind::ConnectionAborted => "err:flush".into(),
                io::ErrorKind::NotConnected => "err:close".into(),
                io::ErrorKind::WriteZero => "err:writeZero".into(),
                io::ErrorKind::TimedOut => "err:timedOut".into(),
                io::ErrorKind::Other if e.to_string() == "Max circuit bytes reached." => "err:maxBytes".into(),
                k => format!("err:other:{k:?}"),
            },
            Err(m) => format!("panic {m}"),
        };
        out.imp(&format!("{res} {} {} {closes_s} {closes_d}", hcore::hex(&new_d), hcore::hex(&new_s)));
        if !matches!(r, Ok(Poll::Pending)) {
            break;
        }
    }
    out.end();
}

fn gen_scripts(rng: &mut Rng, len_in: usize, quiet: bool) -> Scripts {
    let mut sc = Scripts::default();
    if quiet {
        return sc;
    }
    let n = rng.usize(12);
    for _ in 0..n {
        sc.rs.push(match rng.below(12) {
            0..=2 => REv::Pending,
            3 if rng.chance(1, 6) => REv::Err,
            4 | 5 => REv::Chunk(rng.usize(8)),
            6 => REv::Chunk(CAP - 2 + rng.usize(3)),
            7 => REv::Chunk(len_in.saturating_sub(1)),
            _ => REv::Chunk(rng.usize(3000)),
        });
    }
    let n = rng.usize(12);
    for _ in 0..n {
        sc.ws.push(match rng.below(12) {
            0..=2 => WEv::Pending,
            3 if rng.chance(1, 6) => WEv::Err,
            4 if rng.chance(1, 6) => WEv::Take(0),
            5 | 6 => WEv::Take(1 + rng.usize(8)),
            7 => WEv::Take(CAP - 1 + rng.usize(3)),
            _ => WEv::Take(1 + rng.usize(5000)),
        });
    }
    for v in [&mut sc.fs, &mut sc.cs] {
        let n = rng.usize(5);
        for _ in 0..n {
            v.push(match rng.below(8) {
                0..=2 => FEv::Pending,
                3 if rng.chance(1, 4) => FEv::Err,
                _ => FEv::Ready,
            });
        }
    }
    sc
}

fn gen_case(rng: &mut Rng) -> Case {
    let lens = [0usize, 0, 1, 2, 5, 100, 1000, 8191, 8192, 8193, 10_000, 16_384, 20_000];
    let len_s = *rng.pick(&lens);
    let len_d = if rng.chance(1, 3) { 0 } else { *rng.pick(&lens) };
    let total = (len_s + len_d) as u64;
    let max = match rng.below(10) {
        0 | 1 => 0,
        2 => 1,
        3 => 10,
        4 => 8192,
        5 => 10_000,
        6 => total,
        7 => total.saturating_sub(1).max(1),
        8 => total + 1,
        _ => 1 + rng.below(total + 2),
    };
    let quiet = rng.chance(1, 5);
    let s = gen_scripts(rng, len_s, quiet);
    let quiet_d = quiet && rng.bool();
    let d = gen_scripts(rng, len_d, quiet_d);
    let npolls = 40;
    let fire_at = if rng.chance(1, 5) { rng.usize(6) } else { usize::MAX };
    let polls = (0..npolls).map(|i| i >= fire_at).collect();
    Case { max, len_s, seed_s: rng.below(256), len_d, seed_d: rng.below(256), s, d, polls }
}

pub fn run(args: &Args, out: &mut Out) {
    if let Some(cases) = args.replay_cases() {
        for (i, (h, ops)) in cases.iter().enumerate() {
            // h = [idx, class, nt, cap, max, lenS, seedS, lenD, seedD, S.rs, S.ws, S.fs, S.cs, D.rs, D.ws, D.fs, D.cs]
            let c = Case {
                max: h[4].parse().unwrap(),
                len_s: h[5].parse().unwrap(),
                seed_s: h[6].parse().unwrap(),
                len_d: h[7].parse().unwrap(),
                seed_d: h[8].parse().unwrap(),
                s: Scripts { rs: parse_r(&h[9]), ws: parse_w(&h[10]), fs: parse_f(&h[11]), cs: parse_f(&h[12]) },
                d: Scripts { rs: parse_r(&h[13]), ws: parse_w(&h[14]), fs: parse_f(&h[15]), cs: parse_f(&h[16]) },
                polls: ops.iter().map(|o| o[1] == "1").collect(),
            };
            run_case(out, i as u64, "replay", &c);
        }
        return;
    }
    let mut idx = 0u64;
    // directed: the byte limit around one and two read buffers, plain endpoints
    for (len_s, len_d, max) in [
        (20_000usize, 0usize, 1u64), (20_000, 20_000, 1), (20_000, 20_000, 8192), (20_000, 20_000, 8191),
        (8192, 8192, 16_383), (8192, 8192, 16_384), (8192, 8192, 16_385), (100, 50, 150), (100, 50, 149),
        (0, 0, 5), (3, 0, 0), (20_000, 20_000, 0),
    ] {
        let c = Case { max, len_s, seed_s: 3, len_d, seed_d: 200, s: Scripts::default(), d: Scripts::default(), polls: vec![false; 10] };
        run_case(out, idx, "directed", &c);
        idx += 1;
    }
    // directed: the timer with a stalled source
    for fire_at in [0usize, 1, 3] {
        let s = Scripts { rs: vec![REv::Chunk(4), REv::Pending, REv::Pending, REv::Pending, REv::Pending, REv::Pending], ..Default::default() };
        let c = Case { max: 0, len_s: 50, seed_s: 1, len_d: 0, seed_d: 2, s, d: Scripts::default(), polls: (0..6).map(|i| i >= fire_at).collect() };
        run_case(out, idx, "timer", &c);
        idx += 1;
    }
    let n = args.n(400, 5_000);
    for i in 0..n {
        let mut rng = Rng::for_case(args.seed, i);
        let c = gen_case(&mut rng);
        run_case(out, idx, "random", &c);
        idx += 1;
    }
}
