//! C47 — relay resource limits.  A real relay `Behaviour` in a `Swarm` (no executor: every
//! connection task is polled inside `Swarm::poll`) and real relay clients over `MemoryTransport`;
//! one client swarm per *connection* (several swarms may share one identity, so one peer can hold
//! several connections and ask for a reservation on each).  Requests are issued one at a time and
//! all swarms are polled to quiescence after each; the relay's bookkeeping is then read through the
//! `cfg(libp2p_verif)` snapshot hook and compared with the Lean model `C47.step`.
use std::{
    collections::HashMap,
    future::Future,
    pin::Pin,
    sync::{
        atomic::{AtomicBool, Ordering},
        Arc, Mutex,
    },
    task::{Context, Poll, Wake, Waker},
    time::Duration,
};

use futures::StreamExt;
use hcore::{Args, Multiaddr, Out, Protocol, Rng};
use libp2p_core::{
    muxing::StreamMuxerBox,
    transport::{choice::OrTransport, Boxed, MemoryTransport, Transport},
    upgrade, PeerId,
};
use libp2p_relay as relay;
use libp2p_swarm::{
    dial_opts::{DialOpts, PeerCondition},
    Config as SwarmConfig, ConnectionId, Swarm, SwarmEvent,
};

struct Flag(AtomicBool);
impl Wake for Flag {
    fn wake(self: Arc<Self>) {
        self.0.store(true, Ordering::SeqCst)
    }
    fn wake_by_ref(self: &Arc<Self>) {
        self.0.store(true, Ordering::SeqCst)
    }
}

fn upgrade_transport<S>(t: Boxed<S>, key: &libp2p_identity::Keypair) -> Boxed<(PeerId, StreamMuxerBox)>
where
    S: futures::AsyncRead + futures::AsyncWrite + Send + Unpin + 'static,
{
    t.upgrade(upgrade::Version::V1)
        .authenticate(libp2p_plaintext::Config::new(key))
        .multiplex(libp2p_yamux::Config::default())
        .boxed()
}

fn swarm_cfg() -> SwarmConfig {
    SwarmConfig::without_executor().with_idle_connection_timeout(Duration::from_secs(86_400))
}

type Task = Pin<Box<dyn Future<Output = ()> + Send>>;

/// Executor that only collects the relay's connection tasks; the harness polls them itself, so
/// it can schedule a connection's task (handler) and the `Swarm` (behaviour) separately —
/// exactly the freedom a real multi-threaded runtime has.
#[derive(Clone, Default)]
struct ManualExec(Arc<Mutex<Vec<Option<Task>>>>);

impl libp2p_swarm::Executor for ManualExec {
    fn exec(&self, f: Task) {
        self.0.lock().unwrap().push(Some(f));
    }
}

const RACE_RESERVATION_SECS: u64 = 1000;

/// which parts of the world a polling round touches
#[derive(Clone, Copy)]
struct Parts {
    /// `None` = no relay connection task, `Some(usize::MAX)` = all, `Some(c)` = only connection `c`'s
    tasks: Option<usize>,
    swarm: bool,
    /// `None` = no client, `Some(usize::MAX)` = all clients, `Some(c)` = only client `c`
    clients: Option<usize>,
}

const ALL: Parts = Parts { tasks: Some(usize::MAX), swarm: true, clients: Some(usize::MAX) };

#[derive(Clone, Copy, Debug)]
pub struct Limits {
    max_res: usize,
    max_res_peer: usize,
    max_circ: usize,
    max_circ_peer: usize,
}

/// one client swarm = one connection to the relay
struct Client {
    peer: u8,
    swarm: Swarm<relay::client::Behaviour>,
    /// client-side id of the direct connection to the relay
    direct: Option<ConnectionId>,
    open: bool,
    has_res: bool,
    events: Vec<SwarmEvent<relay::client::Event>>,
}

struct World {
    relay: Swarm<relay::Behaviour>,
    relay_peer: PeerId,
    relay_addr: Multiaddr,
    relay_events: Vec<SwarmEvent<relay::Event>>,
    /// index = small connection id `c`
    clients: Vec<Client>,
    /// relay-side ConnectionId -> c
    conn_of: HashMap<ConnectionId, usize>,
    /// circuit id -> (client index, client-side ConnectionId of the relayed connection)
    circ_owner: HashMap<u64, (usize, ConnectionId)>,
    flag: Arc<Flag>,
    waker: Waker,
    /// relay connection tasks when the relay runs on the manual executor (race cases)
    tasks: Option<ManualExec>,
    /// index = connection `c`: the relay task indices spawned for it
    tasks_of: Vec<Vec<usize>>,
    /// a timer created after the last accepted reservation, with the reservation's duration
    probe: Option<futures_timer::Delay>,
}

const PEER_BASE: u8 = 10;

fn peer_idx(p: &PeerId, n: u8) -> String {
    for i in 0..n {
        if hcore::peer(PEER_BASE + i) == *p {
            return format!("{i}");
        }
    }
    "x".into()
}

impl World {
    fn new(l: Limits) -> World {
        World::with_mode(l, false)
    }

    fn with_mode(l: Limits, manual: bool) -> World {
        let key = hcore::keypair(200);
        let relay_peer = key.public().to_peer_id();
        let transport = upgrade_transport(MemoryTransport::default().boxed(), &key);
        let cfg = relay::Config {
            max_reservations: l.max_res,
            max_reservations_per_peer: l.max_res_peer,
            reservation_duration: Duration::from_secs(if manual { RACE_RESERVATION_SECS } else { 86_400 }),
            reservation_rate_limiters: vec![],
            max_circuits: l.max_circ,
            max_circuits_per_peer: l.max_circ_peer,
            max_circuit_duration: Duration::from_secs(86_400),
            max_circuit_bytes: 1 << 40,
            circuit_src_rate_limiters: vec![],
        };
        let tasks = if manual { Some(ManualExec::default()) } else { None };
        let scfg = match &tasks {
            Some(ex) => SwarmConfig::with_executor(ex.clone()).with_idle_connection_timeout(Duration::from_secs(864_000)),
            None => swarm_cfg(),
        };
        let relay = Swarm::new(transport, relay::Behaviour::new(relay_peer, cfg), relay_peer, scfg);
        let flag = Arc::new(Flag(AtomicBool::new(false)));
        let waker = Waker::from(flag.clone());
        let mut w = World {
            relay,
            relay_peer,
            relay_addr: Multiaddr::empty(),
            relay_events: vec![],
            clients: vec![],
            conn_of: HashMap::new(),
            circ_owner: HashMap::new(),
            flag,
            waker,
            tasks,
            tasks_of: vec![],
            probe: None,
        };
        w.relay.listen_on("/memory/0".parse().unwrap()).unwrap();
        w.quiesce();
        let addr = w
            .relay_events
            .iter()
            .find_map(|e| match e {
                SwarmEvent::NewListenAddr { address, .. } => Some(address.clone()),
                _ => None,
            })
            .expect("relay listen address");
        w.relay.add_external_address(addr.clone());
        w.relay_addr = addr;
        w.quiesce();
        w.relay_events.clear();
        w
    }

    /// poll every swarm until a whole round makes no progress and nobody was woken
    fn quiesce(&mut self) {
        self.quiesce_parts(ALL)
    }

    /// the same, restricted to some parts of the world
    fn quiesce_parts(&mut self, parts: Parts) {
        let waker = self.waker.clone();
        let mut cx = Context::from_waker(&waker);
        let mut idle = 0;
        for _round in 0..100_000 {
            let mut progressed = self.flag.0.swap(false, Ordering::SeqCst);
            if let (Some(sel), Some(ex)) = (parts.tasks, &self.tasks) {
                {
                    // take the tasks out while polling: a task may spawn (push) another one
                    let n = ex.0.lock().unwrap().len();
                    for i in 0..n {
                        if sel != usize::MAX && !self.tasks_of.get(sel).is_some_and(|v| v.contains(&i)) {
                            continue;
                        }
                        let t = ex.0.lock().unwrap()[i].take();
                        if let Some(mut t) = t {
                            if t.as_mut().poll(&mut cx).is_pending() {
                                ex.0.lock().unwrap()[i] = Some(t);
                            } else {
                                progressed = true;
                            }
                        }
                    }
                    if ex.0.lock().unwrap().len() != n {
                        progressed = true;
                    }
                }
            }
            if parts.swarm {
                while let Poll::Ready(Some(ev)) = self.relay.poll_next_unpin(&mut cx) {
                    self.relay_events.push(ev);
                    progressed = true;
                }
            }
            for (i, c) in self.clients.iter_mut().enumerate() {
                let on = match parts.clients {
                    None => false,
                    Some(usize::MAX) => true,
                    Some(k) => k == i,
                };
                if !on {
                    continue;
                }
                while let Poll::Ready(Some(ev)) = c.swarm.poll_next_unpin(&mut cx) {
                    c.events.push(ev);
                    progressed = true;
                }
            }
            if progressed || self.flag.0.load(Ordering::SeqCst) {
                idle = 0;
            } else {
                idle += 1;
                if idle >= 2 {
                    return;
                }
            }
        }
        panic!("no quiescence");
    }

    /// forget relayed connections whose circuit the relay no longer tracks
    fn prune(&mut self) {
        let live: Vec<u64> = self.relay.behaviour().verif_c47_circuits().iter().map(|x| x.0).collect();
        self.circ_owner.retain(|id, _| live.contains(id));
    }

    fn clear_events(&mut self) {
        self.relay_events.clear();
        for c in self.clients.iter_mut() {
            c.events.clear();
        }
    }

    fn snapshot(&self, npeers: u8) -> String {
        let b = self.relay.behaviour();
        let mut r: Vec<(String, usize, u8)> = b
            .verif_c47_connections()
            .into_iter()
            .map(|(p, c, a)| (peer_idx(&p, npeers), *self.conn_of.get(&c).unwrap_or(&999), a as u8))
            .collect();
        r.sort();
        let mut c: Vec<(u64, String)> = b
            .verif_c47_circuits()
            .into_iter()
            .map(|(id, sp, sc, dp, dc, acc)| {
                (
                    id,
                    format!(
                        "{}.{}.{}.{}.{}.{}",
                        id,
                        peer_idx(&sp, npeers),
                        self.conn_of.get(&sc).unwrap_or(&999),
                        peer_idx(&dp, npeers),
                        self.conn_of.get(&dc).unwrap_or(&999),
                        acc as u8
                    ),
                )
            })
            .collect();
        c.sort();
        // a peer entry with an empty connection map would be invisible in R: report it
        let empties = b.verif_c47_peers().iter().filter(|(_, n)| *n == 0).count();
        let rs = hcore::list(&r.iter().map(|(p, c, a)| format!("{p}.{c}.{a}")).collect::<Vec<_>>());
        let cs = hcore::list(&c.iter().map(|(_, s)| s.clone()).collect::<Vec<_>>());
        if empties > 0 {
            format!("R={rs} C={cs} E={empties}")
        } else {
            format!("R={rs} C={cs}")
        }
    }

    /// `conn p`: a new client swarm with identity `p` dials the relay; returns its `c`
    fn conn(&mut self, p: u8) -> Result<usize, String> {
        let key = hcore::keypair(PEER_BASE + p);
        let id = key.public().to_peer_id();
        let (rt, beh) = relay::client::new(id);
        let transport = upgrade_transport(OrTransport::new(rt, MemoryTransport::default()).boxed(), &key);
        let swarm = Swarm::new(transport, beh, id, swarm_cfg());
        let c = self.clients.len();
        let tasks_before = self.tasks.as_ref().map(|ex| ex.0.lock().unwrap().len()).unwrap_or(0);
        self.clients.push(Client { peer: p, swarm, direct: None, open: false, has_res: false, events: vec![] });
        self.clear_events();
        let opts = DialOpts::peer_id(self.relay_peer)
            .addresses(vec![self.relay_addr.clone()])
            .condition(PeerCondition::Always)
            .build();
        self.clients[c].swarm.dial(opts).map_err(|e| format!("dial:{e:?}"))?;
        self.quiesce();
        let tasks_after = self.tasks.as_ref().map(|ex| ex.0.lock().unwrap().len()).unwrap_or(0);
        self.tasks_of.push((tasks_before..tasks_after).collect());
        let direct = self.clients[c].events.iter().find_map(|e| match e {
            SwarmEvent::ConnectionEstablished { connection_id, .. } => Some(*connection_id),
            _ => None,
        });
        let rc = self.relay_events.iter().find_map(|e| match e {
            SwarmEvent::ConnectionEstablished { connection_id, peer_id, .. } if *peer_id == id => Some(*connection_id),
            _ => None,
        });
        match (direct, rc) {
            (Some(d), Some(rc)) => {
                self.clients[c].direct = Some(d);
                self.clients[c].open = true;
                self.conn_of.insert(rc, c);
                Ok(c)
            }
            _ => Err("noconn".into()),
        }
    }

    /// `reserve c`: the client listens on the relay's circuit address -> RESERVE on its connection
    fn reserve(&mut self, c: usize) -> String {
        self.clear_events();
        let addr = self.relay_addr.clone().with(Protocol::P2p(self.relay_peer)).with(Protocol::P2pCircuit);
        if let Err(e) = self.clients[c].swarm.listen_on(addr) {
            return format!("err:listen:{}", format!("{e:?}").replace(' ', "_"));
        }
        self.quiesce();
        let me = *self.clients[c].swarm.local_peer_id();
        let mut out = vec![];
        for e in &self.relay_events {
            if let SwarmEvent::Behaviour(ev) = e {
                match ev {
                    relay::Event::ReservationReqAccepted { src_peer_id, renewed } if *src_peer_id == me => {
                        out.push(format!("acc{}", *renewed as u8))
                    }
                    relay::Event::ReservationReqDenied { src_peer_id, status } if *src_peer_id == me => {
                        out.push(format!("deny:{status:?}"))
                    }
                    other => out.push(format!("other:{}", format!("{other:?}").split(' ').next().unwrap_or("?"))),
                }
            }
        }
        if out.iter().any(|o| o.starts_with("acc")) {
            self.clients[c].has_res = true;
            if self.tasks.is_some() {
                // created after the handler's reservation timer, same duration: fires not earlier
                self.probe = Some(futures_timer::Delay::new(Duration::from_secs(RACE_RESERVATION_SECS)));
            }
        }
        if out.is_empty() {
            "none".into()
        } else {
            out.join("+")
        }
    }

    /// `circuit c q`: the client dials peer `q` through the relay -> CONNECT on its connection
    fn circuit(&mut self, c: usize, q: u8, npeers: u8) -> (String, String) {
        self.clear_events();
        let before: Vec<u64> = self.relay.behaviour().verif_c47_circuits().iter().map(|x| x.0).collect();
        let dst = hcore::peer(PEER_BASE + q);
        let addr = self
            .relay_addr
            .clone()
            .with(Protocol::P2p(self.relay_peer))
            .with(Protocol::P2pCircuit)
            .with(Protocol::P2p(dst));
        let opts = DialOpts::peer_id(dst).addresses(vec![addr]).condition(PeerCondition::Always).build();
        if let Err(e) = self.clients[c].swarm.dial(opts) {
            return (format!("err:dial:{}", format!("{e:?}").replace(' ', "_")), "-".into());
        }
        self.quiesce();
        let me = *self.clients[c].swarm.local_peer_id();
        let mut out = vec![];
        #[allow(deprecated)]
        let stopfail = self.relay_events.iter().any(|e| {
            matches!(e, SwarmEvent::Behaviour(relay::Event::CircuitReqOutboundConnectFailed { src_peer_id, dst_peer_id, .. })
                if *src_peer_id == me && *dst_peer_id == dst)
        });
        if stopfail {
            // admitted (a circuit id was consumed), then the destination refused the STOP
            // request: the relay denied the source and dropped the circuit again
            return ("stopfail".into(), "fail".into());
        }
        for e in &self.relay_events {
            if let SwarmEvent::Behaviour(ev) = e {
                match ev {
                    relay::Event::CircuitReqAccepted { src_peer_id, dst_peer_id } if *src_peer_id == me && *dst_peer_id == dst => {
                        out.push("acc".to_string())
                    }
                    relay::Event::CircuitReqDenied { src_peer_id, dst_peer_id, status } if *src_peer_id == me && *dst_peer_id == dst => {
                        out.push(format!("deny:{status:?}"))
                    }
                    other => out.push(format!("other:{}", format!("{other:?}").split(' ').next().unwrap_or("?"))),
                }
            }
        }
        // the relayed connection on the source side, and the new circuit in the relay's tracker
        let new: Vec<_> = self
            .relay
            .behaviour()
            .verif_c47_circuits()
            .into_iter()
            .filter(|x| !before.contains(&x.0))
            .collect();
        let mut pick = "-".to_string();
        if let [(id, _, _, _, dc, _)] = new[..] {
            pick = format!("{}", self.conn_of.get(&dc).unwrap_or(&999));
            let cid = self.clients[c].events.iter().find_map(|e| match e {
                SwarmEvent::ConnectionEstablished { connection_id, peer_id, .. } if *peer_id == dst => Some(*connection_id),
                _ => None,
            });
            if let Some(cid) = cid {
                self.circ_owner.insert(id, (c, cid));
            } else {
                out.push("nosrcconn".into());
            }
        } else if !new.is_empty() {
            out.push(format!("new{}", new.len()));
        }
        let _ = npeers;
        (if out.is_empty() { "none".into() } else { out.join("+") }, pick)
    }

    /// race step 1: the client sends a RESERVE; only the relay's connection tasks (handlers)
    /// and that client run — the relay's `Swarm` (behaviour) does not see the event yet
    fn rbegin(&mut self, c: usize) -> String {
        self.clear_events();
        let addr = self.relay_addr.clone().with(Protocol::P2p(self.relay_peer)).with(Protocol::P2pCircuit);
        if let Err(e) = self.clients[c].swarm.listen_on(addr) {
            return format!("err:listen:{}", format!("{e:?}").replace(' ', "_"));
        }
        self.quiesce_parts(Parts { tasks: Some(c), swarm: false, clients: Some(c) });
        "sent".into()
    }

    /// race step 2: the reservation duration passes; only the relay's connection tasks run
    fn expire(&mut self) -> String {
        hcore::warp(Duration::from_secs(RACE_RESERVATION_SECS + 1));
        if let Some(probe) = self.probe.as_mut() {
            let w = Waker::noop();
            let mut cx = Context::from_waker(w);
            let mut fired = false;
            for _ in 0..5000 {
                let _kick = futures_timer::Delay::new(Duration::from_millis(1));
                if Pin::new(&mut *probe).poll(&mut cx).is_ready() {
                    fired = true;
                    break;
                }
                std::thread::sleep(Duration::from_millis(1));
            }
            if !fired {
                return "err:timer-did-not-fire".into();
            }
        }
        self.probe = None;
        self.quiesce_parts(Parts { tasks: Some(usize::MAX), swarm: false, clients: None });
        "ok".into()
    }

    /// race step 3: the relay's `Swarm` processes the handler events queued so far
    fn rdeliver(&mut self) -> String {
        self.clear_events();
        self.quiesce_parts(Parts { tasks: None, swarm: true, clients: None });
        let mut out = vec!["delivered".to_string()];
        for e in &self.relay_events {
            if let SwarmEvent::Behaviour(ev) = e {
                match ev {
                    relay::Event::ReservationTimedOut { .. } => out.push("timedout".into()),
                    other => out.push(format!("other:{}", format!("{other:?}").split(' ').next().unwrap_or("?"))),
                }
            }
        }
        out.join("+")
    }

    /// race step 4: handlers and behaviour run on (no client): the pending requests complete
    fn rend(&mut self) -> String {
        self.clear_events();
        self.quiesce_parts(Parts { tasks: Some(usize::MAX), swarm: true, clients: None });
        let mut out = vec![];
        for e in &self.relay_events {
            if let SwarmEvent::Behaviour(ev) = e {
                match ev {
                    relay::Event::ReservationReqAccepted { renewed, .. } => out.push(format!("acc{}", *renewed as u8)),
                    relay::Event::ReservationReqDenied { .. } => out.push("deny".to_string()),
                    relay::Event::ReservationTimedOut { .. } => out.push("timedout".to_string()),
                    other => out.push(format!("other:{}", format!("{other:?}").split(' ').next().unwrap_or("?"))),
                }
            }
        }
        out.sort();
        if out.is_empty() { "none".into() } else { out.join("+") }
    }

    fn closecirc(&mut self, id: u64) -> String {
        self.clear_events();
        match self.circ_owner.remove(&id) {
            Some((c, cid)) => {
                let ok = self.clients[c].swarm.close_connection(cid);
                self.quiesce();
                if ok { "ok".into() } else { "err:notopen".into() }
            }
            None => "err:unknown".into(),
        }
    }

    fn closeconn(&mut self, c: usize) -> String {
        self.clear_events();
        let d = match self.clients[c].direct.take() {
            Some(d) => d,
            None => return "err:notopen".into(),
        };
        let ok = self.clients[c].swarm.close_connection(d);
        self.clients[c].open = false;
        self.clients[c].has_res = false;
        self.quiesce();
        // relayed connections that went through this connection are gone with it
        self.circ_owner.retain(|_, (cc, _)| *cc != c);
        if ok { "ok".into() } else { "err:notopen".into() }
    }
}

#[derive(Clone, Debug)]
enum Op {
    Conn(u8),
    Reserve(usize),
    Circuit(usize, u8),
    CloseCirc(u64),
    CloseConn(usize),
    RBegin(usize),
    Expire,
    RDeliver,
    REnd,
}

/// executes one op on the real relay and prints its op/impl lines
fn exec(w: &mut World, out: &mut Out, op: &Op, npeers: u8) {
    exec_inner(w, out, op, npeers);
    w.prune();
}

fn exec_inner(w: &mut World, out: &mut Out, op: &Op, npeers: u8) {
    match op {
        Op::Conn(p) => {
            let r = hcore::guarded(|| w.conn(*p));
            match r {
                Ok(Ok(c)) => {
                    out.op(&format!("conn {p} {c}"));
                    out.imp(&format!("ok {}", w.snapshot(npeers)));
                }
                Ok(Err(e)) => {
                    out.op(&format!("conn {p} {}", w.clients.len() - 1));
                    out.imp(&format!("err:{e}"));
                }
                Err(m) => {
                    out.op(&format!("conn {p} {}", w.clients.len().saturating_sub(1)));
                    out.imp(&format!("panic {m}"));
                }
            }
        }
        Op::Reserve(c) => {
            let renewed = w.clients[*c].has_res as u8;
            let p = w.clients[*c].peer;
            let r = hcore::guarded(|| w.reserve(*c));
            out.op(&format!("reserve {p} {c} {renewed}"));
            match r {
                Ok(o) => out.imp(&format!("{o} {}", w.snapshot(npeers))),
                Err(m) => out.imp(&format!("panic {m}")),
            }
        }
        Op::Circuit(c, q) => {
            let p = w.clients[*c].peer;
            let r = hcore::guarded(|| w.circuit(*c, *q, npeers));
            match r {
                Ok((o, pick)) => {
                    out.op(&format!("circuit {p} {c} {q} {pick}"));
                    out.imp(&format!("{o} {}", w.snapshot(npeers)));
                }
                Err(m) => {
                    out.op(&format!("circuit {p} {c} {q} -"));
                    out.imp(&format!("panic {m}"));
                }
            }
        }
        Op::CloseCirc(id) => {
            let r = hcore::guarded(|| w.closecirc(*id));
            out.op(&format!("closecirc {id}"));
            match r {
                Ok(o) => out.imp(&format!("{o} {}", w.snapshot(npeers))),
                Err(m) => out.imp(&format!("panic {m}")),
            }
        }
        Op::RBegin(c) => {
            let p = w.clients[*c].peer;
            let renewed = w.clients[*c].has_res as u8;
            let r = hcore::guarded(|| w.rbegin(*c));
            out.op(&format!("rbegin {p} {c} {renewed}"));
            match r {
                Ok(o) => out.imp(&format!("{o} {}", w.snapshot(npeers))),
                Err(m) => out.imp(&format!("panic {m}")),
            }
        }
        Op::Expire | Op::RDeliver | Op::REnd => {
            let (name, r) = match op {
                Op::Expire => ("expire", hcore::guarded(|| w.expire())),
                Op::RDeliver => ("rdeliver", hcore::guarded(|| w.rdeliver())),
                _ => ("rend", hcore::guarded(|| w.rend())),
            };
            out.op(name);
            match r {
                Ok(o) => out.imp(&format!("{o} {}", w.snapshot(npeers))),
                Err(m) => out.imp(&format!("panic {m}")),
            }
        }
        Op::CloseConn(c) => {
            let p = w.clients[*c].peer;
            let r = hcore::guarded(|| w.closeconn(*c));
            out.op(&format!("closeconn {p} {c}"));
            match r {
                Ok(o) => out.imp(&format!("{o} {}", w.snapshot(npeers))),
                Err(m) => out.imp(&format!("panic {m}")),
            }
        }
    }
}

fn header(l: Limits, npeers: u8) -> String {
    format!("{} {} {} {} {}", l.max_res, l.max_res_peer, l.max_circ, l.max_circ_peer, npeers)
}

const MAX_CONNS: usize = 9;

fn random_case(rng: &mut Rng, out: &mut Out, idx: u64) {
    let l = Limits {
        max_res: *rng.pick(&[0, 1, 2, 2, 3, 4, 6]),
        max_res_peer: *rng.pick(&[0, 1, 1, 2, 2, 3]),
        max_circ: *rng.pick(&[0, 1, 2, 3, 4, 6, 8]),
        max_circ_peer: *rng.pick(&[0, 1, 1, 2, 2, 3]),
    };
    let npeers = 2 + rng.below(3) as u8;
    out.case(idx, &format!("random nt=1 {}", header(l, npeers)));
    let mut w = World::new(l);
    let nops = 8 + rng.usize(30);
    for _ in 0..nops {
        let open: Vec<usize> = (0..w.clients.len()).filter(|c| w.clients[*c].open).collect();
        let circs: Vec<u64> = w.circ_owner.keys().copied().collect();
        let op = match rng.below(16) {
            0..=3 if w.clients.len() < MAX_CONNS => Op::Conn(rng.below(npeers as u64) as u8),
            4..=8 if !open.is_empty() => Op::Reserve(*rng.pick(&open)),
            9..=13 if !open.is_empty() => {
                let c = *rng.pick(&open);
                // a swarm cannot dial its own identity: pick another peer
                let mut q = rng.below(npeers as u64) as u8;
                if q == w.clients[c].peer {
                    q = (q + 1) % npeers;
                }
                Op::Circuit(c, q)
            }
            14 if !circs.is_empty() => {
                let mut cs = circs.clone();
                cs.sort();
                Op::CloseCirc(*rng.pick(&cs))
            }
            15 if !open.is_empty() => Op::CloseConn(*rng.pick(&open)),
            _ if w.clients.len() < MAX_CONNS => Op::Conn(rng.below(npeers as u64) as u8),
            _ => continue,
        };
        exec(&mut w, out, &op, npeers);
    }
    out.end();
}

/// directed: push every limit to and beyond its value
fn directed_case(out: &mut Out, idx: u64, l: Limits, which: u8) {
    let npeers = 4u8;
    out.case(idx, &format!("directed{which} nt=1 {}", header(l, npeers)));
    let mut w = World::new(l);
    let mut ops: Vec<Op> = vec![];
    match which {
        // one peer, many connections, a reservation on each; then a renewal on each
        0 => {
            for _ in 0..4 {
                ops.push(Op::Conn(0));
            }
            for c in 0..4 {
                ops.push(Op::Reserve(c));
            }
            for c in 0..4 {
                ops.push(Op::Reserve(c));
            }
        }
        // many peers, one reservation each (total limit), then close one and retry
        1 => {
            for p in 0..4 {
                ops.push(Op::Conn(p));
            }
            for c in 0..4 {
                ops.push(Op::Reserve(c));
            }
            ops.push(Op::CloseConn(0));
            ops.push(Op::Reserve(3));
            ops.push(Op::Reserve(2));
        }
        // many sources (distinct peers) -> one destination
        2 => {
            for p in 0..4 {
                ops.push(Op::Conn(p));
            }
            ops.push(Op::Reserve(0));
            for _ in 0..2 {
                for c in 1..4 {
                    ops.push(Op::Circuit(c, 0));
                }
            }
            ops.push(Op::CloseCirc(0));
            ops.push(Op::Circuit(1, 0));
        }
        // one source -> several destinations
        _ => {
            for p in 0..4 {
                ops.push(Op::Conn(p));
            }
            for c in 1..4 {
                ops.push(Op::Reserve(c));
            }
            for _ in 0..2 {
                for q in 1..4 {
                    ops.push(Op::Circuit(0, q));
                }
            }
            ops.push(Op::CloseConn(1));
            ops.push(Op::Circuit(0, 2));
        }
    }
    for op in &ops {
        // skip ops whose connection does not exist (a `conn` failed)
        let ok = match op {
            Op::Reserve(c) | Op::Circuit(c, _) | Op::CloseConn(c) => *c < w.clients.len() && w.clients[*c].open,
            _ => true,
        };
        let ok = ok && match op {
            Op::CloseCirc(id) => w.circ_owner.contains_key(id),
            _ => true,
        };
        if ok {
            exec(&mut w, out, op, npeers);
        }
    }
    out.end();
}

/// A reservation expires while its renewal is in flight (handler has reported the request, the
/// behaviour's answer has not come back yet).  The relay runs on the manual executor so that the
/// connection tasks and the `Swarm` can be scheduled separately.
fn race_case(out: &mut Out, idx: u64, l: Limits, which: u8) {
    let npeers = 4u8;
    out.case(idx, &format!("race{which} nt=1 {}", header(l, npeers)));
    let mut w = World::with_mode(l, true);
    let ops: Vec<Op> = match which {
        // the renewing connection is the peer's only one
        0 => vec![Op::Conn(0), Op::Reserve(0), Op::RBegin(0), Op::Expire, Op::RDeliver, Op::REnd],
        // a second connection of the same peer reserves meanwhile
        1 => vec![
            Op::Conn(0), Op::Conn(0), Op::Reserve(0), Op::RBegin(0), Op::Expire, Op::RDeliver, Op::RBegin(1),
            Op::RDeliver, Op::REnd,
        ],
        // other peers fill the total meanwhile
        2 => vec![
            Op::Conn(0), Op::Conn(0), Op::Conn(1), Op::Conn(2), Op::Reserve(0), Op::RBegin(0), Op::Expire,
            Op::RDeliver, Op::RBegin(2), Op::RDeliver, Op::RBegin(3), Op::RDeliver, Op::REnd,
        ],
        // no expiry: an ordinary renewal and a new reservation through the same split schedule
        _ => vec![
            Op::Conn(0), Op::Conn(1), Op::Reserve(0), Op::RBegin(0), Op::RDeliver, Op::RBegin(1), Op::RDeliver, Op::REnd,
        ],
    };
    for op in &ops {
        let ok = match op {
            Op::Reserve(c) | Op::RBegin(c) => *c < w.clients.len() && w.clients[*c].open,
            _ => true,
        };
        if ok {
            exec(&mut w, out, op, npeers);
        }
    }
    out.end();
}

/// A peer with two connections takes part in a circuit over one of them; the OTHER connection
/// closes; then further circuit requests: the circuit must still count against the limits.
fn otherconn_case(out: &mut Out, idx: u64, l: Limits, which: u8) {
    let npeers = 4u8;
    out.case(idx, &format!("otherconn{which} nt=1 {}", header(l, npeers)));
    let mut w = World::new(l);
    // c0, c1: peer 0; c2, c4: peer 1; c3: peer 2
    let mut ops = vec![Op::Conn(0), Op::Conn(0), Op::Conn(1), Op::Conn(2), Op::Conn(1), Op::Reserve(2), Op::Reserve(3)];
    match which {
        // the source's other connection closes
        0 => ops.extend([Op::Circuit(0, 1), Op::CloseConn(1), Op::Circuit(0, 2), Op::Circuit(3, 1), Op::Circuit(0, 1)]),
        // the destination's other connection closes
        1 => ops.extend([Op::Circuit(0, 1), Op::CloseConn(4), Op::Circuit(3, 1), Op::Circuit(0, 2), Op::Circuit(1, 1)]),
        // both, then the circuit itself closes and a new one fits again
        _ => ops.extend([
            Op::Circuit(0, 1), Op::CloseConn(1), Op::CloseConn(4), Op::Circuit(0, 2), Op::Circuit(3, 1),
            Op::CloseCirc(0), Op::Circuit(0, 2), Op::Circuit(3, 1),
        ]),
    }
    for op in &ops {
        let ok = match op {
            Op::Reserve(c) | Op::Circuit(c, _) | Op::CloseConn(c) => *c < w.clients.len() && w.clients[*c].open,
            Op::CloseCirc(id) => w.circ_owner.contains_key(id),
            _ => true,
        };
        if ok {
            exec(&mut w, out, op, npeers);
        }
    }
    out.end();
}

pub fn run(args: &Args, out: &mut Out) {
    if let Some(cases) = args.replay_cases() {
        for (i, (hdr, ops)) in cases.iter().enumerate() {
            // hdr = [idx, class, nt, max_res, max_res_peer, max_circ, max_circ_peer, npeers]
            let n = |k: usize| hdr[k].parse::<usize>().unwrap();
            let l = Limits { max_res: n(3), max_res_peer: n(4), max_circ: n(5), max_circ_peer: n(6) };
            let npeers = n(7) as u8;
            out.case(i as u64, &format!("replay nt=1 {}", header(l, npeers)));
            let manual = ops.iter().any(|o| o[0] == "rbegin");
            let mut w = World::with_mode(l, manual);
            // connection numbers of the file -> connection numbers of this run
            let mut cmap: HashMap<usize, usize> = HashMap::new();
            for op in ops {
                let u = |k: usize| op[k].parse::<usize>().unwrap();
                match op[0].as_str() {
                    "conn" => {
                        let next = w.clients.len();
                        cmap.insert(u(2), next);
                        exec(&mut w, out, &Op::Conn(u(1) as u8), npeers);
                    }
                    "reserve" => {
                        if let Some(c) = cmap.get(&u(2)).filter(|c| w.clients[**c].open) {
                            exec(&mut w, out, &Op::Reserve(*c), npeers);
                        }
                    }
                    "circuit" => {
                        if let Some(c) = cmap.get(&u(2)).filter(|c| w.clients[**c].open) {
                            if u(3) as u8 != w.clients[*c].peer {
                                exec(&mut w, out, &Op::Circuit(*c, u(3) as u8), npeers);
                            }
                        }
                    }
                    "closecirc" => {
                        let id = u(1) as u64;
                        if w.circ_owner.contains_key(&id) {
                            exec(&mut w, out, &Op::CloseCirc(id), npeers);
                        }
                    }
                    "closeconn" => {
                        if let Some(c) = cmap.get(&u(2)).filter(|c| w.clients[**c].open) {
                            exec(&mut w, out, &Op::CloseConn(*c), npeers);
                        }
                    }
                    "rbegin" => {
                        if let Some(c) = cmap.get(&u(2)).filter(|c| w.clients[**c].open) {
                            exec(&mut w, out, &Op::RBegin(*c), npeers);
                        }
                    }
                    "expire" if manual => exec(&mut w, out, &Op::Expire, npeers),
                    "rdeliver" if manual => exec(&mut w, out, &Op::RDeliver, npeers),
                    "rend" if manual => exec(&mut w, out, &Op::REnd, npeers),
                    _ => {}
                }
            }
            out.end();
        }
        return;
    }
    let mut idx = 0u64;
    for which in 0..4u8 {
        for a in 0..3usize {
            for b in 0..3usize {
                let l = match which {
                    0 => Limits { max_res: 2 + 2 * a, max_res_peer: b, max_circ: 4, max_circ_peer: 2 },
                    1 => Limits { max_res: a + 1, max_res_peer: 1 + b, max_circ: 4, max_circ_peer: 2 },
                    2 => Limits { max_res: 4, max_res_peer: 2, max_circ: 2 + 2 * a, max_circ_peer: b },
                    _ => Limits { max_res: 4, max_res_peer: 2, max_circ: 2 + 2 * a, max_circ_peer: b },
                };
                directed_case(out, idx, l, which);
                idx += 1;
            }
        }
    }
    for which in 0..4u8 {
        for (max_res, per_peer) in [(4usize, 1usize), (2, 1), (2, 2), (4, 2)] {
            race_case(out, idx, Limits { max_res, max_res_peer: per_peer, max_circ: 4, max_circ_peer: 2 }, which);
            idx += 1;
        }
    }
    for which in 0..3u8 {
        for (max_circ, per_peer) in [(4usize, 1usize), (1, 2), (2, 2), (4, 2), (2, 1)] {
            otherconn_case(out, idx, Limits { max_res: 4, max_res_peer: 2, max_circ, max_circ_peer: per_peer }, which);
            idx += 1;
        }
    }
    let n = args.n(150, 3000);
    for i in 0..n {
        let mut rng = Rng::for_case(args.seed, i);
        random_case(&mut rng, out, idx);
        idx += 1;
    }
}
