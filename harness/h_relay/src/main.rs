//! Harness binary `h_relay <PROP> --seed S --tier T [--count N] [--replay F]`.
//! One module per property (`cNN.rs`, `pub fn run(args: &hcore::Args, out: &mut hcore::Out)`).

mod c47;
mod c48;
mod c49;

hcore::install_clock!();

fn main() {
    let args = hcore::Args::parse();
    hcore::quiet_panics();
    let mut out = hcore::Out::new();
    match args.prop.as_str() {
        "C47" => c47::run(&args, &mut out),
        "C48" => c48::run(&args, &mut out),
        "C49" => c49::run(&args, &mut out),
        p => {
            let _ = &mut out;
            eprintln!("h_relay: unknown property {p}");
            std::process::exit(2);
        }
    }
    #[allow(unreachable_code)]
    out.flush();
}
