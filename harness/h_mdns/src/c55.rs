//! C55 — mDNS response packets (`protocols/mdns/src/behaviour/iface/{dns,query}.rs`) vs the
//! Lean model `C55` (byte-exact builder, parser for the response shape).
//!
//! ops (all values that are bytes are lowercase hex, `-` = empty):
//!   consts                                   -> consts <txt-value> <txt-record> <packet> <records-per-packet>
//!   secs <secs> <nanos>                      -> secs <u32>
//!   txt <name> <ttl> <value(utf8)>           -> ok <record> | err <variant>
//!   decode <bytes>                           -> ok <bytes> | err
//!   build <id> <secs> <nanos> <peer> <b58> <name> <addr-entry>*   -> pk <packet> <parsed> ...
//!        addr-entry = <maddr-tok>|<text>|<tok of parse(text/p2p/b58) or x>|<binary multiaddr>
//!        (<name> = the random peer-name label read off the real packet: oracle token)
//!   parse <packet> <table>                   -> <parsed>
//!        table = `,`-joined <text>=<tok or x> (oracle: Multiaddr::from_str on the candidate texts), `-` = empty
//!   parsed = err | ignored | query:<id> | sd:<id> | resp[&<peer>,<ttl>,<addr-list>]*
use std::time::Duration;

use hcore::{hex, maddr_list_tok, maddr_tok, unhex, Args, Multiaddr, Out, Protocol, Rng};
use libp2p_core::PeerId;
use libp2p_mdns::verif_c55 as hook;

fn parsed_tok(buf: &[u8]) -> String {
    match hcore::guarded(|| hook::parse_packet(buf)) {
        Err(m) => format!("panic:{m}"),
        Ok(hook::Parsed::Err(_)) => "err".into(),
        Ok(hook::Parsed::Ignored) => "ignored".into(),
        Ok(hook::Parsed::Query(id)) => format!("query:{id}"),
        Ok(hook::Parsed::ServiceDiscovery(id)) => format!("sd:{id}"),
        Ok(hook::Parsed::Response(peers)) => {
            let mut s = String::from("resp");
            for (id, addrs, ttl) in peers {
                s.push_str(&format!("&{},{},{}", hex(&id), ttl, maddr_list_tok(&addrs)));
            }
            s
        }
    }
}

fn parse_text_tok(text: &[u8]) -> String {
    match std::str::from_utf8(text).ok().and_then(|s| s.parse::<Multiaddr>().ok()) {
        Some(a) => maddr_tok(&a),
        None => "x".into(),
    }
}

/// the oracle table for a packet: every candidate text the real code would hand to `Multiaddr::from_str`
fn oracle_table(buf: &[u8]) -> String {
    let mut entries: Vec<String> = vec![];
    let mut seen = std::collections::BTreeSet::new();
    if let Ok(Some(strings)) = hcore::guarded(|| hook::txt_strings(buf)) {
        for s in strings {
            if let Ok(Ok(d)) = hcore::guarded(|| hook::decode_character_string(&s)) {
                if d.starts_with(b"dnsaddr=") {
                    let rest = d[8..].to_vec();
                    if seen.insert(rest.clone()) {
                        entries.push(format!("{}={}", hex(&rest), parse_text_tok(&rest)));
                    }
                }
            }
        }
    }
    if entries.is_empty() {
        "-".into()
    } else {
        entries.join(",")
    }
}

fn op_consts(out: &mut Out) {
    out.op("consts");
    let (a, b, c, d) = hook::consts();
    out.imp(&format!("consts {a} {b} {c} {d}"));
}

fn op_secs(out: &mut Out, secs: u64, nanos: u32) {
    out.op(&format!("secs {secs} {nanos}"));
    match hcore::guarded(|| hook::duration_to_secs(Duration::new(secs, nanos))) {
        Ok(v) => out.imp(&format!("secs {v}")),
        Err(m) => out.imp(&format!("panic {m}")),
    }
}

fn op_txt(out: &mut Out, name: &[u8], ttl: u32, value: &str) {
    out.op(&format!("txt {} {} {}", hex(name), ttl, hex(value.as_bytes())));
    match hcore::guarded(|| hook::append_txt_record(name, ttl, value)) {
        Ok(Ok(r)) => out.imp(&format!("ok {}", hex(&r))),
        Ok(Err(e)) => out.imp(&format!("err {e}")),
        Err(m) => out.imp(&format!("panic {m}")),
    }
}

fn op_decode(out: &mut Out, bytes: &[u8]) {
    out.op(&format!("decode {}", hex(bytes)));
    match hcore::guarded(|| hook::decode_character_string(bytes)) {
        Ok(Ok(r)) => out.imp(&format!("ok {}", hex(&r))),
        Ok(Err(())) => out.imp("err"),
        Err(m) => out.imp(&format!("panic {m}")),
    }
}

fn op_parse(out: &mut Out, buf: &[u8]) {
    out.op(&format!("parse {} {}", hex(buf), oracle_table(buf)));
    out.imp(&parsed_tok(buf));
}

/// the peer-name label inside a packet built by `query_response_packet`:
/// header(12) qname(17) type/class(4) ttl(4) rdlen(2) then <len> <label> 0
fn peer_name_of(pkt: &[u8]) -> Vec<u8> {
    let off = 12 + 17 + 4 + 4 + 2;
    if pkt.len() <= off {
        return vec![];
    }
    let l = pkt[off] as usize;
    pkt.get(off + 1..off + 1 + l).map(|s| s.to_vec()).unwrap_or_default()
}

fn op_build(out: &mut Out, id: u16, secs: u64, nanos: u32, peer: PeerId, addrs: &[Multiaddr]) {
    let b58 = peer.to_base58();
    let res = hcore::guarded(|| hook::build_query_response(id, peer, addrs, Duration::new(secs, nanos)));
    let name = match &res {
        Ok(p) if !p.is_empty() => peer_name_of(&p[0]),
        _ => vec![],
    };
    let mut op = format!("build {} {} {} {} {} {}", id, secs, nanos, hex(&peer.to_bytes()), hex(b58.as_bytes()), hex(&name));
    for a in addrs {
        let text = a.to_string();
        let full = format!("{text}/p2p/{b58}");
        op.push_str(&format!(" {}|{}|{}|{}", maddr_tok(a), hex(text.as_bytes()), parse_text_tok(full.as_bytes()), hex(&a.to_vec())));
    }
    out.op(&op);
    match res {
        Err(m) => out.imp(&format!("panic {m}")),
        Ok(pkts) => {
            let mut s = String::from("pk");
            for p in &pkts {
                s.push_str(&format!(" {} {}", hex(p), parsed_tok(p)));
            }
            out.imp(&s);
        }
    }
}

// ---------------------------------------------------------------- generators

fn sha_peer(rng: &mut Rng) -> PeerId {
    let mut b = vec![0x12, 0x20];
    b.extend(rng.bytes(32));
    PeerId::from_bytes(&b).unwrap()
}

fn gen_peer(rng: &mut Rng) -> PeerId {
    if rng.chance(1, 3) {
        sha_peer(rng)
    } else {
        hcore::peer(rng.below(200) as u8)
    }
}

const NAME_CHARS: &[u8] = b"abcdefghijklmnopqrstuvwxyzABCDEFGHIJKLMNOPQRSTUVWXYZ0123456789-._";

/// a DNS name of exactly `len` bytes; `flavour` selects the unusual characters sprinkled in
fn dns_name(rng: &mut Rng, len: usize, flavour: u64) -> String {
    let mut s: Vec<char> = (0..len).map(|_| *rng.pick(NAME_CHARS) as char).collect();
    let specials: &[char] = match flavour {
        0 => &[],
        1 => &[' '],
        2 => &[' ', '"'],
        3 => &[' ', '\\'],
        4 => &[' ', '"', '\\'],
        5 => &['"', '\\'],
        _ => &[' ', '"', '\\', '=', ',', '\t'],
    };
    if !specials.is_empty() && len > 0 {
        let k = 1 + rng.usize(4.min(len));
        for _ in 0..k {
            let i = rng.usize(len);
            s[i] = *rng.pick(specials);
        }
        if flavour >= 1 && flavour != 5 && !s.contains(&' ') {
            let i = rng.usize(len);
            s[i] = ' ';
        }
    }
    s.into_iter().collect()
}

fn dns_addr(rng: &mut Rng, name: String) -> Multiaddr {
    let mut a = Multiaddr::empty();
    a.push(match rng.below(4) {
        0 => Protocol::Dns(name.into()),
        1 => Protocol::Dns4(name.into()),
        2 => Protocol::Dns6(name.into()),
        _ => Protocol::Dnsaddr(name.into()),
    });
    a
}

/// length of the TXT value `dnsaddr=<text>/p2p/<b58>` for an address text of `n` bytes
fn value_len(b58: &str, n: usize) -> usize {
    8 + n + 5 + b58.len()
}

/// an address whose TXT value has exactly `target` bytes (before any quoting); single /dns*/name component
fn addr_with_value_len(rng: &mut Rng, b58: &str, target: usize, flavour: u64) -> Multiaddr {
    // text = "/dnsX/" + name
    let kind = rng.below(4);
    let prefix = match kind {
        0 => "/dns/",
        1 => "/dns4/",
        2 => "/dns6/",
        _ => "/dnsaddr/",
    };
    let fixed = value_len(b58, prefix.len());
    let nlen = target.saturating_sub(fixed);
    let name = dns_name(rng, nlen, flavour);
    let mut a = Multiaddr::empty();
    a.push(match kind {
        0 => Protocol::Dns(name.into()),
        1 => Protocol::Dns4(name.into()),
        2 => Protocol::Dns6(name.into()),
        _ => Protocol::Dnsaddr(name.into()),
    });
    a
}

fn plain_addr(rng: &mut Rng) -> Multiaddr {
    let mut a = Multiaddr::empty();
    match rng.below(7) {
        0 => {
            a.push(Protocol::Ip4((rng.next_u64() as u32).into()));
            a.push(Protocol::Tcp(rng.below(65536) as u16));
        }
        1 => {
            a.push(Protocol::Ip6(((rng.next_u64() as u128) << 64 | rng.next_u64() as u128).into()));
            a.push(Protocol::Udp(rng.below(65536) as u16));
            a.push(Protocol::QuicV1);
        }
        2 => {
            a.push(Protocol::Ip4([127, 0, 0, 1].into()));
            a.push(Protocol::Udp(rng.below(65536) as u16));
            a.push(Protocol::Quic);
        }
        3 => {
            a.push(Protocol::Memory(rng.next_u64()));
        }
        4 => {
            a.push(Protocol::Ip6("::1".parse().unwrap()));
            a.push(Protocol::Tcp(rng.below(65536) as u16));
            a.push(Protocol::Ws("/".into()));
        }
        5 => {
            let n = 1 + rng.usize(30);
            let name = dns_name(rng, n, 0);
            a = dns_addr(rng, name);
            a.push(Protocol::Tcp(rng.below(65536) as u16));
        }
        _ => {
            // relayed address: contains another peer's /p2p in the middle
            a.push(Protocol::Ip4((rng.next_u64() as u32).into()));
            a.push(Protocol::Tcp(4001));
            a.push(Protocol::P2p(hcore::peer(rng.below(50) as u8)));
            a.push(Protocol::P2pCircuit);
        }
    }
    a
}

fn unusual_addr(rng: &mut Rng, b58: &str) -> Multiaddr {
    match rng.below(10) {
        0 => Multiaddr::empty(),
        1 => {
            // non-ASCII name
            let n = 1 + rng.usize(10);
            let mut name = dns_name(rng, n, 0);
            name.push(*rng.pick(&['é', 'ü', '日', '\u{80}']));
            dns_addr(rng, name)
        }
        2 => dns_addr(rng, String::new()),
        3 => {
            // boundary of the raw value length
            let t = *rng.pick(&[253usize, 254, 255, 256, 257]);
            addr_with_value_len(rng, b58, t, 0)
        }
        4 => {
            // boundary with quoting (+2) and escapes
            let t = *rng.pick(&[250usize, 251, 252, 253, 254, 255, 256]);
            let f = 1 + rng.below(4);
            addr_with_value_len(rng, b58, t, f)
        }
        5 => {
            let t = 100 + rng.usize(400);
            let f = rng.below(7);
            addr_with_value_len(rng, b58, t, f)
        }
        6 => {
            // address that already ends with the peer's own /p2p, or another one
            let mut a = plain_addr(rng);
            a.push(Protocol::P2p(hcore::peer(rng.below(3) as u8)));
            a
        }
        7 => {
            let mut a = Multiaddr::empty();
            a.push(Protocol::Ip6zone(dns_name(rng, 4, 1).into()));
            a.push(Protocol::Ip6("fe80::1".parse().unwrap()));
            a
        }
        _ => {
            let n = 1 + rng.usize(40);
            let f = 1 + rng.below(6);
            let name = dns_name(rng, n, f);
            let mut a = dns_addr(rng, name);
            if rng.bool() {
                a.push(Protocol::Tcp(rng.below(65536) as u16));
            }
            a
        }
    }
}

fn gen_ttl(rng: &mut Rng) -> (u64, u32) {
    let secs = match rng.below(6) {
        0 => 0,
        1 => rng.below(1000),
        2 => u32::MAX as u64 - rng.below(3),
        3 => u32::MAX as u64 + rng.below(3),
        4 => u64::MAX - rng.below(2),
        _ => 360,
    };
    let nanos = match rng.below(4) {
        0 => 0,
        1 => 1,
        2 => 999_999_999,
        _ => rng.below(1_000_000_000) as u32,
    };
    (secs, nanos)
}

fn text_roundtrips(a: &Multiaddr, peer: &PeerId) -> bool {
    let full = format!("{}/p2p/{}", a, peer.to_base58());
    let mut exp = a.clone();
    exp.push(Protocol::P2p(*peer));
    full.parse::<Multiaddr>().ok() == Some(exp)
}

fn gen_build(rng: &mut Rng, class: u64) -> (u16, u64, u32, PeerId, Vec<Multiaddr>) {
    let peer = gen_peer(rng);
    let b58 = peer.to_base58();
    let id = rng.below(65536) as u16;
    let (secs, nanos) = gen_ttl(rng);
    let n = match class {
        0 => rng.usize(4),
        1 => 20 + rng.usize(20),
        2 => *rng.pick(&[25usize, 26, 27, 28, 29, 30, 52, 53, 58, 59, 60]),
        3 => 20 + rng.usize(101),
        _ => 1 + rng.usize(8),
    };
    let mut addrs = vec![];
    for _ in 0..n {
        let a = match class {
            // many maximal values: the packet-size boundary
            2 => {
                let t = *rng.pick(&[255usize, 255, 255, 254, 253]);
                let f = if rng.chance(1, 8) { 1 } else { 0 };
                addr_with_value_len(rng, &b58, if f == 0 { t } else { t - 2 }, f)
            }
            1 | 3 => {
                if rng.chance(1, 4) {
                    unusual_addr(rng, &b58)
                } else {
                    plain_addr(rng)
                }
            }
            _ => {
                if rng.chance(1, 2) {
                    unusual_addr(rng, &b58)
                } else {
                    plain_addr(rng)
                }
            }
        };
        // the multiaddr crate's own Display/FromStr must round-trip (trusted, outside the property):
        // keep only such addresses so the case is meaningful
        if text_roundtrips(&a, &peer) {
            addrs.push(a);
        }
    }
    (id, secs, nanos, peer, addrs)
}

// in-shape packet synthesis for the `parse` op ------------------------------

fn qname(labels: &[Vec<u8>]) -> Vec<u8> {
    let mut o = vec![];
    for l in labels {
        o.push(l.len() as u8);
        o.extend_from_slice(l);
    }
    o.push(0);
    o
}

fn label(rng: &mut Rng, n: usize) -> Vec<u8> {
    const C: &[u8] = b"abcdefghijklmnopqrstuvwxyzABCDEFGHIJKLMNOPQRSTUVWXYZ0123456789-_";
    (0..n).map(|_| *rng.pick(C)).collect()
}

fn flip_case(rng: &mut Rng, l: &[u8]) -> Vec<u8> {
    l.iter()
        .map(|&c| if c.is_ascii_alphabetic() && rng.bool() { c ^ 0x20 } else { c })
        .collect()
}

fn gen_txt_string(rng: &mut Rng, peers: &[PeerId]) -> Vec<u8> {
    let peer = rng.pick(peers);
    let b58 = peer.to_base58();
    let addr = if rng.bool() { plain_addr(rng) } else { unusual_addr(rng, &b58) };
    let good = format!("dnsaddr={}/p2p/{}", addr, b58).into_bytes();
    match rng.below(26) {
        0 => vec![],
        1 => b"\"".to_vec(),
        2 => {
            let n = 1 + rng.usize(20);
            rng.bytes(n)
        }
        3 => {
            let mut v = b"\"".to_vec();
            v.extend(&good);
            v.push(b'"');
            v
        }
        4 => {
            let mut v = b"\"".to_vec();
            v.extend(&good);
            v
        }
        5 => format!("dnsaddr={}", addr).into_bytes(),
        6 => format!("dnsaddr={}/p2p/{}/tcp/1", addr, b58).into_bytes(),
        7 => b"dnsaddr=".to_vec(),
        8 => b"dnsaddr=/nonsense/1".to_vec(),
        9 => {
            let mut v = good.clone();
            v[0] = b'D';
            v
        }
        10 => {
            // quoted with escapes inside
            let mut v = b"\"dnsaddr=/dns/a\\\\b\\\" c".to_vec();
            v.extend(format!("/p2p/{}\"", b58).as_bytes());
            v
        }
        11 => {
            let mut v = good.clone();
            let i = rng.usize(v.len());
            v[i] = rng.next_u64() as u8;
            v
        }
        _ => good,
    }
}

fn gen_shape_packet(rng: &mut Rng) -> Vec<u8> {
    let peers: Vec<PeerId> = if rng.chance(3, 4) {
        vec![hcore::peer(rng.below(5) as u8)]
    } else {
        vec![hcore::peer(1), hcore::peer(2), sha_peer(rng)]
    };
    let pname: Vec<Vec<u8>> = match rng.below(5) {
        0 => vec![label(rng, 1)],
        1 => vec![label(rng, 63)],
        2 => vec![label(rng, 5), label(rng, 3)],
        3 => vec![],
        _ => {
            let n = 32 + rng.usize(32);
            vec![label(rng, n)]
        }
    };
    let service: Vec<Vec<u8>> = match rng.below(8) {
        0 => vec![b"_P2P".to_vec(), b"_udp".to_vec(), b"local".to_vec()],
        1 => vec![b"_p2p".to_vec(), b"_tcp".to_vec(), b"local".to_vec()],
        2 => vec![b"_p2p".to_vec(), b"_udp".to_vec()],
        _ => vec![b"_p2p".to_vec(), b"_udp".to_vec(), b"local".to_vec()],
    };
    let nrec = match rng.below(4) {
        0 => 0,
        1 => 1,
        _ => rng.usize(6),
    };
    let mut o = vec![];
    o.extend_from_slice(&(rng.below(65536) as u16).to_be_bytes());
    o.extend_from_slice(&[0x84, 0x00, 0, 0, 0, 1, 0, 0]);
    o.extend_from_slice(&(nrec as u16).to_be_bytes());
    o.extend(qname(&service));
    o.extend_from_slice(&[0, 0x0c, 0, 1]);
    o.extend_from_slice(&(rng.next_u64() as u32).to_be_bytes());
    let pq = qname(&pname);
    o.extend_from_slice(&(pq.len() as u16).to_be_bytes());
    o.extend(&pq);
    for _ in 0..nrec {
        let owner: Vec<Vec<u8>> = match rng.below(6) {
            0 => pname.iter().map(|l| flip_case(rng, l)).collect(),
            1 => vec![label(rng, 7)],
            _ => pname.clone(),
        };
        o.extend(qname(&owner));
        o.extend_from_slice(&[0, 0x10, 0x80, 1]);
        o.extend_from_slice(&(rng.next_u64() as u32).to_be_bytes());
        let nstr = match rng.below(5) {
            0 => 2,
            1 => 3,
            _ => 1,
        };
        let mut rd = vec![];
        for _ in 0..nstr {
            let mut s = gen_txt_string(rng, &peers);
            s.truncate(255);
            rd.push(s.len() as u8);
            rd.extend(s);
        }
        o.extend_from_slice(&(rd.len() as u16).to_be_bytes());
        o.extend(rd);
    }
    o
}

fn mutate(rng: &mut Rng, mut p: Vec<u8>) -> Vec<u8> {
    match rng.below(6) {
        0 => {
            let n = rng.usize(p.len() + 1);
            p.truncate(n);
        }
        1 => {
            let k = 1 + rng.usize(4);
            for _ in 0..k {
                if !p.is_empty() {
                    let i = rng.usize(p.len());
                    p[i] = rng.next_u64() as u8;
                }
            }
        }
        2 => {
            if !p.is_empty() {
                let i = rng.usize(p.len());
                p[i] ^= 1 << rng.below(8);
            }
        }
        3 => {
            let n = rng.usize(20);
            let extra = rng.bytes(n);
            p.extend(extra);
        }
        4 => {
            // header region
            let i = rng.usize(12.min(p.len().max(1)));
            if i < p.len() {
                p[i] = rng.next_u64() as u8;
            }
        }
        _ => {
            // plant a compression pointer / bad label length
            if p.len() > 13 {
                let i = 12 + rng.usize(p.len() - 12);
                p[i] = *rng.pick(&[0xc0u8, 0xc0, 0x40, 0x80, 0xff, 0x3f]);
            }
        }
    }
    p
}

fn gen_value(rng: &mut Rng) -> String {
    let n = match rng.below(5) {
        0 => rng.usize(10),
        1 => 250 + rng.usize(10),
        2 => 120 + rng.usize(20),
        _ => rng.usize(300),
    };
    let f = rng.below(8);
    let mut s = dns_name(rng, n, f.min(6));
    if f == 7 {
        s.push('é');
    }
    if rng.chance(1, 6) {
        s.insert(0, '"');
    }
    s
}

fn gen_cs(rng: &mut Rng) -> Vec<u8> {
    let n = rng.usize(12);
    let mut v: Vec<u8> = (0..n).map(|_| *rng.pick(b"ab\\\" \\\"")).collect();
    match rng.below(4) {
        0 => {
            v.insert(0, b'"');
            v.push(b'"');
        }
        1 => v.insert(0, b'"'),
        2 => v.push(b'"'),
        _ => {}
    }
    v
}

// ---------------------------------------------------------------- entry

fn replay(out: &mut Out, ops: &[Vec<String>]) {
    for op in ops {
        match op[0].as_str() {
            "consts" => op_consts(out),
            "secs" => op_secs(out, op[1].parse().unwrap(), op[2].parse().unwrap()),
            "txt" => {
                let v = String::from_utf8(unhex(&op[3])).unwrap();
                op_txt(out, &unhex(&op[1]), op[2].parse().unwrap(), &v)
            }
            "decode" => op_decode(out, &unhex(&op[1])),
            "parse" => op_parse(out, &unhex(&op[1])),
            "build" => {
                let peer = PeerId::from_bytes(&unhex(&op[4])).unwrap();
                let addrs: Vec<Multiaddr> = op[7..]
                    .iter()
                    .map(|e| Multiaddr::try_from(unhex(e.split('|').nth(3).unwrap())).unwrap())
                    .collect();
                op_build(out, op[1].parse().unwrap(), op[2].parse().unwrap(), op[3].parse().unwrap(), peer, &addrs)
            }
            other => panic!("replay: unknown op {other}"),
        }
    }
}

pub fn run(args: &Args, out: &mut Out) {
    if let Some(cases) = args.replay_cases() {
        for (i, (_, ops)) in cases.iter().enumerate() {
            out.case(i as u64, "replay nt=1");
            replay(out, ops);
            out.end();
        }
        return;
    }
    let mut idx = 0u64;
    out.case(idx, "consts nt=0");
    op_consts(out);
    out.end();
    idx += 1;

    // fixed boundary cases ------------------------------------------------
    {
        let peer = hcore::peer(1);
        let b58 = peer.to_base58();
        let mut rng = Rng::for_case(args.seed, 1_000_000);
        // k maximal addresses, k around MAX_RECORDS_PER_PACKET and its multiples
        for k in [0usize, 1, 25, 26, 27, 28, 29, 30, 33, 52, 53, 58, 59] {
            let addrs: Vec<Multiaddr> = (0..k).map(|_| addr_with_value_len(&mut rng, &b58, 255, 0)).collect();
            out.case(idx, &format!("maximal nt={}", (k > 0) as u8));
            op_build(out, 0xf8f8, 120, 0, peer, &addrs);
            out.end();
            idx += 1;
        }
        // one address per raw value length 240..=260, plain and with a space
        for f in [0u64, 1, 4] {
            for t in 240..=260usize {
                let a = addr_with_value_len(&mut rng, &b58, t, f);
                out.case(idx, &format!("boundary nt=1 f={f}"));
                op_build(out, 1, 1, 1, peer, &[a]);
                out.end();
                idx += 1;
            }
        }
    }

    let n = args.n(1500, 8_000);
    for i in 0..n {
        let mut rng = Rng::for_case(args.seed, i);
        match i % 10 {
            0..=4 => {
                let class = match i % 10 {
                    0 => 0,
                    1 => 1,
                    2 => 2,
                    3 => {
                        if args.thorough || i % 40 == 3 {
                            3
                        } else {
                            4
                        }
                    }
                    _ => 4,
                };
                let (id, secs, nanos, peer, addrs) = gen_build(&mut rng, class);
                out.case(idx, &format!("build{} nt={}", class, (!addrs.is_empty()) as u8));
                op_build(out, id, secs, nanos, peer, &addrs);
                out.end();
            }
            5 | 6 => {
                let p = gen_shape_packet(&mut rng);
                out.case(idx, "shape nt=1");
                op_parse(out, &p);
                out.end();
            }
            7 => {
                let p = if rng.bool() {
                    let (id, secs, nanos, peer, addrs) = gen_build(&mut rng, 4);
                    let pk = hook::build_query_response(id, peer, &addrs, Duration::new(secs, nanos));
                    pk[0].clone()
                } else {
                    gen_shape_packet(&mut rng)
                };
                let p = mutate(&mut rng, p);
                out.case(idx, "mutated nt=1");
                op_parse(out, &p);
                out.end();
            }
            8 => {
                out.case(idx, "txt nt=1");
                let nl = rng.usize(70);
                let name = qname(&[label(&mut rng, nl.max(1))]);
                for _ in 0..4 {
                    let v = gen_value(&mut rng);
                    op_txt(out, &name, rng.next_u64() as u32, &v);
                }
                let (s, ns) = gen_ttl(&mut rng);
                op_secs(out, s, ns);
                out.end();
            }
            _ => {
                out.case(idx, "misc nt=1");
                for _ in 0..4 {
                    let v = gen_cs(&mut rng);
                    op_decode(out, &v);
                }
                let r = rng.usize(64);
                let p = rng.bytes(r);
                op_parse(out, &p);
                out.end();
            }
        }
        idx += 1;
    }
}
