//! C34 — `ConfigBuilder::build` + `Behaviour::heartbeat` vs the Lean model `C34.build` / `C34.heartbeat`.
//!
//! A case = one builder call sequence (`op build <setters>`), then — when a behaviour can be
//! made from the result — a scenario of synthetic peers (derived only from the `sc=` seed of the
//! case header and the setter string) and some heartbeats (`op hb …`).  The `hb` op line carries
//! what the heartbeat sees of each mesh topic (counts, read off the real behaviour through the
//! public getters and the cfg(libp2p_verif) hooks) and the random choices of the real code as
//! oracle tokens (inferred from the mesh before/after).
use std::collections::BTreeSet;
use std::time::Duration;

use hcore::{Args, Out, Rng};
use libp2p_core::PeerId;
use libp2p_gossipsub::{
    verif_c34 as hook, verif_c34_cfg as cfghook, Behaviour, Config, ConfigBuilder, IdentTopic,
    MessageAuthenticity, PeerScoreParams, PeerScoreThresholds, TopicHash,
};

const NTOPICS: usize = 3;
const MESH_VALUES: [usize; 8] = [0, 1, 2, 3, 6, 12, 99, 100];
const HIST_VALUES: [usize; 6] = [0, 1, 2, 3, 5, 6];
const MTS_VALUES: [usize; 6] = [0, 1, 99, 100, 101, 65536];
const UB_VALUES: [u64; 3] = [0, 1, 10000];

fn topic(i: usize) -> IdentTopic {
    IdentTopic::new(format!("t{i}"))
}
fn th(i: usize) -> TopicHash {
    topic(i).hash()
}

#[derive(Clone, Debug)]
enum Setter {
    N(usize),
    Low(usize),
    High(usize),
    Out(usize),
    NT(usize, usize),
    LowT(usize, usize),
    HighT(usize, usize),
    OutT(usize, usize),
    CfgT(usize, [usize; 4]),
    Hl(usize),
    Hg(usize),
    Mts(usize),
    MtsT(usize, usize),
    Ub(u64),
    Bp,
}

impl Setter {
    fn tok(&self) -> String {
        match self {
            Setter::N(v) => format!("n:{v}"),
            Setter::Low(v) => format!("low:{v}"),
            Setter::High(v) => format!("high:{v}"),
            Setter::Out(v) => format!("out:{v}"),
            Setter::NT(t, v) => format!("nT:{t}:{v}"),
            Setter::LowT(t, v) => format!("lowT:{t}:{v}"),
            Setter::HighT(t, v) => format!("highT:{t}:{v}"),
            Setter::OutT(t, v) => format!("outT:{t}:{v}"),
            Setter::CfgT(t, p) => format!("cfgT:{t}:{}:{}:{}:{}", p[0], p[1], p[2], p[3]),
            Setter::Hl(v) => format!("hl:{v}"),
            Setter::Hg(v) => format!("hg:{v}"),
            Setter::Mts(v) => format!("mts:{v}"),
            Setter::MtsT(t, v) => format!("mtsT:{t}:{v}"),
            Setter::Ub(v) => format!("ub:{v}"),
            Setter::Bp => "bp".into(),
        }
    }
    fn parse(s: &str) -> Setter {
        let p: Vec<&str> = s.split(':').collect();
        let n = |i: usize| p[i].parse::<usize>().unwrap();
        match p[0] {
            "n" => Setter::N(n(1)),
            "low" => Setter::Low(n(1)),
            "high" => Setter::High(n(1)),
            "out" => Setter::Out(n(1)),
            "nT" => Setter::NT(n(1), n(2)),
            "lowT" => Setter::LowT(n(1), n(2)),
            "highT" => Setter::HighT(n(1), n(2)),
            "outT" => Setter::OutT(n(1), n(2)),
            "cfgT" => Setter::CfgT(n(1), [n(2), n(3), n(4), n(5)]),
            "hl" => Setter::Hl(n(1)),
            "hg" => Setter::Hg(n(1)),
            "mts" => Setter::Mts(n(1)),
            "mtsT" => Setter::MtsT(n(1), n(2)),
            "ub" => Setter::Ub(n(1) as u64),
            "bp" => Setter::Bp,
            o => panic!("replay: unknown setter {o}"),
        }
    }
    fn apply(&self, b: &mut ConfigBuilder) {
        match self {
            Setter::N(v) => b.mesh_n(*v),
            Setter::Low(v) => b.mesh_n_low(*v),
            Setter::High(v) => b.mesh_n_high(*v),
            Setter::Out(v) => b.mesh_outbound_min(*v),
            Setter::NT(t, v) => b.mesh_n_for_topic(*v, th(*t)),
            Setter::LowT(t, v) => b.mesh_n_low_for_topic(*v, th(*t)),
            Setter::HighT(t, v) => b.mesh_n_high_for_topic(*v, th(*t)),
            Setter::OutT(t, v) => b.mesh_outbound_min_for_topic(*v, th(*t)),
            Setter::CfgT(t, p) => b.set_topic_config(
                th(*t),
                cfghook::TopicMeshConfig { mesh_n: p[0], mesh_n_low: p[1], mesh_n_high: p[2], mesh_outbound_min: p[3] },
            ),
            Setter::Hl(v) => b.history_length(*v),
            Setter::Hg(v) => b.history_gossip(*v),
            Setter::Mts(v) => b.max_transmit_size(*v),
            Setter::MtsT(t, v) => b.max_transmit_size_for_topic(*v, th(*t)),
            Setter::Ub(v) => b.unsubscribe_backoff(Duration::from_millis(*v)),
            Setter::Bp => b.protocol_id_prefix("no-leading-slash"),
        };
    }
}

fn setters_tok(l: &[Setter]) -> String {
    if l.is_empty() {
        "-".into()
    } else {
        l.iter().map(|s| s.tok()).collect::<Vec<_>>().join(";")
    }
}

/// every setter of the bounded alphabet (cfgT over a small set of parameter sets)
fn all_setters() -> Vec<Setter> {
    let mut v = vec![];
    for &x in &MESH_VALUES {
        v.push(Setter::N(x));
        v.push(Setter::Low(x));
        v.push(Setter::High(x));
        v.push(Setter::Out(x));
        for t in 0..NTOPICS {
            v.push(Setter::NT(t, x));
            v.push(Setter::LowT(t, x));
            v.push(Setter::HighT(t, x));
            v.push(Setter::OutT(t, x));
        }
    }
    for p in [[6, 5, 12, 2], [2, 1, 3, 1], [3, 3, 3, 1], [0, 0, 0, 0], [6, 12, 12, 2], [6, 5, 3, 2], [2, 2, 3, 2], [12, 6, 99, 6], [1, 1, 1, 0]] {
        for t in 0..NTOPICS {
            v.push(Setter::CfgT(t, p));
        }
    }
    for &x in &HIST_VALUES {
        v.push(Setter::Hl(x));
        v.push(Setter::Hg(x));
    }
    for &x in &MTS_VALUES {
        v.push(Setter::Mts(x));
        for t in 0..NTOPICS {
            v.push(Setter::MtsT(t, x));
        }
    }
    for &x in &UB_VALUES {
        v.push(Setter::Ub(x));
    }
    v.push(Setter::Bp);
    v
}

fn params_tok(c: &Config, t: Option<usize>) -> String {
    match t {
        None => format!("{},{},{},{}", c.mesh_n(), c.mesh_n_low(), c.mesh_n_high(), c.mesh_outbound_min()),
        Some(t) => {
            let h = th(t);
            format!(
                "{},{},{},{}",
                c.mesh_n_for_topic(&h),
                c.mesh_n_low_for_topic(&h),
                c.mesh_n_high_for_topic(&h),
                c.mesh_outbound_min_for_topic(&h)
            )
        }
    }
}

fn getters_tok(c: &Config) -> String {
    let mut v = vec![params_tok(c, None)];
    for t in 0..NTOPICS {
        v.push(params_tok(c, Some(t)));
    }
    v.push(format!("{},{}", c.history_length(), c.history_gossip()));
    v.push(format!("{}", c.max_transmit_size()));
    v.push((0..NTOPICS).map(|t| c.max_transmit_size_for_topic(&th(t)).to_string()).collect::<Vec<_>>().join(","));
    v.join(" ")
}

fn panic_class(m: &str) -> String {
    if m.contains("subtract_with_overflow") {
        "sub".into()
    } else if m.starts_with("range_end_index") {
        "slice".into()
    } else if m.starts_with("middle_<_vector_length") {
        "expect".into()
    } else {
        format!("other:{m}")
    }
}

/// scenario knobs that do not influence `build`'s verdict
struct Scenario {
    scoring: bool,
    varied_scores: bool,
    retain: usize,
    ogt: u64,
    ogp: usize,
    thr_high: bool,
    subscribed: Vec<usize>,
    n_peers: usize,
    out_mode: u8,
    heartbeats: usize,
}

fn scenario(rng: &mut Rng) -> Scenario {
    let scoring = rng.chance(2, 5);
    let varied_scores = scoring && rng.bool();
    let mut subscribed: Vec<usize> = (0..NTOPICS).filter(|_| rng.chance(2, 3)).collect();
    if subscribed.is_empty() && rng.chance(4, 5) {
        subscribed.push(rng.usize(NTOPICS));
    }
    Scenario {
        scoring,
        varied_scores,
        retain: *rng.pick(&[0usize, 1, 4, 4, 20]),
        ogt: *rng.pick(&[1u64, 1, 2]),
        ogp: if varied_scores { 0 } else { *rng.pick(&[0usize, 2, 2]) },
        thr_high: rng.chance(3, 4),
        subscribed,
        n_peers: if rng.chance(1, 8) { 16 + rng.usize(24) } else { rng.usize(16) },
        out_mode: rng.below(4) as u8,
        heartbeats: 1 + rng.usize(4),
    }
}

struct Node {
    gs: Behaviour,
    peers: Vec<PeerId>,
    sc: Scenario,
}

impl Node {
    fn add_peer(&mut self, rng: &mut Rng) {
        let i = self.peers.len();
        if i >= 250 {
            return;
        }
        let p = hcore::peer(i as u8);
        let outbound = match self.sc.out_mode {
            0 => false,
            1 => true,
            _ => rng.bool(),
        };
        hook::add_peer(&mut self.gs, p, i, outbound, rng.chance(9, 10));
        self.peers.push(p);
        if rng.chance(1, 12) {
            self.gs.add_explicit_peer(&p);
        }
        let subs: Vec<(bool, TopicHash)> = (0..NTOPICS).filter(|_| rng.chance(3, 4)).map(|t| (true, th(t))).collect();
        if !subs.is_empty() {
            hook::recv_subscriptions(&mut self.gs, &p, &subs);
        }
    }
    fn connect(&mut self, outbound: bool) -> Option<PeerId> {
        let i = self.peers.len();
        if i >= 250 {
            return None;
        }
        let p = hcore::peer(i as u8);
        hook::add_peer(&mut self.gs, p, i, outbound, true);
        self.peers.push(p);
        Some(p)
    }
    fn in_mesh(&self, t: usize, p: &PeerId) -> bool {
        self.gs.mesh_peers(&th(t)).any(|x| x == p)
    }
    /// a mesh member of topic `t`: subscribes (the behaviour adds it itself while the mesh is below
    /// mesh_n_low), otherwise GRAFTs (accepted while the mesh is below mesh_n_high)
    fn member(&mut self, t: usize, outbound: bool) -> Option<PeerId> {
        let p = self.connect(outbound)?;
        hook::recv_subscriptions(&mut self.gs, &p, &[(true, th(t))]);
        if !self.in_mesh(t, &p) {
            hook::recv_graft(&mut self.gs, &p, vec![th(t)]);
        }
        Some(p)
    }
    /// A designed peer population for one subscribed topic: `k_in` inbound / `k_out` outbound mesh
    /// members and `c_in` / `c_out` candidates outside the mesh (connected, subscribed, gossipsub,
    /// not explicit, not backed off), with the mesh under-full / exactly full / over-full relative
    /// to the topic's parameter set.  An under-full mesh WITH candidates outside is reached the way
    /// it is in operation: filler members keep the mesh at mesh_n_low while the candidates
    /// subscribe, then the fillers unsubscribe.
    fn populate(&mut self, rng: &mut Rng, t: usize, cfg: &Config) {
        let h = th(t);
        let (n, low, high) = (cfg.mesh_n_for_topic(&h), cfg.mesh_n_low_for_topic(&h), cfg.mesh_n_high_for_topic(&h));
        let targets = [
            0,
            low.saturating_sub(1),
            low.saturating_sub(1),
            low,
            n.saturating_sub(1),
            n,
            high.saturating_sub(1),
            high,
            rng.usize(high + 2),
        ];
        let len = (*rng.pick(&targets)).min(high).min(16);
        let k_out = match rng.below(5) {
            0 | 1 => 0,
            2 => len,
            _ => rng.usize(len + 1),
        };
        let k_in = len - k_out;
        let fillers = if len < low { (low - len + rng.usize(2)).min(high.saturating_sub(len)).min(16) } else { 0 };
        let mut order: Vec<bool> = vec![false; k_in];
        order.extend(vec![true; k_out]);
        rng.shuffle(&mut order);
        let mut filler_ids = vec![];
        // fillers first, so that the designed members are GRAFTed in whatever the mesh size
        for _ in 0..fillers {
            if let Some(p) = self.member(t, false) {
                filler_ids.push(p);
            }
        }
        for ob in order {
            self.member(t, ob);
        }
        let c_in = *rng.pick(&[0usize, 0, 1, 2, 3, 5]);
        let c_out = *rng.pick(&[0usize, 0, 1, 2, 2, 3, 5]);
        let mut cands: Vec<bool> = vec![false; c_in];
        cands.extend(vec![true; c_out]);
        rng.shuffle(&mut cands);
        for ob in cands {
            if let Some(p) = self.connect(ob) {
                hook::recv_subscriptions(&mut self.gs, &p, &[(true, h.clone())]);
                if self.sc.varied_scores && rng.chance(1, 5) {
                    self.gs.set_application_score(&p, -1.0);
                }
            }
        }
        for p in filler_ids {
            hook::recv_subscriptions(&mut self.gs, &p, &[(false, h.clone())]);
        }
        if self.sc.varied_scores {
            let members: Vec<PeerId> = self.gs.mesh_peers(&h).copied().collect();
            for p in members {
                if rng.chance(1, 5) {
                    self.gs.set_application_score(&p, *rng.pick(&[-2.0f64, 1.0, 3.0]));
                }
            }
        }
    }
    /// between two heartbeats of a designed population: members leave (mesh under-full again),
    /// new candidates and members arrive
    fn pop_churn(&mut self, rng: &mut Rng, topics: &[usize]) {
        for &t in topics {
            let h = th(t);
            let members: Vec<PeerId> = self.gs.mesh_peers(&h).copied().collect();
            let leave = match rng.below(4) {
                0 => 0,
                1 => 1,
                2 => 2,
                _ => rng.usize(members.len() + 1),
            };
            let mut m = members.clone();
            rng.shuffle(&mut m);
            for p in m.iter().take(leave) {
                hook::recv_subscriptions(&mut self.gs, p, &[(false, h.clone())]);
            }
            for _ in 0..rng.usize(4) {
                let ob = rng.chance(2, 3);
                if let Some(p) = self.connect(ob) {
                    hook::recv_subscriptions(&mut self.gs, &p, &[(true, h.clone())]);
                }
            }
            if rng.chance(1, 3) {
                let ob = rng.bool();
                self.member(t, ob);
            }
        }
    }
    /// random traffic between heartbeats
    fn churn(&mut self, rng: &mut Rng, graft_p: u64) {
        for i in 0..self.peers.len() {
            let p = self.peers[i];
            if rng.chance(graft_p, 10) {
                let ts: Vec<TopicHash> = (0..NTOPICS).filter(|_| rng.chance(2, 3)).map(th).collect();
                if !ts.is_empty() {
                    hook::recv_graft(&mut self.gs, &p, ts);
                }
            }
            if self.sc.varied_scores && rng.chance(1, 4) {
                let s = *rng.pick(&[-3.0f64, -1.0, 0.0, 1.0, 2.0, 5.0]);
                self.gs.set_application_score(&p, s);
            }
            if rng.chance(1, 20) {
                hook::recv_subscriptions(&mut self.gs, &p, &[(false, th(rng.usize(NTOPICS)))]);
            }
        }
        for _ in 0..rng.usize(3) {
            if rng.chance(1, 3) {
                self.add_peer(rng);
            }
        }
    }
}

#[derive(Clone, Copy, PartialEq, Eq, PartialOrd, Ord)]
struct PeerObs {
    id: PeerId,
    outbound: bool,
    neg: bool,
}

struct TopicPre {
    t: usize,
    mesh: Vec<PeerObs>,
    cand: Vec<PeerObs>,
}

fn observe(node: &Node, t: usize) -> TopicPre {
    let gs = &node.gs;
    let h = th(t);
    let obs = |p: &PeerId| {
        let (outbound, _) = hook::peer_flags(gs, p).unwrap_or((false, false));
        let neg = gs.peer_score(p).map(|s| s < 0.0).unwrap_or(false);
        PeerObs { id: *p, outbound, neg }
    };
    let mesh_ids: BTreeSet<PeerId> = gs.mesh_peers(&h).copied().collect();
    let mesh = mesh_ids.iter().map(obs).collect();
    let mut cand = vec![];
    for (p, topics) in gs.all_peers() {
        if !topics.contains(&&h) || mesh_ids.contains(p) {
            continue;
        }
        let (_, is_gs) = hook::peer_flags(gs, p).unwrap();
        if !is_gs || hook::is_explicit(gs, p) || hook::is_backoff(gs, &h, p) {
            continue;
        }
        cand.push(obs(p));
    }
    cand.sort();
    TopicPre { t, mesh, cand }
}

/// one heartbeat: observe, run, infer the oracles, print `op hb …` / `impl …`; false after a panic
fn heartbeat(node: &mut Node, cfg: &Config, out: &mut Out) -> bool {
    let sc = &node.sc;
    let topics: Vec<usize> = {
        let mut v: Vec<usize> = (0..NTOPICS).filter(|t| node.gs.topics().any(|x| *x == th(*t))).collect();
        v.sort();
        v
    };
    let pre: Vec<TopicPre> = topics.iter().map(|t| observe(node, *t)).collect();
    let opp = sc.scoring && (hook::heartbeat_ticks(&node.gs) + 1) % cfg.opportunistic_graft_ticks() == 0;
    let n_connected = node.gs.all_peers().count();
    let r = hcore::guarded(|| hook::heartbeat(&mut node.gs));
    let mut blocks = vec![];
    let mut results = vec![];
    for tp in &pre {
        let h = th(tp.t);
        let (n, low, high) = (cfg.mesh_n_for_topic(&h), cfg.mesh_n_low_for_topic(&h), cfg.mesh_n_high_for_topic(&h));
        let m_in = tp.mesh.iter().filter(|p| !p.neg && !p.outbound).count();
        let m_out = tp.mesh.iter().filter(|p| !p.neg && p.outbound).count();
        let m_neg = tp.mesh.iter().filter(|p| p.neg).count();
        let c_in = tp.cand.iter().filter(|p| !p.neg && !p.outbound).count();
        let c_out = tp.cand.iter().filter(|p| !p.neg && p.outbound).count();
        let len1 = m_in + m_out;
        let k2 = if len1 < low && n >= len1 { (n - len1).min(c_in + c_out) } else { 0 };
        let (x2, order, post_in, post_out);
        if r.is_ok() {
            let post: BTreeSet<PeerId> = node.gs.mesh_peers(&h).copied().collect();
            let pre_ids: BTreeSet<PeerId> = tp.mesh.iter().map(|p| p.id).collect();
            let flags = |p: &PeerId| hook::peer_flags(&node.gs, p).map(|f| f.0).unwrap_or(false);
            let added: Vec<&PeerId> = post.difference(&pre_ids).collect();
            let a_out = added.iter().filter(|p| flags(p)).count();
            let k4 = added.len().saturating_sub(k2);
            x2 = a_out.saturating_sub(k4);
            let r_in = tp.mesh.iter().filter(|p| !p.neg && !p.outbound && !post.contains(&p.id)).count();
            let r_out = tp.mesh.iter().filter(|p| !p.neg && p.outbound && !post.contains(&p.id)).count();
            let in2 = m_in + (k2 - x2.min(k2));
            let out2 = m_out + x2;
            order = if in2 + out2 >= high {
                let mut s = String::new();
                s.push_str(&"0".repeat(r_in));
                s.push_str(&"1".repeat(out2));
                s.push_str(&"0".repeat(in2.saturating_sub(r_in)));
                let _ = r_out;
                if s.is_empty() { "-".to_string() } else { s }
            } else {
                "-".to_string()
            };
            post_in = post.iter().filter(|p| !flags(p)).count();
            post_out = post.iter().filter(|p| flags(p)).count();
        } else {
            x2 = c_out.min(k2);
            order = "-".to_string();
            post_in = 0;
            post_out = 0;
        }
        let below = sc.thr_high;
        blocks.push(format!(
            "{};{};{};{};{};{};{};{};{};0;0;{}",
            tp.t, m_in, m_out, m_neg, c_in, c_out, n_connected, x2, below as u8, order
        ));
        results.push(format!("{}:{}/{}", tp.t, post_in, post_out));
    }
    out.op(&format!(
        "hb {} {} {}{}{}",
        cfg.retain_scores(),
        opp as u8,
        cfg.opportunistic_graft_peers(),
        if blocks.is_empty() { "" } else { " " },
        blocks.join(" ")
    ));
    match r {
        Ok(()) => {
            out.imp(&format!("ok {}", if results.is_empty() { "-".to_string() } else { results.join(" ") }));
            true
        }
        Err(m) => {
            out.imp(&format!("panic {}", panic_class(&m)));
            false
        }
    }
}

/// run one case: builder sequence, then (maybe) the peer scenario and `max_hb` heartbeats
#[allow(clippy::too_many_arguments)]
fn run_case(out: &mut Out, idx: u64, class: &str, setters: &[Setter], sc_seed: u64, with_hb: bool, unchecked: bool, max_hb: Option<usize>, with_build: bool, pop: bool) {
    let mut rng = Rng::for_case(sc_seed, 0);
    let sc = scenario(&mut rng);
    let mut b = ConfigBuilder::default();
    for s in setters {
        s.apply(&mut b);
    }
    let built = b.build();
    let nt = !setters.is_empty();
    out.case(idx, &format!("{class} nt={} sc={sc_seed} hb={} un={} pop={}", nt as u8, with_hb as u8, unchecked as u8, pop as u8));
    if with_build {
        // the error kind is also the oracle for the HashMap iteration order of build's topic loop
        let orc = match &built {
            Ok(_) => "-".to_string(),
            Err(e) => format!("{e:?}"),
        };
        out.op(&format!("build {} {orc}", setters_tok(setters)));
        match &built {
            Ok(c) => out.imp(&format!("ok {}", getters_tok(c))),
            Err(e) => out.imp(&format!("err {e:?}")),
        }
    }
    let accepted = built.is_ok();
    if with_hb && (accepted || unchecked) {
        // scenario knobs (no influence on build's verdict) go onto the same builder
        b.retain_scores(sc.retain)
            .opportunistic_graft_ticks(sc.ogt)
            .opportunistic_graft_peers(sc.ogp)
            .prune_backoff(Duration::from_secs(3600))
            .check_explicit_peers_ticks(1_000_000);
        let cfg = if accepted { b.build().expect("scenario knobs do not change the verdict") } else { cfghook::config_unchecked(&b) };
        let made = hcore::guarded(|| Behaviour::new(MessageAuthenticity::Signed(hcore::keypair(255)), cfg.clone()));
        if let Ok(Ok(mut gs)) = made {
            if sc.scoring {
                let params = PeerScoreParams {
                    app_specific_weight: 1.0,
                    behaviour_penalty_weight: if sc.varied_scores { -10.0 } else { 0.0 },
                    ..Default::default()
                };
                let thr = PeerScoreThresholds {
                    opportunistic_graft_threshold: if sc.thr_high { 1000.0 } else { 0.0 },
                    ..Default::default()
                };
                gs.with_peer_score(params, thr).expect("score params");
            }
            let subscribed = sc.subscribed.clone();
            let (n_peers, n_hb) = (sc.n_peers, sc.heartbeats);
            let mut node = Node { gs, peers: vec![], sc };
            let subscribed = if pop && subscribed.is_empty() { vec![0] } else { subscribed };
            let setup = hcore::guarded(|| {
                for t in &subscribed {
                    let _ = node.gs.subscribe(&topic(*t));
                }
                if pop {
                    for t in &subscribed {
                        node.populate(&mut rng, *t, &cfg);
                    }
                } else {
                    for _ in 0..n_peers {
                        node.add_peer(&mut rng);
                    }
                    node.churn(&mut rng, 6);
                }
            });
            if setup.is_ok() {
                for k in 0..max_hb.unwrap_or(n_hb).min(n_hb) {
                    if k > 0 {
                        let r = if pop {
                            hcore::guarded(|| {
                                node.pop_churn(&mut rng, &subscribed);
                                if rng.chance(1, 4) {
                                    node.churn(&mut rng, 1);
                                }
                            })
                        } else {
                            hcore::guarded(|| node.churn(&mut rng, 3))
                        };
                        if r.is_err() {
                            break;
                        }
                    }
                    if !heartbeat(&mut node, &cfg, out) {
                        break;
                    }
                }
            }
        }
    }
    out.end();
}

/// near-valid parameter sets: sorted small values, sometimes perturbed
fn nearly_valid(rng: &mut Rng) -> [usize; 4] {
    let mut v = [rng.usize(14), rng.usize(14), rng.usize(14)];
    v.sort();
    let (low, n, high) = (v[0], v[1], v[2]);
    let out = if n == 0 { 0 } else { rng.usize(n / 2 + 1).min(low) };
    let mut p = [n, low, high, out];
    if rng.chance(1, 4) {
        let i = rng.usize(4);
        p[i] = *rng.pick(&MESH_VALUES);
    }
    p
}

fn gen_setters(rng: &mut Rng, all: &[Setter]) -> Vec<Setter> {
    match rng.below(3) {
        0 => (0..rng.usize(5)).map(|_| rng.pick(all).clone()).collect(),
        1 => {
            // a plausible configuration: default set + some topics + history + sizes
            let mut v = vec![];
            let p = nearly_valid(rng);
            // order matters for nothing, but exercise both setter styles
            v.push(Setter::N(p[0]));
            v.push(Setter::Low(p[1]));
            v.push(Setter::High(p[2]));
            v.push(Setter::Out(p[3]));
            for t in 0..NTOPICS {
                if rng.chance(1, 2) {
                    let q = nearly_valid(rng);
                    if rng.bool() {
                        v.push(Setter::CfgT(t, q));
                    } else {
                        v.push(Setter::NT(t, q[0]));
                        v.push(Setter::LowT(t, q[1]));
                        v.push(Setter::HighT(t, q[2]));
                        v.push(Setter::OutT(t, q[3]));
                    }
                }
                if rng.chance(1, 4) {
                    v.push(Setter::MtsT(t, *rng.pick(&MTS_VALUES)));
                }
                if rng.chance(1, 8) {
                    // a topic WITH a size entry whose set is ordered but has 2*out > n, or is fine
                    v.push(Setter::CfgT(t, *rng.pick(&[[2usize, 2, 3, 2], [3, 3, 3, 2], [5, 3, 7, 3], [4, 2, 4, 2]])));
                    v.push(Setter::MtsT(t, *rng.pick(&[100usize, 100, 99, 65536])));
                }
            }
            if rng.chance(1, 3) {
                v.push(Setter::Hl(*rng.pick(&HIST_VALUES)));
                v.push(Setter::Hg(*rng.pick(&HIST_VALUES)));
            }
            if rng.chance(1, 5) {
                v.push(Setter::Mts(*rng.pick(&MTS_VALUES)));
            }
            v
        }
        _ => {
            // small meshes so that 0–15 peers reach every branch of the heartbeat
            let mut v = vec![];
            let p = *rng.pick(&[[2usize, 1, 3, 1], [3, 2, 4, 1], [4, 3, 6, 2], [2, 2, 2, 1], [1, 1, 1, 0], [0, 0, 0, 0], [6, 5, 12, 2], [4, 4, 8, 2]]);
            v.push(Setter::N(p[0]));
            v.push(Setter::Low(p[1]));
            v.push(Setter::High(p[2]));
            v.push(Setter::Out(p[3]));
            if rng.bool() {
                v.push(Setter::CfgT(rng.usize(NTOPICS), nearly_valid(rng)));
            }
            v
        }
    }
}

pub fn run(args: &Args, out: &mut Out) {
    if let Some(cases) = args.replay_cases() {
        for (i, (hdr, ops)) in cases.iter().enumerate() {
            let get = |k: &str| hdr.iter().find_map(|t| t.strip_prefix(k)).map(|v| v.parse::<u64>().unwrap());
            let sc_seed = get("sc=").unwrap_or(0);
            let unchecked = get("un=").unwrap_or(0) == 1;
            let build_op = ops.iter().find(|o| o[0] == "build");
            let setters: Vec<Setter> = match build_op {
                Some(o) if o[1] != "-" => o[1].split(';').map(Setter::parse).collect(),
                _ => vec![],
            };
            let n_hb = ops.iter().filter(|o| o[0] == "hb").count();
            // a replay without the build op still needs a behaviour: use the (default-config) builder
            let pop = get("pop=").unwrap_or(0) == 1;
            run_case(out, i as u64, "replay", &setters, sc_seed, n_hb > 0, unchecked, Some(n_hb), build_op.is_some(), pop);
        }
        return;
    }
    let all = all_setters();
    let mut idx = 0u64;
    // bounded-exhaustive builder sequences (no heartbeat): length ≤ 1 always, length 2 in the thorough tier
    run_case(out, idx, "exh0", &[], 0, false, false, None, true, false);
    idx += 1;
    for s in &all {
        run_case(out, idx, "exh1", std::slice::from_ref(s), 0, false, false, None, true, false);
        idx += 1;
    }
    if args.thorough && args.count == 0 {
        for a in &all {
            for b in &all {
                run_case(out, idx, "exh2", &[a.clone(), b.clone()], 0, false, false, None, true, false);
                idx += 1;
            }
        }
    }
    let n = args.n(3000, 120_000);
    for i in 0..n {
        let mut rng = Rng::for_case(args.seed, i);
        let setters = gen_setters(&mut rng, &all);
        let sc_seed = rng.next_u64() >> 16;
        let unchecked = rng.chance(1, 4);
        let class = if unchecked { "unchecked" } else { "checked" };
        run_case(out, idx, class, &setters, sc_seed, true, unchecked, None, true, false);
        idx += 1;
    }
    // designed peer populations on VALID (often tight) parameter sets
    for i in 0..(n / 2).max(1) {
        let mut rng = Rng::for_case(args.seed ^ 0x9090_C34, i);
        let setters = gen_valid_tight(&mut rng);
        let sc_seed = rng.next_u64() >> 16;
        run_case(out, idx, "pop", &setters, sc_seed, true, false, None, true, true);
        idx += 1;
    }
}

/// a VALID parameter set, preferably tight: mesh_n_low = mesh_n, mesh_n = mesh_n_high,
/// mesh_outbound_min at the maximum the validation allows (min(mesh_n_low, mesh_n / 2))
fn tight(rng: &mut Rng) -> [usize; 4] {
    let n = *rng.pick(&[0usize, 1, 2, 3, 4, 4, 5, 6, 6, 8]);
    let low = match rng.below(3) {
        0 | 1 => n,
        _ => n - rng.usize(n.min(2) + 1),
    };
    let high = match rng.below(3) {
        0 => n,
        1 => n + 1,
        _ => n + rng.usize(6),
    };
    let out_max = low.min(n / 2);
    let out = match rng.below(4) {
        0 | 1 => out_max,
        2 => out_max.saturating_sub(1),
        _ => rng.usize(out_max + 1),
    };
    [n, low, high, out]
}

fn gen_valid_tight(rng: &mut Rng) -> Vec<Setter> {
    let mut v = vec![];
    let p = if rng.chance(1, 6) { [6, 5, 12, 2] } else { tight(rng) };
    // set high first so that no intermediate state matters (only the final state is built)
    v.push(Setter::High(p[2]));
    v.push(Setter::N(p[0]));
    v.push(Setter::Low(p[1]));
    v.push(Setter::Out(p[3]));
    for t in 0..NTOPICS {
        if rng.chance(2, 3) {
            let q = tight(rng);
            if rng.bool() {
                v.push(Setter::CfgT(t, q));
            } else {
                v.push(Setter::HighT(t, q[2]));
                v.push(Setter::NT(t, q[0]));
                v.push(Setter::LowT(t, q[1]));
                v.push(Setter::OutT(t, q[3]));
            }
            if rng.bool() {
                v.push(Setter::MtsT(t, *rng.pick(&[100usize, 65536])));
            }
        }
    }
    v
}
