//! Harness binary `h_gs_a <PROP> --seed S --tier T [--count N] [--replay F]`.
//! One module per property (`cNN.rs`, `pub fn run(args: &hcore::Args, out: &mut hcore::Out)`).

mod c30;
mod c31;
mod c34;
mod c36;

fn main() {
    let args = hcore::Args::parse();
    hcore::quiet_panics();
    let mut out = hcore::Out::new();
    match args.prop.as_str() {
        "C30" => c30::run(&args, &mut out),
        "C31" => c31::run(&args, &mut out),
        "C36" => c36::run(&args, &mut out),
        "C34" => c34::run(&args, &mut out),
        p => {
            let _ = &mut out;
            eprintln!("h_gs_a: unknown property {p}");
            std::process::exit(2);
        }
    }
    #[allow(unreachable_code)]
    out.flush();
}
