//! C30 — the per-message validation of `GossipsubCodec::decode` vs the Lean model `C30.validateMsg`.
//!
//! One op = one RPC carrying one publish message:
//! `msg <mode> <from> <data> <seqno> <topic> <signature> <key> <oracle bits>` (fields hex, `~` = absent,
//! `-` = present but empty).  The oracle bits are what the harness establishes about the message with
//! the public `libp2p_identity` API and its own protobuf encoding, independently of the codec:
//! tooLarge fromParses keyDec inlDec matchKey matchInl verKey verInl.
//! impl: `valid|invalid:<Kind> src=.. seq=.. sig=.. key=.. dlen=..` (the surfaced `RawMessage`).
use std::collections::HashMap;

use asynchronous_codec::Decoder;
use bytes::BytesMut;
use hcore::{Args, Out, Rng};
use libp2p_core::PeerId;
use libp2p_gossipsub::{verif_c30 as hook, RawMessage, TopicHash, ValidationMode};
use libp2p_identity::{ecdsa, secp256k1, Keypair, PublicKey};

use crate::c31::{len_field, varint};

const PREFIX: &[u8] = b"libp2p-pubsub:";
const LIMITED_TOPIC: &str = "lim";
const LIMIT: usize = 60;

#[derive(Clone, Debug, PartialEq)]
struct Msg {
    from: Option<Vec<u8>>,
    data: Option<Vec<u8>>,
    seqno: Option<Vec<u8>>,
    topic: String,
    signature: Option<Vec<u8>>,
    key: Option<Vec<u8>>,
}

impl Msg {
    /// protobuf encoding (fields in tag order, present-but-empty fields are emitted, as prost does)
    fn encode(&self, with_sig_and_key: bool) -> Vec<u8> {
        let mut v = vec![];
        if let Some(x) = &self.from {
            len_field(1, x, &mut v);
        }
        if let Some(x) = &self.data {
            len_field(2, x, &mut v);
        }
        if let Some(x) = &self.seqno {
            len_field(3, x, &mut v);
        }
        len_field(4, self.topic.as_bytes(), &mut v);
        if with_sig_and_key {
            if let Some(x) = &self.signature {
                len_field(5, x, &mut v);
            }
            if let Some(x) = &self.key {
                len_field(6, x, &mut v);
            }
        }
        v
    }
    fn signing_bytes(&self) -> Vec<u8> {
        let mut v = PREFIX.to_vec();
        v.extend_from_slice(&self.encode(false));
        v
    }
    fn frame(&self) -> Vec<u8> {
        let mut rpc = vec![];
        len_field(2, &self.encode(true), &mut rpc);
        let mut f = vec![];
        varint(rpc.len() as u64, &mut f);
        f.extend_from_slice(&rpc);
        f
    }
}

fn opt_tok(x: &Option<Vec<u8>>) -> String {
    match x {
        None => "~".into(),
        Some(b) => hcore::hex(b),
    }
}
fn opt_parse(s: &str) -> Option<Vec<u8>> {
    if s == "~" {
        None
    } else {
        Some(hcore::unhex(s))
    }
}

fn keypairs() -> Vec<(&'static str, Keypair)> {
    let mut v = vec![("ed25519", hcore::keypair(1)), ("ed25519b", hcore::keypair(2))];
    let mut sk = [7u8; 32];
    sk[0] = 1;
    let s = secp256k1::SecretKey::try_from_bytes(sk).unwrap();
    v.push(("secp256k1", Keypair::from(secp256k1::Keypair::from(s))));
    let mut ek = [9u8; 32];
    ek[0] = 1;
    let e = ecdsa::SecretKey::try_from_bytes(ek).unwrap();
    v.push(("ecdsa", Keypair::from(ecdsa::Keypair::from(e))));
    if let Ok(mut der) = std::fs::read("/repo/identity/src/test/rsa-2048.pk8") {
        if let Ok(k) = Keypair::rsa_from_pkcs8(&mut der) {
            v.push(("rsa", k));
        }
    }
    v
}

/// the oracle bits
fn oracle(m: &Msg) -> String {
    let source: Option<PeerId> = m.from.as_ref().and_then(|b| PeerId::from_bytes(b).ok());
    let key_pk: Option<PublicKey> = m.key.as_ref().and_then(|k| PublicKey::try_decode_protobuf(k).ok());
    let inl_pk: Option<PublicKey> = source.as_ref().and_then(|s| {
        let b = s.to_bytes();
        if b.len() >= 2 {
            PublicKey::try_decode_protobuf(&b[2..]).ok()
        } else {
            None
        }
    });
    let bytes = m.signing_bytes();
    let matches = |pk: &Option<PublicKey>| pk.as_ref().is_some_and(|k| Some(k.to_peer_id()) == source);
    let verifies = |pk: &Option<PublicKey>| match (pk, &m.signature) {
        (Some(k), Some(sig)) => k.verify(&bytes, sig),
        _ => false,
    };
    let too_large = m.topic == LIMITED_TOPIC && m.encode(true).len() > LIMIT;
    let bits = [
        too_large,
        source.is_some(),
        key_pk.is_some(),
        inl_pk.is_some(),
        matches(&key_pk),
        matches(&inl_pk),
        verifies(&key_pk),
        verifies(&inl_pk),
    ];
    bits.iter().map(|b| if *b { '1' } else { '0' }).collect()
}

fn mode_of(s: &str) -> ValidationMode {
    match s {
        "strict" => ValidationMode::Strict,
        "permissive" => ValidationMode::Permissive,
        "anonymous" => ValidationMode::Anonymous,
        _ => ValidationMode::None,
    }
}

fn raw_tok(r: &RawMessage) -> String {
    format!(
        "src={} seq={} sig={} key={} dlen={}",
        r.source.is_some() as u8,
        r.sequence_number.map(|n| n.to_string()).unwrap_or("~".into()),
        r.signature.is_some() as u8,
        r.key.is_some() as u8,
        r.data.len()
    )
}

fn one(out: &mut Out, mode: &str, m: &Msg) {
    out.op(&format!(
        "msg {mode} {} {} {} {} {} {} {}",
        opt_tok(&m.from),
        opt_tok(&m.data),
        opt_tok(&m.seqno),
        hcore::hex(m.topic.as_bytes()),
        opt_tok(&m.signature),
        opt_tok(&m.key),
        oracle(m)
    ));
    let r = hcore::guarded(|| {
        let mut per_topic = HashMap::new();
        per_topic.insert(TopicHash::from_raw(LIMITED_TOPIC), LIMIT);
        let mut codec = hook::Codec::new(1 << 20, mode_of(mode), per_topic, 100, 1 << 16);
        let mut buf = BytesMut::from(&m.frame()[..]);
        codec.decode(&mut buf)
    });
    match r {
        Ok(Ok(Some((valid, invalid)))) => {
            if valid.len() + invalid.len() != 1 {
                out.imp(&format!("other count={}/{}", valid.len(), invalid.len()));
            } else if let Some(v) = valid.first() {
                out.imp(&format!("valid {}", raw_tok(v)));
            } else {
                let (raw, e) = &invalid[0];
                out.imp(&format!("invalid:{e:?} {}", raw_tok(raw)));
            }
        }
        Ok(Ok(None)) => out.imp("other need-more"),
        Ok(Err(e)) => out.imp(&format!("other err:{}", e.to_string().replace(' ', "_"))),
        Err(p) => out.imp(&format!("panic {p}")),
    }
}

/// a correctly signed message by `kp`
fn signed(rng: &mut Rng, kp: &Keypair, with_key: bool, topic: &str) -> Msg {
    let dl = rng_len(rng);
    let mut m = Msg {
        from: Some(kp.public().to_peer_id().to_bytes()),
        data: Some(rng.bytes(dl)),
        seqno: Some(rng.bytes(8)),
        topic: topic.to_string(),
        signature: None,
        key: None,
    };
    m.signature = Some(kp.sign(&m.signing_bytes()).unwrap());
    if with_key {
        m.key = Some(kp.public().encode_protobuf());
    }
    m
}

fn rng_len(rng: &mut Rng) -> usize {
    *rng.pick(&[0usize, 1, 5, 20, 64])
}

/// every single-field mutation / removal / addition of `m`
fn mutations(rng: &mut Rng, m: &Msg, others: &[Msg]) -> Vec<(String, Msg)> {
    let mut v: Vec<(String, Msg)> = vec![];
    let mut push = |name: &str, f: &dyn Fn(&mut Msg)| {
        let mut x = m.clone();
        f(&mut x);
        v.push((name.to_string(), x));
    };
    let other = &others[rng.usize(others.len())];
    let jl = 1 + rng.usize(12);
    let junk = rng.bytes(jl);
    let flip = |b: &Option<Vec<u8>>, i: usize| {
        b.as_ref().map(|x| {
            let mut y = x.clone();
            if !y.is_empty() {
                let k = i % y.len();
                y[k] ^= 0x01;
            }
            y
        })
    };
    let i = rng.usize(1000);
    push("from-other", &|x| x.from = other.from.clone());
    push("from-junk", &|x| x.from = Some(junk.clone()));
    push("from-empty", &|x| x.from = Some(vec![]));
    push("from-none", &|x| x.from = None);
    push("data-flip", &|x| x.data = flip(&x.data, i).or(Some(vec![1])));
    push("data-none", &|x| x.data = None);
    push("data-empty", &|x| x.data = Some(vec![]));
    push("data-append", &|x| x.data = Some([x.data.clone().unwrap_or_default(), vec![0]].concat()));
    push("seqno-flip", &|x| x.seqno = flip(&x.seqno, i));
    push("seqno-7", &|x| x.seqno = Some(vec![1; 7]));
    push("seqno-9", &|x| x.seqno = Some(vec![1; 9]));
    push("seqno-empty", &|x| x.seqno = Some(vec![]));
    push("seqno-none", &|x| x.seqno = None);
    push("topic-other", &|x| x.topic = format!("{}x", x.topic));
    push("topic-limited", &|x| x.topic = LIMITED_TOPIC.to_string());
    push("sig-flip", &|x| x.signature = flip(&x.signature, i));
    push("sig-none", &|x| x.signature = None);
    push("sig-empty", &|x| x.signature = Some(vec![]));
    push("sig-other", &|x| x.signature = other.signature.clone());
    push("key-none", &|x| x.key = None);
    push("key-junk", &|x| x.key = Some(junk.clone()));
    push("key-other", &|x| x.key = other.key.clone().or(Some(vec![8, 1, 18, 1, 0])));
    push("key-own", &|x| x.key = x.key.clone());
    v
}

pub fn run(args: &Args, out: &mut Out) {
    const MODES: [&str; 4] = ["strict", "permissive", "anonymous", "none"];
    if let Some(cases) = args.replay_cases() {
        for (i, (_, ops)) in cases.iter().enumerate() {
            out.case(i as u64, "replay nt=1");
            for o in ops {
                let m = Msg {
                    from: opt_parse(&o[2]),
                    data: opt_parse(&o[3]),
                    seqno: opt_parse(&o[4]),
                    topic: String::from_utf8(hcore::unhex(&o[5])).unwrap(),
                    signature: opt_parse(&o[6]),
                    key: opt_parse(&o[7]),
                };
                one(out, &o[1], &m);
            }
            out.end();
        }
        return;
    }
    let kps = keypairs();
    let mut idx = 0u64;
    // systematic part: for every key type (with and without the key field) a correctly signed
    // message and every single-field mutation, under every validation mode
    let mut rng = Rng::for_case(args.seed ^ 0xC30, 0);
    let bases: Vec<(String, Msg)> = kps
        .iter()
        .flat_map(|(name, kp)| {
            [false, true].into_iter().map(|wk| (format!("{name}{}", if wk { "+key" } else { "" }), (kp.clone(), wk))).collect::<Vec<_>>()
        })
        .map(|(n, (kp, wk))| (n, signed(&mut rng, &kp, wk, "t0")))
        .collect();
    let all_msgs: Vec<Msg> = bases.iter().map(|(_, m)| m.clone()).collect();
    for (name, base) in &bases {
        out.case(idx, &format!("signed-{name} nt=1"));
        for mode in MODES {
            one(out, mode, base);
        }
        out.end();
        idx += 1;
        let kp = &kps.iter().find(|(n, _)| name.starts_with(n) && (*n != "ed25519" || !name.starts_with("ed25519b"))).unwrap().1;
        for (mname, m) in mutations(&mut rng, base, &all_msgs) {
            out.case(idx, &format!("mut-{name}-{mname} nt=1"));
            for mode in MODES {
                one(out, mode, &m);
            }
            out.end();
            idx += 1;
            // the same mutation signed again by the base key: valid again, unless the source or the
            // key field no longer belong to that key (impersonation attempts)
            let mut rs = m.clone();
            rs.signature = Some(kp.sign(&rs.signing_bytes()).unwrap());
            out.case(idx, &format!("resigned-{name}-{mname} nt=1"));
            for mode in MODES {
                one(out, mode, &rs);
            }
            out.end();
            idx += 1;
        }
    }
    // unsigned shapes
    for (name, m) in [
        ("anonymous", Msg { from: None, data: Some(vec![1, 2, 3]), seqno: None, topic: "t0".into(), signature: None, key: None }),
        ("author", Msg { from: Some(hcore::peer(3).to_bytes()), data: Some(vec![1]), seqno: Some(vec![0; 8]), topic: "t0".into(), signature: None, key: None }),
        ("random-author", Msg { from: None, data: None, seqno: Some(vec![9; 8]), topic: "t1".into(), signature: None, key: None }),
        ("from-only", Msg { from: Some(hcore::peer(3).to_bytes()), data: Some(vec![1]), seqno: None, topic: "t0".into(), signature: None, key: None }),
        ("from-junk-only", Msg { from: Some(vec![1, 2, 3]), data: Some(vec![1]), seqno: None, topic: "t0".into(), signature: None, key: None }),
        ("from-junk-seq", Msg { from: Some(vec![1, 2, 3]), data: None, seqno: Some(vec![]), topic: "t0".into(), signature: None, key: None }),
        ("from-empty-only", Msg { from: Some(vec![]), data: None, seqno: None, topic: "t0".into(), signature: None, key: None }),
        ("seq-5", Msg { from: None, data: None, seqno: Some(vec![1; 5]), topic: "t0".into(), signature: None, key: None }),
        ("bare", Msg { from: None, data: None, seqno: None, topic: "".into(), signature: None, key: None }),
        ("big-on-limited", Msg { from: None, data: Some(vec![7; 80]), seqno: None, topic: LIMITED_TOPIC.into(), signature: None, key: None }),
        ("small-on-limited", Msg { from: None, data: Some(vec![7; 10]), seqno: None, topic: LIMITED_TOPIC.into(), signature: None, key: None }),
    ] {
        out.case(idx, &format!("unsigned-{name} nt=1"));
        for mode in MODES {
            one(out, mode, &m);
        }
        out.end();
        idx += 1;
    }
    // random part: random base, 0–3 stacked mutations, random mode
    let n = args.n(3000, 100_000);
    for i in 0..n {
        let mut rng = Rng::for_case(args.seed, i);
        let (name, kp) = &kps[rng.usize(kps.len())];
        let wk = rng.bool();
        let topic = *rng.pick(&["t0", "t1", LIMITED_TOPIC, ""]);
        let mut m = signed(&mut rng, kp, wk, topic);
        let k = rng.usize(4);
        for _ in 0..k {
            let muts = mutations(&mut rng, &m, &all_msgs);
            m = muts[rng.usize(muts.len())].1.clone();
            // a re-signed variant: mutate, then sign again with the original key (valid again, or not:
            // the `from` may no longer belong to the key)
            if rng.chance(1, 4) {
                m.signature = Some(kp.sign(&m.signing_bytes()).unwrap());
            }
        }
        out.case(idx, &format!("random-{name} nt=1"));
        one(out, *rng.pick(&MODES), &m);
        out.end();
        idx += 1;
    }
}
