//! C31 — `GossipsubCodec` under a real `asynchronous_codec::FramedRead`, fed chunk by chunk,
//! vs the Lean model `C31.decodeStep` / `C31.runE`.
//!
//! Case header: `L=<max>,<max_publish>,<max_control>` and the harness' ground truth about the
//! frames it put on the wire, `F=<wire_len>/<encoded_len>/<good>;…` (good = produced by the RPC
//! builder and within all three limits).  Ops: `chunk <hex>` — one `poll_read` worth of bytes;
//! impl: what the `FramedRead` stream yielded before it asked for the next chunk
//! (`ok:<subscriptions>,<publish>` per RPC, `err:<class>`), `-` when nothing.
use std::cell::RefCell;
use std::collections::HashMap;
use std::pin::Pin;
use std::rc::Rc;
use std::task::{Context, Poll};

use asynchronous_codec::FramedRead;
use futures::{AsyncRead, StreamExt};
use hcore::{Args, Out, Rng};
use libp2p_gossipsub::{verif_c31 as hook, TopicHash, ValidationMode};

// ---------------------------------------------------------------- protobuf (hand-written encoder)

pub fn varint(mut n: u64, out: &mut Vec<u8>) {
    loop {
        let b = (n & 0x7f) as u8;
        n >>= 7;
        if n == 0 {
            out.push(b);
            return;
        }
        out.push(b | 0x80);
    }
}
pub fn key(tag: u32, wt: u8, out: &mut Vec<u8>) {
    varint(((tag as u64) << 3) | wt as u64, out)
}
pub fn len_field(tag: u32, payload: &[u8], out: &mut Vec<u8>) {
    key(tag, 2, out);
    varint(payload.len() as u64, out);
    out.extend_from_slice(payload);
}
pub fn varint_field(tag: u32, v: u64, out: &mut Vec<u8>) {
    key(tag, 0, out);
    varint(v, out);
}

fn sub_opts(subscribe: bool, topic: &str) -> Vec<u8> {
    let mut v = vec![];
    varint_field(1, subscribe as u64, &mut v);
    len_field(2, topic.as_bytes(), &mut v);
    v
}
fn message(data_len: usize, topic: &str, rng: &mut Rng) -> Vec<u8> {
    let mut v = vec![];
    len_field(2, &rng.bytes(data_len), &mut v);
    len_field(4, topic.as_bytes(), &mut v);
    v
}
fn control(rng: &mut Rng) -> Vec<u8> {
    let mut v = vec![];
    for _ in 0..rng.usize(3) {
        let mut ihave = vec![];
        len_field(1, b"t0", &mut ihave);
        for _ in 0..rng.usize(3) {
            len_field(2, &rng.bytes(4), &mut ihave);
        }
        len_field(1, &ihave, &mut v);
    }
    for _ in 0..rng.usize(2) {
        let mut graft = vec![];
        len_field(1, b"t1", &mut graft);
        len_field(3, &graft, &mut v);
    }
    for _ in 0..rng.usize(2) {
        let mut iwant = vec![];
        len_field(1, &rng.bytes(6), &mut iwant);
        len_field(2, &iwant, &mut v);
    }
    v
}

/// one RPC as the harness knows it (ground truth independent of the decoder)
#[derive(Clone)]
struct Rpc {
    body: Vec<u8>,
    publish: usize,
    control_bytes: usize,
    well_formed: bool,
}

impl Rpc {
    fn new() -> Rpc {
        Rpc { body: vec![], publish: 0, control_bytes: 0, well_formed: true }
    }
    fn field(&mut self, tag: u32, payload: &[u8]) {
        let before = self.body.len();
        len_field(tag, payload, &mut self.body);
        if tag == 2 {
            self.publish += 1;
        }
        if tag == 1 || tag == 3 {
            self.control_bytes += self.body.len() - before;
        }
    }
    fn good(&self, l: &Limits) -> bool {
        self.well_formed && self.body.len() <= l.max && self.publish <= l.mp && self.control_bytes <= l.mc
    }
    fn wire(&self) -> Vec<u8> {
        let mut v = vec![];
        varint(self.body.len() as u64, &mut v);
        v.extend_from_slice(&self.body);
        v
    }
}

#[derive(Clone, Copy)]
struct Limits {
    max: usize,
    mp: usize,
    mc: usize,
    /// per-topic max_transmit_sizes for the topics t0, t1, t2 (`u` is never configured)
    pt: [Option<usize>; 3],
}

const TOPICS: [&str; 4] = ["t0", "t1", "t2", "u"];

impl Limits {
    fn per_topic(&self) -> HashMap<TopicHash, usize> {
        self.pt.iter().enumerate().filter_map(|(i, m)| m.map(|m| (TopicHash::from_raw(TOPICS[i]), m))).collect()
    }
    fn pt_tok(&self) -> String {
        let v: Vec<String> = self.pt.iter().enumerate().filter_map(|(i, m)| m.map(|m| format!("{}:{m}", hcore::hex(TOPICS[i].as_bytes())))).collect();
        if v.is_empty() { "-".into() } else { v.join(",") }
    }
    fn parse_pt(tok: &str) -> [Option<usize>; 3] {
        let mut pt = [None; 3];
        if tok != "-" {
            for e in tok.split(',') {
                let (t, m) = e.split_once(':').unwrap();
                let name = String::from_utf8(hcore::unhex(t)).unwrap();
                if let Some(i) = TOPICS.iter().position(|x| *x == name) {
                    if i < 3 {
                        pt[i] = Some(m.parse().unwrap());
                    }
                }
            }
        }
        pt
    }
}

/// a publish message on `topic` whose protobuf encoding has exactly `len` bytes (or the closest
/// possible length above it)
fn message_of_len(len: usize, topic: &str, rng: &mut Rng) -> Vec<u8> {
    for cand in len.saturating_sub(topic.len() + 12)..=len {
        let m = message(cand, topic, &mut Rng::new(1));
        if m.len() >= len {
            return message(cand, topic, rng);
        }
    }
    message(0, topic, rng)
}

/// an RPC from the builder; `target` = desired encoded length (reached by sizing one message's data)
fn build_rpc(rng: &mut Rng, target: Option<usize>, n_pub: usize, with_control: bool, n_subs: usize, unknown: bool) -> Rpc {
    let mut r = Rpc::new();
    for i in 0..n_subs {
        r.field(1, &sub_opts(rng.bool(), &format!("t{}", i % 3)));
    }
    if with_control {
        r.field(3, &control(rng));
    }
    if unknown {
        let (tag, n) = (15 + rng.usize(3) as u32, rng.usize(6));
        r.field(tag, &rng.bytes(n));
    }
    for _ in 1..n_pub.max(1) {
        if n_pub > 1 {
            let n = rng.usize(5);
            let tp = *rng.pick(&TOPICS);
            r.field(2, &message(n, tp, rng));
        }
    }
    if n_pub >= 1 {
        // size the last message so that the whole body hits the target
        let mut data_len = rng.usize(20);
        if let Some(t) = target {
            for cand in t.saturating_sub(r.body.len()).saturating_sub(16)..=t {
                let mut probe = r.clone();
                probe.field(2, &message(cand, "t0", &mut Rng::new(1)));
                if probe.body.len() >= t {
                    data_len = cand;
                    break;
                }
            }
        }
        r.field(2, &message(data_len, "t0", rng));
        let _ = &TOPICS;
    } else if let Some(t) = target {
        // pad with an unknown length-delimited field
        for cand in t.saturating_sub(r.body.len()).saturating_sub(16)..=t {
            let mut probe = r.clone();
            probe.field(20, &vec![0u8; cand]);
            if probe.body.len() >= t {
                r.field(20, &rng.bytes(cand));
                break;
            }
        }
    }
    r
}

/// top-level garbage the model can follow (prost's behaviour on it is a function of the top level)
fn malformed(rng: &mut Rng) -> Rpc {
    let mut r = Rpc::new();
    r.well_formed = false;
    if rng.bool() {
        r.field(1, &sub_opts(true, "t0"));
    }
    match rng.below(11) {
        0 => key(0, 2, &mut r.body),                       // tag 0
        1 => r.body.push(0x0e),                            // wire type 6
        2 => r.body.push(0x0f),                            // wire type 7
        3 => {
            key(2, 2, &mut r.body);                        // length beyond the body
            varint(50, &mut r.body);
            r.body.extend_from_slice(&[1, 2, 3]);
        }
        4 => varint_field(2, 7, &mut r.body),              // known tag, wrong wire type
        5 => {
            key(3, 5, &mut r.body);                        // control as fixed32
            r.body.extend_from_slice(&[0; 4]);
        }
        6 => {
            // unknown fields of every skippable wire type: this one is acceptable to prost
            varint_field(7, 300, &mut r.body);
            key(8, 1, &mut r.body);
            r.body.extend_from_slice(&[9; 8]);
            key(9, 5, &mut r.body);
            r.body.extend_from_slice(&[9; 4]);
            key(12, 3, &mut r.body);                       // group 12 { varint 1; group 13 {} }
            varint_field(1, 5, &mut r.body);
            key(13, 3, &mut r.body);
            key(13, 4, &mut r.body);
            key(12, 4, &mut r.body);
        }
        7 => {
            key(12, 3, &mut r.body);                       // group closed by the wrong tag
            key(11, 4, &mut r.body);
        }
        8 => key(12, 4, &mut r.body),                      // stray end-group
        9 => {
            let depth = 98 + rng.usize(5);                 // nesting around the recursion limit
            for _ in 0..depth {
                key(30, 3, &mut r.body);
            }
            for _ in 0..depth {
                key(30, 4, &mut r.body);
            }
        }
        _ => {
            key(2, 2, &mut r.body);                        // 11-byte varint as length
            r.body.extend_from_slice(&[0x80; 10]);
            r.body.push(1);
        }
    }
    if rng.bool() {
        r.field(2, &message(3, "t1", rng));
    }
    r
}

// ---------------------------------------------------------------- scripted reader

struct Script {
    chunks: Vec<Vec<u8>>,
    next: usize,
}
struct Reader(Rc<RefCell<Script>>);
impl AsyncRead for Reader {
    fn poll_read(self: Pin<&mut Self>, _: &mut Context<'_>, buf: &mut [u8]) -> Poll<std::io::Result<usize>> {
        let mut s = self.0.borrow_mut();
        if s.next >= s.chunks.len() {
            return Poll::Pending;
        }
        let i = s.next;
        let c = &s.chunks[i];
        assert!(c.len() <= buf.len() && !c.is_empty(), "chunks are 1..=8192 bytes");
        buf[..c.len()].copy_from_slice(c);
        let n = c.len();
        s.next += 1;
        Poll::Ready(Ok(n))
    }
}

fn err_class(e: &std::io::Error) -> &'static str {
    let m = e.to_string();
    let inner = e.get_ref().map(|i| i.to_string()).unwrap_or_default();
    let all = format!("{m} {inner}");
    if all.contains("input bytes exceed maximum") || all.contains("encoding is not minimal") {
        "bad-prefix"
    } else if all.contains("exceeds maximum of") {
        "too-large"
    } else if all.contains("too many publish messages") {
        "too-many-publish"
    } else if all.contains("rpc control size exceeds") {
        "control-too-large"
    } else {
        "decode"
    }
}

/// run the real codec over the chunks; returns per chunk the tokens yielded after reading it
fn run_real(l: &Limits, chunks: &[Vec<u8>]) -> Vec<Vec<String>> {
    let script = Rc::new(RefCell::new(Script { chunks: chunks.to_vec(), next: 0 }));
    // the codec as `ProtocolConfig::upgrade_{in,out}bound` builds it: global max + the per-topic map
    let codec = hook::Codec::new(l.max, ValidationMode::None, l.per_topic(), l.mp, l.mc);
    let mut framed = FramedRead::new(Reader(script.clone()), codec);
    let mut per_chunk: Vec<Vec<String>> = vec![vec![]; chunks.len()];
    let waker = futures::task::noop_waker();
    let mut cx = Context::from_waker(&waker);
    loop {
        match framed.poll_next_unpin(&mut cx) {
            Poll::Pending => break,
            Poll::Ready(None) => break,
            Poll::Ready(Some(item)) => {
                let read = script.borrow().next;
                let slot = read.saturating_sub(1);
                match item {
                    Ok(s) => per_chunk[slot].push(format!("ok:{},{},{}", s.subscriptions, s.messages + s.invalid_messages, s.invalid_messages)),
                    Err(e) => {
                        per_chunk[slot].push(format!("err:{}", err_class(&e)));
                        // a decode error is terminal for the substream (the handler closes it)
                        per_chunk.truncate(slot + 1);
                        break;
                    }
                }
            }
        }
    }
    per_chunk
}

fn emit(out: &mut Out, l: &Limits, chunks: &[Vec<u8>]) {
    let res = hcore::guarded(|| run_real(l, chunks));
    match res {
        Ok(per_chunk) => {
            for (i, toks) in per_chunk.iter().enumerate() {
                out.op(&format!("chunk {}", hcore::hex(&chunks[i])));
                out.imp(&if toks.is_empty() { "-".to_string() } else { toks.join(" ") });
            }
        }
        Err(m) => {
            out.op(&format!("chunk {}", hcore::hex(&chunks.concat())));
            out.imp(&format!("panic {m}"));
        }
    }
}

fn split(rng: &mut Rng, stream: &[u8], frames: &[Vec<u8>], pattern: u64) -> Vec<Vec<u8>> {
    let mut chunks: Vec<Vec<u8>> = match pattern {
        0 => vec![stream.to_vec()],
        1 => frames.to_vec(),
        2 => stream.iter().map(|b| vec![*b]).collect(),
        3 => {
            // two frames coalesced, then the rest frame by frame
            let mut v = vec![];
            let mut i = 0;
            while i < frames.len() {
                if i + 1 < frames.len() {
                    v.push([frames[i].clone(), frames[i + 1].clone()].concat());
                    i += 2;
                } else {
                    v.push(frames[i].clone());
                    i += 1;
                }
            }
            v
        }
        4 => {
            // cut inside the length prefix / just after it / one byte before the frame end
            let mut cuts = vec![];
            let mut pos = 0;
            for f in frames {
                for c in [1usize, 2, f.len().saturating_sub(1)] {
                    if c > 0 && c < f.len() {
                        cuts.push(pos + c);
                    }
                }
                pos += f.len();
            }
            cuts.sort();
            cuts.dedup();
            let mut v = vec![];
            let mut last = 0;
            for c in cuts {
                v.push(stream[last..c].to_vec());
                last = c;
            }
            v.push(stream[last..].to_vec());
            v
        }
        _ => {
            let mut v = vec![];
            let mut pos = 0;
            while pos < stream.len() {
                let cap = if rng.bool() { 8 } else { 300 };
                let n = 1 + rng.usize((stream.len() - pos).min(cap));
                v.push(stream[pos..pos + n].to_vec());
                pos += n;
            }
            v
        }
    };
    chunks.retain(|c| !c.is_empty());
    // a poll_read hands out at most 8 KiB
    chunks.into_iter().flat_map(|c| c.chunks(8192).map(|x| x.to_vec()).collect::<Vec<_>>()).collect()
}

fn header(l: &Limits, rpcs: &[Rpc]) -> String {
    let f: Vec<String> = rpcs.iter().map(|r| format!("{}/{}/{}", r.wire().len(), r.body.len(), r.good(l) as u8)).collect();
    format!("L={},{},{} T={} F={}", l.max, l.mp, l.mc, l.pt_tok(), if f.is_empty() { "-".to_string() } else { f.join(";") })
}

fn one_case(out: &mut Out, idx: u64, class: &str, l: &Limits, rpcs: &[Rpc], pattern: u64, rng: &mut Rng, raw_tail: &[u8]) {
    let frames: Vec<Vec<u8>> = rpcs.iter().map(|r| r.wire()).collect();
    let mut stream = frames.concat();
    stream.extend_from_slice(raw_tail);
    let mut fr = frames.clone();
    if !raw_tail.is_empty() {
        fr.push(raw_tail.to_vec());
    }
    let chunks = split(rng, &stream, &fr, pattern);
    out.case(idx, &format!("{class} nt={} {}", (!rpcs.is_empty()) as u8, header(l, rpcs)));
    emit(out, l, &chunks);
    out.end();
}

pub fn run(args: &Args, out: &mut Out) {
    if let Some(cases) = args.replay_cases() {
        for (i, (hdr, ops)) in cases.iter().enumerate() {
            let lt = hdr.iter().find_map(|t| t.strip_prefix("L=")).unwrap_or("100,5,50");
            let v: Vec<usize> = lt.split(',').map(|x| x.parse().unwrap()).collect();
            let pt = Limits::parse_pt(hdr.iter().find_map(|t| t.strip_prefix("T=")).unwrap_or("-"));
            let l = Limits { max: v[0], mp: v[1], mc: v[2], pt };
            let chunks: Vec<Vec<u8>> = ops.iter().filter(|o| o[0] == "chunk").map(|o| hcore::unhex(&o[1])).filter(|c| !c.is_empty()).collect();
            let ftok = hdr.iter().find(|t| t.starts_with("F=")).cloned().unwrap_or("F=-".into());
            out.case(i as u64, &format!("replay nt=1 L={},{},{} T={} {}", l.max, l.mp, l.mc, l.pt_tok(), ftok));
            emit(out, &l, &chunks);
            out.end();
        }
        return;
    }
    let mut idx = 0u64;
    // boundary sweep: one or two RPCs of encoded size max-3 … max+3, every chunk pattern
    for &max in &[100usize, 127, 128, 129, 300, 16383, 16384, 16390] {
        for d in -3i64..=3 {
            for pattern in 0..5u64 {
                for two in [false, true] {
                    if max > 1000 && (pattern == 2 || !args.thorough && pattern == 4) {
                        continue;
                    }
                    let mut rng = Rng::for_case(args.seed ^ 0xC31, idx);
                    let l = Limits { max, mp: 5, mc: 200, pt: [None, if idx % 3 == 0 { Some(max / 2) } else { None }, if idx % 2 == 0 { Some(max + 50) } else { None }] };
                    let t = (max as i64 + d) as usize;
                    let (np, ns) = (1 + rng.usize(2), rng.usize(2));
                    let mut rpcs = vec![build_rpc(&mut rng, Some(t), np, false, ns, false)];
                    if two {
                        let (t2, c2) = (max / 2 + rng.usize(5), rng.bool());
                        rpcs.push(build_rpc(&mut rng, Some(t2), 1, c2, 1, false));
                    }
                    one_case(out, idx, "boundary", &l, &rpcs, pattern, &mut rng, &[]);
                    idx += 1;
                }
            }
        }
    }
    // per-topic maxima below / equal / above the global max: frames around the global bound and around /
    // between the per-topic bounds, on configured and unconfigured topics, whole and split
    for &global in &[100usize, 300] {
        let configs: [[Option<usize>; 3]; 5] = [
            [Some(40), Some(global), Some(global + 200)],
            [None, None, Some(global + 1)],
            [Some(global - 1), None, Some(4 * global)],
            [Some(global + 200), Some(global + 100), Some(0)],
            [None, None, None],
        ];
        for pt in configs {
            let l = Limits { max: global, mp: 5, mc: 200, pt };
            let biggest = pt.iter().flatten().copied().max().unwrap_or(global);
            let mut sizes = vec![global - 1, global, global + 1, (global + biggest) / 2, biggest.saturating_sub(1), biggest, biggest + 1];
            sizes.retain(|x| *x >= 20);
            sizes.dedup();
            for &enc in &sizes {
                for (ti, tp) in TOPICS.iter().enumerate() {
                    for pattern in [0u64, 1, 3, 4, 5] {
                        let mut rng = Rng::for_case(args.seed ^ 0x7031, idx);
                        // one RPC of encoded size `enc` whose single message is on topic `tp`, then a small one
                        let mut r = Rpc::new();
                        for cand in enc.saturating_sub(20)..=enc {
                            let mut probe = Rpc::new();
                            probe.field(2, &message_of_len(cand, tp, &mut Rng::new(1)));
                            if probe.body.len() >= enc {
                                r.field(2, &message_of_len(cand, tp, &mut rng));
                                break;
                            }
                        }
                        let small = build_rpc(&mut rng, Some(30), 1, false, 0, false);
                        let _ = ti;
                        one_case(out, idx, "pertopic-frame", &l, &[r, small], pattern, &mut rng, &[]);
                        idx += 1;
                    }
                }
            }
            // messages around each configured topic's own bound (inside frames that fit the global max)
            for (ti, m) in pt.iter().enumerate() {
                let Some(m) = *m else { continue };
                for d in -1i64..=1 {
                    let len = (m as i64 + d).max(4) as usize;
                    for pattern in [0u64, 2, 5] {
                        let mut rng = Rng::for_case(args.seed ^ 0x7032, idx);
                        let mut r = Rpc::new();
                        r.field(2, &message_of_len(len, TOPICS[ti], &mut rng));
                        r.field(2, &message_of_len(len, "u", &mut rng));
                        r.field(2, &message_of_len(8, TOPICS[ti], &mut rng));
                        one_case(out, idx, "pertopic-msg", &l, &[r], pattern, &mut rng, &[]);
                        idx += 1;
                    }
                }
            }
            // a length prefix announcing a size between the global and the biggest per-topic max
            if biggest > global + 1 {
                let mut rng = Rng::for_case(args.seed ^ 0x7033, idx);
                let mut tail = vec![];
                varint(((global + biggest) / 2) as u64, &mut tail);
                tail.extend_from_slice(&[18, 3]);
                let small = build_rpc(&mut rng, Some(30), 1, false, 0, false);
                one_case(out, idx, "pertopic-prefix", &l, &[small], 1, &mut rng, &tail);
                idx += 1;
            }
        }
    }
    let n = args.n(2500, 150_000);
    for i in 0..n {
        let mut rng = Rng::for_case(args.seed, i);
        let l = Limits {
            max: *rng.pick(&[100usize, 127, 128, 200, 300, 1000]),
            mp: *rng.pick(&[0usize, 1, 2, 5]),
            mc: *rng.pick(&[0usize, 10, 50, 200]),
            pt: [None; 3],
        };
        let mut l = l;
        for i in 0..3 {
            l.pt[i] = match rng.below(6) {
                0 => Some(rng.usize(60)),
                1 => Some(l.max),
                2 => Some(l.max + 1 + rng.usize(400)),
                3 => Some(l.max.saturating_sub(1 + rng.usize(20))),
                _ => None,
            };
        }
        let n_rpcs = 1 + rng.usize(5);
        let mut rpcs = vec![];
        let mut class = "stream";
        for _ in 0..n_rpcs {
            let r = match rng.below(10) {
                0 => {
                    class = "malformed";
                    malformed(&mut rng)
                }
                1 | 2 => {
                    // around the publish limit
                    let np = (l.mp + rng.usize(3)).saturating_sub(1);
                    let u = rng.bool();
                    build_rpc(&mut rng, None, np, false, 0, u)
                }
                3 | 4 => {
                    // around the control limit: subscriptions + control
                    let (np, c, ns) = (rng.usize(2), rng.bool(), rng.usize(6));
                    build_rpc(&mut rng, None, np, c, ns, false)
                }
                5 => {
                    let t = l.max - 3 + rng.usize(7);
                    let np = rng.usize(3);
                    build_rpc(&mut rng, Some(t), np, false, 0, false)
                }
                _ => {
                    let (t, np, c, ns, u) = (rng.usize(l.max.min(90)), rng.usize(3), rng.chance(1, 3), rng.usize(3), rng.chance(1, 4));
                    build_rpc(&mut rng, Some(t), np, c, ns, u)
                }
            };
            rpcs.push(r);
        }
        // sometimes a raw tail: bad prefixes, an oversized declared length with only part of the body
        let tail: Vec<u8> = match rng.below(12) {
            0 => vec![0x80, 0x00],
            1 => vec![0xff; 10],
            2 => {
                let mut v = vec![];
                let extra = rng.usize(1000);
                varint((l.max + 1 + extra) as u64, &mut v);
                let n = rng.usize(5);
                v.extend_from_slice(&rng.bytes(n));
                v
            }
            3 => vec![0x81],
            _ => vec![],
        };
        if !tail.is_empty() && class == "stream" {
            class = "tail";
        }
        let pattern = rng.below(7);
        one_case(out, idx, class, &l, &rpcs, pattern, &mut rng, &tail);
        idx += 1;
    }
}
