//! C36 — the public subscription filters, directly and through
//! `Behaviour::handle_received_subscriptions`, vs the Lean model `C36.step`.
//!
//! Case header: `F=<filter in prefix notation, '/'-separated>`:
//! `all` | `wl/<topics>` | `mc/<max_topics>/<max_per_request>/F` | `cb/F/F`.
//! Ops: `subs <peer> <+t|-t,…>` (the subscriptions of one RPC), `graft <peer> <t>`.
//! impl: `<filter verdict: ok:<set>|err> <peer's topics afterwards> <Subscribed/Unsubscribed events>`
//! (sets sorted).
use std::collections::{BTreeSet, HashSet};
use std::task::{Context, Poll};
use std::time::Duration;

use hcore::{Args, Out, Rng};
use libp2p_core::PeerId;
use libp2p_gossipsub::{
    verif_c36::{self as hook, Subscription, SubscriptionAction, SubscriptionOpts},
    AllowAllSubscriptionFilter, Behaviour, CombinedSubscriptionFilters, ConfigBuilder, Event, IdentityTransform,
    MaxCountSubscriptionFilter, MessageAuthenticity, TopicHash, TopicSubscriptionFilter, WhitelistSubscriptionFilter,
};
use libp2p_swarm::{NetworkBehaviour, ToSwarm};

const NTOPICS: usize = 6;

fn th(i: usize) -> TopicHash {
    TopicHash::from_raw(format!("t{i}"))
}
fn topic_index(h: &TopicHash) -> usize {
    h.as_str()[1..].parse().unwrap()
}

/// type-erased filter so that the public filter types can be nested at run time; EVERY trait
/// method is forwarded, so overridden methods of the wrapped filter stay in effect
struct Dyn(Box<dyn TopicSubscriptionFilter + Send>);

impl TopicSubscriptionFilter for Dyn {
    fn can_subscribe(&mut self, topic_hash: &TopicHash) -> bool {
        self.0.can_subscribe(topic_hash)
    }
    fn filter_incoming_subscriptions<'a>(
        &mut self,
        subscriptions: &'a [Subscription],
        currently_subscribed_topics: &BTreeSet<TopicHash>,
    ) -> Result<HashSet<&'a Subscription>, String> {
        self.0.filter_incoming_subscriptions(subscriptions, currently_subscribed_topics)
    }
    fn filter_incoming_subscription_set<'a>(
        &mut self,
        subscriptions: HashSet<&'a Subscription>,
        currently_subscribed_topics: &BTreeSet<TopicHash>,
    ) -> Result<HashSet<&'a Subscription>, String> {
        self.0.filter_incoming_subscription_set(subscriptions, currently_subscribed_topics)
    }
    fn allow_incoming_subscription(&mut self, subscription: &Subscription) -> bool {
        self.0.allow_incoming_subscription(subscription)
    }
}

#[derive(Clone, Debug)]
enum F {
    All,
    Wl(Vec<usize>),
    Mc(usize, usize, Box<F>),
    Cb(Box<F>, Box<F>),
}

impl F {
    fn tok(&self) -> String {
        match self {
            F::All => "all".into(),
            F::Wl(l) => format!("wl/{}", hcore::list(l)),
            F::Mc(a, b, f) => format!("mc/{a}/{b}/{}", f.tok()),
            F::Cb(f, g) => format!("cb/{}/{}", f.tok(), g.tok()),
        }
    }
    fn parse(t: &mut std::slice::Iter<'_, &str>) -> F {
        match *t.next().expect("filter token") {
            "all" => F::All,
            "wl" => {
                let l = *t.next().unwrap();
                F::Wl(if l == "-" { vec![] } else { l.split(',').map(|x| x.parse().unwrap()).collect() })
            }
            "mc" => {
                let a = t.next().unwrap().parse().unwrap();
                let b = t.next().unwrap().parse().unwrap();
                F::Mc(a, b, Box::new(F::parse(t)))
            }
            "cb" => {
                let f = F::parse(t);
                let g = F::parse(t);
                F::Cb(Box::new(f), Box::new(g))
            }
            o => panic!("replay: bad filter token {o}"),
        }
    }
    /// the REAL filter value
    fn build(&self) -> Dyn {
        match self {
            F::All => Dyn(Box::new(AllowAllSubscriptionFilter {})),
            F::Wl(l) => Dyn(Box::new(WhitelistSubscriptionFilter(l.iter().map(|t| th(*t)).collect()))),
            F::Mc(a, b, f) => Dyn(Box::new(MaxCountSubscriptionFilter {
                filter: f.build(),
                max_subscribed_topics: *a,
                max_subscriptions_per_request: *b,
            })),
            F::Cb(f, g) => Dyn(Box::new(CombinedSubscriptionFilters { filter1: f.build(), filter2: g.build() })),
        }
    }
    fn gen(rng: &mut Rng, depth: usize) -> F {
        let k = if depth == 0 { rng.below(2) } else { rng.below(5) };
        match k {
            0 => F::All,
            1 => {
                let mut l: Vec<usize> = (0..NTOPICS).filter(|_| rng.chance(3, 5)).collect();
                l.sort();
                F::Wl(l)
            }
            2 | 3 => F::Mc(rng.usize(5), rng.usize(6), Box::new(F::gen(rng, depth - 1))),
            _ => F::Cb(Box::new(F::gen(rng, depth - 1)), Box::new(F::gen(rng, depth - 1))),
        }
    }
}

fn sub(subscribe: bool, t: usize) -> Subscription {
    Subscription {
        action: if subscribe { SubscriptionAction::Subscribe } else { SubscriptionAction::Unsubscribe },
        topic_hash: th(t),
        options: SubscriptionOpts::default(),
    }
}

fn subs_tok(l: &[(bool, usize)]) -> String {
    if l.is_empty() {
        "-".into()
    } else {
        l.iter().map(|(s, t)| format!("{}{}", if *s { '+' } else { '-' }, t)).collect::<Vec<_>>().join(",")
    }
}

fn sorted_subs_tok(mut l: Vec<(usize, bool)>) -> String {
    l.sort();
    if l.is_empty() {
        "-".into()
    } else {
        l.iter().map(|(t, s)| format!("{}{}", if *s { '+' } else { '-' }, t)).collect::<Vec<_>>().join(",")
    }
}

#[derive(Clone, Debug)]
enum Op {
    Subs(usize, Vec<(bool, usize)>),
    Graft(usize, usize),
}

struct Node {
    gs: Behaviour<IdentityTransform, Dyn>,
    direct: Dyn,
    peers: Vec<PeerId>,
}

impl Node {
    fn new(f: &F) -> Node {
        let cfg = ConfigBuilder::default()
            .heartbeat_initial_delay(Duration::from_secs(36_000))
            .heartbeat_interval(Duration::from_secs(36_000))
            .build()
            .unwrap();
        let mut gs = Behaviour::new_with_subscription_filter(MessageAuthenticity::Signed(hcore::keypair(255)), cfg, f.build()).unwrap();
        let peers: Vec<PeerId> = (0..3).map(|i| hcore::peer(i as u8)).collect();
        for (i, p) in peers.iter().enumerate() {
            hook::add_peer(&mut gs, *p, i);
        }
        let mut n = Node { gs, direct: f.build(), peers };
        n.drain_events();
        n
    }
    fn topics(&self, p: usize) -> Vec<usize> {
        let mut v: Vec<usize> = self
            .gs
            .all_peers()
            .find(|(id, _)| **id == self.peers[p])
            .map(|(_, ts)| ts.into_iter().map(topic_index).collect())
            .unwrap_or_default();
        v.sort();
        v
    }
    /// the `Subscribed` / `Unsubscribed` events queued by the behaviour
    fn drain_events(&mut self) -> Vec<(usize, bool)> {
        let waker = futures::task::noop_waker();
        let mut cx = Context::from_waker(&waker);
        let mut ev = vec![];
        while let Poll::Ready(e) = self.gs.poll(&mut cx) {
            match e {
                ToSwarm::GenerateEvent(Event::Subscribed { topic, .. }) => ev.push((topic_index(&topic), true)),
                ToSwarm::GenerateEvent(Event::Unsubscribed { topic, .. }) => ev.push((topic_index(&topic), false)),
                _ => {}
            }
        }
        ev
    }
    fn exec(&mut self, op: &Op, out: &mut Out) {
        match op {
            Op::Subs(p, l) => {
                out.op(&format!("subs {p} {}", subs_tok(l)));
                let subs: Vec<Subscription> = l.iter().map(|(s, t)| sub(*s, *t)).collect();
                let before: BTreeSet<TopicHash> = self.topics(*p).into_iter().map(th).collect();
                let r = hcore::guarded(|| {
                    // the filter called directly (public API) on the same request and topic set
                    let verdict = match self.direct.filter_incoming_subscriptions(&subs, &before) {
                        Ok(set) => format!(
                            "ok:{}",
                            sorted_subs_tok(set.iter().map(|s| (topic_index(&s.topic_hash), s.action == SubscriptionAction::Subscribe)).collect())
                        ),
                        Err(_) => "err".to_string(),
                    };
                    hook::recv_subscriptions(&mut self.gs, &self.peers[*p], &subs);
                    verdict
                });
                match r {
                    Ok(verdict) => {
                        let ev = self.drain_events();
                        out.imp(&format!("{verdict} {} {}", hcore::list(&self.topics(*p)), sorted_subs_tok(ev)));
                    }
                    Err(m) => out.imp(&format!("panic {m}")),
                }
            }
            Op::Graft(p, t) => {
                out.op(&format!("graft {p} {t}"));
                let r = hcore::guarded(|| hook::recv_graft(&mut self.gs, &self.peers[*p], vec![th(*t)]));
                match r {
                    Ok(()) => {
                        let ev = self.drain_events();
                        out.imp(&format!("ok:- {} {}", hcore::list(&self.topics(*p)), sorted_subs_tok(ev)));
                    }
                    Err(m) => out.imp(&format!("panic {m}")),
                }
            }
        }
    }
}

fn gen_request(rng: &mut Rng, cur: &[usize]) -> Vec<(bool, usize)> {
    let n = match rng.below(6) {
        0 => 0,
        1 => 1,
        2 => 5 + rng.usize(4),
        _ => 1 + rng.usize(5),
    };
    let mut v = vec![];
    for _ in 0..n {
        let t = if !cur.is_empty() && rng.chance(1, 3) { *rng.pick(cur) } else { rng.usize(NTOPICS) };
        let s = rng.chance(3, 5);
        v.push((s, t));
        if rng.chance(1, 5) {
            v.push((!s, t)); // cancel-out pair
        }
        if rng.chance(1, 6) {
            v.push((s, t)); // duplicate
        }
    }
    v
}

fn run_case(out: &mut Out, idx: u64, class: &str, f: &F, ops: &[Op]) {
    out.case(idx, &format!("{class} nt={} F={}", (!ops.is_empty()) as u8, f.tok()));
    let mut node = Node::new(f);
    for op in ops {
        node.exec(op, out);
    }
    out.end();
}

pub fn run(args: &Args, out: &mut Out) {
    if let Some(cases) = args.replay_cases() {
        for (i, (hdr, ops)) in cases.iter().enumerate() {
            let ft = hdr.iter().find_map(|t| t.strip_prefix("F=")).unwrap_or("all");
            let toks: Vec<&str> = ft.split('/').collect();
            let f = F::parse(&mut toks.iter());
            let ops: Vec<Op> = ops
                .iter()
                .map(|o| match o[0].as_str() {
                    "subs" => Op::Subs(
                        o[1].parse().unwrap(),
                        if o[2] == "-" {
                            vec![]
                        } else {
                            o[2].split(',').map(|s| (s.starts_with('+'), s[1..].parse().unwrap())).collect()
                        },
                    ),
                    "graft" => Op::Graft(o[1].parse().unwrap(), o[2].parse().unwrap()),
                    x => panic!("replay: unknown op {x}"),
                })
                .collect();
            run_case(out, i as u64, "replay", &f, &ops);
        }
        return;
    }
    let n = args.n(1500, 60_000);
    for i in 0..n {
        let mut rng = Rng::for_case(args.seed, i);
        let f = match rng.below(4) {
            // the shapes the property names: whitelist / max-count / combined …
            0 => F::Mc(rng.usize(5), 1 + rng.usize(6), Box::new(F::gen(&mut rng, 1))),
            1 => F::Wl((0..NTOPICS).filter(|_| rng.chance(1, 2)).collect()),
            _ => F::gen(&mut rng, 3),
        };
        let with_graft = rng.chance(1, 5);
        let n_ops = 5 + rng.usize(35);
        // the generator mirrors the topic sets only to aim requests at "currently subscribed" topics
        let mut node_shadow: Vec<Vec<usize>> = vec![vec![]; 3];
        let mut ops = vec![];
        for _ in 0..n_ops {
            let p = rng.usize(3);
            if with_graft && rng.chance(1, 8) {
                ops.push(Op::Graft(p, rng.usize(NTOPICS)));
            } else {
                let req = gen_request(&mut rng, &node_shadow[p]);
                for (s, t) in &req {
                    if *s && !node_shadow[p].contains(t) {
                        node_shadow[p].push(*t);
                    }
                }
                ops.push(Op::Subs(p, req));
            }
        }
        run_case(out, i, if with_graft { "graft" } else { "subs" }, &f, &ops);
    }
}
