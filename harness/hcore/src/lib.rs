//! Shared harness support: PRNG, line protocol, argument parsing, panic capture, clock warp.
use std::fmt::Write as _;
use std::io::Write as _;

/// splitmix64 — every random choice in a run derives from one of these, seeded from
/// `(VERIF_SEED, case index)`, so each case replays exactly.
#[derive(Clone, Debug)]
pub struct Rng(pub u64);

impl Rng {
    pub fn new(seed: u64) -> Self {
        Rng(seed ^ 0x9E37_79B9_7F4A_7C15)
    }
    pub fn for_case(seed: u64, idx: u64) -> Self {
        let mut r = Rng::new(seed.wrapping_mul(0xD130_2F5B_1C6B_4E29).wrapping_add(idx));
        r.next_u64();
        r
    }
    pub fn next_u64(&mut self) -> u64 {
        self.0 = self.0.wrapping_add(0x9E37_79B9_7F4A_7C15);
        let mut z = self.0;
        z = (z ^ (z >> 30)).wrapping_mul(0xBF58_476D_1CE4_E5B9);
        z = (z ^ (z >> 27)).wrapping_mul(0x94D0_49BB_1331_11EB);
        z ^ (z >> 31)
    }
    /// uniform in 0..n (n > 0)
    pub fn below(&mut self, n: u64) -> u64 {
        self.next_u64() % n
    }
    pub fn usize(&mut self, n: usize) -> usize {
        self.below(n as u64) as usize
    }
    /// inclusive range
    pub fn range(&mut self, lo: u64, hi: u64) -> u64 {
        lo + self.below(hi - lo + 1)
    }
    pub fn bool(&mut self) -> bool {
        self.next_u64() & 1 == 1
    }
    /// true with probability num/den
    pub fn chance(&mut self, num: u64, den: u64) -> bool {
        self.below(den) < num
    }
    pub fn pick<'a, T>(&mut self, xs: &'a [T]) -> &'a T {
        &xs[self.usize(xs.len())]
    }
    pub fn bytes(&mut self, n: usize) -> Vec<u8> {
        (0..n).map(|_| self.next_u64() as u8).collect()
    }
    pub fn shuffle<T>(&mut self, xs: &mut [T]) {
        for i in (1..xs.len()).rev() {
            let j = self.usize(i + 1);
            xs.swap(i, j);
        }
    }
}

pub fn hex(bs: &[u8]) -> String {
    if bs.is_empty() {
        return "-".into();
    }
    let mut s = String::with_capacity(bs.len() * 2);
    for b in bs {
        write!(s, "{:02x}", b).unwrap();
    }
    s
}

pub fn unhex(s: &str) -> Vec<u8> {
    if s == "-" {
        return vec![];
    }
    (0..s.len() / 2)
        .map(|i| u8::from_str_radix(&s[2 * i..2 * i + 2], 16).unwrap())
        .collect()
}

/// comma-joined list, "-" when empty
pub fn list<T: std::fmt::Display>(xs: &[T]) -> String {
    if xs.is_empty() {
        "-".into()
    } else {
        xs.iter().map(|x| x.to_string()).collect::<Vec<_>>().join(",")
    }
}

#[derive(Clone, Debug)]
pub struct Args {
    pub prop: String,
    pub seed: u64,
    pub thorough: bool,
    /// number of generated cases requested (0 = tier default)
    pub count: u64,
    /// replay file: lines of a previously emitted case (only `case`/`op` lines are used)
    pub replay: Option<String>,
    pub extra: Vec<String>,
}

impl Args {
    pub fn parse() -> Args {
        let mut a = Args { prop: String::new(), seed: 1, thorough: false, count: 0, replay: None, extra: vec![] };
        let mut it = std::env::args().skip(1);
        while let Some(x) = it.next() {
            match x.as_str() {
                "--seed" => a.seed = it.next().unwrap().parse().unwrap(),
                "--tier" => a.thorough = it.next().unwrap() == "thorough",
                "--count" => a.count = it.next().unwrap().parse().unwrap(),
                "--replay" => a.replay = it.next(),
                _ if a.prop.is_empty() => a.prop = x,
                _ => a.extra.push(x),
            }
        }
        a
    }
    pub fn n(&self, quick: u64, thorough: u64) -> u64 {
        if self.count > 0 {
            self.count
        } else if self.thorough {
            thorough
        } else {
            quick
        }
    }
    /// op lines of the replay file grouped per case: (case header tokens, op token lists)
    pub fn replay_cases(&self) -> Option<Vec<(Vec<String>, Vec<Vec<String>>)>> {
        let path = self.replay.as_ref()?;
        let text = std::fs::read_to_string(path).expect("replay file");
        let mut out: Vec<(Vec<String>, Vec<Vec<String>>)> = vec![];
        for l in text.lines() {
            let t: Vec<String> = l.split_whitespace().map(|s| s.to_string()).collect();
            match t.first().map(|s| s.as_str()) {
                Some("case") => out.push((t[1..].to_vec(), vec![])),
                Some("op") => {
                    if let Some(c) = out.last_mut() {
                        c.1.push(t[1..].to_vec())
                    }
                }
                _ => {}
            }
        }
        Some(out)
    }
}

/// Buffered writer of the line protocol.
pub struct Out {
    w: std::io::BufWriter<std::io::Stdout>,
}

impl Default for Out {
    fn default() -> Self {
        Self::new()
    }
}

impl Out {
    pub fn new() -> Self {
        Out { w: std::io::BufWriter::with_capacity(1 << 16, std::io::stdout()) }
    }
    /// `case <idx> <class> <cfg…>`; class is a generator label, `nt=1` marks a non-trivial case.
    pub fn case(&mut self, idx: u64, rest: &str) {
        writeln!(self.w, "case {} {}", idx, rest).unwrap();
    }
    pub fn op(&mut self, s: &str) {
        writeln!(self.w, "op {}", s).unwrap();
    }
    pub fn imp(&mut self, s: &str) {
        writeln!(self.w, "impl {}", s).unwrap();
    }
    pub fn end(&mut self) {
        writeln!(self.w, "end").unwrap();
    }
    pub fn raw(&mut self, s: &str) {
        writeln!(self.w, "{}", s).unwrap();
    }
    pub fn flush(&mut self) {
        self.w.flush().unwrap();
    }
}

/// Run `f`, mapping a panic to `Err(message)` (first line, spaces replaced so it stays one token).
pub fn guarded<T>(f: impl FnOnce() -> T) -> Result<T, String> {
    match std::panic::catch_unwind(std::panic::AssertUnwindSafe(f)) {
        Ok(v) => Ok(v),
        Err(e) => {
            let msg = if let Some(s) = e.downcast_ref::<&str>() {
                s.to_string()
            } else if let Some(s) = e.downcast_ref::<String>() {
                s.clone()
            } else {
                "?".into()
            };
            Err(msg.lines().next().unwrap_or("").replace(' ', "_"))
        }
    }
}

/// Silence the default panic hook (cases run under `guarded`).
pub fn quiet_panics() {
    std::panic::set_hook(Box::new(|_| {}));
}

/// Monotonic-clock offset in nanoseconds, added by the `clock_gettime` interposer that
/// `install_clock!()` defines in the harness binary.
pub static CLOCK_OFFSET_NS: std::sync::atomic::AtomicU64 = std::sync::atomic::AtomicU64::new(0);

pub fn warp(d: std::time::Duration) {
    CLOCK_OFFSET_NS.fetch_add(d.as_nanos() as u64, std::sync::atomic::Ordering::SeqCst);
}

/// Defines `clock_gettime` in the binary so that `std::time::Instant::now()` (and therefore
/// web_time / futures-timer / tokio) follows `hcore::warp`.
#[macro_export]
macro_rules! install_clock {
    () => {
        extern "C" {
            fn __clock_gettime(clk: i32, ts: *mut [i64; 2]) -> i32;
        }
        #[no_mangle]
        pub unsafe extern "C" fn clock_gettime(clk: i32, ts: *mut [i64; 2]) -> i32 {
            let r = __clock_gettime(clk, ts);
            if r == 0 && clk == 1 {
                let off = $crate::CLOCK_OFFSET_NS.load(std::sync::atomic::Ordering::SeqCst) as i64;
                let t = &mut *ts;
                let total = t[1] + off % 1_000_000_000;
                t[0] += off / 1_000_000_000 + total / 1_000_000_000;
                t[1] = total % 1_000_000_000;
            }
            r
        }
    };
}

pub use libp2p_core::multiaddr::{Multiaddr, Protocol};

/// Multiaddr in the model's alphabet: components joined by `/`, `-` for the empty address.
pub fn maddr_tok(a: &Multiaddr) -> String {
    let parts: Vec<String> = a.iter().map(|p| proto_tok(&p)).collect();
    if parts.is_empty() {
        "-".into()
    } else {
        parts.join("/")
    }
}

pub fn proto_tok(p: &Protocol) -> String {
    match p {
        Protocol::Ip4(a) => format!("ip4:{}", u32::from(*a)),
        Protocol::Ip6(a) => format!("ip6:{}", u128::from(*a)),
        Protocol::Dns(n) => format!("dns:{}", hex(n.as_bytes())),
        Protocol::Dns4(n) => format!("dns4:{}", hex(n.as_bytes())),
        Protocol::Dns6(n) => format!("dns6:{}", hex(n.as_bytes())),
        Protocol::Dnsaddr(n) => format!("dnsaddr:{}", hex(n.as_bytes())),
        Protocol::Tcp(p) => format!("tcp:{}", p),
        Protocol::Udp(p) => format!("udp:{}", p),
        Protocol::P2p(id) => format!("p2p:{}", hex(&id.to_bytes())),
        Protocol::Quic => "quic".into(),
        Protocol::QuicV1 => "quic-v1".into(),
        Protocol::P2pCircuit => "p2p-circuit".into(),
        Protocol::Ws(path) if path == "/" => "ws".into(),
        Protocol::Wss(path) if path == "/" => "wss".into(),
        Protocol::Tls => "tls".into(),
        Protocol::WebTransport => "webtransport".into(),
        Protocol::WebRTCDirect => "webrtc-direct".into(),
        Protocol::Certhash(h) => format!("certhash:{}", hex(&h.to_bytes())),
        Protocol::Memory(n) => format!("memory:{}", n),
        Protocol::Ip6zone(n) => format!("ip6zone:{}", hex(n.as_bytes())),
        other => {
            // name and the binary encoding of the whole component, so the model can at least compare
            let mut single = Multiaddr::empty();
            single.push(other.clone());
            format!("other:{}:{}", hex(other.tag().as_bytes()), hex(&single.to_vec()))
        }
    }
}

/// list of addresses: `;`-joined, `~` for the empty list
pub fn maddr_list_tok(l: &[Multiaddr]) -> String {
    if l.is_empty() {
        "~".into()
    } else {
        l.iter().map(maddr_tok).collect::<Vec<_>>().join(";")
    }
}

/// Deterministic ed25519 peer ids for harness use: `peer(i)`.
pub fn peer(i: u8) -> libp2p_core::PeerId {
    let mut sk = [0u8; 32];
    sk[0] = i;
    sk[31] = 0x42;
    let kp = libp2p_identity::Keypair::ed25519_from_bytes(sk).unwrap();
    kp.public().to_peer_id()
}

pub fn keypair(i: u8) -> libp2p_identity::Keypair {
    let mut sk = [0u8; 32];
    sk[0] = i;
    sk[31] = 0x42;
    libp2p_identity::Keypair::ed25519_from_bytes(sk).unwrap()
}
