#!/bin/sh
# MANIFEST.setup_cmd — build the whole framework offline from files on disk.
set -e
cd "$(dirname "$0")"
export CARGO_NET_OFFLINE=true
python3 tools/gen_consts.py || true
python3 tools/gen_lake.py
# Lean: the property modules and model drivers of every registered check
targets=$(python3 - <<'PY'
import json, glob, os
t = []
for f in sorted(glob.glob("checks/C*.json")):
    c = json.load(open(f))
    t += c.get("lean_props", ["Libp2pModel.Props." + c["id"]]) + ["drv_" + c["id"]]
print(" ".join(dict.fromkeys(t)))
PY
)
(cd lean && lake build $targets)
[ -f harness/Cargo.lock ] || cp /repo/Cargo.lock harness/Cargo.lock
(cd harness && cargo build --offline --workspace)
echo "setup done"
