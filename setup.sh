#!/bin/sh
# MANIFEST.setup_cmd — build the whole framework offline from files on disk.
set -e
cd "$(dirname "$0")"
export CARGO_NET_OFFLINE=true
python3 tools/gen_consts.py || true
python3 tools/gen_main.py
(cd lean && lake build)
[ -f harness/Cargo.lock ] || cp /repo/Cargo.lock harness/Cargo.lock
(cd harness && cargo build --offline --workspace)
echo "setup done"
