#!/bin/sh
# MANIFEST.setup_cmd — build the whole framework offline from files on disk.
set -e
cd "$(dirname "$0")"
export CARGO_NET_OFFLINE=true
python3 tools/gen_consts.py || true
python3 tools/gen_lake.py
# Lean: the property modules and model drivers of every registered check
targets=""
for f in checks/C*.json; do
  id=$(basename "$f" .json)
  targets="$targets Libp2pModel.Props.$id drv_$id"
done
(cd lean && lake build $targets)
[ -f harness/Cargo.lock ] || cp /repo/Cargo.lock harness/Cargo.lock
(cd harness && cargo build --offline --workspace)
echo "setup done"
