/-!
# Line-protocol driver support (import-free, so `modeldriver` links)

Harness stream (one token list per line, tokens separated by single spaces):
```
case <idx> <cfg tokens…>
op <tokens…>
impl <tokens…>
…
end
```
For every `op`/`impl` pair the driver prints
```
model <tokens…>      -- the model's prediction of the impl line ("-" = no exact prediction)
spec ok | spec FAIL:<clause>   -- the property's executable Spec evaluated on the IMPLEMENTATION's output
```
-/
namespace Drv

def toks (line : String) : List String :=
  (line.trimAscii.toString.splitOn " ").filter (· ≠ "")

def hexDigit (c : Char) : Option Nat :=
  if '0' ≤ c ∧ c ≤ '9' then some (c.toNat - '0'.toNat)
  else if 'a' ≤ c ∧ c ≤ 'f' then some (c.toNat - 'a'.toNat + 10)
  else if 'A' ≤ c ∧ c ≤ 'F' then some (c.toNat - 'A'.toNat + 10)
  else none

def hexPairs : List Char → Option (List Nat)
  | [] => some []
  | [_] => none
  | a :: b :: rest =>
    match hexDigit a, hexDigit b, hexPairs rest with
    | some x, some y, some r => some ((16 * x + y) :: r)
    | _, _, _ => none

/-- bytes as `List Nat` (each < 256) from lowercase hex; "-" is the empty string. -/
def unhex (s : String) : Option (List Nat) :=
  if s = "-" then some [] else hexPairs s.toList

def hexChar (n : Nat) : Char :=
  if n < 10 then Char.ofNat ('0'.toNat + n) else Char.ofNat ('a'.toNat + (n - 10))

def hex (bs : List Nat) : String :=
  if bs.isEmpty then "-" else
  String.ofList (bs.flatMap fun b => [hexChar ((b / 16) % 16), hexChar (b % 16)])

/-- comma-separated naturals; "-" is the empty list. -/
def natList (s : String) : Option (List Nat) :=
  if s = "-" then some [] else (s.splitOn ",").mapM String.toNat?

def showNatList (l : List Nat) : String :=
  if l.isEmpty then "-" else ",".intercalate (l.map toString)

def unwords (l : List String) : String := " ".intercalate l

/-- A property driver in the standard shape: a model machine (state `σ`) predicting the
implementation's output for every op, and a spec monitor (state `τ`) judging the
implementation's outputs with the property's executable statement. -/
structure Machine (σ τ : Type) where
  init     : List String → σ
  op       : σ → List String → σ × String
  specInit : List String → τ
  spec     : τ → List String → List String → τ × String

structure St (σ τ : Type) where
  m : σ
  s : τ
  lastOp : List String

def Machine.start {σ τ} (M : Machine σ τ) : St σ τ := ⟨M.init [], M.specInit [], []⟩

/-- one input line ↦ new state and output lines -/
def Machine.line {σ τ} (M : Machine σ τ) (st : St σ τ) (line : String) : St σ τ × List String :=
  match toks line with
  | "case" :: cfg => (⟨M.init cfg, M.specInit cfg, []⟩, [])
  | "op" :: args =>
    let (m', out) := M.op st.m args
    ({ st with m := m', lastOp := args }, ["model " ++ out])
  | "impl" :: outs =>
    let (s', v) := M.spec st.s st.lastOp outs
    ({ st with s := s' }, ["spec " ++ v])
  | _ => (st, [])

/-- Two machines behind one driver: a case whose header satisfies `route` is handled by `B`, any other by `A`
(used when one property is decided by two harness parts, e.g. a component-level and a Swarm-level one). -/
def Machine.sum {σ τ σ' τ'} (route : List String → Bool) (A : Machine σ τ) (B : Machine σ' τ') :
    Machine (Bool × σ × σ') (Bool × τ × τ') where
  init cfg := (route cfg, A.init cfg, B.init cfg)
  op st args :=
    if st.1 then let (b, out) := B.op st.2.2 args; ((st.1, st.2.1, b), out)
    else let (a, out) := A.op st.2.1 args; ((st.1, a, st.2.2), out)
  specInit cfg := (route cfg, A.specInit cfg, B.specInit cfg)
  spec st args outs :=
    if st.1 then let (b, v) := B.spec st.2.2 args outs; ((st.1, st.2.1, b), v)
    else let (a, v) := A.spec st.2.1 args outs; ((st.1, a, st.2.2), v)

/-- a spec-only monitor running next to a machine on the same lines; the first failing verdict wins -/
def Machine.withMonitor {σ τ μ} (A : Machine σ τ) (mInit : List String → μ)
    (mon : μ → List String → List String → μ × String) : Machine σ (τ × μ) where
  init := A.init
  op := A.op
  specInit cfg := (A.specInit cfg, mInit cfg)
  spec st args outs :=
    let (a, v) := A.spec st.1 args outs
    let (m, w) := mon st.2 args outs
    ((a, m), if v == "ok" then w else v)

partial def loopAux {α} (h : IO.FS.Stream) (out : IO.FS.Stream) (f : α → String → α × List String) (st : α) : IO Unit := do
  let line ← h.getLine
  if line.isEmpty then return ()
  let (st', outs) := f st line
  for o in outs do out.putStrLn o
  loopAux h out f st'

def Machine.run {σ τ} (M : Machine σ τ) : IO Unit := do
  let i ← IO.getStdin
  let o ← IO.getStdout
  loopAux i o M.line M.start
  o.flush

end Drv
