import Libp2pModel.Common.Varint
import Libp2pModel.Common.Framed
/-!
# multistream-select: messages, wire encoding, frame reader, negotiation automata

Shared by C14 and C15.  Transcribed from `/repo/misc/multistream-select/src/`
(`protocol.rs`, `length_delimited.rs`, `dialer_select.rs`, `listener_select.rs`, `negotiated.rs`)
*as the code is*.  Bytes are `List Nat` (each `< 256`).  Import-free apart from `Common.*`.
-/
namespace Mss

abbrev Bytes := List Nat

/-! ## constants (`protocol.rs`, `length_delimited.rs`) -/

/-- `const MAX_PROTOCOLS: usize = 1000;` -/
def MAX_PROTOCOLS : Nat := 1000
/-- `const MAX_LEN_BYTES: u16 = 2;` -/
def MAX_LEN_BYTES : Nat := 2
/-- `const MAX_FRAME_SIZE: u16 = (1 << (MAX_LEN_BYTES * 8 - MAX_LEN_BYTES)) - 1;` -/
def MAX_FRAME_SIZE : Nat := 2 ^ (MAX_LEN_BYTES * 8 - MAX_LEN_BYTES) - 1

/-- `b"/multistream/1.0.0\n"` -/
def MSG_MULTISTREAM_1_0 : Bytes :=
  [47, 109, 117, 108, 116, 105, 115, 116, 114, 101, 97, 109, 47, 49, 46, 48, 46, 48, 10]
/-- `b"na\n"` -/
def MSG_PROTOCOL_NA : Bytes := [110, 97, 10]
/-- `b"ls\n"` -/
def MSG_LS : Bytes := [108, 115, 10]

/-- `ProtocolError`, with the `IoError` variants that the crate itself creates told apart. -/
inductive PErr where
  /-- `IoError(InvalidData, "not enough input bytes")` from `uvi::decode::usize` in `Message::decode` -/
  | uviInsufficient
  /-- `IoError(InvalidData, "input bytes exceed maximum")` -/
  | uviOverflow
  /-- `IoError(InvalidData, "encoding is not minimal")` -/
  | uviNotMinimal
  /-- `IoError(InvalidData, "invalid length prefix")` (`LengthDelimited::poll_next`) -/
  | invalidPrefix
  /-- `IoError(InvalidData, "Maximum frame length exceeded")` (`LengthDelimited::poll_next`) -/
  | frameTooLong
  /-- `IoError(UnexpectedEof)` (`LengthDelimited::poll_next`, `Negotiated::poll`) -/
  | unexpectedEof
  /-- `IoError(InvalidData, "Maximum frame size exceeded.")` (`LengthDelimited::start_send`) -/
  | sendTooLarge
  | invalidMessage
  | invalidProtocol
  | tooManyProtocols
  deriving DecidableEq, Repr

/-- `Message` (`HeaderLine` has the single value `V1`). Protocol names are byte strings. -/
inductive Msg where
  | header
  | proto (p : Bytes)
  | ls
  | protos (ps : List Bytes)
  | na
  deriving DecidableEq, Repr

/-! ## UTF-8 validity (`String::from_utf8`, Unicode Table 3-7 well-formed byte sequences) -/

def inR (lo hi b : Nat) : Bool := decide (lo ≤ b) && decide (b ≤ hi)

/-- for a lead byte ≥ 0x80: (range of the 2nd byte, number of continuation bytes) -/
def utf8Lead (b0 : Nat) : Option (Nat × Nat × Nat) :=
  if inR 0xC2 0xDF b0 then some (0x80, 0xBF, 1)
  else if b0 = 0xE0 then some (0xA0, 0xBF, 2)
  else if inR 0xE1 0xEC b0 then some (0x80, 0xBF, 2)
  else if b0 = 0xED then some (0x80, 0x9F, 2)
  else if inR 0xEE 0xEF b0 then some (0x80, 0xBF, 2)
  else if b0 = 0xF0 then some (0x90, 0xBF, 3)
  else if inR 0xF1 0xF3 b0 then some (0x80, 0xBF, 3)
  else if b0 = 0xF4 then some (0x80, 0x8F, 3)
  else none

def utf8Valid : Bytes → Bool
  | [] => true
  | b0 :: rest =>
    if b0 < 0x80 then utf8Valid rest
    else
      match utf8Lead b0, rest with
      | some (lo, hi, 1), b1 :: r => inR lo hi b1 && utf8Valid r
      | some (lo, hi, 2), b1 :: b2 :: r => inR lo hi b1 && inR 0x80 0xBF b2 && utf8Valid r
      | some (lo, hi, 3), b1 :: b2 :: b3 :: r =>
        inR lo hi b1 && inR 0x80 0xBF b2 && inR 0x80 0xBF b3 && utf8Valid r
      | _, _ => false

/-! ## `unsigned_varint::decode` (the `decode!` macro) -/

inductive UviRes where
  | ok (n : Nat) (rest : Bytes)
  | insufficient
  | overflow
  | notMinimal
  deriving DecidableEq, Repr

/-- `decode!(buf, max_bytes, typ)` with `typ` of `bits` bits: loop index `i`, accumulator `n`.
`n |= k << (i * 7)` wraps silently in the fixed-width type. -/
def uviAux (maxBytes bits : Nat) : Nat → Nat → Bytes → UviRes
  | _, _, [] => .insufficient
  | i, n, b :: rest =>
    let n' := n ||| (((b % 128) <<< (i * 7)) % 2 ^ bits)
    if b < 128 then
      if b = 0 ∧ i > 0 then .notMinimal else .ok n' rest
    else if i = maxBytes then .overflow
    else uviAux maxBytes bits (i + 1) n' rest

/-- `unsigned_varint::decode::usize` on a 64-bit target (= `u64`, `max_bytes = 9`) -/
def uviU64 (buf : Bytes) : UviRes := uviAux 9 64 0 0 buf

/-! ## `Message::encode` / `Message::decode` -/

/-- `Message::encode` (`uvi::encode::usize` is LEB128 = `Varint.encode`). -/
def encodeMsg : Msg → Bytes
  | .header => MSG_MULTISTREAM_1_0
  | .proto p => p ++ [10]
  | .ls => MSG_LS
  | .protos ps => (ps.flatMap fun p => Varint.encode (p.length + 1) ++ p ++ [10]) ++ [10]
  | .na => MSG_PROTOCOL_NA

/-- `Protocol::try_from(Bytes)`: must start with `/` and be UTF-8. -/
def protocolTryFrom (v : Bytes) : Except PErr Bytes :=
  if v.head? ≠ some 47 then .error .invalidProtocol
  else if !utf8Valid v then .error .invalidProtocol
  else .ok v

inductive DecRes where
  | ok (m : Msg)
  | err (e : PErr)
  /-- a Rust panic (slice index out of range / arithmetic overflow) -/
  | panic (why : String)
  deriving DecidableEq, Repr

/-- the test `msg.first() == Some(&b'/') && msg.last() == Some(&b'\n') && !msg[..msg.len() - 1].contains(&b'\n')`,
evaluated left to right with short-circuit; `msg.len() - 1` on an empty message would be an
arithmetic-overflow panic. -/
def protoLineTest (msg : Bytes) : Except String Bool :=
  if msg.head? = some 47 then
    if msg.getLast? = some 10 then
      if msg.length = 0 then .error "attempt_to_subtract_with_overflow"
      else .ok (!(msg.take (msg.length - 1)).contains 10)
    else .ok false
  else .ok false

/-- the `loop` of the `ls`-response branch; `cnt = protocols.len()`, `acc = protocols`.
The fuel is `remaining.length + 1` at the call site; running out of fuel is reported as a panic
and proved impossible (`C15.decodeMsg_no_panic`). -/
def decodeLs : Nat → Nat → List Bytes → Bytes → DecRes
  | 0, _, _, _ => .panic "fuel"
  | fuel + 1, cnt, acc, remaining =>
    if remaining = [10] then .ok (.protos acc)
    else if cnt = MAX_PROTOCOLS then .err .tooManyProtocols
    else
      match uviU64 remaining with
      | .insufficient => .err .uviInsufficient
      | .overflow => .err .uviOverflow
      | .notMinimal => .err .uviNotMinimal
      | .ok len tail =>
        if len = 0 then .err .invalidMessage
        else if len > tail.length then .err .invalidMessage
        else
          match tail[len - 1]? with
          | none => .panic "index_out_of_bounds"
          | some c =>
            if c ≠ 10 then .err .invalidMessage
            else
              match protocolTryFrom (tail.take (len - 1)) with
              | .error e => .err e
              | .ok p => decodeLs fuel (cnt + 1) (acc ++ [p]) (tail.drop len)

/-- `Message::decode` -/
def decodeMsg (msg : Bytes) : DecRes :=
  if msg = MSG_MULTISTREAM_1_0 then .ok .header
  else if msg = MSG_PROTOCOL_NA then .ok .na
  else if msg = MSG_LS then .ok .ls
  else
    match protoLineTest msg with
    | .error w => .panic w
    | .ok true =>
      match protocolTryFrom (msg.take (msg.length - 1)) with
      | .error e => .err e
      | .ok p => .ok (.proto p)
    | .ok false => decodeLs (msg.length + 1) 0 [] msg

/-! ## `LengthDelimited`: writing and reading frames -/

/-- `LengthDelimited::start_send`: the bytes appended to the write buffer, or the error. -/
def startSend (item : Bytes) : Except PErr Bytes :=
  if item.length ≤ MAX_FRAME_SIZE then .ok (Varint.encode item.length ++ item)
  else .error .sendTooLarge

inductive Frame where
  | data (bs : Bytes)
  | err (e : PErr)
  deriving DecidableEq, Repr

/-- `LengthDelimited::poll_next` as a one-frame decoder on a buffer of received bytes
(`none` = the stream has to deliver more bytes).  The length prefix is read byte by byte:
first byte without MSB → 1-byte length; else a second byte: MSB set → "Maximum frame length
exceeded", `0` → `decode::u16` says NotMinimal → "invalid length prefix", else 14-bit length. -/
def frameDec : Framed.Dec Frame
  | [] => none
  | b0 :: r0 =>
    if b0 < 128 then
      if b0 ≥ 1 then (if b0 ≤ r0.length then some (.data (r0.take b0), r0.drop b0) else none)
      else some (.data [], r0)
    else
      match r0 with
      | [] => none
      | b1 :: r1 =>
        if b1 < 128 then
          if b1 = 0 then some (.err .invalidPrefix, r1)
          else
            let len := (b0 % 128) ||| (b1 <<< 7)
            if len ≤ r1.length then some (.data (r1.take len), r1.drop len) else none
        else some (.err .frameTooLong, r1)

/-- one event at the `Stream<Item = Result<Message, ProtocolError>>` interface of `MessageIO` -/
inductive RdEv where
  | msg (m : Msg)
  | err (e : PErr)
  /-- `Poll::Ready(None)`: EOF on a frame boundary -/
  | eof
  | panic (why : String)
  deriving DecidableEq, Repr

def frameEvent : Frame → RdEv
  | .err e => .err e
  | .data bs =>
    match decodeMsg bs with
    | .ok m => .msg m
    | .err e => .err e
    | .panic w => .panic w

/-- what the reader reports when the underlying stream ends with `residual` bytes buffered:
`pos == 0` in `ReadLength` → `None`, anything partial → `UnexpectedEof`. -/
def eofEvent (residual : Bytes) : RdEv :=
  if residual = [] then .eof else .err .unexpectedEof

/-- all events a `MessageIO` yields on a finite input followed by EOF -/
def readEvents (input : Bytes) : List RdEv :=
  let (fs, residual) := Framed.drainAll frameDec input
  fs.map frameEvent ++ [eofEvent residual]

/-- wire bytes of a message sent through the `Sink` (`none` when `start_send` refuses it) -/
def wireOf (m : Msg) : Option Bytes :=
  match startSend (encodeMsg m) with
  | .ok w => some w
  | .error _ => none

def sendable (m : Msg) : Bool := decide ((encodeMsg m).length ≤ MAX_FRAME_SIZE)

def wireOfAll (ms : List Msg) : Bytes :=
  ms.flatMap fun m => (wireOf m).getD []

/-! ## negotiation outcome and automata (message level) -/

/-- `Result<(N, Negotiated<R>), NegotiationError>` without the stream -/
inductive NRes where
  | ok (p : Bytes)
  | failed
  | perr (e : PErr)
  | panic (why : String)
  deriving DecidableEq, Repr

/-- `Protocol::try_from(&str)` accepts exactly the names starting with `/`. -/
def nameOk (n : Bytes) : Bool := n.head? = some 47

/-! ### listener (`ListenerSelectFuture::poll`) -/

inductive LSt where
  | recvHeader
  | recvMessage (lastSentNa : Bool)
  | done (r : NRes)
  deriving DecidableEq, Repr

/-- the `filter_map` in `listener_select_proto` -/
def listenerProtocols (names : List Bytes) : List Bytes := names.filter nameOk

/-- `SendMessage`/`SendHeader` → `Flush`: `start_send` may refuse an oversized frame. -/
def lSend (m : Msg) (next : LSt) : LSt × List Msg :=
  if sendable m then (next, [m]) else (.done (.perr .sendTooLarge), [])

/-- which read errors after an `na` mean "the `V1Lazy` dialer's optimistic data, i.e. garbage":
`InvalidMessage | InvalidProtocol | TooManyProtocols`, and `IoError` of kind `UnexpectedEof` or
`InvalidData` (all the `IoError`s this crate's decoders create are of these two kinds). -/
def garbageAfterNa : PErr → Bool
  | .invalidMessage => true
  | .invalidProtocol => true
  | .tooManyProtocols => true
  | .unexpectedEof => true
  -- kind InvalidData:
  | .uviInsufficient => true
  | .uviOverflow => true
  | .uviNotMinimal => true
  | .invalidPrefix => true
  | .frameTooLong => true
  | .sendTooLarge => true

/-- one read event consumed by the listener; returns the new state and the messages sent
(each send is flushed before the next read).  `ls` = `listenerProtocols names`. -/
def lStep (ls : List Bytes) : LSt → RdEv → LSt × List Msg
  | .done r, _ => (.done r, [])
  | _, .panic w => (.done (.panic w), [])
  | .recvHeader, .msg .header => lSend .header (.recvMessage false)
  | .recvHeader, .msg _ => (.done (.perr .invalidMessage), [])
  | .recvHeader, .err e => (.done (.perr e), [])
  | .recvHeader, .eof => (.done .failed, [])
  | .recvMessage _, .msg .ls => lSend (.protos ls) (.recvMessage false)
  | .recvMessage _, .msg (.proto p) =>
    if ls.contains p then lSend (.proto p) (.done (.ok p)) else lSend .na (.recvMessage true)
  | .recvMessage _, .msg _ => (.done (.perr .invalidMessage), [])
  | .recvMessage na, .err e =>
    if na && garbageAfterNa e then (.done .failed, [])
    else (.done (.perr e), [])
  | .recvMessage _, .eof => (.done .failed, [])

/-- `lStep` as the code was BEFORE the repair `findings/C14-lazy-garbage-protocolerror.fix.diff`:
after an `na` only `InvalidMessage` and `UnexpectedEof` were turned into `Failed`. -/
def lStepPreFix (ls : List Bytes) : LSt → RdEv → LSt × List Msg
  | .recvMessage na, .err e =>
    if na && (e = .invalidMessage || e = .unexpectedEof) then (.done .failed, [])
    else (.done (.perr e), [])
  | s, ev => lStep ls s ev

/-! ### dialer (`DialerSelectFuture::poll`, `Version::V1`; `V1Lazy` differs only at the last proposal) -/

inductive DSt where
  /-- `AwaitProtocol { protocol := cur }`, `rest` = the not yet proposed protocols -/
  | await (cur : Bytes) (rest : List Bytes)
  /-- `V1Lazy`: returned `Ok((cur, Negotiated::expecting(..)))`; `hdr` = header still expected.
  The negotiation result was already reported; the state lives on inside `Negotiated`. -/
  | expecting (cur : Bytes) (hdr : Bool)
  | done (r : NRes)
  deriving DecidableEq, Repr

/-- `SendProtocol`: `pending` = messages already in the write buffer (the header, for the first
proposal).  On an error the buffered messages are dropped with the stream, never flushed. -/
def dPropose (lazy : Bool) (d : Bytes) (rest : List Bytes) (pending : List Msg) : DSt × List Msg :=
  if !nameOk d then (.done (.perr .invalidProtocol), [])
  else if !sendable (.proto d) then (.done (.perr .sendTooLarge), [])
  else if lazy && rest.isEmpty then (.expecting d true, pending ++ [.proto d])
  else (.await d rest, pending ++ [.proto d])

/-- `SendHeader` + first `SendProtocol`; with no protocols the buffered header is dropped. -/
def dStart (lazy : Bool) (ds : List Bytes) : DSt × List Msg :=
  match ds with
  | [] => (.done .failed, [])
  | d :: rest => dPropose lazy d rest [.header]

/-- one read event consumed in `AwaitProtocol` (or by `Negotiated::poll` in `Expecting`). -/
def dStep (lazy : Bool) : DSt → RdEv → DSt × List Msg
  | .done r, _ => (.done r, [])
  | _, .panic w => (.done (.panic w), [])
  | .await cur rest, .msg .header => (.await cur rest, [])
  | .await cur _, .msg (.proto p) =>
    if p = cur then (.done (.ok cur), []) else (.done (.perr .invalidMessage), [])
  | .await _ rest, .msg .na =>
    match rest with
    | [] => (.done .failed, [])
    | d :: rest' => dPropose lazy d rest' []
  | .await _ _, .msg _ => (.done (.perr .invalidMessage), [])
  | .await _ _, .err e => (.done (.perr e), [])
  | .await _ _, .eof => (.done .failed, [])
  -- `Negotiated::poll`, state `Expecting`
  | .expecting cur true, .msg .header => (.expecting cur false, [])
  | .expecting cur _, .msg (.proto p) =>
    if p = cur then (.done (.ok cur), []) else (.done .failed, [])
  | .expecting _ _, .msg _ => (.done .failed, [])
  | .expecting _ _, .err e => (.done (.perr e), [])
  | .expecting _ _, .eof => (.done (.perr .unexpectedEof), [])

/-- run an automaton over a list of read events, collecting what it sends -/
def runSteps {σ : Type} (step : σ → RdEv → σ × List Msg) : σ → List RdEv → σ × List Msg
  | s, [] => (s, [])
  | s, e :: es =>
    let (s', out) := step s e
    let (s'', outs) := runSteps step s' es
    (s'', out ++ outs)

/-! ## running an automaton over received bytes -/

/-- Feed buffered bytes to an automaton frame by frame until it is done or the buffer holds no
complete frame.  Returns the state, the messages sent, and the unconsumed bytes. -/
def runBytes {σ : Type} (step : σ → RdEv → σ × List Msg) (isDone : σ → Bool) :
    Nat → σ → Bytes → σ × List Msg × Bytes
  | 0, s, buf => (s, [], buf)
  | fuel + 1, s, buf =>
    if isDone s then (s, [], buf)
    else
      match frameDec buf with
      | none => (s, [], buf)
      | some (f, rest) =>
        let (s', out) := step s (frameEvent f)
        let (s'', outs, r) := runBytes step isDone fuel s' rest
        (s'', out ++ outs, r)

/-- … then the stream ends: a not yet finished automaton sees EOF / UnexpectedEof (the reader has
then pulled every remaining byte, so nothing is left unconsumed). -/
def runToEof {σ : Type} (step : σ → RdEv → σ × List Msg) (isDone : σ → Bool)
    (s : σ) (input : Bytes) : σ × List Msg × Bytes :=
  let (s1, out1, rest) := runBytes step isDone (input.length + 1) s input
  if isDone s1 then (s1, out1, rest)
  else
    let (s2, out2) := step s1 (eofEvent rest)
    (s2, out1 ++ out2, [])

/-- `/multistream/1.0.0` without the line feed -/
def headerName : Bytes := MSG_MULTISTREAM_1_0.take 18

end Mss
