/-!
# State machines: reachability and invariants (import-free)

A stateful component is modelled as `step : σ → Op → σ × Out`.  `run` folds an op list;
`invariant_of_step` lifts a one-step preservation proof to every reachable state, for op
sequences of any length.
-/
namespace Machine

variable {σ Op Out : Type}

/-- run an op sequence, collecting outputs -/
def run (step : σ → Op → σ × Out) : σ → List Op → σ × List Out
  | s, [] => (s, [])
  | s, o :: os =>
    let (s', out) := step s o
    let (s'', outs) := run step s' os
    (s'', out :: outs)

/-- final state only -/
def exec (step : σ → Op → σ × Out) (s : σ) (ops : List Op) : σ :=
  ops.foldl (fun s o => (step s o).1) s

theorem run_fst (step : σ → Op → σ × Out) (s : σ) (ops : List Op) :
    (run step s ops).1 = exec step s ops := by
  induction ops generalizing s with
  | nil => rfl
  | cons o os ih => simp [run, exec, List.foldl] at *; exact ih _

theorem run_length (step : σ → Op → σ × Out) (s : σ) (ops : List Op) :
    (run step s ops).2.length = ops.length := by
  induction ops generalizing s with
  | nil => rfl
  | cons o os ih => simp [run, ih]

/-- **Invariant principle**: an invariant that holds initially and is preserved by every step
holds after every op sequence. -/
theorem invariant_of_step (step : σ → Op → σ × Out) (Inv : σ → Prop)
    (hstep : ∀ s o, Inv s → Inv (step s o).1) :
    ∀ (ops : List Op) (s : σ), Inv s → Inv (exec step s ops) := by
  intro ops
  induction ops with
  | nil => intro s h; exact h
  | cons o os ih => intro s h; exact ih _ (hstep s o h)

/-- Variant: every *output* along a run satisfies `P`, provided each step from an invariant
state produces a `P` output. -/
theorem outputs_of_step (step : σ → Op → σ × Out) (Inv : σ → Prop) (P : Out → Prop)
    (hstep : ∀ s o, Inv s → Inv (step s o).1)
    (hout : ∀ s o, Inv s → P (step s o).2) :
    ∀ (ops : List Op) (s : σ), Inv s → ∀ out ∈ (run step s ops).2, P out := by
  intro ops
  induction ops with
  | nil => intro s _ out h; simp [run] at h
  | cons o os ih =>
    intro s h out hmem
    simp only [run] at hmem
    rcases List.mem_cons.1 hmem with rfl | hm
    · exact hout s o h
    · exact ih _ (hstep s o h) out hm

end Machine
