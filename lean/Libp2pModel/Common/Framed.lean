/-!
# Generic incremental frame decoding and split-independence

`Dec F` decodes ONE frame from the front of a buffer, or reports that more input is needed.
For every *well-behaved* (`Good`) decoder, feeding the byte stream in arbitrary chunks yields the
same frames as decoding the concatenation (`feedMany_eq_drainAll`).  Import-free.
-/
namespace Framed

variable {F : Type}

/-- A one-frame decoder: `none` = need more input. -/
abbrev Dec (F : Type) := List Nat → Option (F × List Nat)

/-- Well-behaved decoder: consumes at least one byte, and its verdict on a buffer is stable under appending more input. -/
structure Good (dec : Dec F) : Prop where
  progress : ∀ b f r, dec b = some (f, r) → r.length < b.length
  stable   : ∀ b f r x, dec b = some (f, r) → dec (b ++ x) = some (f, r ++ x)

/-- Extract as many frames as possible (fuel = buffer length suffices under `progress`). -/
def drain (dec : Dec F) : Nat → List Nat → List F × List Nat
  | 0, buf => ([], buf)
  | fuel+1, buf =>
    match dec buf with
    | none => ([], buf)
    | some (f, r) => let (fs, r') := drain dec fuel r; (f :: fs, r')

def drainAll (dec : Dec F) (buf : List Nat) := drain dec buf.length buf

/-- Incremental feeding: state is the residual buffer. -/
def feed (dec : Dec F) (st : List Nat) (chunk : List Nat) : List F × List Nat :=
  drainAll dec (st ++ chunk)

def feedMany (dec : Dec F) : List Nat → List (List Nat) → List F × List Nat
  | st, [] => ([], st)
  | st, c :: cs => let (fs, st') := feed dec st c; let (gs, st'') := feedMany dec st' cs; (fs ++ gs, st'')

theorem drain_fuel_irrel (dec : Dec F) (hg : Good dec) :
    ∀ (n m : Nat) (buf : List Nat), buf.length ≤ n → buf.length ≤ m → drain dec n buf = drain dec m buf := by
  intro n
  induction n with
  | zero =>
    intro m buf hn hm
    have : buf = [] := by cases buf <;> simp_all
    subst this
    cases m with
    | zero => rfl
    | succ m =>
      simp only [drain]
      cases h : dec [] with
      | none => rfl
      | some p =>
        obtain ⟨f, r⟩ := p
        have := hg.progress [] f r h
        simp at this
  | succ n ih =>
    intro m buf hn hm
    cases m with
    | zero =>
      have : buf = [] := by cases buf <;> simp_all
      subst this
      simp only [drain]
      cases h : dec [] with
      | none => rfl
      | some p =>
        obtain ⟨f, r⟩ := p
        have := hg.progress [] f r h
        simp at this
    | succ m =>
      simp only [drain]
      cases h : dec buf with
      | none => rfl
      | some p =>
        obtain ⟨f, r⟩ := p
        have hlt := hg.progress buf f r h
        simp only
        rw [ih m r (by omega) (by omega)]

/-- Draining after appending more input = drain first, then continue on residual ++ more. -/
theorem drain_append (dec : Dec F) (hg : Good dec) :
    ∀ (n : Nat) (buf x : List Nat), buf.length ≤ n →
      drainAll dec (buf ++ x) =
        let (fs, r) := drain dec n buf
        let (gs, r') := drainAll dec (r ++ x)
        (fs ++ gs, r') := by
  intro n
  induction n with
  | zero =>
    intro buf x hn
    have : buf = [] := by cases buf <;> simp_all
    subst this
    simp [drain]
  | succ n ih =>
    intro buf x hn
    simp only [drain]
    cases h : dec buf with
    | none => simp
    | some p =>
      obtain ⟨f, r⟩ := p
      have hlt := hg.progress buf f r h
      have hst := hg.stable buf f r x h
      simp only
      have ihr := ih r x (by omega)
      have step : drainAll dec (buf ++ x) =
          (let (fs, r') := drainAll dec (r ++ x); (f :: fs, r')) := by
        unfold drainAll
        have hlen : (buf ++ x).length = (r ++ x).length + ((buf ++ x).length - (r ++ x).length - 1) + 1 := by
          simp; omega
        rw [hlen]
        simp only [drain, hst]
        rw [drain_fuel_irrel dec hg _ (r ++ x).length (r ++ x) (by omega) (by omega)]
      rw [step, ihr]
      cases drain dec n r with
      | mk fs r1 =>
        simp only
        cases drainAll dec (r1 ++ x) with
        | mk gs r2 => simp

theorem drainAll_append (dec : Dec F) (hg : Good dec) (buf x : List Nat) :
    drainAll dec (buf ++ x) =
      ((drainAll dec buf).1 ++ (drainAll dec ((drainAll dec buf).2 ++ x)).1,
       (drainAll dec ((drainAll dec buf).2 ++ x)).2) := by
  have := drain_append dec hg buf.length buf x (Nat.le_refl _)
  rw [this]; unfold drainAll; rfl

/-- After draining with enough fuel the residual holds no complete frame. -/
theorem drain_residual_none (dec : Dec F) (hg : Good dec) :
    ∀ (n : Nat) (buf : List Nat), buf.length ≤ n → dec (drain dec n buf).2 = none := by
  intro n
  induction n with
  | zero =>
    intro buf hn
    have : buf = [] := by cases buf <;> simp_all
    subst this
    simp only [drain]
    cases h : dec [] with
    | none => rfl
    | some p =>
      obtain ⟨f, r⟩ := p
      have := hg.progress [] f r h
      simp at this
  | succ n ih =>
    intro buf hn
    simp only [drain]
    cases h : dec buf with
    | none => simpa using h
    | some p =>
      obtain ⟨f, r⟩ := p
      have hlt := hg.progress buf f r h
      simp only
      exact ih r (by omega)

theorem drainAll_residual_none (dec : Dec F) (hg : Good dec) (buf : List Nat) :
    dec (drainAll dec buf).2 = none := drain_residual_none dec hg _ buf (Nat.le_refl _)

theorem drainAll_of_none (dec : Dec F) (st : List Nat) (h : dec st = none) :
    drainAll dec st = ([], st) := by
  unfold drainAll
  cases hl : st.length with
  | zero => rfl
  | succ n => simp [drain, h]

/-- **Split independence**: starting from a residual that holds no complete frame (in
particular the empty buffer), feeding any chunking gives the same frames and residual as
decoding the concatenation in one go. -/
theorem feedMany_eq_drainAll (dec : Dec F) (hg : Good dec) :
    ∀ (cs : List (List Nat)) (st : List Nat), dec st = none →
      feedMany dec st cs = drainAll dec (st ++ cs.flatten) := by
  intro cs
  induction cs with
  | nil => intro st h; simp [feedMany, drainAll_of_none dec st h]
  | cons c cs ih =>
    intro st h
    simp only [feedMany, feed, List.flatten_cons]
    have hres := drainAll_residual_none dec hg (st ++ c)
    have := ih (drainAll dec (st ++ c)).2 hres
    rw [← List.append_assoc, drainAll_append dec hg (st ++ c) cs.flatten]
    cases hd : drainAll dec (st ++ c) with
    | mk fs st' =>
      rw [hd] at this
      simp only at this ⊢
      rw [this]

theorem feedMany_nil_start (dec : Dec F) (hg : Good dec) (cs : List (List Nat)) :
    feedMany dec [] cs = drainAll dec cs.flatten := by
  have h : dec [] = none := by
    cases h : dec [] with
    | none => rfl
    | some p =>
      obtain ⟨f, r⟩ := p
      have := hg.progress [] f r h
      simp at this
  simpa using feedMany_eq_drainAll dec hg cs [] h

end Framed
