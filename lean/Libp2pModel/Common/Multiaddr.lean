import Libp2pModel.Common.Drv
/-!
# Multiaddr model (import-free)

A multiaddr is a list of protocol components.  Payloads are the values the Rust `multiaddr`
crate carries (`Ipv4Addr` as a 32-bit number, names as UTF-8 bytes, peer ids as multihash bytes).
Line-protocol token: components joined by `/`, each `name` or `name:payload`; `-` = empty address.
-/

inductive Proto where
  | ip4 (a : Nat)
  | ip6 (a : Nat)
  | dns (n : List Nat)
  | dns4 (n : List Nat)
  | dns6 (n : List Nat)
  | dnsaddr (n : List Nat)
  | tcp (p : Nat)
  | udp (p : Nat)
  | p2p (id : List Nat)
  | quic
  | quicV1
  | p2pCircuit
  | ws
  | wss
  | tls
  | webtransport
  | webrtcDirect
  | certhash (h : List Nat)
  | memory (n : Nat)
  | ip6zone (n : List Nat)
  | other (name : List Nat) (payload : List Nat)
  deriving DecidableEq, Repr, Inhabited

abbrev Maddr := List Proto

namespace Proto

def isIp : Proto → Bool
  | ip4 _ | ip6 _ => true
  | _ => false

def isDns : Proto → Bool
  | dns _ | dns4 _ | dns6 _ | dnsaddr _ => true
  | _ => false

def isP2p : Proto → Bool
  | p2p _ => true
  | _ => false

end Proto

namespace Maddr

/-- `Multiaddr::with_p2p`: append `/p2p/id` unless the last component already is a `/p2p`;
`none` when it ends with a different peer id (the `Err(self)` branch). -/
def withP2p (a : Maddr) (id : List Nat) : Option Maddr :=
  match a.getLast? with
  | some (.p2p q) => if q = id then some a else none
  | _ => some (a ++ [.p2p id])

def strBytes (s : String) : List Nat := s.toUTF8.toList.map (·.toNat)

def parseProto (tok : String) : Option Proto :=
  let parts := tok.splitOn ":"
  match parts with
  | ["ip4", v] => v.toNat?.map .ip4
  | ["ip6", v] => v.toNat?.map .ip6
  | ["dns", v] => (Drv.unhex v).map .dns
  | ["dns4", v] => (Drv.unhex v).map .dns4
  | ["dns6", v] => (Drv.unhex v).map .dns6
  | ["dnsaddr", v] => (Drv.unhex v).map .dnsaddr
  | ["tcp", v] => v.toNat?.map .tcp
  | ["udp", v] => v.toNat?.map .udp
  | ["p2p", v] => (Drv.unhex v).map .p2p
  | ["quic"] => some .quic
  | ["quic-v1"] => some .quicV1
  | ["p2p-circuit"] => some .p2pCircuit
  | ["ws"] => some .ws
  | ["wss"] => some .wss
  | ["tls"] => some .tls
  | ["webtransport"] => some .webtransport
  | ["webrtc-direct"] => some .webrtcDirect
  | ["certhash", v] => (Drv.unhex v).map .certhash
  | ["memory", v] => v.toNat?.map .memory
  | ["ip6zone", v] => (Drv.unhex v).map .ip6zone
  | ["other", n, v] => match Drv.unhex n, Drv.unhex v with
      | some n, some v => some (.other n v)
      | _, _ => none
  | _ => none

def parse (tok : String) : Option Maddr :=
  if tok = "-" then some [] else (tok.splitOn "/").mapM parseProto

def showProto : Proto → String
  | .ip4 a => s!"ip4:{a}"
  | .ip6 a => s!"ip6:{a}"
  | .dns n => s!"dns:{Drv.hex n}"
  | .dns4 n => s!"dns4:{Drv.hex n}"
  | .dns6 n => s!"dns6:{Drv.hex n}"
  | .dnsaddr n => s!"dnsaddr:{Drv.hex n}"
  | .tcp p => s!"tcp:{p}"
  | .udp p => s!"udp:{p}"
  | .p2p i => s!"p2p:{Drv.hex i}"
  | .quic => "quic"
  | .quicV1 => "quic-v1"
  | .p2pCircuit => "p2p-circuit"
  | .ws => "ws"
  | .wss => "wss"
  | .tls => "tls"
  | .webtransport => "webtransport"
  | .webrtcDirect => "webrtc-direct"
  | .certhash h => s!"certhash:{Drv.hex h}"
  | .memory n => s!"memory:{n}"
  | .ip6zone n => s!"ip6zone:{Drv.hex n}"
  | .other n v => s!"other:{Drv.hex n}:{Drv.hex v}"

def render (a : Maddr) : String :=
  if a.isEmpty then "-" else "/".intercalate (a.map showProto)

/-- list of addresses: tokens joined by `;`, `-` … use `~` for the empty list -/
def parseList (tok : String) : Option (List Maddr) :=
  if tok = "~" then some [] else (tok.splitOn ";").mapM parse

def renderList (l : List Maddr) : String :=
  if l.isEmpty then "~" else ";".intercalate (l.map render)

end Maddr
