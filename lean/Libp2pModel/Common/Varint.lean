/-!
# unsigned-varint (LEB128) on `Nat`, bytes as `List Nat`

`encode`/`decode` mirror the `unsigned-varint` crate as used by libp2p (multistream-select,
mplex, prost-codec/quick-protobuf length prefixes).  Import-free.
-/
namespace Varint

/-- little-endian base-128 groups with continuation bit. -/
def encode (n : Nat) : List Nat :=
  if h : n < 128 then [n] else (n % 128 + 128) :: encode (n / 128)
termination_by n
decreasing_by omega

/-- `none` = input exhausted before a terminating byte (Insufficient). -/
def decode : List Nat → Option (Nat × List Nat)
  | [] => none
  | b :: rest =>
    if b < 128 then some (b, rest)
    else match decode rest with
      | none => none
      | some (v, r) => some ((b - 128) + 128 * v, r)

theorem decode_encode (n : Nat) (rest : List Nat) : decode (encode n ++ rest) = some (n, rest) := by
  fun_induction encode n with
  | case1 n h => simp [decode, h]
  | case2 n h ih =>
    simp only [List.cons_append, decode]
    have : ¬ (n % 128 + 128 < 128) := by omega
    simp only [this, ↓reduceIte, ih]
    congr 2
    omega

theorem encode_bytes_lt (n : Nat) : ∀ b ∈ encode n, b < 256 := by
  fun_induction encode n with
  | case1 n h => intro b hb; simp at hb; omega
  | case2 n h ih =>
    intro b hb
    simp at hb
    rcases hb with rfl | hb
    · omega
    · exact ih b hb

theorem encode_ne_nil (n : Nat) : encode n ≠ [] := by
  unfold encode; split <;> simp

/-- number of bytes of the encoding -/
def len (n : Nat) : Nat := (encode n).length

theorem len_pos (n : Nat) : 0 < len n := by
  unfold len; have := encode_ne_nil n
  cases h : encode n with
  | nil => exact absurd h this
  | cons _ _ => simp

theorem len_le_of_lt (k : Nat) : ∀ n, n < 128 ^ (k+1) → len n ≤ k + 1 := by
  induction k with
  | zero => intro n h; unfold len encode; simp at h; simp [h]
  | succ k ih =>
    intro n h
    unfold len encode
    split
    · simp
    · have : n / 128 < 128 ^ (k+1) := by
        rw [Nat.div_lt_iff_lt_mul (by omega)]; rw [Nat.pow_succ] at h; exact h
      have := ih (n/128) this
      unfold len at this
      simp; omega

end Varint
