import Libp2pModel.Common.Mss
import Libp2pModel.Common.Drv
/-!
# multistream-select: token syntax of the line protocol (shared by the C14 and C15 drivers)
-/
namespace MssTok
open Drv Mss

def stripPrefix (pre s : String) : Option String :=
  if s.startsWith pre then some (s.drop pre.length).toString else none

/-! token syntax: name = hex | `~` (empty); name list = comma-joined | `-` (empty);
message = `H` | `NA` | `LS` | `P:<name>` | `PS:<namelist>` -/

def showName (p : Bytes) : String := if p.isEmpty then "~" else hex p

def parseName (s : String) : Option Bytes := if s = "~" then some [] else hexPairs s.toList

def showNames (ps : List Bytes) : String :=
  if ps.isEmpty then "-" else ",".intercalate (ps.map showName)

def parseNames (s : String) : Option (List Bytes) :=
  if s = "-" then some [] else (s.splitOn ",").mapM parseName

def showMsg : Msg → String
  | .header => "H"
  | .na => "NA"
  | .ls => "LS"
  | .proto p => "P:" ++ showName p
  | .protos ps => "PS:" ++ showNames ps

def parseMsg (s : String) : Option Msg :=
  if s = "H" then some .header
  else if s = "NA" then some .na
  else if s = "LS" then some .ls
  else if s.startsWith "PS:" then (parseNames (s.drop 3).toString).map .protos
  else if s.startsWith "P:" then (parseName (s.drop 2).toString).map .proto
  else none

def showErr : PErr → String
  | .uviInsufficient => "UviInsufficient"
  | .uviOverflow => "UviOverflow"
  | .uviNotMinimal => "UviNotMinimal"
  | .invalidPrefix => "InvalidPrefix"
  | .frameTooLong => "FrameTooLong"
  | .unexpectedEof => "UnexpectedEof"
  | .sendTooLarge => "SendTooLarge"
  | .invalidMessage => "InvalidMessage"
  | .invalidProtocol => "InvalidProtocol"
  | .tooManyProtocols => "TooManyProtocols"

def allErrs : List PErr :=
  [.uviInsufficient, .uviOverflow, .uviNotMinimal, .invalidPrefix, .frameTooLong, .unexpectedEof,
   .sendTooLarge, .invalidMessage, .invalidProtocol, .tooManyProtocols]

def parseErr (s : String) : Option PErr := allErrs.find? (fun e => showErr e = s)

def showDec : DecRes → String
  | .ok m => "ok " ++ showMsg m
  | .err e => "err:" ++ showErr e
  | .panic _ => "panic"

def parseDec : List String → Option DecRes
  | ["ok", m] => (parseMsg m).map .ok
  | "panic" :: w => some (.panic (unwords w))
  | [e] => if e.startsWith "err:" then (parseErr (e.drop 4).toString).map .err else none
  | _ => none

def showNRes : NRes → String
  | .ok p => "ok:" ++ showName p
  | .failed => "failed"
  | .perr e => "err:" ++ showErr e
  | .panic _ => "panic"

def parseNRes (s : String) : Option NRes :=
  if s = "failed" then some .failed
  else if s = "err:InvalidData" then some (.perr .invalidMessage)
  else if s.startsWith "ok:" then (parseName (s.drop 3).toString).map .ok
  else if s.startsWith "err:" then (parseErr (s.drop 4).toString).map .perr
  else if s.startsWith "panic" then some (.panic s)
  else none

/-- a read error of `Negotiated` is an `io::Error`: the three message-level `ProtocolError`s all
become a bare `InvalidData` (`From<ProtocolError> for io::Error`) -/
def showFin : NRes → String
  | .perr .invalidMessage => "err:InvalidData"
  | .perr .invalidProtocol => "err:InvalidData"
  | .perr .tooManyProtocols => "err:InvalidData"
  | r => showNRes r

end MssTok
