/-!
# `hashlink::LruCache` (hashlink 0.12.1), as an association list (import-free)

Transcribed from `hashlink-0.12.1/src/lru_cache.rs` + `linked_hash_map.rs`:

* the linked list is `items`, **head = front = least recently used**, last = back = most recent;
  `iter()` walks front → back (so `iter().rev()` is most-recent-first);
* `insert k v`  = `LinkedHashMap::insert` (existing key: `to_back` + replace value; new key: push
  back), then `if len > capacity { remove_lru }` — ONE eviction at most;
* `peek` = `map.get` (no reordering); `get`/`get_mut` = lookup + `to_back`;
* `entry k` = `if len > capacity { remove_lru }` FIRST, then `map.entry k`; a vacant entry
  inserts at the back WITHOUT a capacity test, so `entry(..).or_insert_with(..)` can leave
  `capacity + 1` elements behind (the crate documents this: "By using the entry API, you can
  exceed the configured capacity by 1"); `Entry::or_insert_with` on an occupied entry does
  `to_back` (0.12.1);
* `remove k` = `map.remove`; `remove_lru` = `pop_front`.

Keys need `DecidableEq`; values are arbitrary. Well-formedness (`WF`) = keys pairwise distinct.
-/
set_option linter.unusedSectionVars false
set_option linter.unusedSimpArgs false

namespace Lru

variable {κ ν : Type} [DecidableEq κ]

/-- value stored under `k` (first match) -/
def find (k : κ) : List (κ × ν) → Option ν
  | [] => none
  | (k', v) :: t => if k' = k then some v else find k t

/-- remove (every entry with) key `k` -/
def del (k : κ) : List (κ × ν) → List (κ × ν)
  | [] => []
  | (k', v) :: t => if k' = k then del k t else (k', v) :: del k t

structure Cache (κ ν : Type) where
  items : List (κ × ν)
  cap : Nat

namespace Cache

def new (cap : Nat) : Cache κ ν := ⟨[], cap⟩
def len (c : Cache κ ν) : Nat := c.items.length
def isEmpty (c : Cache κ ν) : Bool := c.items.isEmpty
/-- `iter()`: front (LRU) → back (MRU) -/
def iter (c : Cache κ ν) : List (κ × ν) := c.items
def keys (c : Cache κ ν) : List κ := c.items.map Prod.fst
/-- `peek` -/
def peek (c : Cache κ ν) (k : κ) : Option ν := find k c.items
def contains (c : Cache κ ν) (k : κ) : Bool := (c.peek k).isSome
/-- `remove_lru` = `pop_front` -/
def popFront (c : Cache κ ν) : Cache κ ν := { c with items := c.items.tail }
/-- the key `remove_lru` would drop -/
def lruKey (c : Cache κ ν) : Option κ := c.items.head?.map Prod.fst
/-- "`k` sits at the back with value `v`": the result of `to_back` followed by a write through
the `&mut V` (or of pushing a new key at the back). -/
def upsertBack (c : Cache κ ν) (k : κ) (v : ν) : Cache κ ν :=
  { c with items := del k c.items ++ [(k, v)] }
/-- the capacity test both `insert` and `entry` use -/
def evictIfOver (c : Cache κ ν) : Cache κ ν := if c.len > c.cap then c.popFront else c
/-- `insert`: returns the cache and the previous value -/
def insert (c : Cache κ ν) (k : κ) (v : ν) : Cache κ ν × Option ν :=
  ((c.upsertBack k v).evictIfOver, c.peek k)
/-- `get` / `get_mut`: promote to the back when present -/
def getMut (c : Cache κ ν) (k : κ) : Cache κ ν × Option ν :=
  match c.peek k with
  | some v => (c.upsertBack k v, some v)
  | none => (c, none)
/-- `entry(k).or_insert_with(|| dflt)`: the pre-check evicts only when ALREADY over capacity; the
vacant insert is unchecked. Returns the cache (with `k` at the back) and the value under `k`. -/
def entryOrInsertWith (c : Cache κ ν) (k : κ) (dflt : ν) : Cache κ ν × ν :=
  match c.evictIfOver.peek k with
  | some v => (c.evictIfOver.upsertBack k v, v)
  | none => (c.evictIfOver.upsertBack k dflt, dflt)
/-- `remove` -/
def remove (c : Cache κ ν) (k : κ) : Cache κ ν × Option ν :=
  ({ c with items := del k c.items }, c.peek k)

/-- keys pairwise distinct -/
def WF (c : Cache κ ν) : Prop := c.keys.Nodup
/-- every stored value satisfies `P` -/
def AllV (P : ν → Prop) (c : Cache κ ν) : Prop := ∀ kv ∈ c.items, P kv.2

end Cache

/-! ## list-level lemmas -/

theorem find_del_self (k : κ) (l : List (κ × ν)) : find k (del k l) = none := by
  induction l with
  | nil => rfl
  | cons h t ih =>
    obtain ⟨k', v⟩ := h
    by_cases e : k' = k <;> simp [del, find, e, ih]

theorem find_del_ne {k k' : κ} (h : k' ≠ k) (l : List (κ × ν)) : find k' (del k l) = find k' l := by
  induction l with
  | nil => rfl
  | cons hd t ih =>
    obtain ⟨k0, v⟩ := hd
    by_cases e : k0 = k
    · have : k0 ≠ k' := by intro e'; exact h (e' ▸ e)
      simp [del, find, e, ih]
      intro e2; exact absurd (e ▸ e2 : k = k') (Ne.symm h)
    · by_cases e2 : k0 = k'
      · subst e2; simp [del, find, e]
      · simp [del, find, e, e2, ih]

theorem find_append (k : κ) (l m : List (κ × ν)) :
    find k (l ++ m) = (find k l).or (find k m) := by
  induction l with
  | nil => simp [find]
  | cons hd t ih =>
    obtain ⟨k0, v⟩ := hd
    by_cases e : k0 = k <;> simp [find, e, ih]

theorem length_del_le (k : κ) (l : List (κ × ν)) : (del k l).length ≤ l.length := by
  induction l with
  | nil => simp [del]
  | cons hd t ih =>
    obtain ⟨k0, v⟩ := hd
    by_cases e : k0 = k <;> simp [del, e] <;> omega

theorem length_del_lt {k : κ} {l : List (κ × ν)} (h : find k l ≠ none) :
    (del k l).length < l.length := by
  induction l with
  | nil => simp [find] at h
  | cons hd t ih =>
    obtain ⟨k0, v⟩ := hd
    by_cases e : k0 = k
    · have := length_del_le k t
      simp [del, e]; omega
    · simp [find, e] at h
      have := ih h
      simp [del, e]; omega

theorem del_of_find_none {k : κ} {l : List (κ × ν)} (h : find k l = none) : del k l = l := by
  induction l with
  | nil => rfl
  | cons hd t ih =>
    obtain ⟨k0, v⟩ := hd
    by_cases e : k0 = k
    · simp [find, e] at h
    · simp [find, e] at h
      simp [del, e, ih h]

theorem find_none_iff_not_mem_keys (k : κ) (l : List (κ × ν)) :
    find k l = none ↔ k ∉ l.map Prod.fst := by
  induction l with
  | nil => simp [find]
  | cons hd t ih =>
    obtain ⟨k0, v⟩ := hd
    by_cases e : k0 = k
    · simp [find, e]
    · simp only [find, e, ↓reduceIte, ih, List.map_cons, List.mem_cons, not_or]
      constructor
      · intro h; exact ⟨fun e' => e e'.symm, h⟩
      · intro h; exact h.2

theorem mem_keys_del {k k' : κ} {l : List (κ × ν)} (h : k' ∈ (del k l).map Prod.fst) :
    k' ∈ l.map Prod.fst ∧ k' ≠ k := by
  induction l with
  | nil => simp [del] at h
  | cons hd t ih =>
    obtain ⟨k0, v⟩ := hd
    by_cases e : k0 = k
    · simp only [del, e, ↓reduceIte] at h
      have := ih h
      exact ⟨by simp [this.1], this.2⟩
    · simp only [del, e, ↓reduceIte, List.map_cons, List.mem_cons] at h
      rcases h with rfl | h
      · exact ⟨by simp, e⟩
      · have := ih h
        exact ⟨by simp [this.1], this.2⟩

theorem nodup_keys_del (k : κ) {l : List (κ × ν)} (h : (l.map Prod.fst).Nodup) :
    ((del k l).map Prod.fst).Nodup := by
  induction l with
  | nil => simp [del]
  | cons hd t ih =>
    obtain ⟨k0, v⟩ := hd
    simp only [List.map_cons, List.nodup_cons] at h
    by_cases e : k0 = k
    · simp only [del, e, ↓reduceIte]; exact ih h.2
    · simp only [del, e, ↓reduceIte, List.map_cons, List.nodup_cons]
      exact ⟨fun hm => h.1 (mem_keys_del hm).1, ih h.2⟩

theorem mem_del {k : κ} {l : List (κ × ν)} {kv : κ × ν} (h : kv ∈ del k l) : kv ∈ l := by
  induction l with
  | nil => simp [del] at h
  | cons hd t ih =>
    obtain ⟨k0, v⟩ := hd
    by_cases e : k0 = k
    · simp only [del, e, ↓reduceIte] at h; exact List.mem_cons_of_mem _ (ih h)
    · simp only [del, e, ↓reduceIte, List.mem_cons] at h
      rcases h with rfl | h
      · simp
      · exact List.mem_cons_of_mem _ (ih h)

theorem mem_of_find {k : κ} {v : ν} {l : List (κ × ν)} (h : find k l = some v) : (k, v) ∈ l := by
  induction l with
  | nil => simp [find] at h
  | cons hd t ih =>
    obtain ⟨k0, v0⟩ := hd
    by_cases e : k0 = k
    · simp [find, e] at h; simp [e, h]
    · simp [find, e] at h; exact List.mem_cons_of_mem _ (ih h)

theorem find_of_mem_nodup {l : List (κ × ν)} (h : (l.map Prod.fst).Nodup) {k : κ} {v : ν}
    (hkv : (k, v) ∈ l) : find k l = some v := by
  induction l with
  | nil => simp at hkv
  | cons hd t ih =>
    obtain ⟨k0, v0⟩ := hd
    simp only [List.map_cons, List.nodup_cons] at h
    simp only [List.mem_cons, Prod.mk.injEq] at hkv
    rcases hkv with ⟨rfl, rfl⟩ | hkv
    · simp [find]
    · have hne : k0 ≠ k := by
        intro e; subst e
        exact h.1 (List.mem_map_of_mem (f := Prod.fst) hkv)
      simp [find, hne, ih h.2 hkv]

/-- under distinct keys, dropping the front loses exactly the front key -/
theorem find_tail {l : List (κ × ν)} (h : (l.map Prod.fst).Nodup) (k : κ) :
    find k l.tail = if l.head?.map Prod.fst = some k then none else find k l := by
  cases l with
  | nil => simp [find]
  | cons hd t =>
    obtain ⟨k0, v⟩ := hd
    simp only [List.map_cons, List.nodup_cons] at h
    by_cases e : k0 = k
    · subst e
      simp [find, (find_none_iff_not_mem_keys k0 t).2 h.1]
    · simp [find, e]

namespace Cache

variable (c : Cache κ ν)

/-! ## `peek` after each operation -/

@[simp] theorem peek_new (n : Nat) (k : κ) : (new n : Cache κ ν).peek k = none := rfl

theorem peek_upsertBack_self (k : κ) (v : ν) : (c.upsertBack k v).peek k = some v := by
  simp [peek, upsertBack, find_append, find_del_self, find]

theorem peek_upsertBack_ne {k k' : κ} (h : k' ≠ k) (v : ν) :
    (c.upsertBack k v).peek k' = c.peek k' := by
  have : ¬ k = k' := fun e => h e.symm
  simp [peek, upsertBack, find_append, find_del_ne h, find, this]

theorem peek_upsertBack (k k' : κ) (v : ν) :
    (c.upsertBack k v).peek k' = if k' = k then some v else c.peek k' := by
  by_cases e : k' = k
  · subst e; simp [peek_upsertBack_self]
  · simp [e, peek_upsertBack_ne c e]

theorem peek_remove_self (k : κ) : (c.remove k).1.peek k = none := by
  simp [peek, remove, find_del_self]

theorem peek_remove_ne {k k' : κ} (h : k' ≠ k) : (c.remove k).1.peek k' = c.peek k' := by
  simp [peek, remove, find_del_ne h]

theorem peek_remove (k k' : κ) : (c.remove k).1.peek k' = if k' = k then none else c.peek k' := by
  by_cases e : k' = k
  · subst e; simp [peek_remove_self]
  · simp [e, peek_remove_ne c e]

@[simp] theorem remove_snd (k : κ) : (c.remove k).2 = c.peek k := rfl

theorem peek_popFront (h : c.WF) (k : κ) :
    c.popFront.peek k = if c.lruKey = some k then none else c.peek k := by
  simp only [peek, popFront, lruKey]
  exact find_tail h k

/-- `get_mut` never changes what is stored, only the order -/
theorem peek_getMut (k k' : κ) : (c.getMut k).1.peek k' = c.peek k' := by
  unfold getMut
  cases h : c.peek k with
  | none => rfl
  | some v =>
    simp only [peek_upsertBack]
    by_cases e : k' = k
    · subst e; simp [h]
    · simp [e]

@[simp] theorem getMut_snd (k : κ) : (c.getMut k).2 = c.peek k := by
  unfold getMut; cases h : c.peek k <;> rfl

/-- a key that was not evicted keeps its value through `evictIfOver` -/
theorem peek_evictIfOver (h : c.WF) (k : κ) :
    c.evictIfOver.peek k = if c.len > c.cap ∧ c.lruKey = some k then none else c.peek k := by
  unfold evictIfOver
  by_cases g : c.len > c.cap
  · simp [g, peek_popFront c h]
  · simp [g]

theorem evictIfOver_of_le (h : c.len ≤ c.cap) : c.evictIfOver = c := by
  unfold evictIfOver
  have : ¬ c.len > c.cap := by omega
  simp [this]

/-! ## capacity is never changed -/

@[simp] theorem cap_upsertBack (k : κ) (v : ν) : (c.upsertBack k v).cap = c.cap := rfl
@[simp] theorem cap_popFront : c.popFront.cap = c.cap := rfl
@[simp] theorem cap_evictIfOver : c.evictIfOver.cap = c.cap := by
  unfold evictIfOver; split <;> rfl
@[simp] theorem cap_insert (k : κ) (v : ν) : (c.insert k v).1.cap = c.cap := by simp [insert]
@[simp] theorem cap_getMut (k : κ) : (c.getMut k).1.cap = c.cap := by
  unfold getMut; split <;> rfl
@[simp] theorem cap_remove (k : κ) : (c.remove k).1.cap = c.cap := rfl
@[simp] theorem cap_entryOrInsertWith (k : κ) (d : ν) : (c.entryOrInsertWith k d).1.cap = c.cap := by
  unfold entryOrInsertWith; split <;> simp
@[simp] theorem cap_new (n : Nat) : (new n : Cache κ ν).cap = n := rfl
@[simp] theorem len_new (n : Nat) : (new n : Cache κ ν).len = 0 := rfl

/-! ## lengths -/

theorem len_upsertBack_le (k : κ) (v : ν) : (c.upsertBack k v).len ≤ c.len + 1 := by
  have := length_del_le k c.items
  simp [len, upsertBack]; omega

theorem len_upsertBack_of_mem {k : κ} (v : ν) (h : c.peek k ≠ none) :
    (c.upsertBack k v).len ≤ c.len := by
  have := length_del_lt h
  simp [len, upsertBack]; omega

theorem len_upsertBack_of_not_mem {k : κ} (v : ν) (h : c.peek k = none) :
    (c.upsertBack k v).len = c.len + 1 := by
  simp [len, upsertBack, del_of_find_none h]

theorem len_popFront : c.popFront.len = c.len - 1 := by simp [len, popFront]

theorem len_evictIfOver_le : c.evictIfOver.len ≤ c.len := by
  unfold evictIfOver; split
  · simp [len_popFront]
  · exact Nat.le_refl _

/-- after the capacity test at most `max (len - 1) cap` elements remain -/
theorem len_evictIfOver : c.evictIfOver.len ≤ max (c.len - 1) c.cap := by
  unfold evictIfOver; split
  · simp [len_popFront]; omega
  · omega

/-- **`insert` respects the capacity** when the cache did before -/
theorem length_insert_le_cap (k : κ) (v : ν) (h : c.len ≤ c.cap) : (c.insert k v).1.len ≤ c.cap := by
  have h1 := len_upsertBack_le c k v
  have h2 := len_evictIfOver (c.upsertBack k v)
  simp only [insert, cap_upsertBack] at *
  omega

/-- in general `insert` never grows a cache beyond `max len cap` -/
theorem length_insert_le (k : κ) (v : ν) : (c.insert k v).1.len ≤ max c.len c.cap := by
  have h1 := len_upsertBack_le c k v
  have h2 := len_evictIfOver (c.upsertBack k v)
  simp only [insert, cap_upsertBack] at *
  omega

theorem length_getMut_le (k : κ) : (c.getMut k).1.len ≤ c.len := by
  unfold getMut
  cases h : c.peek k with
  | none => exact Nat.le_refl _
  | some v => exact len_upsertBack_of_mem c v (by simp [h])

theorem length_remove_le (k : κ) : (c.remove k).1.len ≤ c.len := by
  simp [remove, len, length_del_le]

/-- **`entry().or_insert_with()` may exceed the capacity by one** (and by no more, when the cache
was within `cap + 1` before) -/
theorem length_entry_le (k : κ) (d : ν) (h : c.len ≤ c.cap + 1) :
    (c.entryOrInsertWith k d).1.len ≤ c.cap + 1 := by
  have h0 := len_evictIfOver c
  unfold entryOrInsertWith
  cases hp : c.evictIfOver.peek k with
  | some v =>
    have := len_upsertBack_of_mem c.evictIfOver (k := k) v (by simp [hp])
    simp only; omega
  | none =>
    have := len_upsertBack_le c.evictIfOver k d
    simp only; omega

/-- an occupied entry does not grow the cache -/
theorem length_entry_occupied {k : κ} (d : ν) (h : c.len ≤ c.cap) (hk : c.peek k ≠ none) :
    (c.entryOrInsertWith k d).1.len ≤ c.cap := by
  unfold entryOrInsertWith
  rw [evictIfOver_of_le c h]
  cases hp : c.peek k with
  | none => exact absurd hp hk
  | some v =>
    have := len_upsertBack_of_mem c v hk
    simp only; omega

/-! ## well-formedness and value invariants are preserved -/

theorem wf_new (n : Nat) : (new n : Cache κ ν).WF := by simp [WF, keys, new]

theorem wf_upsertBack (h : c.WF) (k : κ) (v : ν) : (c.upsertBack k v).WF := by
  unfold WF keys upsertBack
  simp only [List.map_append, List.map_cons, List.map_nil]
  rw [List.nodup_append]
  refine ⟨nodup_keys_del k h, by simp, ?_⟩
  intro a ha b hb
  simp at hb; subst hb
  exact (mem_keys_del ha).2

theorem wf_popFront (h : c.WF) : c.popFront.WF := by
  unfold WF keys popFront at *
  cases hi : c.items with
  | nil => simp
  | cons hd t => simp [hi] at h ⊢; exact h.2

theorem wf_evictIfOver (h : c.WF) : c.evictIfOver.WF := by
  unfold evictIfOver; split
  · exact wf_popFront c h
  · exact h

theorem wf_insert (h : c.WF) (k : κ) (v : ν) : (c.insert k v).1.WF :=
  wf_evictIfOver _ (wf_upsertBack c h k v)

theorem wf_getMut (h : c.WF) (k : κ) : (c.getMut k).1.WF := by
  unfold getMut; split
  · exact wf_upsertBack c h _ _
  · exact h

theorem wf_remove (h : c.WF) (k : κ) : (c.remove k).1.WF := nodup_keys_del k h

theorem wf_entryOrInsertWith (h : c.WF) (k : κ) (d : ν) : (c.entryOrInsertWith k d).1.WF := by
  unfold entryOrInsertWith
  split <;> exact wf_upsertBack _ (wf_evictIfOver c h) _ _

theorem allV_new (P : ν → Prop) (n : Nat) : (new n : Cache κ ν).AllV P := by simp [AllV, new]

theorem allV_of_peek {P : ν → Prop} (h : c.AllV P) {k : κ} {v : ν} (hk : c.peek k = some v) : P v :=
  h (k, v) (mem_of_find hk)

theorem allV_upsertBack {P : ν → Prop} (h : c.AllV P) (k : κ) {v : ν} (hv : P v) :
    (c.upsertBack k v).AllV P := by
  intro kv hkv
  simp only [upsertBack, List.mem_append, List.mem_cons, List.not_mem_nil, or_false] at hkv
  rcases hkv with hkv | rfl
  · exact h kv (mem_del hkv)
  · exact hv

theorem allV_popFront {P : ν → Prop} (h : c.AllV P) : c.popFront.AllV P :=
  fun kv hkv => h kv (List.mem_of_mem_tail hkv)

theorem allV_evictIfOver {P : ν → Prop} (h : c.AllV P) : c.evictIfOver.AllV P := by
  unfold evictIfOver; split
  · exact allV_popFront c h
  · exact h

theorem allV_insert {P : ν → Prop} (h : c.AllV P) (k : κ) {v : ν} (hv : P v) :
    (c.insert k v).1.AllV P :=
  allV_evictIfOver _ (allV_upsertBack c h k hv)

theorem allV_getMut {P : ν → Prop} (h : c.AllV P) (k : κ) : (c.getMut k).1.AllV P := by
  unfold getMut
  cases hp : c.peek k with
  | none => exact h
  | some v => exact allV_upsertBack c h k (allV_of_peek c h hp)

theorem allV_remove {P : ν → Prop} (h : c.AllV P) (k : κ) : (c.remove k).1.AllV P :=
  fun kv hkv => h kv (mem_del hkv)

theorem allV_entryOrInsertWith {P : ν → Prop} (h : c.AllV P) (k : κ) {d : ν} (hd : P d) :
    (c.entryOrInsertWith k d).1.AllV P := by
  unfold entryOrInsertWith
  cases hp : c.evictIfOver.peek k with
  | none => exact allV_upsertBack _ (allV_evictIfOver c h) k hd
  | some v =>
    exact allV_upsertBack _ (allV_evictIfOver c h) k (allV_of_peek _ (allV_evictIfOver c h) hp)

/-- if every reachable key satisfies `P` on its value, so does any `peek` -/
theorem allV_iff_peek (h : c.WF) (P : ν → Prop) : c.AllV P ↔ ∀ k v, c.peek k = some v → P v := by
  constructor
  · intro ha k v hk; exact allV_of_peek c ha hk
  · intro hp kv hkv
    obtain ⟨k, v⟩ := kv
    exact hp k v (find_of_mem_nodup h hkv)

/-! ## the value returned by `entry().or_insert_with()` and what it leaves stored -/

theorem entry_snd (k : κ) (d : ν) :
    (c.entryOrInsertWith k d).2 = (c.evictIfOver.peek k).getD d := by
  unfold entryOrInsertWith
  cases c.evictIfOver.peek k <;> rfl

theorem peek_entry (k k' : κ) (d : ν) :
    (c.entryOrInsertWith k d).1.peek k' =
      if k' = k then some ((c.evictIfOver.peek k).getD d) else c.evictIfOver.peek k' := by
  unfold entryOrInsertWith
  cases hp : c.evictIfOver.peek k <;> simp [peek_upsertBack]

/-- `isEmpty` agrees with `len` -/
theorem isEmpty_iff : c.isEmpty = true ↔ c.len = 0 := by
  simp [isEmpty, len, List.isEmpty_iff]

theorem peek_eq_none_of_isEmpty (h : c.isEmpty = true) (k : κ) : c.peek k = none := by
  have : c.items = [] := by simpa [isEmpty, List.isEmpty_iff] using h
  simp [peek, this, find]

end Cache

/-! ## regression examples (the semantics above, on literals) -/

section Examples
open Cache
/-- `entry` exceeds the capacity by one; the next `entry` evicts first, the next `insert` evicts after -/
example : ((new 2 : Cache Nat Nat).entryOrInsertWith 1 10 |>.1.entryOrInsertWith 2 20 |>.1.entryOrInsertWith 3 30).1.items
    = [(1, 10), (2, 20), (3, 30)] := by decide
example : (((new 2 : Cache Nat Nat).entryOrInsertWith 1 10 |>.1.entryOrInsertWith 2 20 |>.1.entryOrInsertWith 3 30).1.entryOrInsertWith 4 40).1.items
    = [(2, 20), (3, 30), (4, 40)] := by decide
example : ((new 2 : Cache Nat Nat).insert 1 10 |>.1.insert 2 20 |>.1.insert 3 30).1.items
    = [(2, 20), (3, 30)] := by decide
/-- `get_mut` promotes, `peek` does not; `insert` of an existing key promotes and replaces -/
example : (((new 3 : Cache Nat Nat).insert 1 10 |>.1.insert 2 20).1.getMut 1).1.items = [(2, 20), (1, 10)] := by decide
example : (((new 3 : Cache Nat Nat).insert 1 10 |>.1.insert 2 20).1.insert 1 11).1.items = [(2, 20), (1, 11)] := by decide
end Examples

end Lru
