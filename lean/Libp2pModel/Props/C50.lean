import Libp2pModel.Proofs.C50Machine
/-!
# C50 — AutoNAT servers dial back only the requester's observed IP: property theorems

Part 1: `filter_valid_addrs` (every address list, every observed address, every peer).
Part 2: the server state machine (every op sequence, by induction): single flight and throttling.
-/
namespace C50

/-! ## Part 1 — `filter_valid_addrs` -/

/-- The observed IP really is an IP component of the observed address (the first one). -/
theorem observedIp_spec (obs : Maddr) (ip : Proto) (h : observedIp obs = some ip) :
    ip.isIp = true ∧ ∃ pre post, obs = pre ++ ip :: post ∧ ∀ p ∈ pre, p.isIp = false := by
  unfold observedIp at h
  induction obs with
  | nil => simp at h
  | cons x t ih =>
    by_cases hx : x.isIp = true
    · simp only [List.find?_cons, hx, Option.some.injEq] at h
      subst h
      exact ⟨hx, [], t, rfl, by simp⟩
    · simp only [List.find?_cons, hx] at h
      obtain ⟨h1, pre, post, rfl, h2⟩ := ih h
      refine ⟨h1, x :: pre, post, rfl, ?_⟩
      intro p hp
      rcases List.mem_cons.1 hp with rfl | hp
      · simpa using hx
      · exact h2 p hp

/-- Characterisation of the returned list: exactly the rewritings of the demanded addresses. -/
theorem filter_mem_iff (peer : Peer) (demanded : List Maddr) (obs : Maddr) (ip : Proto)
    (hip : observedIp obs = some ip) (a : Maddr) :
    a ∈ filterValidAddrs peer demanded obs ↔ ∃ d ∈ demanded, rewriteOne peer ip d = some a := by
  unfold filterValidAddrs
  rw [hip]
  simp only
  rw [mem_collect]
  simp

/-- **All IP components** of every returned address equal the observed IP. -/
theorem all_ips_observed (peer : Peer) (demanded : List Maddr) (obs : Maddr) (ip : Proto)
    (hip : observedIp obs = some ip) :
    ∀ a ∈ filterValidAddrs peer demanded obs, ∀ p ∈ a, p.isIp = true → p = ip := by
  intro a ha
  exact ((addrOk_iff peer ip a).1 (filter_addrOk peer demanded obs ip hip a ha)).1

/-- No returned address contains a relay hop. -/
theorem no_relay (peer : Peer) (demanded : List Maddr) (obs : Maddr) :
    ∀ a ∈ filterValidAddrs peer demanded obs, Proto.p2pCircuit ∉ a := by
  intro a ha
  cases hip : observedIp obs with
  | none => simp [filterValidAddrs, hip] at ha
  | some ip => exact ((addrOk_iff peer ip a).1 (filter_addrOk peer demanded obs ip hip a ha)).2.1

/-- Every returned address ends with `/p2p/<requester>`. -/
theorem ends_with_peer (peer : Peer) (demanded : List Maddr) (obs : Maddr) :
    ∀ a ∈ filterValidAddrs peer demanded obs, a.getLast? = some (Proto.p2p peer) := by
  intro a ha
  cases hip : observedIp obs with
  | none => simp [filterValidAddrs, hip] at ha
  | some ip => exact ((addrOk_iff peer ip a).1 (filter_addrOk peer demanded obs ip hip a ha)).2.2

/-- The returned list is duplicate-free. -/
theorem distinct (peer : Peer) (demanded : List Maddr) (obs : Maddr) :
    (filterValidAddrs peer demanded obs).Nodup := filter_nodup peer demanded obs

/-- Without an observed IP nothing is dialed. -/
theorem no_observed_ip_no_addrs (peer : Peer) (demanded : List Maddr) (obs : Maddr)
    (h : observedIp obs = none) : filterValidAddrs peer demanded obs = [] := by
  simp [filterValidAddrs, h]

/-- Nothing but the rewrite happens: a returned address is a demanded address with its first IP
component replaced by the observed IP, optionally suffixed with `/p2p/<requester>`; in particular it
does contain the observed IP (the IP clause is not vacuous). -/
theorem rewrite_shape (peer : Peer) (demanded : List Maddr) (obs : Maddr) (ip : Proto)
    (hip : observedIp obs = some ip) :
    ∀ a ∈ filterValidAddrs peer demanded obs, ∃ pre x post, (pre ++ x :: post) ∈ demanded ∧
      (∀ p ∈ pre, p.isIp = false) ∧ x.isIp = true ∧
      (a = pre ++ ip :: post ∨ a = pre ++ ip :: post ++ [Proto.p2p peer]) ∧ ip ∈ a := by
  intro a ha
  obtain ⟨d, hd, hr⟩ := (filter_mem_iff peer demanded obs ip hip a).1 ha
  obtain ⟨pre, x, post, rfl, h1, h2, h3⟩ := rewriteOne_shape peer ip d a hr
  refine ⟨pre, x, post, hd, h1, h2, h3, ?_⟩
  rcases h3 with rfl | rfl <;> simp

/-- The executable Spec (the oracle run on the implementation's outputs) accepts the model. -/
theorem spec_filter (peer : Peer) (demanded : List Maddr) (obs : Maddr) :
    specFilter peer obs (filterValidAddrs peer demanded obs) = true := by
  unfold specFilter
  cases hip : observedIp obs with
  | none => simp [no_observed_ip_no_addrs peer demanded obs hip]
  | some ip =>
    simp only [Bool.and_eq_true, List.all_eq_true]
    exact ⟨filter_addrOk peer demanded obs ip hip, (nodupB_iff _).2 (distinct peer demanded obs)⟩

/-- …and the Spec means the property: anything it accepts satisfies all four clauses. -/
theorem spec_filter_sound (peer : Peer) (obs : Maddr) (res : List Maddr) (h : specFilter peer obs res = true) :
    (observedIp obs = none → res = []) ∧
    (∀ ip, observedIp obs = some ip → ∀ a ∈ res,
      (∀ p ∈ a, p.isIp = true → p = ip) ∧ Proto.p2pCircuit ∉ a ∧ a.getLast? = some (Proto.p2p peer)) ∧
    (observedIp obs ≠ none → res.Nodup) := by
  unfold specFilter at h
  cases hip : observedIp obs with
  | none => rw [hip] at h; simp at h; simp [h]
  | some ip =>
    rw [hip] at h
    simp only [Bool.and_eq_true, List.all_eq_true] at h
    refine ⟨by simp, ?_, fun _ => (nodupB_iff _).1 h.2⟩
    intro ip' hip' a ha
    cases hip'
    exact (addrOk_iff peer ip a).1 (h.1 a ha)

/-! ### the pre-fix function violates the property (documentation of the two defects) -/

/-- Before the fix only the FIRST IP component was replaced: a second IP component chosen by the
requester survived into the dial-back address. -/
theorem second_ip_buggy_counterexample :
    filterValidAddrsBuggy [1] [[.ip4 16909060, .tcp 1, .ip4 16909060, .tcp 2]] [.ip4 134744072, .tcp 7]
      = [[.ip4 134744072, .tcp 1, .ip4 16909060, .tcp 2, .p2p [1]]] ∧
    filterValidAddrs [1] [[.ip4 16909060, .tcp 1, .ip4 16909060, .tcp 2]] [.ip4 134744072, .tcp 7] = [] := by
  decide

/-- Before the fix `/p2p/<requester>` was appended only if no `/p2p` occurred ANYWHERE: with one in
the middle the address did not end with the requester's id. -/
theorem p2p_in_middle_buggy_counterexample :
    filterValidAddrsBuggy [1] [[.ip4 16909060, .p2p [1], .tcp 1]] [.ip4 134744072, .tcp 7]
      = [[.ip4 134744072, .p2p [1], .tcp 1]] ∧
    filterValidAddrs [1] [[.ip4 16909060, .p2p [1], .tcp 1]] [.ip4 134744072, .tcp 7]
      = [[.ip4 134744072, .p2p [1], .tcp 1, .p2p [1]]] := by
  decide

/-! ## Part 2 — the server state machine -/

/-- the states reachable from the initial state by any op sequence -/
def reach (cfg : Cfg) (ops : List Op) : St := Machine.exec (step cfg) St.init ops

theorem reach_R (cfg : Cfg) : ∀ (ops : List Op) (st : St) (m : Mon), R cfg st m →
    ∃ m', R cfg (Machine.exec (step cfg) st ops) m' := by
  intro ops
  induction ops with
  | nil => intro st m h; exact ⟨m, h⟩
  | cons op ops ih =>
    intro st m h
    exact ih _ _ (step_refines cfg st m op h).2

/-- **The trace monitor accepts every run of the server**: for every op sequence, every
`ToSwarm::Dial` the server emits (a) is for a peer without a dial-back in flight, (b) keeps the
number of dial-backs started within the last `throttle_clients_period` below the global and the
per-peer maximum, (c) carries between 1 and `max_peer_addresses` distinct addresses, all of which
use only the IP observed on one of the requester's current connections, contain no relay hop and end
with the requester's peer id. -/
theorem monitor_accepts_model (cfg : Cfg) (ops : List Op) :
    (monRun cfg Mon.init (trace cfg St.init ops)).2 = none :=
  monRun_trace cfg ops St.init Mon.init (R_init cfg)

/-- **Dialed addresses**, stated directly on a step from ANY state: a `Dial` is only emitted for a
request, to the requesting peer, and every address satisfies the per-address property for the first
IP component of the observed address of one of that peer's connections. -/
theorem dial_addresses (cfg : Cfg) (st : St) (op : Op) (probe : Nat) (p : Peer) (as : List Maddr)
    (h : (step cfg st op).2 = .dial probe p as) :
    ∃ reqId addrs conns obs ip, op = .request p p reqId addrs ∧
      lookup st.connected p = some conns ∧ (∃ c ∈ conns, c.2 = some obs) ∧ observedIp obs = some ip ∧
      as ≠ [] ∧ as.length ≤ cfg.maxPeerAddresses ∧ as.Nodup ∧
      ∀ a ∈ as, (∀ q ∈ a, q.isIp = true → q = ip) ∧ Proto.p2pCircuit ∉ a ∧
        a.getLast? = some (Proto.p2p p) := by
  cases op with
  | advance dt => simp [step] at h
  | connEstablished peer conn observed dialed =>
    cases dialed with
    | none => simp [step] at h
    | some a =>
      simp only [step, onOutboundConnection] at h
      repeat' split at h
      all_goals simp at h
  | connClosed peer conn remaining =>
    simp only [step] at h
    repeat' split at h
    all_goals simp at h
  | inboundFailure peer reqId =>
    simp only [step] at h
    repeat' split at h
    all_goals simp at h
  | responseSent peer reqId => simp [step] at h
  | dialFailure peer =>
    cases peer with
    | none => simp [step] at h
    | some peer =>
      simp only [step] at h
      repeat' split at h
      all_goals simp at h
  | request peer reqPeer reqId addrs =>
    simp only [step] at h
    split at h
    · simp at h
    · split at h
      · rename_i thr as' hres
        simp only [Out.dial.injEq] at h
        obtain ⟨rfl, rfl, rfl⟩ := h
        obtain ⟨hrp, _, _, _, _, conns, obs, hconns, hobs, has, hne⟩ :=
          resolve_ok cfg _ peer reqPeer addrs as' thr hres
        subst hrp
        cases hip : observedIp obs with
        | none =>
          exfalso; apply hne; rw [has]; unfold filterValidAddrs; rw [hip]; simp
        | some ip =>
          refine ⟨reqId, addrs, conns, obs, ip, rfl, hconns, firstObserved_mem conns obs hobs, hip, hne, ?_, ?_, ?_⟩
          · rw [has]; simp [List.length_take]; omega
          · rw [has]; exact List.Nodup.sublist (List.take_sublist _ _) (filter_nodup _ _ _)
          · intro a ha
            rw [has] at ha
            exact (addrOk_iff reqPeer ip a).1 (filter_addrOk reqPeer addrs obs ip hip a (List.mem_of_mem_take ha))
      · simp at h

/-- **Single flight**: in every reachable state there is at most one ongoing dial-back per peer, … -/
theorem ongoing_unique (cfg : Cfg) (ops : List Op) :
    ((reach cfg ops).ongoing.map (·.1)).Nodup := by
  obtain ⟨m, hR⟩ := reach_R cfg ops St.init Mon.init (R_init cfg)
  exact hR.keys

/-- … a dial-back is started only for a peer that has none ongoing, and it is ongoing afterwards
(until the dial succeeds, fails, or the inbound request fails — the only ops that erase entries). -/
theorem single_flight (cfg : Cfg) (st : St) (op : Op) (probe : Nat) (p : Peer) (as : List Maddr)
    (h : (step cfg st op).2 = .dial probe p as) :
    hasKey st.ongoing p = false ∧ hasKey (step cfg st op).1.ongoing p = true := by
  obtain ⟨reqId, addrs, _, _, _, rfl, _⟩ := dial_addresses cfg st op probe p as h
  simp only [step] at h ⊢
  split at h
  · simp at h
  · rename_i hc
    split at h
    · rename_i thr as' hres
      obtain ⟨_, hk, _⟩ := resolve_ok cfg _ p p addrs as' thr hres
      simp only [hc, hres]
      refine ⟨hk, ?_⟩
      simp [hasKey, insert]
    · simp at h

/-- the monitor's final state after a run of the model, and the model's final state, are coupled -/
theorem run_coupled (cfg : Cfg) (ops : List Op) :
    R cfg (reach cfg ops) (monRun cfg Mon.init (trace cfg St.init ops)).1 :=
  (monRun_trace_R cfg ops St.init Mon.init (R_init cfg)).2

theorem countPeer_map_req (l : List (Peer × Ongoing)) (p : Peer) (hn : (l.map (·.1)).Nodup) :
    countPeer (l.map (fun e => (e.1, e.2.req))) p = if hasKey l p then 1 else 0 := by
  induction l with
  | nil => simp [countPeer, hasKey]
  | cons e t ih =>
    simp only [List.map_cons, List.nodup_cons] at hn
    have ih' := ih hn.2
    unfold countPeer hasKey at ih' ⊢
    by_cases hk : (e.1 == p) = true
    · have hkp : e.1 = p := by simpa using hk
      have hnot : t.any (fun e => e.1 == p) = false := by
        rw [List.any_eq_false]
        intro x hx hxp
        apply hn.1
        have : x.1 = p := by simpa using hxp
        rw [hkp, ← this]
        exact List.mem_map_of_mem hx
      rw [hnot] at ih'
      simp only [Bool.false_eq_true, ↓reduceIte] at ih'
      simp only [List.map_cons, List.filter_cons, hk, ↓reduceIte, List.length_cons, List.any_cons,
        Bool.true_or]
      omega
    · simp only [List.map_cons, List.filter_cons, hk, Bool.false_eq_true, ↓reduceIte, List.any_cons,
        Bool.false_or]
      exact ih'

/-- **At most one dial-back per peer**, for every op history. `inflightCount` is computed by the
monitor from the (op, output) trace alone: +1 for every emitted `Dial` to `p`, back to 0 when the
dial to `p` succeeds or fails, or when the inbound request that STARTED the dial-back fails (a
failure of any other request of `p` finishes nothing). It never exceeds 1, and it is 1 exactly when
`ongoing_inbound` has an entry for `p`. -/
theorem at_most_one_dialback_per_peer (cfg : Cfg) (ops : List Op) (p : Peer) :
    inflightCount (monRun cfg Mon.init (trace cfg St.init ops)).1 p ≤ 1 ∧
      (inflightCount (monRun cfg Mon.init (trace cfg St.init ops)).1 p = 1 ↔
        hasKey (reach cfg ops).ongoing p = true) := by
  have hR := run_coupled cfg ops
  unfold inflightCount
  rw [hR.inflight, countPeer_map_req _ p hR.keys]
  cases hasKey (reach cfg ops).ongoing p <;> simp

/-- the Spec clause evaluated on the implementation after every op (`ongoingOk`: key set of
`ongoing_inbound` = peers with exactly one dial-back in flight) accepts the model -/
theorem ongoing_ok (cfg : Cfg) (ops : List Op) :
    ongoingOk (monRun cfg Mon.init (trace cfg St.init ops)).1 ((reach cfg ops).ongoing.map (·.1)) = true := by
  have hR := run_coupled cfg ops
  have hcount := fun p => at_most_one_dialback_per_peer cfg ops p
  unfold ongoingOk
  simp only [Bool.and_eq_true, List.all_eq_true, beq_iff_eq, List.contains_eq_mem, decide_eq_true_eq]
  constructor
  · intro p hp
    apply (hcount p).2.2
    unfold hasKey
    rw [List.any_eq_true]
    simp only [List.mem_map] at hp
    obtain ⟨e, he, rfl⟩ := hp
    exact ⟨e, he, by simp⟩
  · intro e he
    rw [hR.inflight] at he
    simp only [List.mem_map] at he
    obtain ⟨e', he', rfl⟩ := he
    refine ⟨List.mem_map_of_mem he', ?_⟩
    apply (hcount e'.1).2.2
    unfold hasKey
    rw [List.any_eq_true]
    exact ⟨e', he', by simp⟩

/-- **Throttling**, stated directly on a step from ANY state: when a dial-back is started, fewer than
`throttle_clients_global_max` entries — and fewer than `throttle_clients_peer_max` for that peer —
remain in `throttled_clients` after purging (so at most the maxima including the new one). -/
theorem throttle_at_dial (cfg : Cfg) (st : St) (op : Op) (probe : Nat) (p : Peer) (as : List Maddr)
    (h : (step cfg st op).2 = .dial probe p as) :
    (purge cfg.period st.now st.throttled).length < cfg.globalMax ∧
      countPeer (purge cfg.period st.now st.throttled) p < cfg.peerMax ∧
      (step cfg st op).1.throttled = purge cfg.period st.now st.throttled ++ [(p, st.now)] := by
  obtain ⟨reqId, addrs, _, _, _, rfl, _⟩ := dial_addresses cfg st op probe p as h
  simp only [step] at h ⊢
  split at h
  · simp at h
  · rename_i hc
    split at h
    · rename_i thr as' hres
      obtain ⟨_, _, hthr, hg, hpm, _⟩ := resolve_ok cfg _ p p addrs as' thr hres
      simp only [hc, hres]
      simp only at hthr
      subst hthr
      exact ⟨hg, hpm, rfl⟩
    · simp at h

/-- `throttled_clients` is always ordered by time and never ahead of the clock — the precondition
under which `partition_point` + `drain` is the `dropWhile` of the model, and under which the purge
removes exactly the expired entries. -/
theorem throttled_sorted (cfg : Cfg) (ops : List Op) :
    (reach cfg ops).throttled.Pairwise (fun a b => a.2 ≤ b.2) ∧
      ∀ e ∈ (reach cfg ops).throttled, e.2 ≤ (reach cfg ops).now := by
  apply Machine.invariant_of_step (step cfg)
    (fun st => st.throttled.Pairwise (fun a b => a.2 ≤ b.2) ∧ ∀ e ∈ st.throttled, e.2 ≤ st.now)
  · intro st op ⟨hs, hn⟩
    have hpurge : (purge cfg.period st.now st.throttled).Sublist st.throttled := by
      unfold purge; exact (List.dropWhile_suffix _).sublist
    cases op with
    | advance dt => exact ⟨hs, fun e he => Nat.le_trans (hn e he) (Nat.le_add_right _ _)⟩
    | connEstablished peer conn observed dialed =>
      cases dialed with
      | none => exact ⟨hs, hn⟩
      | some a =>
        simp only [step, onOutboundConnection]
        repeat' split
        all_goals exact ⟨hs, hn⟩
    | connClosed peer conn remaining =>
      simp only [step]
      repeat' split
      all_goals exact ⟨hs, hn⟩
    | inboundFailure peer reqId =>
      simp only [step]
      repeat' split
      all_goals exact ⟨hs, hn⟩
    | responseSent peer reqId => exact ⟨hs, hn⟩
    | dialFailure peer =>
      cases peer with
      | none => exact ⟨hs, hn⟩
      | some peer =>
        simp only [step]
        repeat' split
        all_goals exact ⟨hs, hn⟩
    | request peer reqPeer reqId addrs =>
      simp only [step]
      split
      · exact ⟨hs, hn⟩
      · split
        · rename_i thr as' hres
          have hthr := resolve_err_thr cfg { st with probeId := st.probeId + 1 } peer reqPeer addrs
          rw [hres] at hthr
          simp only at hthr
          subst hthr
          refine ⟨?_, ?_⟩
          · simp only
            rw [List.pairwise_append]
            refine ⟨hs.sublist hpurge, by simp, ?_⟩
            intro a ha b hb
            simp only [List.mem_singleton] at hb
            subst hb
            exact hn a (hpurge.subset ha)
          · intro e he
            simp only at he
            rcases List.mem_append.1 he with he | he
            · exact hn e (hpurge.subset he)
            · simp at he; subst he; exact Nat.le_refl _
        · rename_i thr e hres
          have hthr := resolve_err_thr cfg { st with probeId := st.probeId + 1 } peer reqPeer addrs
          rw [hres] at hthr
          simp only at hthr
          subst hthr
          exact ⟨hs.sublist hpurge, fun e he => hn e (hpurge.subset he)⟩
  · exact ⟨by simp [St.init], by simp [St.init]⟩

/-- After the purge no expired entry is left (uses the ordering): the entries counted against the
limits are exactly the dial-backs of the last `throttle_clients_period`. -/
theorem purge_exact (period now : Nat) (l : List (Peer × Nat)) (hs : l.Pairwise (fun a b => a.2 ≤ b.2)) :
    purge period now l = live period now l := by
  induction l with
  | nil => rfl
  | cons a t ih =>
    rw [List.pairwise_cons] at hs
    unfold purge live
    by_cases ha : a.2 + period < now
    · simp only [List.dropWhile_cons, ha, decide_true, ↓reduceIte, List.filter_cons, Bool.not_true,
        Bool.false_eq_true]
      exact ih hs.2
    · simp only [List.dropWhile_cons, ha, decide_false, Bool.false_eq_true, ↓reduceIte]
      symm
      rw [List.filter_eq_self]
      intro e he
      rcases List.mem_cons.1 he with rfl | he
      · simp [ha]
      · have := hs.1 e he
        simp only [Bool.not_eq_eq_eq_not, Bool.not_true, decide_eq_false_iff_not, Nat.not_lt]
        omega

/-! ### sliding-window form of the throttle limits (a theorem about the monitor = about the Spec) -/

/-- dial-backs logged with start time in `[s, s + period]` -/
def window (period s : Nat) (log : List (Peer × Nat)) : List (Peer × Nat) :=
  log.filter (fun e => decide (s ≤ e.2) && decide (e.2 ≤ s + period))

theorem filter_sublist_filter {α} (p q : α → Bool) (h : ∀ x, p x = true → q x = true) :
    ∀ l : List α, (l.filter p).Sublist (l.filter q)
  | [] => by simp
  | a :: t => by
    simp only [List.filter_cons]
    by_cases hp : p a = true
    · simp only [hp, h a hp, ↓reduceIte]; exact (filter_sublist_filter p q h t).cons_cons _
    · simp only [hp, Bool.false_eq_true, ↓reduceIte]
      by_cases hq : q a = true
      · simp only [hq, ↓reduceIte]; exact (filter_sublist_filter p q h t).cons _
      · simp only [hq, Bool.false_eq_true, ↓reduceIte]; exact filter_sublist_filter p q h t

theorem window_sub_live (period s now : Nat) (log : List (Peer × Nat)) (h : now ≤ s + period) :
    (window period s log).Sublist (live period now log) := by
  unfold window live
  apply filter_sublist_filter
  intro e he
  simp only [Bool.and_eq_true, decide_eq_true_eq] at he
  simp only [Bool.not_eq_eq_eq_not, Bool.not_true, decide_eq_false_iff_not, Nat.not_lt]
  omega

theorem window_append (period s : Nat) (a b : List (Peer × Nat)) :
    window period s (a ++ b) = window period s a ++ window period s b := by simp [window]

theorem countPeer_append (a b : List (Peer × Nat)) (p : Peer) :
    countPeer (a ++ b) p = countPeer a p + countPeer b p := by simp [countPeer]

/-- window bounds on a log -/
def WindowedLog (cfg : Cfg) (log : List (Peer × Nat)) : Prop :=
  ∀ s, (window cfg.period s log).length ≤ cfg.globalMax ∧
    ∀ p, countPeer (window cfg.period s log) p ≤ cfg.peerMax

/-- window bounds on the monitor's log -/
def Windowed (cfg : Cfg) (m : Mon) : Prop := WindowedLog cfg m.log

/-- appending a dial-back that passed the monitor's throttle checks keeps every window bounded -/
theorem windowed_append (cfg : Cfg) (log : List (Peer × Nat)) (peer : Peer) (now : Nat)
    (hW : WindowedLog cfg log)
    (hg : (live cfg.period now log).length < cfg.globalMax)
    (hp : countPeer (live cfg.period now log) peer < cfg.peerMax) :
    WindowedLog cfg (log ++ [(peer, now)]) := by
  intro s
  rw [window_append]
  by_cases hin : s ≤ now ∧ now ≤ s + cfg.period
  · have hsingle : window cfg.period s [(peer, now)] = [(peer, now)] := by
      unfold window
      rw [List.filter_eq_self]
      intro e he
      simp only [List.mem_singleton] at he
      subst he
      simp only [Bool.and_eq_true, decide_eq_true_eq]
      exact hin
    have hsub := window_sub_live cfg.period s now log hin.2
    rw [hsingle]
    refine ⟨?_, ?_⟩
    · rw [List.length_append]
      have := hsub.length_le
      simp only [List.length_cons, List.length_nil]
      omega
    · intro p
      rw [countPeer_append]
      have h2 : countPeer (window cfg.period s log) p ≤ countPeer (live cfg.period now log) p := by
        unfold countPeer; exact (hsub.filter _).length_le
      by_cases hpp : peer = p
      · subst hpp
        have : countPeer [(peer, now)] peer = 1 := by simp [countPeer]
        omega
      · have : countPeer [(peer, now)] p = 0 := by simp [countPeer, hpp]
        have := (hW s).2 p
        omega
  · have hsingle : window cfg.period s [(peer, now)] = [] := by
      unfold window
      rw [List.filter_eq_nil_iff]
      intro e he
      simp only [List.mem_singleton] at he
      subst he
      simp only [Bool.and_eq_true, decide_eq_true_eq]
      exact hin
    rw [hsingle, List.append_nil]
    exact hW s

theorem judge_dial_fst (cfg : Cfg) (m : Mon) (probe : Nat) (peer : Peer) (addrs : List Maddr) :
    (judge cfg m (.dial probe peer addrs)).1 =
      { m with inflight := (peer, m.curReq) :: m.inflight, log := m.log ++ [(peer, m.now)] } := by
  unfold judge
  simp only
  repeat' split
  all_goals rfl

theorem judge_dial_acc (cfg : Cfg) (m : Mon) (probe : Nat) (peer : Peer) (addrs : List Maddr)
    (h : (judge cfg m (.dial probe peer addrs)).2 = none) :
    (live cfg.period m.now m.log).length < cfg.globalMax ∧
      countPeer (live cfg.period m.now m.log) peer < cfg.peerMax := by
  unfold judge at h
  simp only at h
  split at h
  · simp at h
  · split at h
    · simp at h
    · split at h
      · simp at h
      · constructor <;> omega

theorem judge_log_other (cfg : Cfg) (m : Mon) (out : Out) (h : ∀ probe peer addrs, out ≠ .dial probe peer addrs) :
    (judge cfg m out).1.log = m.log := by
  cases out with
  | dial probe peer addrs => exact absurd rfl (h probe peer addrs)
  | _ => rfl

theorem windowed_step (cfg : Cfg) (m : Mon) (op : Op) (out : Out) (hW : Windowed cfg m)
    (hacc : (monStep cfg m op out).2 = none) : Windowed cfg (monStep cfg m op out).1 := by
  unfold monStep at hacc ⊢
  have hlog : (monConn m op).log = m.log := by
    cases op <;> simp only [monConn] <;> repeat' split
    all_goals rfl
  have hW1 : Windowed cfg (monConn m op) := by unfold Windowed; rw [hlog]; exact hW
  generalize monConn m op = m1 at hacc hW1 ⊢
  by_cases hd : ∃ probe peer addrs, out = .dial probe peer addrs
  · obtain ⟨probe, peer, addrs, rfl⟩ := hd
    obtain ⟨hg, hp⟩ := judge_dial_acc cfg m1 probe peer addrs hacc
    unfold Windowed
    rw [judge_dial_fst]
    exact windowed_append cfg m1.log peer m1.now hW1 hg hp
  · unfold Windowed
    rw [judge_log_other cfg m1 out (fun probe peer addrs h => hd ⟨probe, peer, addrs, h⟩)]
    exact hW1

/-- **Sliding-window throttle**: in any trace the monitor accepts, every time window of length
`throttle_clients_period` contains at most `throttle_clients_global_max` started dial-backs and at
most `throttle_clients_peer_max` for any single peer. -/
theorem window_of_accepted (cfg : Cfg) : ∀ (tr : List (Op × Out)) (m : Mon), Windowed cfg m →
    (monRun cfg m tr).2 = none → Windowed cfg (monRun cfg m tr).1 := by
  intro tr
  induction tr with
  | nil => intro m h _; exact h
  | cons x tr ih =>
    intro m hW hacc
    obtain ⟨op, out⟩ := x
    simp only [monRun] at hacc ⊢
    have hstep := windowed_step cfg m op out hW
    generalize monStep cfg m op out = ms at hacc hstep ⊢
    obtain ⟨m', v⟩ := ms
    cases v with
    | some k => simp at hacc
    | none => simp only at hacc ⊢; exact ih m' (hstep rfl) hacc

/-- … hence for every run of the server model. -/
theorem throttle_window (cfg : Cfg) (ops : List Op) (s : Nat) :
    (window cfg.period s (monRun cfg Mon.init (trace cfg St.init ops)).1.log).length ≤ cfg.globalMax ∧
      ∀ p, countPeer (window cfg.period s (monRun cfg Mon.init (trace cfg St.init ops)).1.log) p ≤ cfg.peerMax :=
  window_of_accepted cfg _ Mon.init (fun s => by simp [Mon.init, window, countPeer])
    (monitor_accepts_model cfg ops) s

/-! ### non-vacuity -/

/-- a request that IS accepted, rewritten and dialed -/
example :
    (step ⟨16, 30, 3, 1⟩ { St.init with connected := [([1], [(0, some [.ip4 134744072, .tcp 7])])] }
      (.request [1] [1] 0 [[.ip4 16909060, .tcp 4001], [.ip4 16909060, .tcp 4001, .p2p [1]]])).2 =
      .dial 0 [1] [[.ip4 134744072, .tcp 4001, .p2p [1]]] := by decide

/-- the second request of the same peer is refused while the first dial-back is ongoing -/
example :
    (Machine.run (step ⟨16, 30, 3, 1⟩) St.init
      [.connEstablished [1] 0 (some [.ip4 134744072, .tcp 7]) none,
       .request [1] [1] 0 [[.ip4 16909060, .tcp 4001]],
       .request [1] [1] 1 [[.ip4 16909060, .tcp 4001]]]).2 =
      [.nothing, .dial 0 [1] [[.ip4 134744072, .tcp 4001, .p2p [1]]], .refused 1 [1] (some .alreadyOngoing)] := by
  decide

end C50

#print axioms C50.all_ips_observed
#print axioms C50.no_relay
#print axioms C50.ends_with_peer
#print axioms C50.distinct
#print axioms C50.no_observed_ip_no_addrs
#print axioms C50.rewrite_shape
#print axioms C50.filter_mem_iff
#print axioms C50.observedIp_spec
#print axioms C50.spec_filter
#print axioms C50.spec_filter_sound
#print axioms C50.second_ip_buggy_counterexample
#print axioms C50.p2p_in_middle_buggy_counterexample
#print axioms C50.monitor_accepts_model
#print axioms C50.dial_addresses
#print axioms C50.at_most_one_dialback_per_peer
#print axioms C50.ongoing_ok
#print axioms C50.ongoing_unique
#print axioms C50.single_flight
#print axioms C50.throttle_at_dial
#print axioms C50.throttled_sorted
#print axioms C50.purge_exact
#print axioms C50.window_of_accepted
#print axioms C50.throttle_window
