import Libp2pModel.Proofs.C49
import Libp2pModel.Common.Machine
/-!
# C49 — relayed circuits forward faithfully within their limits: property theorems

About `C49.poll` (the model of `CopyFuture::poll`), for every buffer capacity `cap > 0`, every
`max_circuit_bytes`, every pair of input streams, every script of the four `poll_*` calls of both
endpoints (chunkings, `Pending`s, errors, short writes) and every sequence of polls with the timer
firing at any point.
-/
namespace C49

/-- invariant of the circuit, relative to the two input streams `iS` (sent by `S`'s remote, to be
delivered to `D`) and `iD` -/
structure Inv (cap max : Nat) (iS iD : List Nat) (st : St) : Prop where
  /-- delivered to `D` ++ buffered ++ not yet read from `S` = `iS` -/
  preS : st.d.out ++ st.bufS ++ st.s.inp = iS
  preD : st.s.out ++ st.bufD ++ st.d.inp = iD
  capS : st.bufS.length ≤ cap
  capD : st.bufD.length ≤ cap
  /-- `bytes_sent` is exactly what the two sinks accepted -/
  acct : st.sent = st.s.out.length + st.d.out.length
  bound : 0 < max → st.sent ≤ max + 2 * cap

/-- what one run of the `loop` guarantees -/
structure LoopOK (max : Nat) (st st' : St) (lr : LoopRes) : Prop where
  growD : ∃ w, st'.d.out = st.d.out ++ w
  growS : ∃ w, st'.s.out = st.s.out ++ w
  noDiv : lr ≠ .ready .diverged
  noPending : lr ≠ .ready .pending
  enforced : 0 < max → (lr = .brk ∨ lr = .ready .ok) → st'.sent ≤ max
  eof : lr = .ready .ok →
    st'.bufS = [] ∧ st'.bufD = [] ∧ st'.s.inp = [] ∧ st'.d.inp = [] ∧ 1 ≤ st'.s.closes ∧ 1 ≤ st'.d.closes

theorem bytes_of_not_progressed {r : FRes} (h : r.progressed = false) : r.bytes = 0 := by
  cases r with
  | ok n => simp [FRes.progressed] at h; simp [FRes.bytes, h]
  | _ => rfl

theorem ok0_of_done {r : FRes} (h : r.done = true) : r = .ok 0 := by
  cases r with
  | ok n => simp [FRes.done] at h; rw [h]
  | _ => simp [FRes.done] at h

theorem bytes_pos_of_progressed {r : FRes} (h : r.progressed = true) : 1 ≤ r.bytes := by
  cases r with
  | ok n => simp [FRes.progressed] at h; simp [FRes.bytes]; omega
  | _ => simp [FRes.progressed] at h

theorem bytes_of_err (e : Err) : (FRes.err e).bytes = 0 := rfl

theorem pollLoop_spec (cap max : Nat) (hcap : 0 < cap) (iS iD : List Nat) :
    ∀ (fuel : Nat) (st : St), Inv cap max iS iD st → st.measure < fuel →
      Inv cap max iS iD (pollLoop cap max fuel st).1 ∧
      LoopOK max st (pollLoop cap max fuel st).1 (pollLoop cap max fuel st).2 := by
  intro fuel
  induction fuel with
  | zero => intro st _ h; omega
  | succ fuel ih =>
    intro st hinv hm
    unfold pollLoop
    by_cases hhead : 0 < max ∧ max < st.sent
    · simp only [hhead, and_self, ↓reduceIte]
      exact ⟨hinv, ⟨[], by simp⟩, ⟨[], by simp⟩, by simp, by simp, fun _ h => by rcases h with h | h <;> simp at h,
        fun h => by simp at h⟩
    · simp only [hhead, ↓reduceIte]
      have hsent : 0 < max → st.sent ≤ max := fun h => by
        have : ¬ max < st.sent := fun h' => hhead ⟨h, h'⟩
        omega
      have h1 := forward_spec cap hcap st.bufS st.s st.d hinv.capS
      generalize forward cap st.bufS st.s st.d = f1 at h1 ⊢
      obtain ⟨bufS, s1, d1, r1⟩ := f1
      simp only at h1 ⊢
      obtain ⟨w1, hw1, hw1l⟩ := h1.grow
      -- state after the first direction
      have preS1 : d1.out ++ bufS ++ s1.inp = iS := by rw [h1.conserve]; exact hinv.preS
      have preD1 : s1.out ++ st.bufD ++ d1.inp = iD := by rw [h1.srcOut, h1.dstInp]; exact hinv.preD
      split
      · -- first direction failed
        rename_i e
        refine ⟨⟨preS1, preD1, h1.bufCap, hinv.capD, ?_, hinv.bound⟩, ⟨w1, hw1⟩, ⟨[], by simp [h1.srcOut]⟩, by simp, by simp,
          fun _ h => by rcases h with h | h <;> simp at h, fun h => by simp at h⟩
        rw [bytes_of_err] at hw1l
        simp only [h1.srcOut, hw1, List.length_append, hw1l, hinv.acct, Nat.add_zero]
      · have h2 := forward_spec cap hcap st.bufD d1 s1 hinv.capD
        generalize forward cap st.bufD d1 s1 = f2 at h2 ⊢
        obtain ⟨bufD, d2, s2, r2⟩ := f2
        simp only at h2 ⊢
        obtain ⟨w2, hw2, hw2l⟩ := h2.grow
        have preS2 : d2.out ++ bufS ++ s2.inp = iS := by rw [h2.srcOut, h2.dstInp]; exact preS1
        have preD2 : s2.out ++ bufD ++ d2.inp = iD := by rw [h2.conserve]; exact preD1
        have hgrowD : d2.out = st.d.out ++ w1 := by rw [h2.srcOut, hw1]
        have hgrowS : s2.out = st.s.out ++ w2 := by rw [hw2, h1.srcOut]
        have hb1 := h1.bytesCap
        have hb2 := h2.bytesCap
        have hmeas : s2.inp.length + bufS.length + d2.inp.length + bufD.length + (r1.bytes + r2.bytes)
            = st.measure := by
          have m1 := h1.meas
          have m2 := h2.meas
          rw [h2.dstInp]
          rw [h1.dstInp] at m2
          unfold St.measure
          omega
        split
        · -- second direction failed
          rename_i e
          rw [bytes_of_err] at hw2l
          refine ⟨⟨preS2, preD2, h1.bufCap, h2.bufCap, ?_, ?_⟩, ⟨w1, hgrowD⟩, ⟨w2, hgrowS⟩, by simp, by simp,
            fun _ h => by rcases h with h | h <;> simp at h, fun h => by simp at h⟩
          · simp only [hgrowD, hgrowS, List.length_append, hw1l, hw2l, hinv.acct]; omega
          · intro hmax; have := hsent hmax; simp only; omega
        · have hinv' : Inv cap max iS iD ⟨s2, d2, bufS, bufD, st.sent + r1.bytes + r2.bytes⟩ := by
            refine ⟨preS2, preD2, h1.bufCap, h2.bufCap, ?_, ?_⟩
            · simp only [hgrowD, hgrowS, List.length_append, hw1l, hw2l, hinv.acct]; omega
            · intro hmax; have := hsent hmax; simp only; omega
          try simp only
          split
          · -- both directions done
            rename_i hdone
            simp only [Bool.and_eq_true] at hdone
            have e1 := ok0_of_done hdone.1
            have e2 := ok0_of_done hdone.2
            obtain ⟨a1, a2, a3⟩ := h1.done e1
            obtain ⟨b1, b2, b3⟩ := h2.done e2
            refine ⟨hinv', ⟨w1, hgrowD⟩, ⟨w2, hgrowS⟩, by simp, by simp, ?_, ?_⟩
            · intro hmax _
              have := hsent hmax
              rw [e1, e2]; simp only [FRes.bytes]; omega
            · intro _
              refine ⟨a1, b1, by rw [h2.dstInp]; exact a2, b2, by simp only; omega, ?_⟩
              simp only
              rw [h2.srcCloses]; omega
          · split
            · -- progress: loop again
              rename_i _ hprog
              have hpos : 1 ≤ r1.bytes + r2.bytes := by
                simp only [Bool.or_eq_true] at hprog
                rcases hprog with hp | hp
                · have := bytes_pos_of_progressed hp; omega
                · have := bytes_pos_of_progressed hp; omega
              have hm' : St.measure ⟨s2, d2, bufS, bufD, st.sent + r1.bytes + r2.bytes⟩ < fuel := by
                unfold St.measure at hm ⊢
                simp only
                unfold St.measure at hmeas
                omega
              obtain ⟨i1, i2⟩ := ih _ hinv' hm'
              refine ⟨i1, ?_, ?_, i2.noDiv, i2.noPending, i2.enforced, i2.eof⟩
              · obtain ⟨w, hw⟩ := i2.growD
                exact ⟨w1 ++ w, by rw [hw]; simp only; rw [hgrowD, List.append_assoc]⟩
              · obtain ⟨w, hw⟩ := i2.growS
                exact ⟨w2 ++ w, by rw [hw]; simp only; rw [hgrowS, List.append_assoc]⟩
            · -- no progress: break
              rename_i _ hprog
              simp only [Bool.or_eq_true, not_or, Bool.not_eq_true] at hprog
              have z1 := bytes_of_not_progressed hprog.1
              have z2 := bytes_of_not_progressed hprog.2
              refine ⟨hinv', ⟨w1, hgrowD⟩, ⟨w2, hgrowS⟩, by simp, by simp, ?_, fun h => by simp at h⟩
              intro hmax _
              have := hsent hmax
              simp only [z1, z2]; omega

/-- what one `poll` guarantees -/
structure PollOK (max : Nat) (fired : Bool) (st st' : St) (r : PollRes) : Prop where
  growD : ∃ w, st'.d.out = st.d.out ++ w
  growS : ∃ w, st'.s.out = st.s.out ++ w
  noDiv : r ≠ .diverged
  enforced : 0 < max → (r = .pending ∨ r = .ok) → st'.sent ≤ max
  eof : r = .ok →
    st'.bufS = [] ∧ st'.bufD = [] ∧ st'.s.inp = [] ∧ st'.d.inp = [] ∧ 1 ≤ st'.s.closes ∧ 1 ≤ st'.d.closes
  timeout : fired = true → r ≠ .pending

theorem poll_spec (cap max : Nat) (hcap : 0 < cap) (iS iD : List Nat) (fired : Bool) (st : St)
    (hinv : Inv cap max iS iD st) :
    Inv cap max iS iD (poll cap max fired st).1 ∧
    PollOK max fired st (poll cap max fired st).1 (poll cap max fired st).2 := by
  obtain ⟨i1, i2⟩ := pollLoop_spec cap max hcap iS iD (st.measure + 1) st hinv (Nat.lt_succ_self _)
  unfold poll
  generalize pollLoop cap max (st.measure + 1) st = res at i1 i2 ⊢
  obtain ⟨st', lr⟩ := res
  simp only at i1 i2 ⊢
  cases lr with
  | ready r =>
    have hnp : r ≠ .pending := fun h => i2.noPending (congrArg LoopRes.ready h)
    refine ⟨i1, i2.growD, i2.growS, fun h => i2.noDiv (congrArg LoopRes.ready h), ?_, ?_, fun _ => hnp⟩
    · intro hmax h
      rcases h with h | h
      · exact absurd h hnp
      · exact i2.enforced hmax (Or.inr (congrArg LoopRes.ready h))
    · intro h; exact i2.eof (congrArg LoopRes.ready h)
  | brk =>
    refine ⟨i1, i2.growD, i2.growS, ?_, ?_, ?_, ?_⟩
    · cases fired <;> simp
    · intro hmax _; exact i2.enforced hmax (Or.inl rfl)
    · cases fired <;> simp
    · intro h; subst h; simp

/-! ## the property, over whole poll sequences -/

/-- one op of the circuit's life: a `poll` with the timer fired or not -/
def step (cap max : Nat) (st : St) (fired : Bool) : St × PollRes := poll cap max fired st

theorem Inv.init (cap max : Nat) (s d : End) (hs : s.out = []) (hd : d.out = []) :
    Inv cap max s.inp d.inp (St.init s d) :=
  ⟨by simp [St.init, hd], by simp [St.init, hs], by simp [St.init], by simp [St.init],
   by simp [St.init, hs, hd], fun _ => by simp [St.init]⟩

/-- the invariant holds after any number of polls -/
theorem inv_reachable (cap max : Nat) (hcap : 0 < cap) (s d : End) (hs : s.out = []) (hd : d.out = [])
    (flags : List Bool) :
    Inv cap max s.inp d.inp (Machine.exec (step cap max) (St.init s d) flags) :=
  Machine.invariant_of_step (step cap max) (Inv cap max s.inp d.inp)
    (fun st f h => (poll_spec cap max hcap s.inp d.inp f st h).1) flags _ (Inv.init cap max s d hs hd)

/-- **`prefix`**: at every point, what `D`'s sink has accepted is an exact prefix (same bytes, same
order, nothing inserted, dropped or duplicated) of what `S`'s remote sent, and vice versa. -/
theorem «prefix» (cap max : Nat) (hcap : 0 < cap) (s d : End) (hs : s.out = []) (hd : d.out = [])
    (flags : List Bool) :
    let st := Machine.exec (step cap max) (St.init s d) flags
    (∃ rest, st.d.out ++ rest = s.inp) ∧ (∃ rest, st.s.out ++ rest = d.inp) := by
  have h := inv_reachable cap max hcap s d hs hd flags
  exact ⟨⟨_, by rw [← List.append_assoc]; exact h.preS⟩, ⟨_, by rw [← List.append_assoc]; exact h.preD⟩⟩

/-- **`limit`**: with `max_circuit_bytes > 0`, after any history, a `poll` that does not end the
circuit with an error (`Pending` or `Ok`) leaves at most `max` bytes forwarded in total, i.e. once
more than `max` bytes have been forwarded the future ends with an error; and never more than
`max + 2·cap` bytes (one read buffer per direction beyond the limit) reach the two sinks. -/
theorem limit (cap max : Nat) (hcap : 0 < cap) (hmax : 0 < max) (s d : End) (hs : s.out = []) (hd : d.out = [])
    (flags : List Bool) (fired : Bool) :
    let st := Machine.exec (step cap max) (St.init s d) flags
    let st' := (poll cap max fired st).1
    let r := (poll cap max fired st).2
    ((r = .pending ∨ r = .ok) → st'.s.out.length + st'.d.out.length ≤ max) ∧
    st'.s.out.length + st'.d.out.length ≤ max + 2 * cap := by
  have h := inv_reachable cap max hcap s d hs hd flags
  obtain ⟨i1, i2⟩ := poll_spec cap max hcap s.inp d.inp fired _ h
  refine ⟨fun hr => ?_, ?_⟩
  · have := i2.enforced hmax hr
    rw [i1.acct] at this; exact this
  · have := i1.bound hmax
    rw [i1.acct] at this; exact this

/-- **`eof`**: the future returns `Ok(())` only when both inputs were delivered completely and both
sinks were flushed and closed. -/
theorem eof (cap max : Nat) (hcap : 0 < cap) (s d : End) (hs : s.out = []) (hd : d.out = [])
    (flags : List Bool) (fired : Bool) :
    let st := Machine.exec (step cap max) (St.init s d) flags
    let st' := (poll cap max fired st).1
    (poll cap max fired st).2 = .ok →
      st'.d.out = s.inp ∧ st'.s.out = d.inp ∧ 1 ≤ st'.s.closes ∧ 1 ≤ st'.d.closes := by
  have h := inv_reachable cap max hcap s d hs hd flags
  obtain ⟨i1, i2⟩ := poll_spec cap max hcap s.inp d.inp fired _ h
  intro st st' hr
  obtain ⟨a, b, c, e, f, g⟩ := i2.eof hr
  have p1 := i1.preS
  have p2 := i1.preD
  rw [a, c] at p1
  rw [b, e] at p2
  simp only [List.append_nil] at p1 p2
  exact ⟨p1, p2, f, g⟩

/-- **`timeout`**: once the maximum duration has passed, `poll` never returns `Pending` — the
future ends (with `TimedOut` unless it completed or failed in that very poll). -/
theorem timeout (cap max : Nat) (hcap : 0 < cap) (s d : End) (hs : s.out = []) (hd : d.out = [])
    (flags : List Bool) :
    (poll cap max true (Machine.exec (step cap max) (St.init s d) flags)).2 ≠ .pending :=
  (poll_spec cap max hcap s.inp d.inp true _ (inv_reachable cap max hcap s d hs hd flags)).2.timeout rfl

/-- the `loop` of one `poll` always terminates within the model's fuel -/
theorem no_diverge (cap max : Nat) (hcap : 0 < cap) (s d : End) (hs : s.out = []) (hd : d.out = [])
    (flags : List Bool) (fired : Bool) :
    (poll cap max fired (Machine.exec (step cap max) (St.init s d) flags)).2 ≠ .diverged :=
  (poll_spec cap max hcap s.inp d.inp fired _ (inv_reachable cap max hcap s d hs hd flags)).2.noDiv

/-! ## the Spec accepts the model -/

theorem isPrefix_append (a b : List Nat) : isPrefix a (a ++ b) = true := by
  induction a with
  | nil => rfl
  | cons x xs ih => simp [isPrefix, ih]

/-- the model judged by the Spec monitor, poll by poll (as the driver does) -/
def specRun (cap max : Nat) : St → Mon → List Bool → List String
  | _, _, [] => []
  | st, m, f :: fs =>
    let (st', r) := poll cap max f st
    let (m', v) := m.step f r (st'.d.out.drop st.d.out.length) (st'.s.out.drop st.s.out.length)
      st'.s.closes st'.d.closes
    v :: specRun cap max st' m' fs

theorem specRun_ok (cap max : Nat) (hcap : 0 < cap) (iS iD : List Nat) (flags : List Bool) :
    ∀ (st : St) (m : Mon), Inv cap max iS iD st → m.cap = cap → m.max = max → m.inpS = iS → m.inpD = iD →
      m.outD = st.d.out → m.outS = st.s.out → ∀ v ∈ specRun cap max st m flags, v = "ok" := by
  induction flags with
  | nil => intro st m _ _ _ _ _ _ _ v hv; simp [specRun] at hv
  | cons f fs ih =>
    intro st m hinv hc hm hiS hiD hoD hoS v hv
    obtain ⟨i1, i2⟩ := poll_spec cap max hcap iS iD f st hinv
    simp only [specRun] at hv
    generalize hp : poll cap max f st = pr at hv i1 i2
    obtain ⟨st', r⟩ := pr
    simp only at hv i1 i2
    obtain ⟨wD, hwD⟩ := i2.growD
    obtain ⟨wS, hwS⟩ := i2.growS
    have hdD : st'.d.out.drop st.d.out.length = wD := by rw [hwD]; simp
    have hdS : st'.s.out.drop st.s.out.length = wS := by rw [hwS]; simp
    rw [hdD, hdS] at hv
    have hoD' : m.outD ++ wD = st'.d.out := by rw [hoD, hwD]
    have hoS' : m.outS ++ wS = st'.s.out := by rw [hoS, hwS]
    rcases List.mem_cons.1 hv with rfl | hv
    · -- the verdict of this poll
      simp only [Mon.step, hoD', hoS', hc, hm, hiS, hiD]
      have hnd : (r == PollRes.diverged) = false := by
        cases r <;> simp_all [PollOK.noDiv]
        exact absurd rfl i2.noDiv
      have hpre : (isPrefix st'.d.out iS && isPrefix st'.s.out iD) = true := by
        have a : isPrefix st'.d.out iS = true := by
          have := i1.preS; rw [← this, List.append_assoc]; exact isPrefix_append _ _
        have b : isPrefix st'.s.out iD = true := by
          have := i1.preD; rw [← this, List.append_assoc]; exact isPrefix_append _ _
        simp [a, b]
      have hacct := i1.acct
      have hlim : (decide (0 < max) && (r == PollRes.pending || r == PollRes.ok)
          && decide (max < st'.d.out.length + st'.s.out.length)) = false := by
        by_cases hmax : 0 < max
        · by_cases hr : r = .pending ∨ r = .ok
          · have := i2.enforced hmax hr
            have : ¬ max < st'.d.out.length + st'.s.out.length := by omega
            simp [this]
          · have : (r == PollRes.pending || r == PollRes.ok) = false := by
              cases r <;> simp_all
            simp [this]
        · simp [hmax]
      have hover : (decide (0 < max) && decide (max + 2 * cap < st'.d.out.length + st'.s.out.length)) = false := by
        by_cases hmax : 0 < max
        · have := i1.bound hmax
          have : ¬ max + 2 * cap < st'.d.out.length + st'.s.out.length := by omega
          simp [this]
        · simp [hmax]
      have heof : (r == PollRes.ok && !(st'.d.out == iS && st'.s.out == iD && decide (1 ≤ st'.s.closes)
          && decide (1 ≤ st'.d.closes))) = false := by
        by_cases hr : r = .ok
        · obtain ⟨a, b, c, e, g1, g2⟩ := i2.eof hr
          have p1 := i1.preS
          have p2 := i1.preD
          rw [a, c] at p1
          rw [b, e] at p2
          simp only [List.append_nil] at p1 p2
          simp [p1, p2, g1, g2]
        · have : (r == PollRes.ok) = false := by cases r <;> simp_all
          simp [this]
      have hto : (f && r == PollRes.pending) = false := by
        cases f with
        | false => rfl
        | true =>
          have := i2.timeout rfl
          have : (r == PollRes.pending) = false := by cases r <;> simp_all
          simp [this]
      simp [hnd, hpre, hlim, hover, hto]
      intro hr
      obtain ⟨a, b, c, e, g1, g2⟩ := i2.eof hr
      have p1 := i1.preS
      have p2 := i1.preD
      rw [a, c] at p1
      rw [b, e] at p2
      simp only [List.append_nil] at p1 p2
      exact ⟨⟨⟨p1, p2⟩, by omega⟩, by omega⟩
    · exact ih st' (m.step f r wD wS st'.s.closes st'.d.closes).1 i1 (by simp [Mon.step, hc]) (by simp [Mon.step, hm])
        (by simp [Mon.step, hiS]) (by simp [Mon.step, hiD]) (by simp [Mon.step, hoD'])
        (by simp [Mon.step, hoS']) v hv

/-- **the Spec accepts the model**: run from the initial state, every verdict of the monitor the
driver evaluates on the implementation's outputs is `ok` when evaluated on the model's outputs. -/
theorem spec_accepts_model (cap max : Nat) (hcap : 0 < cap) (s d : End) (hs : s.out = []) (hd : d.out = [])
    (flags : List Bool) :
    ∀ v ∈ specRun cap max (St.init s d) ⟨cap, max, s.inp, d.inp, [], []⟩ flags, v = "ok" :=
  specRun_ok cap max hcap s.inp d.inp flags _ _ (Inv.init cap max s d hs hd) rfl rfl rfl rfl
    (by simp [St.init, hd]) (by simp [St.init, hs])

/-! ## non-vacuity -/

/-- 5 bytes one way, 3 the other, no limit: delivered and closed in one poll -/
example : (poll 8 0 false (St.init (End.init [1, 2, 3, 4, 5] [] [] [] []) (End.init [7, 8, 9] [] [] [] []))).2 = .ok := by
  decide
/-- limit 4, buffer 8: the first iteration forwards 5 + 3 bytes, then the loop head errors -/
example : (poll 8 4 false (St.init (End.init [1, 2, 3, 4, 5] [] [] [] []) (End.init [7, 8, 9] [] [] [] []))).2
    = .err .maxBytes := by decide
/-- a stalled source and the timer -/
example : (poll 8 0 true (St.init (End.init [1, 2] [.pending] [] [] []) (End.init [] [] [] [] []))).2
    = .err .timedOut := by decide
example : (poll 8 0 false (St.init (End.init [1, 2] [.pending] [] [] []) (End.init [] [] [] [] []))).2
    = .pending := by decide
/-- a short write leaves the rest buffered: prefix, not everything -/
example : (poll 8 0 false (St.init (End.init [1, 2, 3] [] [] [] []) (End.init [] [] [.take 2, .pending] [] []))).1.d.out
    = [1, 2] := by decide

end C49

#print axioms C49.prefix
#print axioms C49.limit
#print axioms C49.eof
#print axioms C49.timeout
#print axioms C49.no_diverge
#print axioms C49.inv_reachable
#print axioms C49.spec_accepts_model
