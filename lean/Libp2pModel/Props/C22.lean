import Libp2pModel.Proofs.C22
/-!
# C22 — property theorems

`v4_iff` / `v6_iff`: for EVERY 32-bit / 128-bit address, the code's predicate says "not global"
exactly when the address lies in a tier-A row of the IANA special-purpose registries marked not
globally reachable (minus, for IPv6, the globally reachable more-specific rows inside 2001::/23).
The proofs are arithmetic (`a / 2^k = c` per row, `omega`), not enumeration.
`dial_sound` lifts this to `Transport::dial`: refused with `MultiaddrNotSupported(addr)` and no
inner call exactly for non-IP heads and non-global leading IPs; otherwise the inner transport
receives exactly the same address and options, once, and its result is returned.
-/
namespace C22

theorem inAny_iff (w : Nat) (ps : List Prefix) (a : Nat) :
    inAny w ps a = true ↔ ∃ p ∈ ps, p.contains w a = true := by
  simp [inAny, List.any_eq_true]

/-- **IPv4, all 2³² addresses**: `is_global a = false` iff `a` lies in a tier-A non-global row. -/
theorem v4_iff (a : Nat) (h : a < 2 ^ 32) :
    V4.isGlobal a = false ↔ ∃ p ∈ nonGlobal4, p.contains 32 a = true := by
  rw [← inAny_iff, V4.rows a h]
  exact (registry4_rows a).symm

/-- **IPv6, all 2¹²⁸ addresses**: `is_global a = false` iff `a` lies in a tier-A non-global row and
in none of the globally reachable more-specific rows (carve-outs). -/
theorem v6_iff (a : Nat) (h : a < 2 ^ 128) :
    V6.isGlobal a = false ↔
      (∃ p ∈ nonGlobal6, p.contains 128 a = true) ∧ ¬ ∃ q ∈ carveOut6, q.contains 128 a = true := by
  have hreg : registryNonGlobal6 a = true ↔
      (∃ p ∈ nonGlobal6, p.contains 128 a = true) ∧ ¬ ∃ q ∈ carveOut6, q.contains 128 a = true := by
    simp only [registryNonGlobal6, Bool.and_eq_true, Bool.not_eq_true', ← Bool.not_eq_true, inAny_iff]
  rw [← hreg, V6.rows a h, registry6_rows a]
  by_cases hc : V6.carvedOut a = true
  · have hc' := (V6.carved_rows a h).1 hc
    constructor
    · intro hl; exfalso; simp only [hc, not_true_eq_false, and_false, false_or] at hl; omega
    · intro hr; exact absurd hc' hr.2
  · have hc' := mt (V6.carved_rows a h).2 hc
    simp only [hc, Bool.false_eq_true, not_false_eq_true, and_true]
    constructor
    · intro hl; exact ⟨hl, hc'⟩
    · intro hr; exact hr.1

/-- Bool form used by the Spec: the model's verdict IS the registry's. -/
theorem isGlobal4_eq (a : Nat) (h : a < 2 ^ 32) : V4.isGlobal a = !registryNonGlobal4 a := by
  have := (V4.rows a h).trans (registry4_rows a).symm
  cases hg : V4.isGlobal a <;> cases hr : registryNonGlobal4 a <;> simp_all

theorem isGlobal6_eq (a : Nat) (h : a < 2 ^ 128) : V6.isGlobal a = !registryNonGlobal6 a := by
  have h1 := v6_iff a h
  have h2 : registryNonGlobal6 a = true ↔
      (∃ p ∈ nonGlobal6, p.contains 128 a = true) ∧ ¬ ∃ q ∈ carveOut6, q.contains 128 a = true := by
    simp only [registryNonGlobal6, Bool.and_eq_true, Bool.not_eq_true', ← Bool.not_eq_true, inAny_iff]
  have := h1.trans h2.symm
  cases hg : V6.isGlobal a <;> cases hr : registryNonGlobal6 a <;> simp_all

/-- The carve-outs are "more specific" rows: each lies inside 2001::/23 and meets no other
non-global row, so subtracting them only affects 2001::/23. -/
theorem carveouts_inside (a : Nat) (hq : ∃ q ∈ carveOut6, q.contains 128 a = true) :
    ∀ p ∈ nonGlobal6, p.contains 128 a = true → p.name = "2001::/23" := by
  have hc : inAny 128 carveOut6 a = true := (inAny_iff _ _ _).2 hq
  simp only [inAny, carveOut6, Prefix.contains, List.any_cons, List.any_nil, ip6,
    Bool.or_eq_true, beq_iff_eq, Bool.or_false] at hc
  simp only [Nat.reducePow, Nat.reduceMul, Nat.reduceSub, Nat.reduceAdd, Nat.reduceDiv, Nat.div_one] at hc
  intro p hp
  simp only [nonGlobal6, List.mem_cons, List.not_mem_nil, or_false] at hp
  rcases hp with rfl | rfl | rfl | rfl | rfl | rfl | rfl | rfl | rfl <;>
    simp only [Prefix.contains, ip6, beq_iff_eq, Nat.reducePow, Nat.reduceMul, Nat.reduceSub, Nat.reduceAdd,
      Nat.reduceDiv, Nat.div_one] <;> intro hcon <;> first | trivial | (exfalso; omega)

/-- Special-purpose rows the registry marks globally reachable are passed. -/
theorem global_rows_pass4 (a : Nat) (h : a < 2 ^ 32) (hp : ∃ p ∈ global4, p.contains 32 a = true) :
    V4.isGlobal a = true := by
  have hc : inAny 32 global4 a = true := (inAny_iff _ _ _).2 hp
  simp only [inAny, global4, Prefix.contains, List.any_cons, List.any_nil, ip4,
    Bool.or_eq_true, beq_iff_eq, Bool.or_false] at hc
  simp only [Nat.reducePow, Nat.reduceMul, Nat.reduceSub, Nat.reduceAdd, Nat.reduceDiv] at hc
  cases hg : V4.isGlobal a with
  | true => rfl
  | false => have := (V4.rows a h).1 hg; omega

theorem global_rows_pass6 (a : Nat) (h : a < 2 ^ 128) (hp : ∃ p ∈ global6, p.contains 128 a = true) :
    V6.isGlobal a = true := by
  have hc : inAny 128 global6 a = true := (inAny_iff _ _ _).2 hp
  simp only [inAny, global6, Prefix.contains, List.any_cons, List.any_nil, ip6,
    Bool.or_eq_true, beq_iff_eq, Bool.or_false] at hc
  simp only [Nat.reducePow, Nat.reduceMul, Nat.reduceSub, Nat.reduceAdd, Nat.reduceDiv] at hc
  cases hg : V6.isGlobal a with
  | true => rfl
  | false =>
    have := (V6.rows a h).1 hg
    rcases this with h1 | h1 | h1 | h1 | h1 | ⟨h1, _⟩ | h1 | h1 | h1 <;> omega

/-! ## `dial` -/

/-- the leading component, if an IP, is a 32-bit / 128-bit value (always true of a Rust `Multiaddr`) -/
def wfHead (addr : Maddr) : Prop :=
  match addr.head? with
  | some (.ip4 a) => a < 2 ^ 32
  | some (.ip6 a) => a < 2 ^ 128
  | _ => True

/-- "does not start with an IP address, or the leading IP is non-global per the registry" -/
def mustRefuse (addr : Maddr) : Prop :=
  match addr.head? with
  | some (.ip4 a) => ∃ p ∈ nonGlobal4, p.contains 32 a = true
  | some (.ip6 a) => (∃ p ∈ nonGlobal6, p.contains 128 a = true) ∧ ¬ ∃ q ∈ carveOut6, q.contains 128 a = true
  | _ => True

/-- refused ↔ first component is not an IP ∨ the IP is non-global (code predicate) -/
theorem dial_refuses (inner : Maddr → Opts → Res) (addr : Maddr) (opts : Opts) :
    (dial inner addr opts).calls = [] ↔
      (match addr.head? with
       | some (.ip4 a) => V4.isGlobal a = false
       | some (.ip6 a) => V6.isGlobal a = false
       | _ => True) := by
  rcases addr with _ | ⟨p, t⟩
  · simp [dial]
  · cases p <;> simp only [dial, List.head?_cons]
    · rename_i a; cases hg : V4.isGlobal a <;> simp
    · rename_i a; cases hg : V6.isGlobal a <;> simp

/-- a refusal is `MultiaddrNotSupported(addr)` carrying the unchanged address -/
theorem dial_refusal_shape (inner : Maddr → Opts → Res) (addr : Maddr) (opts : Opts)
    (h : (dial inner addr opts).calls = []) : (dial inner addr opts).res = .notSupported addr := by
  unfold dial at *
  split <;> (try split) <;> simp_all

/-- otherwise the inner transport receives exactly the same address and options, once, and its
result is what the caller gets -/
theorem dial_passes (inner : Maddr → Opts → Res) (addr : Maddr) (opts : Opts)
    (h : (dial inner addr opts).calls ≠ []) :
    (dial inner addr opts).calls = [(addr, opts)] ∧ (dial inner addr opts).res = inner addr opts := by
  unfold dial at *
  split <;> (try split) <;> simp_all

/-- **The property for `Transport::dial`**, against the registry: for every address, every
options value and every inner transport. -/
theorem dial_sound (inner : Maddr → Opts → Res) (addr : Maddr) (opts : Opts) (hw : wfHead addr) :
    (mustRefuse addr → dial inner addr opts = ⟨.notSupported addr, []⟩) ∧
    (¬ mustRefuse addr → dial inner addr opts = ⟨inner addr opts, [(addr, opts)]⟩) := by
  rcases addr with _ | ⟨p, t⟩
  · simp [dial, mustRefuse]
  · cases p <;> simp only [dial, mustRefuse, wfHead, List.head?_cons] at *
    · rename_i a
      have := v4_iff a hw
      cases hg : V4.isGlobal a <;> simp_all
    · rename_i a
      have := v6_iff a hw
      generalize ((∃ p ∈ nonGlobal6, p.contains 128 a = true) ∧ ¬ ∃ q ∈ carveOut6, q.contains 128 a = true) = P at this ⊢
      cases hg : V6.isGlobal a <;> simp_all
    all_goals simp

/-! ## sweeps: the run-length form is the same function -/

theorem intervals4_canonical : canonical intervals4 = true := by decide
theorem intervals6_canonical : canonical intervals6 = true := by decide

theorem sweep4_sound (lo hi a : Nat) (h1 : lo ≤ a) (h2 : a ≤ hi) (h : a < 2 ^ 32) :
    inIntervals (sweep4 lo hi) a = !V4.isGlobal a := by
  unfold sweep4
  rw [inIntervals_clip _ _ _ _ h1 h2, isGlobal4_eq a h, Bool.not_not]
  have := (intervals4_rows a).trans (registry4_rows a).symm
  cases h1 : inIntervals intervals4 a <;> cases h2 : registryNonGlobal4 a <;> simp_all

theorem sweep6_sound (lo hi a : Nat) (h1 : lo ≤ a) (h2 : a ≤ hi) (h : a < 2 ^ 128) :
    inIntervals (sweep6 lo hi) a = !V6.isGlobal a := by
  unfold sweep6
  rw [inIntervals_clip _ _ _ _ h1 h2, isGlobal6_eq a h, Bool.not_not]
  have := (intervals6_rows a).trans (registry6_rows a).symm
  cases h1 : inIntervals intervals6 a <;> cases h2 : registryNonGlobal6 a <;> simp_all

/-! ## the executable Spec accepts the model -/

theorem spec_dial (inner : Maddr → Opts → Res) (addr : Maddr) (opts : Opts) (hw : wfHead addr) :
    spec inner addr opts (dial inner addr opts) = true := by
  rcases addr with _ | ⟨p, t⟩
  · simp [spec, demand, dial, isRefusal]
  · cases p <;> simp only [spec, demand, dial, wfHead, List.head?_cons] at *
    · rename_i a
      simp only [demand4, isGlobal4_eq a hw]
      cases hr : registryNonGlobal4 a <;> cases he : inAny 32 either4 a <;> simp [isRefusal, isPass]
    · rename_i a
      simp only [demand6, isGlobal6_eq a hw]
      cases hr : registryNonGlobal6 a <;> cases he : inAny 128 either6 a <;> simp [isRefusal, isPass]
    all_goals simp [isRefusal]

theorem agrees_sweep4 (lo hi a : Nat) (h1 : lo ≤ a) (h2 : a ≤ hi) (hh : hi < 2 ^ 32) :
    agrees 32 (sweep4 lo hi) a = true := by
  have ha : a < 2 ^ 32 := by omega
  unfold agrees demandW demand4
  simp only [↓reduceIte]
  split
  · rename_i d hd
    split at hd
    · simp at hd
    · simp only [Option.some.injEq] at hd
      rw [sweep4_sound lo hi a h1 h2 ha, isGlobal4_eq a ha, ← hd]; simp
  · rfl

theorem agrees_sweep6 (lo hi a : Nat) (h1 : lo ≤ a) (h2 : a ≤ hi) (hh : hi < 2 ^ 128) :
    agrees 128 (sweep6 lo hi) a = true := by
  have ha : a < 2 ^ 128 := by omega
  unfold agrees demandW demand6
  simp only [show ¬ (128 = 32) by decide, ↓reduceIte]
  split
  · rename_i d hd
    split at hd
    · simp at hd
    · simp only [Option.some.injEq] at hd
      rw [sweep6_sound lo hi a h1 h2 ha, isGlobal6_eq a ha, ← hd]; simp
  · rfl

theorem specSweep4_model (lo hi : Nat) (hh : hi < 2 ^ 32) : specSweep 32 lo hi (sweep4 lo hi) = true := by
  unfold specSweep
  simp only [Bool.and_eq_true, List.all_eq_true, List.mem_filter, decide_eq_true_eq, and_imp]
  refine ⟨clip_within _ _ _, ?_⟩
  intro a _ h1 h2
  exact agrees_sweep4 lo hi a h1 h2 hh

theorem specSweep6_model (lo hi : Nat) (hh : hi < 2 ^ 128) : specSweep 128 lo hi (sweep6 lo hi) = true := by
  unfold specSweep
  simp only [Bool.and_eq_true, List.all_eq_true, List.mem_filter, decide_eq_true_eq, and_imp]
  refine ⟨clip_within _ _ _, ?_⟩
  intro a _ h1 h2
  exact agrees_sweep6 lo hi a h1 h2 hh

/-! ## non-vacuity -/
example : V4.isGlobal (ip4 8 8 8 8) = true := by decide
example : V4.isGlobal (ip4 100 64 0 0) = false := by decide
example : V4.isGlobal (ip4 100 63 255 255) = true := by decide
example : V6.isGlobal (ip6 0x2001 1 0 0 0 0 0 1) = true := by decide
example : V6.isGlobal (ip6 0x2001 1 0 0 0 0 0 3) = false := by decide
example : V6.isGlobal (ip6 0x3fff 0 0 0 0 0 0 1) = true := by decide   -- tier B row, passed by the code
example : (dial (fun _ _ => .ok) [.ip4 (ip4 10 0 0 1), .tcp 1] ⟨false, false⟩).calls = [] := by decide
example : (dial (fun _ _ => .ok) [.ip4 (ip4 1 1 1 1), .tcp 1] ⟨false, true⟩).calls =
    [([.ip4 (ip4 1 1 1 1), .tcp 1], ⟨false, true⟩)] := by decide
example : wfHead [.ip4 (ip4 1 1 1 1), .tcp 1] := by show ip4 1 1 1 1 < 2 ^ 32; decide
example : sweep4 (ip4 9 255 255 0) (ip4 10 0 0 5) = [(ip4 10 0 0 0, ip4 10 0 0 5)] := by decide

end C22

#print axioms C22.v4_iff
#print axioms C22.v6_iff
#print axioms C22.carveouts_inside
#print axioms C22.global_rows_pass4
#print axioms C22.global_rows_pass6
#print axioms C22.dial_refuses
#print axioms C22.dial_refusal_shape
#print axioms C22.dial_passes
#print axioms C22.dial_sound
#print axioms C22.sweep4_sound
#print axioms C22.sweep6_sound
#print axioms C22.intervals4_canonical
#print axioms C22.intervals6_canonical
#print axioms C22.spec_dial
#print axioms C22.specSweep4_model
#print axioms C22.specSweep6_model
