import Libp2pModel.Proofs.C09Sort
/-!
# C09 — property theorems: smart-dial ranking is a complete, well-ordered permutation

`rank` is the model of the repaired `rank_dials`; `rankBuggy*` are the pinned-commit variants.
-/
namespace C09

/-! ## group_delays facts -/
theorem groupDelays_perm (l : List Maddr) (td qd od off : Nat) :
    ((groupDelays l td qd od off).map (·.2)).Perm l := by
  unfold groupDelays
  split
  · rename_i h; simp at h; simp [h]
  · simp only [assign_snd]
    have h := he_perm (sortByKey score l) {}
    simp only [List.nil_append] at h
    exact h.trans (sortByKey_perm score l)

theorem mem_groupDelays {l : List Maddr} {td qd od off : Nat} {x : Nat × Maddr}
    (h : x ∈ groupDelays l td qd od off) : x.2 ∈ l :=
  (groupDelays_perm l td qd od off).mem_iff.1 (List.mem_map_of_mem h)

theorem groupDelays_bound (l : List Maddr) (td qd od off : Nat) :
    ∀ x ∈ groupDelays l td qd od off, x.1 ≤ off + (2 * qd + 3 * td + od) := by
  unfold groupDelays
  split
  · simp
  · exact assign_bound _ _ td qd od off {} _ (by simp [ASB])

theorem groupDelays_quic_le_tcp (l : List Maddr) (td qd od off : Nat) :
    ∀ q ∈ groupDelays l td qd od off, ∀ t ∈ groupDelays l td qd od off,
      isQuic q.2 = true → isTcpOnly t.2 = true → q.1 ≤ t.1 := by
  intro q hq t ht hqq htt
  unfold groupDelays at hq ht
  by_cases he : l.isEmpty = true
  · simp [he] at hq
  · simp only [he, Bool.false_eq_true, ↓reduceIte] at hq ht
    simp only [isTcpOnly, Bool.and_eq_true, Bool.not_eq_eq_eq_not, Bool.not_true] at htt
    exact assign_quic_le_tcp _ _ td qd od off {} _ (by simp [ASM, stagger]) (he_QF l)
      q hq t ht hqq htt.2 htt.1

/-! ## the four-way split -/
theorem split_perm (c : Maddr → Cat) (ds : List Maddr) :
    ds.Perm (ds.filter (fun a => c a == .priv) ++ (ds.filter (fun a => c a == .pub)
      ++ (ds.filter (fun a => c a == .relay) ++ ds.filter (fun a => c a == .other)))) := by
  induction ds with
  | nil => simp
  | cons a r ih =>
    cases h : c a <;> simp only [List.filter_cons, h] <;> simp only [reduceCtorEq, beq_self_eq_true,
      ↓reduceIte, beq_iff_eq]
    · exact ih.cons a
    · exact (ih.cons a).trans List.perm_middle.symm
    · exact (ih.cons a).trans (List.perm_middle.symm.trans (List.Perm.append_left _ List.perm_middle.symm))
    · exact (ih.cons a).trans (List.perm_middle.symm.trans (List.Perm.append_left _
        (List.perm_middle.symm.trans (List.Perm.append_left _ List.perm_middle.symm))))

theorem map_snd_of (g : Maddr → Nat × Maddr) (l : List Maddr) (hg : ∀ d, (g d).2 = d) :
    (l.map g).map (·.2) = l := by
  induction l with
  | nil => rfl
  | cons a r ih => simp [hg, ih]

/-- **C09.perm** — every input address comes out exactly once (any categoriser, any selector:
also true of the pinned-commit variants), for all input lists. -/
theorem rankWith_perm (glob : Maddr → Bool) (sel) (ds : List Maddr) :
    ((rankWith glob sel ds).map (·.2)).Perm ds := by
  unfold rankWith
  simp only [List.map_append]
  rw [map_snd_of _ _ (by intro d; split <;> rfl)]
  refine List.Perm.trans ?_ (split_perm (classify glob) ds).symm
  simp only [List.append_assoc]
  exact (groupDelays_perm _ _ _ _ _).append ((groupDelays_perm _ _ _ _ _).append
    ((groupDelays_perm _ _ _ _ _).append (.refl _)))

theorem perm (ds : List Maddr) : SpecPerm ds (rank ds) := rankWith_perm _ _ ds

/-! ## decomposition of the output -/
/-- the first three groups of `rank ds` -/
def direct (ds : List Maddr) : List (Nat × Maddr) :=
  groupDelays (ds.filter fun a => classify isGlobalAddr a == .priv) PRIVATE_TCP_DELAY PRIVATE_QUIC_DELAY PRIVATE_OTHER_DELAY 0
  ++ groupDelays (ds.filter fun a => classify isGlobalAddr a == .pub) PUBLIC_TCP_DELAY PUBLIC_QUIC_DELAY PUBLIC_OTHER_DELAY 0
  ++ groupDelays (ds.filter fun a => classify isGlobalAddr a == .relay) PUBLIC_TCP_DELAY PUBLIC_QUIC_DELAY PUBLIC_OTHER_DELAY
      (if (ds.filter fun a => classify isGlobalAddr a == .pub).isEmpty then 0 else RELAY_DELAY)

theorem rank_eq (ds : List Maddr) :
    rank ds = direct ds ++ (ds.filter fun a => classify isGlobalAddr a == .other).map fun d =>
      match maxDelay? (direct ds) with
      | some m => (m + PUBLIC_OTHER_DELAY, d)
      | none => (0, d) := rfl

theorem le_maxD (r : List (Nat × Maddr)) : ∀ x ∈ r, x.1 ≤ maxD r := by
  induction r with
  | nil => simp
  | cons a r ih =>
    intro x hx
    rcases List.mem_cons.1 hx with rfl | hx
    · simp [maxD]; omega
    · have := ih x hx; simp [maxD]; omega

theorem maxD_le (r : List (Nat × Maddr)) (b : Nat) (h : ∀ x ∈ r, x.1 ≤ b) : maxD r ≤ b := by
  induction r with
  | nil => simp [maxD]
  | cons a r ih =>
    have h1 := h a (by simp)
    have h2 := ih fun x hx => h x (by simp [hx])
    simp [maxD]; omega

/-- membership in the first three groups, with the group's classification and the group list -/
theorem mem_direct {ds : List Maddr} {x : Nat × Maddr} (h : x ∈ direct ds) :
    x.2 ∈ ds ∧ classify isGlobalAddr x.2 ≠ .other := by
  unfold direct at h
  simp only [List.mem_append] at h
  rcases h with (h | h) | h <;> have := mem_groupDelays h <;> simp only [List.mem_filter, beq_iff_eq] at this
    <;> exact ⟨this.1, by rw [this.2]; decide⟩

theorem direct_bound (ds : List Maddr) : ∀ x ∈ direct ds, x.1 ≤ 2500 := by
  intro x h
  unfold direct at h
  simp only [List.mem_append] at h
  rcases h with (h | h) | h <;> have := groupDelays_bound _ _ _ _ _ x h
  · simp only [PRIVATE_TCP_DELAY, PRIVATE_QUIC_DELAY, PRIVATE_OTHER_DELAY] at this; omega
  · simp only [PUBLIC_TCP_DELAY, PUBLIC_QUIC_DELAY, PUBLIC_OTHER_DELAY] at this; omega
  · simp only [PUBLIC_TCP_DELAY, PUBLIC_QUIC_DELAY, PUBLIC_OTHER_DELAY, RELAY_DELAY] at this
    split at this <;> omega

/-- **C09.finite** — every delay is bounded by the explicit constant `DELAY_BOUND` = 3500 ms. -/
theorem finite (ds : List Maddr) : SpecFinite (rank ds) := by
  intro x hx
  rw [rank_eq, List.mem_append] at hx
  have hb : DELAY_BOUND = 3500 := by decide
  rw [hb]
  rcases hx with hx | hx
  · have := direct_bound ds x hx; omega
  · simp only [List.mem_map] at hx
    obtain ⟨d, _, rfl⟩ := hx
    have hm : ∀ m, maxDelay? (direct ds) = some m → m ≤ 2500 := by
      intro m h
      unfold maxDelay? at h
      split at h
      · cases h
      · cases h; exact maxD_le (direct ds) 2500 (direct_bound ds)
    cases h : maxDelay? (direct ds) with
    | none => simp
    | some m => have := hm m h; simp only [PUBLIC_OTHER_DELAY]; omega

/-! ## categorisation: the code's `if` chain is the documented categorisation on the alphabet -/
theorem firstIp_none_of_not_hasIp (a : Maddr) (h : hasIp a = false) : firstIp4 a = none ∧ firstIp6 a = none := by
  induction a with
  | nil => exact ⟨rfl, rfl⟩
  | cons p r ih =>
    simp only [hasIp, List.any_cons, Bool.or_eq_false_iff] at h
    have := ih (by simpa [hasIp] using h.2)
    cases p <;> simp_all [firstIp4, firstIp6]

theorem hasIp_of_firstIp4 (a : Maddr) (x : Nat) (h : firstIp4 a = some x) : hasIp a = true := by
  induction a with
  | nil => simp [firstIp4] at h
  | cons p r ih =>
    cases p <;> simp_all [firstIp4, hasIp]

theorem hasIp_of_firstIp6 (a : Maddr) (x : Nat) (h : firstIp6 a = some x) : hasIp a = true := by
  induction a with
  | nil => simp [firstIp6] at h
  | cons p r ih =>
    cases p <;> simp_all [firstIp6, hasIp]

theorem hasIp_false_of_none (a : Maddr) (h4 : firstIp4 a = none) (h6 : firstIp6 a = none) :
    hasIp a = false := by
  induction a with
  | nil => rfl
  | cons p r ih =>
    cases p <;> simp_all [firstIp4, firstIp6, hasIp]

theorem classify_eq_category (a : Maddr) (h : inAlphabet a = true) :
    classify isGlobalAddr a = category a := by
  unfold classify category isGlobalAddr
  by_cases hc : hasCircuit a = true
  · simp [hc]
  · simp only [hc, Bool.false_eq_true, ↓reduceIte]
    cases h4 : firstIp4 a with
    | some x =>
      have := hasIp_of_firstIp4 a x h4
      cases hg : isGlobalIpv4 x <;> simp [this, hg]
    | none =>
      cases h6 : firstIp6 a with
      | some x =>
        have := hasIp_of_firstIp6 a x h6
        cases hg : isGlobalIpv6 x <;> simp [this, hg]
      | none =>
        simp only
        by_cases hz : hasZone a = true
        · simp [hz]
        · simp only [hz, Bool.false_eq_true, ↓reduceIte]
          cases hd : firstDns a with
          | some n =>
            simp only
            have hip : hasIp a = false := by
              exact hasIp_false_of_none a h4 h6
            by_cases hl : isLocalName n = true <;> simp [hl, hip]
          | none =>
            -- outside the alphabet
            have hip : hasIp a = false := by
              exact hasIp_false_of_none a h4 h6
            simp [inAlphabet, hc, hz, hd, hip] at h

/-- hypothesis of the ordering theorems: the property's alphabet -/
def AllInAlphabet (ds : List Maddr) : Prop := ∀ a ∈ ds, inAlphabet a = true

theorem pw_append_le {α} (f : α → Nat) (l₁ l₂ : List α) (n : Nat)
    (h1 : l₁.Pairwise fun a b => f a ≤ f b) (h2 : l₂.Pairwise fun a b => f a ≤ f b)
    (ha : ∀ a ∈ l₁, f a ≤ n) (hb : ∀ b ∈ l₂, n ≤ f b) :
    (l₁ ++ l₂).Pairwise fun a b => f a ≤ f b := by
  rw [List.pairwise_append]
  exact ⟨h1, h2, fun a h b h' => Nat.le_trans (ha a h) (hb b h')⟩

theorem pw_const {α} (f : α → Nat) (l : List α) (n : Nat) (h : ∀ a ∈ l, f a = n) :
    l.Pairwise fun a b => f a ≤ f b := by
  induction l with
  | nil => simp
  | cons a r ih =>
    rw [List.pairwise_cons]
    refine ⟨fun b hb => ?_, ih fun x hx => h x (by simp [hx])⟩
    rw [h a (by simp), h b (by simp [hb])]; exact Nat.le_refl _

/-- category of the members of one `group_delays` output -/
theorem group_cat {ds : List Maddr} (hds : AllInAlphabet ds) (c : Cat) (td qd od off : Nat) :
    ∀ x ∈ groupDelays (ds.filter fun a => classify isGlobalAddr a == c) td qd od off,
      category x.2 = c := by
  intro x hx
  have := mem_groupDelays hx
  simp only [List.mem_filter, beq_iff_eq] at this
  rw [← classify_eq_category _ (hds _ this.1)]; exact this.2

theorem other_cat {ds : List Maddr} (hds : AllInAlphabet ds) (f : Maddr → Nat × Maddr)
    (hf : ∀ d, (f d).2 = d) :
    ∀ x ∈ (ds.filter fun a => classify isGlobalAddr a == .other).map f, category x.2 = .other := by
  intro x hx
  simp only [List.mem_map, List.mem_filter, beq_iff_eq] at hx
  obtain ⟨d, ⟨hd, hc⟩, rfl⟩ := hx
  rw [hf, ← classify_eq_category _ (hds _ hd)]; exact hc

theorem direct_cat {ds : List Maddr} (hds : AllInAlphabet ds) : ∀ x ∈ direct ds, category x.2 ≠ .other := by
  intro x hx
  have := mem_direct hx
  rw [← classify_eq_category _ (hds _ this.1)]; exact this.2

/-- **C09.group_order** — the output lists the documented groups in the order private, public,
relay, other (for all input lists over the alphabet). -/
theorem group_order (ds : List Maddr) (hds : AllInAlphabet ds) : SpecGroups (rank ds) := by
  unfold SpecGroups
  rw [rank_eq]
  unfold direct
  have hp := group_cat hds .priv PRIVATE_TCP_DELAY PRIVATE_QUIC_DELAY PRIVATE_OTHER_DELAY 0
  have hu := group_cat hds .pub PUBLIC_TCP_DELAY PUBLIC_QUIC_DELAY PUBLIC_OTHER_DELAY 0
  have hr := group_cat hds .relay PUBLIC_TCP_DELAY PUBLIC_QUIC_DELAY PUBLIC_OTHER_DELAY
    (if (ds.filter fun a => classify isGlobalAddr a == .pub).isEmpty then 0 else RELAY_DELAY)
  have ho := other_cat hds (fun d => match maxDelay? (direct ds) with
      | some m => (m + PUBLIC_OTHER_DELAY, d)
      | none => (0, d)) (by intro d; split <;> rfl)
  unfold direct at ho
  refine pw_append_le (fun x : Nat × Maddr => (category x.2).idx) _ _ 3 ?_ ?_ ?_ ?_
  · refine pw_append_le (fun x : Nat × Maddr => (category x.2).idx) _ _ 2 ?_ ?_ ?_ ?_
    · refine pw_append_le (fun x : Nat × Maddr => (category x.2).idx) _ _ 1 ?_ ?_ ?_ ?_
      · exact pw_const _ _ 0 fun a h => by rw [hp a h]; rfl
      · exact pw_const _ _ 1 fun a h => by rw [hu a h]; rfl
      · intro a h; rw [hp a h]; decide
      · intro a h; rw [hu a h]; decide
    · exact pw_const _ _ 2 fun a h => by rw [hr a h]; rfl
    · intro a h
      rcases List.mem_append.1 h with h | h
      · rw [hp a h]; decide
      · rw [hu a h]; decide
    · intro a h; rw [hr a h]; decide
  · exact pw_const _ _ 3 fun a h => by rw [ho a h]; rfl
  · intro a h
    rcases List.mem_append.1 h with h | h
    · rcases List.mem_append.1 h with h | h
      · rw [hp a h]; decide
      · rw [hu a h]; decide
    · rw [hr a h]; decide
  · intro a h; rw [ho a h]; decide

/-- **C09.other_last** — no address of the last group is scheduled before an address of an
earlier group. -/
theorem other_last (ds : List Maddr) (hds : AllInAlphabet ds) : SpecOtherLast (rank ds) := by
  intro x hx y hy hxc hyc
  rw [rank_eq, List.mem_append] at hx hy
  have ho := other_cat hds (fun d => match maxDelay? (direct ds) with
      | some m => (m + PUBLIC_OTHER_DELAY, d)
      | none => (0, d)) (by intro d; split <;> rfl)
  rcases hy with hy | hy
  · rcases hx with hx | hx
    · exact absurd hxc (direct_cat hds x hx)
    · simp only [List.mem_map] at hx
      obtain ⟨d, _, rfl⟩ := hx
      have hne : (direct ds).isEmpty = false := by
        cases h : direct ds with
        | nil => rw [h] at hy; simp at hy
        | cons _ _ => rfl
      have := le_maxD (direct ds) y hy
      simp only [maxDelay?, hne, Bool.false_eq_true, ↓reduceIte]
      omega
  · exact absurd (ho y hy) hyc

/-- **C09.quic_before_tcp** — within one group a QUIC address is scheduled no later than a TCP
address. -/
theorem quic_before_tcp (ds : List Maddr) (hds : AllInAlphabet ds) : SpecQuicTcp (rank ds) := by
  intro q hq t ht hcat hqq htt
  rw [rank_eq, List.mem_append] at hq ht
  have ho := other_cat hds (fun d => match maxDelay? (direct ds) with
      | some m => (m + PUBLIC_OTHER_DELAY, d)
      | none => (0, d)) (by intro d; split <;> rfl)
  have hp := group_cat hds .priv PRIVATE_TCP_DELAY PRIVATE_QUIC_DELAY PRIVATE_OTHER_DELAY 0
  have hu := group_cat hds .pub PUBLIC_TCP_DELAY PUBLIC_QUIC_DELAY PUBLIC_OTHER_DELAY 0
  have hr := group_cat hds .relay PUBLIC_TCP_DELAY PUBLIC_QUIC_DELAY PUBLIC_OTHER_DELAY
    (if (ds.filter fun a => classify isGlobalAddr a == .pub).isEmpty then 0 else RELAY_DELAY)
  rcases hq with hq | hq
  · rcases ht with ht | ht
    · -- both among the first three groups: same category ⇒ same `group_delays` call
      unfold direct at hq ht
      simp only [List.mem_append] at hq ht
      rcases hq with (hq | hq) | hq <;> rcases ht with (ht | ht) | ht
      · exact groupDelays_quic_le_tcp _ _ _ _ _ q hq t ht hqq htt
      · rw [hp q hq, hu t ht] at hcat; cases hcat
      · rw [hp q hq, hr t ht] at hcat; cases hcat
      · rw [hu q hq, hp t ht] at hcat; cases hcat
      · exact groupDelays_quic_le_tcp _ _ _ _ _ q hq t ht hqq htt
      · rw [hu q hq, hr t ht] at hcat; cases hcat
      · rw [hr q hq, hp t ht] at hcat; cases hcat
      · rw [hr q hq, hu t ht] at hcat; cases hcat
      · exact groupDelays_quic_le_tcp _ _ _ _ _ q hq t ht hqq htt
    · exact absurd (hcat ▸ ho t ht) (direct_cat hds q hq)
  · rcases ht with ht | ht
    · exact absurd (hcat ▸ ho q hq) (direct_cat hds t ht)
    · simp only [List.mem_map] at hq ht
      obtain ⟨d, _, rfl⟩ := hq
      obtain ⟨d', _, rfl⟩ := ht
      split <;> simp

/-- **Spec accepts the model** — for *every* input list the executable Spec run on the model's
output reports no failing clause (outside the alphabet it only claims permutation and bound). -/
theorem specKey_rank (ds : List Maddr) : specKey ds (rank ds) = "" := by
  unfold specKey
  simp only [perm ds, finite ds, decide_true, Bool.not_true, Bool.false_eq_true, ↓reduceIte]
  split
  · rfl
  · rename_i h
    have hds : AllInAlphabet ds := by
      intro a ha
      have h' : ds.all inAlphabet = true := by simpa using h
      exact List.all_eq_true.1 h' a ha
    simp [group_order ds hds, other_last ds hds, quic_before_tcp ds hds]

theorem spec_rank (ds : List Maddr) : spec ds (rank ds) = true := by
  simp [spec, specKey_rank]

/-! ## the pinned commit violates the property (documentation of the two repaired defects) -/

/-- "example.com" as bytes would do; a one-letter non-local name keeps `decide` cheap -/
def exDns : Maddr := [.dns [101], .tcp 443]
def exPub : Maddr := [.ip4 0x01020304, .tcp 1]

/-- Defect 1 (`is_global_addr`, inverted DNS test): `/dns/e/tcp/443` is ranked in the *private*
group — first, at 0 ms — ahead of a public IP address; the documented order is violated. -/
theorem dns_inverted_buggy_counterexample :
    rankBuggyDns [exPub, exDns] = [(0, exDns), (0, exPub)]
    ∧ ¬ SpecGroups (rankBuggyDns [exPub, exDns])
    ∧ inAlphabet exDns = true ∧ inAlphabet exPub = true := by decide

def exQ1 : Maddr := [.ip4 0x01020304, .udp 1, .quicV1]
def exQ2 : Maddr := [.ip4 0x01020304, .udp 2, .quicV1]
def exRtc : Maddr := [.ip4 0x01020304, .udp 1, .webrtcDirect]
def exRelay : Maddr := [.ip4 0x01020304, .tcp 1, .p2p [1], .p2pCircuit]

/-- Defect 2 (`max_delay = result.last()`): the DNS-only address is scheduled at 1250 ms, before
the public WebRTC address at 1500 ms. -/
theorem max_delay_last_buggy_counterexample :
    rankBuggyLast [exQ1, exQ2, exPub, exRtc, exRelay, exDns]
      = [(0, exQ1), (250, exQ2), (500, exPub), (1500, exRtc), (250, exRelay), (1250, exDns)]
    ∧ ¬ SpecOtherLast (rankBuggyLast [exQ1, exQ2, exPub, exRtc, exRelay, exDns]) := by decide

/-- the repaired model on the same inputs -/
example : rank [exPub, exDns] = [(0, exPub), (1000, exDns)] := by decide
example : rank [exQ1, exQ2, exPub, exRtc, exRelay, exDns]
    = [(0, exQ1), (250, exQ2), (500, exPub), (1500, exRtc), (250, exRelay), (2500, exDns)] := by decide
/-- non-vacuity: the alphabet hypothesis is satisfiable by mixed-category inputs, Happy Eyeballs fires -/
example : AllInAlphabet [exQ1, exQ2, exPub, exRtc, exRelay, exDns] := by unfold AllInAlphabet; decide
example : rank [[.ip4 0x01020304, .udp 2, .quicV1], [.ip6 0x26064700000000000000000000000001, .udp 1, .quicV1],
    [.ip6 0x26064700000000000000000000000001, .udp 3, .quicV1]]
  = [(0, [.ip6 0x26064700000000000000000000000001, .udp 1, .quicV1]), (250, [.ip4 0x01020304, .udp 2, .quicV1]),
     (500, [.ip6 0x26064700000000000000000000000001, .udp 3, .quicV1])] := by decide

end C09

#print axioms C09.rankWith_perm
#print axioms C09.perm
#print axioms C09.finite
#print axioms C09.group_order
#print axioms C09.other_last
#print axioms C09.quic_before_tcp
#print axioms C09.specKey_rank
#print axioms C09.spec_rank
#print axioms C09.classify_eq_category
#print axioms C09.dns_inverted_buggy_counterexample
#print axioms C09.max_delay_last_buggy_counterexample
