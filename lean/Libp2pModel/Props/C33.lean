import Libp2pModel.Proofs.C33MCache
/-!
# C33 — Gossipsub caches keep exactly their documented windows (property theorems)

Part 1: `TimeCache` / `DuplicateCache` — an id is seen from its first insertion until `ttl` has
passed and is not refreshed by re-insertion. Part 2: `MessageCache` — gossip only offers validated
messages from the last `history_gossip` shifts, IWANT only returns messages put fewer than
`history_length` shifts ago, IWANT counts are exact.
-/
namespace C33

/-! ## Part 1 — time caches -/

/-- op times are non-decreasing and `now + ttl` is a representable instant -/
def TValid (limit ttl : Nat) : Nat → List (Nat × TOp) → Prop
  | _, [] => True
  | t, o :: os => t ≤ o.1 ∧ o.1 + ttl ≤ limit ∧ TValid limit ttl o.1 os

def texec (c : TC) (ops : List (Nat × TOp)) : TC := ops.foldl (fun c o => (tstep c o).1) c

def tlast : Nat → List (Nat × TOp) → Nat
  | t, [] => t
  | _, o :: os => tlast o.1 os

/-- the key is stored with expiry `e` -/
def Stored (c : TC) (k e : Nat) : Prop := ∃ v, c.map k = some (v, e)

theorem twf_mono (c : TC) (T T' : Nat) (h : TWF c T) (hle : T ≤ T') : TWF c T' :=
  ⟨h.consistent, fun p hp => Nat.le_trans (h.bound p hp) (by omega)⟩

/-- one op keeps well-formedness and the configuration -/
theorem tstep_wf (c : TC) (T : Nat) (o : Nat × TOp) (h : TWF c T) (hT : T ≤ o.1)
    (hrep : o.1 + c.ttl ≤ c.limit) :
    TWF (tstep c o).1 o.1 ∧ (tstep c o).1.ttl = c.ttl ∧ (tstep c o).1.limit = c.limit := by
  obtain ⟨now, op⟩ := o
  cases op with
  | ins k =>
    obtain ⟨h1, h2, h3, _⟩ := dupInsert_closed c T now k h hT hrep
    exact ⟨h1, h2, h3⟩
  | has k => exact ⟨twf_mono c T now h hT, rfl, rfl⟩
  | add k d =>
    obtain ⟨h1, h2, h3, _⟩ := addEntry_closed c T now k d h hT hrep
    exact ⟨h1, h2, h3⟩

/-- inside the window no op — on this key or any other — changes the key's expiry -/
theorem tstep_keeps_stored (c : TC) (T : Nat) (o : Nat × TOp) (k e : Nat) (h : TWF c T) (hT : T ≤ o.1)
    (hrep : o.1 + c.ttl ≤ c.limit) (hs : Stored c k e) (hin : o.1 < e) : Stored (tstep c o).1 k e := by
  obtain ⟨v, hv⟩ := hs
  have hlive : live o.1 (c.map k) = some (v, e) := (live_eq_some _ _ _ _).2 ⟨hv, hin⟩
  obtain ⟨now, op⟩ := o
  cases op with
  | has k' => exact ⟨v, hv⟩
  | ins k' =>
    obtain ⟨_, _, _, _, h5, h6⟩ := dupInsert_closed c T now k' h hT hrep
    by_cases hk : k = k'
    · subst hk
      refine ⟨v, ?_⟩
      simp only [tstep]
      rw [h6, hlive]; simp
    · exact ⟨v, by simp only [tstep]; rw [h5 k hk, hlive]⟩
  | add k' d =>
    obtain ⟨_, _, _, _, h5, h6⟩ := addEntry_closed c T now k' d h hT hrep
    by_cases hk : k = k'
    · subst hk
      refine ⟨v + d, ?_⟩
      simp only [tstep]
      rw [h6, hlive]
    · exact ⟨v, by simp only [tstep]; rw [h5 k hk, hlive]⟩

theorem texec_keeps_stored (ops : List (Nat × TOp)) : ∀ (c : TC) (T : Nat) (k e : Nat), TWF c T →
    TValid c.limit c.ttl T ops → Stored c k e → (∀ o ∈ ops, o.1 < e) →
    Stored (texec c ops) k e ∧ TWF (texec c ops) (tlast T ops) ∧
    (texec c ops).ttl = c.ttl ∧ (texec c ops).limit = c.limit := by
  induction ops with
  | nil => intro c T k e h _ hs _; exact ⟨hs, h, rfl, rfl⟩
  | cons o os ih =>
    intro c T k e h hv hs hin
    obtain ⟨v1, v2, v3⟩ := hv
    obtain ⟨w1, w2, w3⟩ := tstep_wf c T o h v1 v2
    have := ih (tstep c o).1 o.1 k e w1 (by rw [w2, w3]; exact v3)
      (tstep_keeps_stored c T o k e h v1 v2 hs (hin o (by simp))) (fun o' ho' => hin o' (by simp [ho']))
    rw [w2, w3] at this
    exact this

/-- **C33, duplicate-cache window.** On any well-formed cache (every cache reachable from `new`
is: `timecache_reachable_wf`), if `insert k` at time `τ` returns `true`, then for ANY sequence of
further ops (inserts/lookups/entry updates of any keys, `k` included) at non-decreasing times
`< τ + ttl`: `k` is still stored with expiry exactly `τ + ttl` (not refreshed by the
re-insertions), `contains k` is `true`, every `insert k` at a time `τ' < τ + ttl` returns `false`,
and an `insert k` at a time `τ' ≥ τ + ttl` returns `true`. -/
theorem dup_window (c : TC) (T τ k : Nat) (hwf : TWF c T) (hT : T ≤ τ) (hrep : τ + c.ttl ≤ c.limit)
    (hins : (dupInsert c τ k).2 = true)
    (ops : List (Nat × TOp)) (hv : TValid c.limit c.ttl τ ops) (hin : ∀ o ∈ ops, o.1 < τ + c.ttl) :
    let c2 := texec (dupInsert c τ k).1 ops
    Stored c2 k (τ + c.ttl) ∧ contains c2 k = true ∧
    (∀ τ', tlast τ ops ≤ τ' → τ' + c.ttl ≤ c.limit → τ' < τ + c.ttl → (dupInsert c2 τ' k).2 = false) ∧
    (∀ τ', tlast τ ops ≤ τ' → τ' + c.ttl ≤ c.limit → τ + c.ttl ≤ τ' → (dupInsert c2 τ' k).2 = true) := by
  obtain ⟨h1, h2, h3, h4, _, h6⟩ := dupInsert_closed c T τ k hwf hT hrep
  have hnone := h4.1 hins
  have hst : Stored (dupInsert c τ k).1 k (τ + c.ttl) := ⟨0, by rw [h6, if_pos hnone]⟩
  obtain ⟨g1, g2, g3, g4⟩ := texec_keeps_stored ops (dupInsert c τ k).1 τ k (τ + c.ttl) h1
    (by rw [h2, h3]; exact hv) hst hin
  rw [h2] at g3
  rw [h3] at g4
  obtain ⟨v, hv'⟩ := g1
  refine ⟨⟨v, hv'⟩, by simp [contains, hv'], ?_, ?_⟩
  · intro τ' hl hr hlt
    obtain ⟨_, _, _, e4, _⟩ := dupInsert_closed _ _ τ' k g2 hl (by rw [g3, g4]; exact hr)
    cases hres : (dupInsert (texec (dupInsert c τ k).1 ops) τ' k).2 with
    | false => rfl
    | true =>
      have := e4.1 hres
      rw [hv', live_eq_none] at this
      have := this v _ rfl
      omega
  · intro τ' hl hr hge
    obtain ⟨_, _, _, e4, _⟩ := dupInsert_closed _ _ τ' k g2 hl (by rw [g3, g4]; exact hr)
    apply e4.2
    rw [hv', live_eq_none]
    intro v' e' heq
    simp only [Option.some.injEq, Prod.mk.injEq] at heq
    omega

/-- lazy expiry, stated exactly: `contains` does not purge — after the window the entry lingers
until the next `insert`/`entry` (of any key) at a time at or after its expiry removes it. -/
theorem contains_lazy (c : TC) (T now k k' e : Nat) (hwf : TWF c T) (hT : T ≤ now)
    (hrep : now + c.ttl ≤ c.limit) (hs : Stored c k e) (hexp : e ≤ now) (hne : k ≠ k') :
    contains c k = true ∧ contains (dupInsert c now k').1 k = false := by
  obtain ⟨v, hv⟩ := hs
  obtain ⟨_, _, _, _, h5, _⟩ := dupInsert_closed c T now k' hwf hT hrep
  refine ⟨by simp [contains, hv], ?_⟩
  simp only [contains]
  rw [h5 k hne, hv]
  simp [live, hexp]

/-- every cache reachable from `new` is well-formed -/
theorem timecache_reachable_wf (limit ttl : Nat) (ops : List (Nat × TOp)) (hv : TValid limit ttl 0 ops) :
    TWF (texec (tcNew limit ttl) ops) (tlast 0 ops) := by
  have key : ∀ (ops : List (Nat × TOp)) (c : TC) (T : Nat), TWF c T → TValid c.limit c.ttl T ops →
      TWF (texec c ops) (tlast T ops) := by
    intro ops
    induction ops with
    | nil => intro c T h _; exact h
    | cons o os ih =>
      intro c T h hv
      obtain ⟨v1, v2, v3⟩ := hv
      obtain ⟨w1, w2, w3⟩ := tstep_wf c T o h v1 v2
      exact ih (tstep c o).1 o.1 w1 (by rw [w2, w3]; exact v3)
  exact key ops (tcNew limit ttl) 0 (twf_new limit ttl) hv

/-! ### the executable window monitor accepts the model -/

/-- relation between the cache and the window monitor after an op at time `T` -/
structure R (c : TC) (m : DMon) (T : Nat) : Prop where
  wf : TWF c T
  ttl : m.ttl = c.ttl
  lim : m.limit = c.limit
  void : m.void = false
  a : ∀ k v e, c.map k = some (v, e) → m.until_ k = some e ∧ m.val k = v
  b : ∀ k e, m.until_ k = some e → T < e → ∃ v, c.map k = some (v, e)
  c : ∀ k, m.until_ k = none → c.map k = none

theorem R_new (limit ttl : Nat) : R (tcNew limit ttl) (dmonNew limit ttl) 0 := by
  refine ⟨twf_new limit ttl, rfl, rfl, rfl, ?_, ?_, ?_⟩
  · intro k v e h; simp [tcNew] at h
  · intro k e h; simp [dmonNew] at h
  · intro k _; rfl

theorem seen_iff_live (c : TC) (m : DMon) (T now k : Nat) (h : R c m T) (hT : T ≤ now) :
    seen m now k = true ↔ live now (c.map k) ≠ none := by
  unfold seen
  constructor
  · intro hs
    cases hu : m.until_ k with
    | none => rw [hu] at hs; cases hs
    | some e =>
      rw [hu] at hs
      simp only [decide_eq_true_eq] at hs
      obtain ⟨v, hv⟩ := h.b k e hu (by omega)
      rw [hv]
      simp [live]; omega
  · intro hl
    cases hm : live now (c.map k) with
    | none => exact absurd hm hl
    | some x =>
      obtain ⟨v, e⟩ := x
      obtain ⟨h1, h2⟩ := (live_eq_some _ _ _ _).1 hm
      rw [(h.a k v e h1).1]
      simpa using h2

theorem live_R (c : TC) (m : DMon) (T now : Nat) (h : R c m T) (hT : T ≤ now) :
    (∀ k v e, live now (c.map k) = some (v, e) → m.until_ k = some e ∧ m.val k = v) ∧
    (∀ k e, m.until_ k = some e → now < e → ∃ v, live now (c.map k) = some (v, e)) ∧
    (∀ k, m.until_ k = none → live now (c.map k) = none) := by
  refine ⟨?_, ?_, ?_⟩
  · intro k v e hl
    exact h.a k v e ((live_eq_some _ _ _ _).1 hl).1
  · intro k e hu hlt
    obtain ⟨v, hv⟩ := h.b k e hu (by omega)
    exact ⟨v, (live_eq_some _ _ _ _).2 ⟨hv, hlt⟩⟩
  · intro k hu
    rw [h.c k hu]; rfl

theorem R_step (c : TC) (m : DMon) (T : Nat) (o : Nat × TOp) (h : R c m T) (hT : T ≤ o.1)
    (hrep : o.1 + c.ttl ≤ c.limit) :
    dcheck m o (tstep c o).2 = none ∧ R (tstep c o).1 (dstep m o) o.1 := by
  obtain ⟨now, op⟩ := o
  simp only at hT hrep
  obtain ⟨la, lb, lc⟩ := live_R c m T now h hT
  cases op with
  | has k =>
    simp only [tstep, dstep, dcheck, checkContains, h.void, Bool.false_eq_true, ↓reduceIte]
    constructor
    · cases hs : seen m now k with
      | true =>
        have := (seen_iff_live c m T now k h hT).1 hs
        have hc : contains c k = true := by
          unfold contains
          cases hm : c.map k with
          | none => rw [hm] at this; exact absurd rfl this
          | some x => rfl
        simp [hc]
        cases hu : m.until_ k with
        | none => simp [seen, hu] at hs
        | some e => simp
      | false =>
        simp only [Bool.false_and, Bool.false_eq_true, ↓reduceIte]
        cases hu : m.until_ k with
        | none => simp [contains, h.c k hu]
        | some e => simp
    · exact ⟨twf_mono c T now h.wf hT, h.ttl, h.lim, h.void, h.a,
        fun k e hu hlt => h.b k e hu (by omega), h.c⟩
  | ins k =>
    obtain ⟨h1, h2, h3, h4, h5, h6⟩ := dupInsert_closed c T now k h.wf hT hrep
    have hseen := seen_iff_live c m T now k h hT
    simp only [tstep, dstep, dcheck, checkInsert, h.void, Bool.false_eq_true, ↓reduceIte]
    constructor
    · cases hs : seen m now k with
      | true =>
        have hne := hseen.1 hs
        cases hr : (dupInsert c now k).2 with
        | true => exact absurd (h4.1 hr) hne
        | false => simp
      | false =>
        have hnone : live now (c.map k) = none := by
          cases hl : live now (c.map k) with
          | none => rfl
          | some x =>
            have := hseen.2 (by rw [hl]; simp)
            rw [hs] at this; cases this
        rw [h4.2 hnone]; simp
    · unfold dmonTouch
      cases hs : seen m now k with
      | true =>
        have hne := hseen.1 hs
        simp only [↓reduceIte]
        refine ⟨h1, by rw [h2]; exact h.ttl, by rw [h3]; exact h.lim, h.void, ?_, ?_, ?_⟩
        · intro k' v e hm
          by_cases hk : k' = k
          · subst hk; rw [h6, if_neg hne] at hm; exact la k' v e hm
          · rw [h5 k' hk] at hm; exact la k' v e hm
        · intro k' e hu hlt
          by_cases hk : k' = k
          · subst hk; rw [h6, if_neg hne]; exact lb k' e hu hlt
          · rw [h5 k' hk]; exact lb k' e hu hlt
        · intro k' hu
          by_cases hk : k' = k
          · subst hk; rw [h6, if_neg hne]; exact lc k' hu
          · rw [h5 k' hk]; exact lc k' hu
      | false =>
        have hnone : live now (c.map k) = none := by
          cases hl : live now (c.map k) with
          | none => rfl
          | some x =>
            have := hseen.2 (by rw [hl]; simp)
            rw [hs] at this; cases this
        simp only [Bool.false_eq_true, ↓reduceIte]
        refine ⟨h1, by rw [h2]; exact h.ttl, by rw [h3]; exact h.lim, ?_, ?_, ?_, ?_⟩
        · simp only [h.void, Bool.false_or, decide_eq_false_iff_not, Nat.not_lt]
          rw [h.lim, h.ttl]; exact hrep
        · intro k' v e hm
          simp only
          by_cases hk : k' = k
          · subst hk
            rw [h6, if_pos hnone] at hm
            simp only [Option.some.injEq, Prod.mk.injEq] at hm
            simp [setOpt, h.ttl, hm.1.symm, hm.2.symm]
          · rw [h5 k' hk] at hm
            simp only [setOpt, hk, ↓reduceIte]
            exact la k' v e hm
        · intro k' e hu hlt
          simp only at hu
          by_cases hk : k' = k
          · subst hk
            rw [setOpt_same] at hu
            simp only [Option.some.injEq] at hu
            rw [h6, if_pos hnone, ← hu, h.ttl]
            exact ⟨0, rfl⟩
          · rw [setOpt_other _ _ _ _ hk] at hu
            rw [h5 k' hk]; exact lb k' e hu hlt
        · intro k' hu
          simp only at hu
          by_cases hk : k' = k
          · subst hk; rw [setOpt_same] at hu; cases hu
          · rw [setOpt_other _ _ _ _ hk] at hu
            rw [h5 k' hk]; exact lc k' hu
  | add k d =>
    obtain ⟨h1, h2, h3, h4, h5, h6⟩ := addEntry_closed c T now k d h.wf hT hrep
    have hseen := seen_iff_live c m T now k h hT
    simp only [tstep, dstep, dcheck, checkAdd, h.void, Bool.false_eq_true, ↓reduceIte]
    cases hs : seen m now k with
    | true =>
      have hne := hseen.1 hs
      cases hl : live now (c.map k) with
      | none => exact absurd hl hne
      | some x =>
        obtain ⟨v, e⟩ := x
        obtain ⟨a1, a2⟩ := la k v e hl
        rw [hl] at h4 h6
        simp only at h4 h6
        constructor
        · rw [h4, a2]; simp
        · unfold dmonTouch dmonAdd
          simp only [hs, ↓reduceIte]
          refine ⟨h1, by rw [h2]; exact h.ttl, by rw [h3]; exact h.lim, h.void, ?_, ?_, ?_⟩
          · intro k' v' e' hm
            simp only
            by_cases hk : k' = k
            · subst hk
              rw [h6] at hm
              simp only [Option.some.injEq, Prod.mk.injEq] at hm
              simp [a1, a2, hm.1.symm, hm.2.symm]
            · rw [h5 k' hk] at hm
              simp only [hk, ↓reduceIte]
              exact la k' v' e' hm
          · intro k' e' hu hlt
            by_cases hk : k' = k
            · subst hk
              rw [h6]
              rw [a1] at hu
              simp only [Option.some.injEq] at hu
              exact ⟨v + d, by rw [hu]⟩
            · rw [h5 k' hk]; exact lb k' e' hu hlt
          · intro k' hu
            by_cases hk : k' = k
            · subst hk; rw [a1] at hu; cases hu
            · rw [h5 k' hk]; exact lc k' hu
    | false =>
      have hnone : live now (c.map k) = none := by
        cases hl : live now (c.map k) with
        | none => rfl
        | some x =>
          have := hseen.2 (by rw [hl]; simp)
          rw [hs] at this; cases this
      rw [hnone] at h4 h6
      simp only at h4 h6
      constructor
      · rw [h4]; simp
      · unfold dmonTouch dmonAdd
        simp only [hs, Bool.false_eq_true, ↓reduceIte]
        refine ⟨h1, by rw [h2]; exact h.ttl, by rw [h3]; exact h.lim, ?_, ?_, ?_, ?_⟩
        · simp only [h.void, Bool.false_or, decide_eq_false_iff_not, Nat.not_lt]
          rw [h.lim, h.ttl]; exact hrep
        · intro k' v' e' hm
          simp only
          by_cases hk : k' = k
          · subst hk
            rw [h6] at hm
            simp only [Option.some.injEq, Prod.mk.injEq] at hm
            simp [setOpt, h.ttl, hm.1.symm, hm.2.symm]
          · rw [h5 k' hk] at hm
            simp only [setOpt, hk, ↓reduceIte]
            exact la k' v' e' hm
        · intro k' e' hu hlt
          simp only at hu
          by_cases hk : k' = k
          · subst hk
            rw [setOpt_same] at hu
            simp only [Option.some.injEq] at hu
            rw [h6, ← hu, h.ttl]
            exact ⟨d, rfl⟩
          · rw [setOpt_other _ _ _ _ hk] at hu
            rw [h5 k' hk]; exact lb k' e' hu hlt
        · intro k' hu
          simp only at hu
          by_cases hk : k' = k
          · subst hk; rw [setOpt_same] at hu; cases hu
          · rw [setOpt_other _ _ _ _ hk] at hu
            rw [h5 k' hk]; exact lc k' hu

/-- verdicts of the monitor along a run of the model -/
def tverdicts : TC → DMon → List (Nat × TOp) → List (Option String)
  | _, _, [] => []
  | c, m, o :: os => dcheck m o (tstep c o).2 :: tverdicts (tstep c o).1 (dstep m o) os

/-- **The window monitor accepts the time-cache model** (= the property against the reference:
"seen from the first insertion until `ttl` has passed, not refreshed by re-insertion; `contains`
true inside the window, false for ids never inserted; the cached value lives exactly as long"):
for every `ttl`, every op sequence with non-decreasing times at which `now + ttl` is representable,
every verdict of the oracle that `check.py` runs on the implementation's outputs is `ok` on the
model's outputs. -/
theorem timecache_spec_accepts_model (limit ttl : Nat) (ops : List (Nat × TOp))
    (hv : TValid limit ttl 0 ops) :
    ∀ v ∈ tverdicts (tcNew limit ttl) (dmonNew limit ttl) ops, v = none := by
  have key : ∀ (ops : List (Nat × TOp)) (c : TC) (m : DMon) (T : Nat), R c m T →
      TValid c.limit c.ttl T ops → ∀ v ∈ tverdicts c m ops, v = none := by
    intro ops
    induction ops with
    | nil => intro c m T _ _ v hv; simp [tverdicts] at hv
    | cons o os ih =>
      intro c m T h hv v hmem
      obtain ⟨v1, v2, v3⟩ := hv
      obtain ⟨r1, r2⟩ := R_step c m T o h v1 v2
      obtain ⟨_, w2, w3⟩ := tstep_wf c T o h.wf v1 v2
      simp only [tverdicts, List.mem_cons] at hmem
      rcases hmem with rfl | hmem
      · exact r1
      · exact ih (tstep c o).1 (dstep m o) o.1 r2 (by rw [w2, w3]; exact v3) v hmem
  exact key ops (tcNew limit ttl) (dmonNew limit ttl) 0 (R_new limit ttl) hv

/-! ## Part 2 — message cache -/

def mexec (c : MC) (m : MMon) : List MOp → MC × MMon
  | [] => (c, m)
  | op :: ops => mexec (mstep c op).1 (mmonStep m op (mstep c op).2) ops

/-- every state reachable from `new`, together with the monitor driven by the cache's own outputs,
satisfies the joint invariant -/
theorem mcache_reachable (g h : Nat) (ops : List MOp) :
    J (mexec (mcNew g h) (mmonNew g h) ops).1 (mexec (mcNew g h) (mmonNew g h) ops).2 := by
  have key : ∀ (ops : List MOp) (c : MC) (m : MMon), J c m → J (mexec c m ops).1 (mexec c m ops).2 := by
    intro ops
    induction ops with
    | nil => intro c m h; exact h
    | cons op os ih => intro c m h; exact ih _ _ (J_step c m op h)
  exact key ops _ _ (J_new g h)

/-- **C33, gossip window.** In every reachable state: an id offered by `get_gossip_message_ids t`
is stored, validated, and was put fewer than `history_gossip` shifts ago (`age < gossip`) … -/
theorem gossip_window (c : MC) (m : MMon) (hj : J c m) (t : Nat) (ids : List Nat)
    (hg : getGossipIds c t = some ids) (id : Nat) (hid : id ∈ ids) :
    ∃ msg r, c.msgs id = some msg ∧ msg.validated = true ∧ m.recs id = some r ∧
      r.validated = true ∧ r.age < c.gossip := by
  unfold getGossipIds at hg
  split at hg
  · cases hg
  · rename_i hlen
    simp only [Option.some.injEq] at hg
    subst hg
    rw [List.mem_flatMap] at hid
    obtain ⟨entries, hent, hmem⟩ := hid
    rw [List.mem_filterMap] at hmem
    obtain ⟨⟨eid, et⟩, he, hsome⟩ := hmem
    simp only at hsome
    split at hsome
    · split at hsome
      · rename_i msg hmsg
        split at hsome
        · rename_i hval
          simp only [Option.some.injEq] at hsome
          subst hsome
          obtain ⟨j, hj1, hj2⟩ := List.getElem_of_mem hent
          have hjlt : j < c.gossip := by
            have := hj1
            simp only [List.length_take] at this
            omega
          have hslot : hslot c.history j = entries := by
            simp only [hslot, List.getD_eq_getElem?_getD]
            rw [List.getElem_take] at hj2
            rw [List.getElem?_eq_getElem (by simp only [List.length_take] at hj1; omega)]
            simp [hj2]
          obtain ⟨r, s1, s2, _, _, _⟩ := hj.stored eid msg hmsg
          have hage := hj.stale j eid et (by rw [hslot]; exact he) r s1 (by rw [hmsg]; simp)
          exact ⟨msg, r, hmsg, hval, s1, by rw [s2]; exact hval, by omega⟩
        · cases hsome
      · cases hsome
    · cases hsome

/-- … and conversely every stored, validated message of topic `t` that was put fewer than
`history_gossip` shifts ago IS offered. -/
theorem gossip_complete (c : MC) (m : MMon) (hj : J c m) (t : Nat) (ids : List Nat)
    (hg : getGossipIds c t = some ids) (id : Nat) (msg : Msg) (r : Rec)
    (hmsg : c.msgs id = some msg) (hval : msg.validated = true) (htop : msg.topic = t)
    (hr : m.recs id = some r) (hage : r.age < c.gossip) : id ∈ ids := by
  unfold getGossipIds at hg
  split at hg
  · cases hg
  · rename_i hlen
    simp only [Option.some.injEq] at hg
    subst hg
    obtain ⟨r', s1, _, s3, s4, _⟩ := hj.stored id msg hmsg
    rw [hr] at s1
    simp only [Option.some.injEq] at s1
    subst s1
    rw [List.mem_flatMap]
    refine ⟨hslot c.history r.age, ?_, ?_⟩
    · simp only [hslot, List.getD_eq_getElem?_getD]
      rw [List.getElem?_eq_getElem s3]
      simp only [Option.getD_some]
      rw [List.mem_take_iff_getElem]
      exact ⟨r.age, by omega, rfl⟩
    · rw [List.mem_filterMap]
      exact ⟨(id, msg.topic), s4, by simp [htop, hmsg, hval]⟩

/-- **C33, IWANT window and exact counts.** In every reachable state: if
`get_with_iwant_counts id p` returns a message, then the message is validated, it was put fewer
than `history_length` shifts ago (`age < |history|`), and the returned count is exactly one more
than the number of successful requests by `p` for `id` since that put. -/
theorem iwant_window_exact (c : MC) (m : MMon) (hj : J c m) (id p t n : Nat) (v : Bool)
    (hres : (getWithIwant c id p).2 = some (t, v, n)) :
    ∃ msg r, c.msgs id = some msg ∧ msg.validated = true ∧ v = true ∧ t = msg.topic ∧
      m.recs id = some r ∧ r.age < c.history.length ∧ n = r.reqs p + 1 := by
  unfold getWithIwant at hres
  cases hm : c.msgs id with
  | none => rw [hm] at hres; cases hres
  | some msg =>
    rw [hm] at hres
    simp only at hres
    by_cases hv : msg.validated = true
    · simp only [hv, Bool.not_true, Bool.false_eq_true, ↓reduceIte, Option.some.injEq,
        Prod.mk.injEq] at hres
      obtain ⟨r, s1, _, s3, _, s5⟩ := hj.stored id msg hm
      exact ⟨msg, r, rfl, hv, hres.2.1.symm, hres.1.symm, s1, s3, by rw [← hres.2.2, s5 p]⟩
    · have : msg.validated = false := by simpa using hv
      simp [this] at hres

/-- **C33, duplicate put.** A `put` of an id that is present returns `false` and changes nothing;
and `put` only ever returns `false` for a message still inside the history window. -/
theorem put_dup (c : MC) (m : MMon) (hj : J c m) (id t : Nat) (hres : (put c id t).2 = false) :
    (put c id t).1 = c ∧ ∃ msg r, c.msgs id = some msg ∧ m.recs id = some r ∧ r.age < c.history.length := by
  unfold put at hres ⊢
  cases hh : c.history with
  | nil => rw [hh] at hres; simp at hres
  | cons h0 hs =>
    rw [hh] at hres
    simp only at hres ⊢
    cases hm : c.msgs id with
    | none => rw [hm] at hres; simp at hres
    | some msg =>
      obtain ⟨r, s1, _, s3, _, _⟩ := hj.stored id msg hm
      exact ⟨rfl, msg, r, rfl, s1, by rw [← hh]; exact s3⟩

/-- the monitor's `age` really counts shifts: a `shift` ages every record by one and drops those
reaching `history_length`; only a successful `put` resets it to 0 -/
theorem age_counts_shifts (m : MMon) (id : Nat) (r : Rec) (h : m.recs id = some r) :
    (mmonStep m .shift .unit).recs id =
      if r.age + 1 < m.len then some { r with age := r.age + 1 } else none := by
  simp [mmonStep, h]

theorem mcheck_ok (c : MC) (m : MMon) (hj : J c m) (op : MOp) : mcheck m op (mstep c op).2 = none := by
  cases op with
  | observe id p => simp [mcheck]
  | shift => simp [mcheck]
  | put id t =>
    simp only [mstep]
    cases hres : (put c id t).2 with
    | true => simp [mcheck]
    | false =>
      obtain ⟨_, msg, r, _, s1, _⟩ := put_dup c m hj id t hres
      simp [mcheck, s1]
  | iwant id p =>
    simp only [mstep]
    cases hres : (getWithIwant c id p).2 with
    | none => simp [mcheck]
    | some x =>
      obtain ⟨t, v, n⟩ := x
      obtain ⟨msg, r, s1, s2, s3, _, s5, _, s7⟩ := iwant_window_exact c m hj id p t n v hres
      obtain ⟨r', q1, q2, _⟩ := hj.stored id msg s1
      rw [s5] at q1
      simp only [Option.some.injEq] at q1
      subst q1
      simp [mcheck, s5, q2, s2, s3, s7]
  | validate id =>
    simp only [mstep]
    cases hm : c.msgs id with
    | none => simp [validate, hm, mcheck]
    | some msg =>
      obtain ⟨r, s1, _⟩ := hj.stored id msg hm
      simp [validate, hm, mcheck, s1]
  | remove id =>
    simp only [mstep]
    cases hm : c.msgs id with
    | none => simp [remove, hm, mcheck]
    | some msg =>
      obtain ⟨r, s1, _⟩ := hj.stored id msg hm
      simp [remove, hm, mcheck, s1]
  | gossip t =>
    simp only [mstep]
    cases hg : getGossipIds c t with
    | none => simp [mcheck]
    | some ids =>
      simp only [mcheck]
      rw [if_pos]
      rw [List.all_eq_true]
      intro id hid
      obtain ⟨msg, r, _, _, s3, s4, s5⟩ := gossip_window c m hj t ids hg id hid
      simp [s3, s4, hj.gossip, s5]

def mverdicts : MC → MMon → List MOp → List (Option String)
  | _, _, [] => []
  | c, m, op :: ops => mcheck m op (mstep c op).2 :: mverdicts (mstep c op).1 (mmonStep m op (mstep c op).2) ops

/-- **The message-cache monitor accepts the model**: for every `(history_gossip, history_length)`
and every op sequence, all verdicts of the oracle run on the implementation's outputs
(`gossip_window`, `iwant_window`, `iwant_unvalidated`, `iwant_count`, `put_dup`, …) are `ok` on the
model's outputs. -/
theorem mcache_spec_accepts_model (g h : Nat) (ops : List MOp) :
    ∀ v ∈ mverdicts (mcNew g h) (mmonNew g h) ops, v = none := by
  have key : ∀ (ops : List MOp) (c : MC) (m : MMon), J c m → ∀ v ∈ mverdicts c m ops, v = none := by
    intro ops
    induction ops with
    | nil => intro c m _ v hv; simp [mverdicts] at hv
    | cons op os ih =>
      intro c m hj v hmem
      simp only [mverdicts, List.mem_cons] at hmem
      rcases hmem with rfl | hmem
      · exact mcheck_ok c m hj op
      · exact ih _ _ (J_step c m op hj) v hmem
  exact key ops _ _ (J_new g h)

/-! ## non-vacuity -/

/-- inserted at 5 with ttl 10: re-insertion at 14 is refused and does not refresh; at 15 it is new -/
example : (dupInsert (dupInsert (dupInsert (tcNew 1000 10) 5 7).1 14 7).1 15 7).2 = true := by decide
example : (dupInsert (dupInsert (tcNew 1000 10) 5 7).1 14 7).2 = false := by decide

/-- gossip (1) / history (2): a validated message is gossiped in the shift it was put, answered to
IWANT one shift later with count 1, gone after two shifts -/
example :
    ((mexec (mcNew 1 2) (mmonNew 1 2) [.put 3 0, .validate 3]).1 |> fun c => getGossipIds c 0) = some [3] := by
  decide
example :
    ((mexec (mcNew 1 2) (mmonNew 1 2) [.put 3 0, .validate 3, .shift]).1 |> fun c =>
      (getGossipIds c 0, (getWithIwant c 3 1).2)) = (some [], some (0, true, 1)) := by
  decide
example :
    ((mexec (mcNew 1 2) (mmonNew 1 2) [.put 3 0, .validate 3, .shift, .shift]).1 |> fun c =>
      (getWithIwant c 3 1).2) = none := by
  decide

end C33

#print axioms C33.dup_window
#print axioms C33.contains_lazy
#print axioms C33.timecache_reachable_wf
#print axioms C33.timecache_spec_accepts_model
#print axioms C33.mcache_reachable
#print axioms C33.gossip_window
#print axioms C33.gossip_complete
#print axioms C33.iwant_window_exact
#print axioms C33.put_dup
#print axioms C33.age_counts_shifts
#print axioms C33.mcache_spec_accepts_model
