import Libp2pModel.Proofs.C53
import Libp2pModel.Common.Machine
/-!
# C53 — Allow and block lists are enforced

Statement (properties.jsonl): no connection to a blocked peer (or, with an allow list, to a peer not
allowed) is established after the list change took effect, and connections that existed when a
peer became blocked or disallowed are closed.

System: `C53.step` = the shared Swarm model run with the verdicts of the transcribed
`allow_block_list::Behaviour` (first field of the derived behaviour; the probe may deny as well),
list ops = API call followed by polling the Swarm to quiescence.
-/
namespace C53
open Swarm

/-- every established connection is to a peer the list currently permits, and the close queue has
been drained -/
structure Safe (cs : CS) : Prop where
  est_ok : ∀ e ∈ cs.sw.est, cs.b.enforce e.peer = false
  q_empty : cs.b.closeQ = []

theorem poll_enforce (b : ABL) (q : Nat) : (poll b).1.enforce q = b.enforce q := by
  unfold poll; cases b.closeQ <;> rfl

theorem poll_q (b : ABL) (h : b.closeQ = []) : (poll b).1.closeQ = [] := by
  unfold poll; rw [h]

theorem mem_setInsert (l : List Nat) (p q : Nat) : q ∈ setInsert l p ↔ q ∈ l ∨ q = p := by
  unfold setInsert
  by_cases h : l.contains p = true
  · simp only [h, ↓reduceIte]
    constructor
    · exact Or.inl
    · rintro (h1 | rfl)
      · exact h1
      · exact List.contains_iff_mem.1 h
  · simp only [h, Bool.false_eq_true, ↓reduceIte, List.mem_append, List.mem_singleton]

theorem mem_setRemove (l : List Nat) (p q : Nat) : q ∈ setRemove l p ↔ q ∈ l ∧ q ≠ p := by
  simp [setRemove]

theorem contains_true {l : List Nat} {p : Nat} (h : l.contains p = true) : p ∈ l := List.contains_iff_mem.1 h
theorem contains_false {l : List Nat} {p : Nat} (h : l.contains p = false) : p ∉ l := by
  intro hm; rw [List.contains_iff_mem.2 hm] at h; cases h

/-- what the "make `p` denied" call does to the verdicts and the queue -/
theorem denyPeer_spec (b : ABL) (p : Nat) :
    ((denyPeer b p).2.1 = true → (denyPeer b p).1.closeQ = b.closeQ ++ [p]) ∧
    ((denyPeer b p).2.1 = false → (denyPeer b p).1 = b ∧ b.enforce p = true) ∧
    (∀ q, q ≠ p → (denyPeer b p).1.enforce q = b.enforce q) ∧
    (denyPeer b p).1.enforce p = true := by
  unfold denyPeer
  cases hm : b.allowMode with
  | true =>
    simp only [↓reduceIte, disallowPeer]
    cases hc : b.peers.contains p with
    | true =>
      have hc' := contains_true hc
      simp only [↓reduceIte]
      refine ⟨fun _ => trivial, ?_, ?_, ?_⟩
      · intro h; cases h
      · intro q hq
        simp [ABL.enforce, hm, mem_setRemove, hq]
      · simp [ABL.enforce, hm, mem_setRemove]
    | false =>
      have hc' := contains_false hc
      simp only [Bool.false_eq_true, ↓reduceIte]
      refine ⟨?_, ?_, fun _ _ => trivial, ?_⟩
      · intro h; cases h
      · intro _; exact ⟨trivial, by simp [ABL.enforce, hm, hc']⟩
      · simp [ABL.enforce, hm, hc']
  | false =>
    simp only [Bool.false_eq_true, ↓reduceIte, blockPeer]
    cases hc : b.peers.contains p with
    | false =>
      have hc' := contains_false hc
      simp only [Bool.not_false, ↓reduceIte]
      refine ⟨fun _ => trivial, ?_, ?_, ?_⟩
      · intro h; cases h
      · intro q hq
        simp [ABL.enforce, hm, mem_setInsert, hq]
      · simp [ABL.enforce, hm, mem_setInsert]
    | true =>
      have hc' := contains_true hc
      simp only [Bool.not_true, Bool.false_eq_true, ↓reduceIte]
      refine ⟨?_, ?_, fun _ _ => trivial, ?_⟩
      · intro h; cases h
      · intro _; exact ⟨trivial, by simp [ABL.enforce, hm, hc']⟩
      · simp [ABL.enforce, hm, hc']

/-- permitting a peer never turns a permitted peer into a denied one, and queues nothing -/
theorem permitPeer_spec (b : ABL) (p : Nat) :
    (∀ q, (permitPeer b p).1.enforce q = true → b.enforce q = true) ∧ (permitPeer b p).1.closeQ = b.closeQ ∧
    (permitPeer b p).1.enforce p = false := by
  unfold permitPeer
  cases hm : b.allowMode with
  | true =>
    simp only [↓reduceIte, allowPeer]
    cases hc : b.peers.contains p with
    | false =>
      simp only [Bool.not_false, ↓reduceIte]
      refine ⟨?_, trivial, by simp [ABL.enforce, hm, mem_setInsert]⟩
      intro q
      simp only [ABL.enforce, hm, ↓reduceIte]
      simp only [Bool.not_eq_true', List.contains_eq_mem, decide_eq_false_iff_not, mem_setInsert, not_or]
      exact fun h => h.1
    | true =>
      have hc' := contains_true hc
      simp only [Bool.not_true, Bool.false_eq_true, ↓reduceIte]
      exact ⟨fun _ h => h, trivial, by simp [ABL.enforce, hm, hc']⟩
  | false =>
    simp only [Bool.false_eq_true, ↓reduceIte, unblockPeer]
    cases hc : b.peers.contains p with
    | true =>
      simp only [↓reduceIte]
      refine ⟨?_, trivial, by simp [ABL.enforce, hm, mem_setRemove]⟩
      intro q
      simp only [ABL.enforce, hm, Bool.false_eq_true, ↓reduceIte]
      simp only [List.contains_eq_mem, decide_eq_true_eq, mem_setRemove]
      exact fun h => h.1
    | false =>
      have hc' := contains_false hc
      simp only [Bool.false_eq_true, ↓reduceIte]
      exact ⟨fun _ h => h, trivial, by simp [ABL.enforce, hm, hc']⟩

/-- the only way `withDeny op d` is an undenied resolution with peer `q` -/
theorem withDeny_resolve {op : Op} {d : Bool} {k q : Nat}
    (h : withDeny op d = .resolve k q false ∨ withDeny op d = .resolveIn k q false) (b : ABL) (sw : State)
    (hd : d = decideOp b sw op) : b.enforce q = false := by
  cases op <;> simp only [withDeny] at h <;> try (rcases h with h | h <;> cases h)
  all_goals
    rcases h with h | h <;> simp only [Op.resolve.injEq, Op.resolveIn.injEq, reduceCtorEq] at h
    obtain ⟨_, rfl, hdn⟩ := h
    have : d = false := by cases d <;> simp_all
    rw [this] at hd
    simpa [decideOp] using hd.symm

/-- **C53.no_establish_after_block** — in ANY state, a Swarm step reports no connection established
(neither to the behaviours nor as a SwarmEvent) with a peer the list currently denies: blocked and
not yet unblocked, disallowed / never allowed. -/
theorem no_establish_while_denied (cs : CS) (op : Op) (q : Nat) (hq : cs.b.enforce q = true) :
    q ∉ estPeers (step cs (.sw op)).2.evs := by
  intro hm
  simp only [step] at hm
  have hm' : q ∈ estPeers (Swarm.step cs.sw (withDeny op (decideOp cs.b cs.sw op))).2.2 := by
    split at hm
    · unfold estPeers at hm ⊢
      obtain ⟨e, he, hq'⟩ := List.mem_filterMap.1 hm
      exact List.mem_filterMap.2 ⟨e, (List.mem_filter.1 he).1, hq'⟩
    · exact hm
  obtain ⟨k, hk⟩ := estPeers_step _ _ q hm'
  have := withDeny_resolve hk cs.b cs.sw rfl
  rw [this] at hq; cases hq

theorem deny_step_eq (cs : CS) (hq : cs.b.closeQ = []) (p : Nat) (o a : List Nat) :
    ((denyPeer cs.b p).2.1 = true →
      (step cs (.deny p o a)).1.sw = (disconnectAny cs.sw p o a).1 ∧
      (step cs (.deny p o a)).2.evs = (disconnectAny cs.sw p o a).2 ++ [] ∧
      (step cs (.deny p o a)).1.b.closeQ = [] ∧
      ∀ q, (step cs (.deny p o a)).1.b.enforce q = (denyPeer cs.b p).1.enforce q) ∧
    ((denyPeer cs.b p).2.1 = false →
      (step cs (.deny p o a)).1.sw = cs.sw ∧ (step cs (.deny p o a)).2.evs = [] ∧
      (step cs (.deny p o a)).1.b.closeQ = [] ∧
      ∀ q, (step cs (.deny p o a)).1.b.enforce q = cs.b.enforce q) := by
  obtain ⟨h1, h2, _, _⟩ := denyPeer_spec cs.b p
  constructor
  · intro ht
    have hq' := h1 ht
    rw [hq, List.nil_append] at hq'
    simp only [step, hq', List.length_cons, List.length_nil, drain, poll]
    refine ⟨trivial, trivial, trivial, ?_⟩
    intro q; rfl
  · intro hf
    obtain ⟨e1, _⟩ := h2 hf
    simp only [step, e1, hq, List.length_nil, drain, poll]
    exact ⟨trivial, trivial, trivial, fun q => rfl⟩

theorem poll2_q (b : ABL) (x : Nat) (h : b.closeQ = [] ∨ b.closeQ = [x]) : (poll (poll b).1).1.closeQ = [] := by
  rcases h with h | h <;> simp [poll, h]

/-- the race step, case by case: `changed` = the API call returned `true` -/
theorem race_step_eq (cs : CS) (k p : Nat) (pd : Bool) (q : Nat) (o a : List Nat) :
    let r := step cs (.raceDeny k p pd q o a)
    (∀ x, r.1.b.enforce x = (denyPeer cs.b q).1.enforce x) ∧
    ((denyPeer cs.b q).2.1 = true →
      r.1.sw = (raceAny cs.sw k p (pd || (denyPeer cs.b q).1.enforce p) q o a).1 ∧
      (r.2.evs = (raceAny cs.sw k p (pd || (denyPeer cs.b q).1.enforce p) q o a).2 ∨
       r.2.evs = ((raceAny cs.sw k p (pd || (denyPeer cs.b q).1.enforce p) q o a).2).filter (fun e => !isListDecision e))) ∧
    ((denyPeer cs.b q).2.1 = false →
      r.1.sw = (resolveDial cs.sw k p (pd || (denyPeer cs.b q).1.enforce p)).1 ∧
      (r.2.evs = (resolveDial cs.sw k p (pd || (denyPeer cs.b q).1.enforce p)).2 ∨
       r.2.evs = ((resolveDial cs.sw k p (pd || (denyPeer cs.b q).1.enforce p)).2).filter (fun e => !isListDecision e))) := by
  intro r
  refine ⟨?_, ?_, ?_⟩
  · intro x
    show (poll (poll (denyPeer cs.b q).1).1).1.enforce x = _
    rw [poll_enforce, poll_enforce]
  · intro hc
    simp only [r, step, hc, ↓reduceIte]
    refine ⟨trivial, ?_⟩
    cases (denyPeer cs.b q).1.enforce p <;> simp
  · intro hc
    simp only [r, step, hc, Bool.false_eq_true, ↓reduceIte]
    refine ⟨trivial, ?_⟩
    cases (denyPeer cs.b q).1.enforce p <;> simp

theorem or_false_split {a b : Bool} (h : (a || b) = false) : b = false := by cases a <;> cases b <;> simp_all

theorem step_Safe (cs : CS) (op : COp) (h : Safe cs) : Safe (step cs op).1 := by
  cases op with
  | sw op =>
    refine ⟨?_, poll_q _ h.q_empty⟩
    intro e he
    show (poll cs.b).1.enforce e.peer = false
    rw [poll_enforce]
    rcases est_new cs.sw (withDeny op (decideOp cs.b cs.sw op)) e he with h1 | ⟨k, hk⟩
    · exact h.est_ok e h1
    · exact withDeny_resolve hk cs.b cs.sw rfl
  | deny p o a =>
    obtain ⟨ht, hf⟩ := deny_step_eq cs h.q_empty p o a
    obtain ⟨_, _, hother, hp⟩ := denyPeer_spec cs.b p
    cases hr : (denyPeer cs.b p).2.1 with
    | true =>
      obtain ⟨e1, _, e3, e4⟩ := ht hr
      refine ⟨?_, e3⟩
      intro e he
      rw [e1] at he
      obtain ⟨hin, hne⟩ := disconnectAny_est cs.sw p o a e he
      rw [e4, hother _ hne]
      exact h.est_ok e hin
    | false =>
      obtain ⟨e1, _, e3, e4⟩ := hf hr
      refine ⟨?_, e3⟩
      intro e he
      rw [e1] at he
      rw [e4]; exact h.est_ok e he
  | raceDeny k p pd q o a =>
    obtain ⟨henf, hc, hu⟩ := race_step_eq cs k p pd q o a
    obtain ⟨h1, h2, hother, hp⟩ := denyPeer_spec cs.b q
    refine ⟨?_, ?_⟩
    · intro e he
      rw [henf]
      cases hr : (denyPeer cs.b q).2.1 with
      | true =>
        rw [(hc hr).1] at he
        rcases raceAny_est _ _ _ _ _ _ _ e he with ⟨hin, hne⟩ | ⟨hd, hpe⟩
        · rw [hother _ hne]; exact h.est_ok e hin
        · rw [hpe]; exact or_false_split hd
      | false =>
        rw [(hu hr).1] at he
        rcases resolveDial_est_new _ _ _ _ e he with hin | ⟨hd, hpe⟩
        · rw [(h2 hr).1]; exact h.est_ok e hin
        · rw [hpe]; exact or_false_split hd
    · show (poll (poll (denyPeer cs.b q).1).1).1.closeQ = []
      apply poll2_q _ q
      cases hr : (denyPeer cs.b q).2.1 with
      | true => right; rw [h1 hr, h.q_empty]; rfl
      | false => left; rw [(h2 hr).1]; exact h.q_empty
  | permit p =>
    obtain ⟨hmono, hq, _⟩ := permitPeer_spec cs.b p
    refine ⟨?_, ?_⟩
    · intro e he
      show (poll (permitPeer cs.b p).1).1.enforce e.peer = false
      rw [poll_enforce]
      cases hx : (permitPeer cs.b p).1.enforce e.peer with
      | false => rfl
      | true => have := hmono _ hx; rw [h.est_ok e he] at this; cases this
    · exact poll_q _ (hq.trans h.q_empty)

theorem init_Safe (peerIds : List (List Nat)) (allowMode : Bool) : Safe (CS.init peerIds allowMode) :=
  ⟨by intro e he; simp [CS.init, State.init] at he, rfl⟩

/-- **For every operation history** (either list kind): in every reachable state, every established
connection is to a peer the list permits — in particular, from the step in which `block_peer(p)` /
`disallow_peer(p)` returned until `unblock_peer(p)` / `allow_peer(p)`, the Swarm holds no connection
to `p` — and the behaviour's close queue is empty at quiescence. -/
theorem safe (peerIds : List (List Nat)) (allowMode : Bool) (ops : List COp) :
    Safe (Machine.exec step (CS.init peerIds allowMode) ops) :=
  Machine.invariant_of_step step Safe (fun s o h => step_Safe s o h) ops _ (init_Safe peerIds allowMode)

/-- **C53.existing_closed** — when `block_peer(p)` / `disallow_peer(p)` takes effect (returns
`true`), every connection to `p` that existed gets its `ConnectionClosed` in that very step (the
harness polls to quiescence), and after the step — whatever the call returned — no connection to `p`
is left and `p` is denied. -/
theorem existing_closed (cs : CS) (h : Safe cs) (p : Nat) (o a : List Nat) :
    ((denyPeer cs.b p).2.1 = true →
      ∀ e ∈ cs.sw.est, e.peer = p → e.id ∈ closedIds (step cs (.deny p o a)).2.evs) ∧
    (∀ e ∈ (step cs (.deny p o a)).1.sw.est, e.peer ≠ p) ∧
    (step cs (.deny p o a)).1.b.enforce p = true := by
  obtain ⟨ht, hf⟩ := deny_step_eq cs h.q_empty p o a
  obtain ⟨_, h2, _, hp⟩ := denyPeer_spec cs.b p
  have hs := step_Safe cs (.deny p o a) h
  have hden : (step cs (.deny p o a)).1.b.enforce p = true := by
    cases hr : (denyPeer cs.b p).2.1 with
    | true => rw [(ht hr).2.2.2]; exact hp
    | false => rw [(hf hr).2.2.2]; exact (h2 hr).2
  refine ⟨?_, ?_, hden⟩
  · intro hr e he hpe
    rw [(ht hr).2.1, List.append_nil]
    exact disconnectAny_closed cs.sw p o a e he hpe
  · intro e he hpe
    have := hs.est_ok e he
    rw [hpe, hden] at this; cases this

/-- events of a race step: a sublist (the probe's decision call may be missing) of the Swarm's -/
theorem race_estPeers (cs : CS) (k p : Nat) (pd : Bool) (q : Nat) (o a : List Nat) (x : Nat)
    (hx : x ∈ estPeers (step cs (.raceDeny k p pd q o a)).2.evs) :
    x = p ∧ (denyPeer cs.b q).1.enforce p = false := by
  obtain ⟨_, hc, hu⟩ := race_step_eq cs k p pd q o a
  cases hr : (denyPeer cs.b q).2.1 with
  | true =>
    have hx' : x ∈ estPeers (raceAny cs.sw k p (pd || (denyPeer cs.b q).1.enforce p) q o a).2 := by
      rcases (hc hr).2 with h | h <;> rw [h] at hx
      · exact hx
      · exact estPeers_filter_sub _ _ _ hx
    obtain ⟨hd, hxp⟩ := estPeers_raceAny _ _ _ _ _ _ _ _ hx'
    exact ⟨hxp, or_false_split hd⟩
  | false =>
    have hx' : x ∈ estPeers (resolveDial cs.sw k p (pd || (denyPeer cs.b q).1.enforce p)).2 := by
      rcases (hu hr).2 with h | h <;> rw [h] at hx
      · exact hx
      · exact estPeers_filter_sub _ _ _ hx
    obtain ⟨hd, hxp⟩ := estPeers_resolveDial _ _ _ _ _ hx'
    exact ⟨hxp, or_false_split hd⟩

/-- **The list change that races with a finished dial** (`block_peer(q)` / `disallow_peer(q)` called
after the task of a pending dial has authenticated peer `p` and queued its report, before the Swarm
polls the pool): the established-time check sees the NEW list, so nothing is reported established
for a peer the new list denies — in particular not for `q` — every connection to `q` that existed is
closed in the step (when the call took effect), and afterwards the Swarm holds no connection to `q`. -/
theorem race_enforced (cs : CS) (h : Safe cs) (k p : Nat) (pd : Bool) (q : Nat) (o a : List Nat) :
    let r := step cs (.raceDeny k p pd q o a)
    (∀ x ∈ estPeers r.2.evs, r.1.b.enforce x = false) ∧
    r.1.b.enforce q = true ∧
    (∀ e ∈ r.1.sw.est, e.peer ≠ q) ∧
    ((denyPeer cs.b q).2.1 = true → ∀ e ∈ cs.sw.est, e.peer = q → e.id ∈ closedIds r.2.evs) := by
  intro r
  obtain ⟨henf, hc, _⟩ := race_step_eq cs k p pd q o a
  obtain ⟨_, _, _, hp⟩ := denyPeer_spec cs.b q
  have hs := step_Safe cs (.raceDeny k p pd q o a) h
  have hq : r.1.b.enforce q = true := by rw [henf]; exact hp
  refine ⟨?_, hq, ?_, ?_⟩
  · intro x hx
    obtain ⟨hxp, hen⟩ := race_estPeers cs k p pd q o a x hx
    rw [henf, hxp]; exact hen
  · intro e he hpe
    have := hs.est_ok e he
    rw [hpe] at this
    rw [hq] at this; cases this
  · intro hr e he hpe
    rcases (hc hr).2 with h' | h' <;> rw [h']
    · exact raceAny_closed _ _ _ _ _ _ _ e he hpe
    · rw [closedIds_filter]; exact raceAny_closed _ _ _ _ _ _ _ e he hpe

/-- `unblock_peer(p)` / `allow_peer(p)`: afterwards `p` is permitted again -/
theorem permit_permits (cs : CS) (p : Nat) : (step cs (.permit p)).1.b.enforce p = false := by
  show (poll (permitPeer cs.b p).1).1.enforce p = false
  rw [poll_enforce]; exact (permitPeer_spec cs.b p).2.2

/-- what the Spec is given for a model step: the connections to `p` that must be seen closing -/
def mustClose (cs : CS) : COp → List Nat
  | .deny p _ _ => if (denyPeer cs.b p).2.1 then (cs.sw.est.filter (·.peer == p)).map (·.id) else []
  | .raceDeny _ _ _ q _ _ => if (denyPeer cs.b q).2.1 then (cs.sw.est.filter (·.peer == q)).map (·.id) else []
  | _ => []

/-- **The Spec accepts the model**: on every step from a safe state, the executable property finds
no violated clause on the model's own outputs (so `impl = model` on a step implies the Spec holds
on the implementation's outputs). -/
theorem spec_accepts_model (cs : CS) (h : Safe cs) (op : COp) :
    violations (step cs op).1.b.enforce (step cs op).2.evs (step cs op).1.sw.connectedPeers (mustClose cs op) = [] := by
  have hs := step_Safe cs op h
  have c2 : ((step cs op).1.sw.connectedPeers.any (step cs op).1.b.enforce) = false := by
    cases hx : ((step cs op).1.sw.connectedPeers.any (step cs op).1.b.enforce) with
    | false => rfl
    | true =>
      obtain ⟨q, hq, hd⟩ := List.any_eq_true.1 hx
      obtain ⟨e, he, hp⟩ := mem_connectedPeers _ q hq
      have := hs.est_ok e he
      rw [hp, hd] at this; cases this
  have c1 : ((estPeers (step cs op).2.evs).any (step cs op).1.b.enforce) = false := by
    cases hx : ((estPeers (step cs op).2.evs).any (step cs op).1.b.enforce) with
    | false => rfl
    | true =>
      obtain ⟨q, hq, hd⟩ := List.any_eq_true.1 hx
      cases op with
      | sw op =>
        have hd' : cs.b.enforce q = true := by
          have : (poll cs.b).1.enforce q = true := hd
          rwa [poll_enforce] at this
        exact absurd hq (no_establish_while_denied cs op q hd')
      | deny p o a =>
        obtain ⟨ht, hf⟩ := deny_step_eq cs h.q_empty p o a
        cases hr : (denyPeer cs.b p).2.1 with
        | true => rw [(ht hr).2.1, List.append_nil, estPeers_disconnectAny] at hq; cases hq
        | false => rw [(hf hr).2.1] at hq; cases hq
      | permit p => cases hq
      | raceDeny k p pd q' o a =>
        have := (race_enforced cs h k p pd q' o a).1 q hq
        rw [hd] at this; cases this
  have c3 : (mustClose cs op).all (closedIds (step cs op).2.evs).contains = true := by
    cases op with
    | sw op => rfl
    | permit p => rfl
    | raceDeny k p pd q o a =>
      simp only [mustClose]
      cases hr : (denyPeer cs.b q).2.1 with
      | false => rfl
      | true =>
        simp only [↓reduceIte]
        apply List.all_eq_true.2
        intro c hc
        obtain ⟨e, he, rfl⟩ := List.mem_map.1 hc
        obtain ⟨he1, he2⟩ := List.mem_filter.1 he
        have := (race_enforced cs h k p pd q o a).2.2.2 hr e he1 (by simpa using he2)
        exact List.contains_iff_mem.2 this
    | deny p o a =>
      simp only [mustClose]
      cases hr : (denyPeer cs.b p).2.1 with
      | false => rfl
      | true =>
        simp only [↓reduceIte]
        apply List.all_eq_true.2
        intro c hc
        obtain ⟨e, he, rfl⟩ := List.mem_map.1 hc
        obtain ⟨he1, he2⟩ := List.mem_filter.1 he
        have := (existing_closed cs h p o a).1 hr e he1 (by simpa using he2)
        exact List.contains_iff_mem.2 this
  simp [violations, c1, c2, c3]

/-- non-vacuity: a connection to peer 2 exists, `block_peer(2)` closes it in the same step, a later
inbound connection from 2 is denied, after `unblock_peer(2)` it is established again -/
example :
    let cs0 := CS.init [[0], [1], [2], [3]] false
    let ops1 : List COp := [.sw (.incoming false), .sw (.resolveIn 0 2 false)]
    let cs1 := Machine.exec step cs0 ops1
    let r2 := step cs1 (.deny 2 [0] [])
    let r3 := step (step r2.1 (.sw (.incoming false))).1 (.sw (.resolveIn 1 2 false))
    let r4 := step (step (step r3.1 (.permit 2)).1 (.sw (.incoming false))).1 (.sw (.resolveIn 2 2 false))
    (cs1.sw.est.map (·.id), closedIds r2.2.evs, r2.1.sw.est.map (·.id), estPeers r3.2.evs, estPeers r4.2.evs)
      = ([0], [0], [], [], [2, 2]) := by
  decide

end C53

#print axioms C53.no_establish_while_denied
#print axioms C53.safe
#print axioms C53.existing_closed
#print axioms C53.race_enforced
#print axioms C53.permit_permits
#print axioms C53.spec_accepts_model
