import Libp2pModel.Model.C44
/-!
# C44 — Kademlia messages round-trip through the wire codec: property theorems

Statement: *Every Kademlia request and response message encodes to bytes that decode to the same
message, and arbitrary bytes decode to an error rather than a panic.*

Proved on the model of the conversions (`KadRequestMsg`/`KadResponseMsg` ↔ `proto::Message`), for
every message, every `now`, and every verdict of the two external parsers:
`protoToReq (reqToProto m) = ok (normReq m)` where `normReq` is the explicit, idempotent
normalisation the code performs (addresses get the `/p2p/<node_id>` suffix or are dropped when they
end in another peer's `/p2p`; an expiry becomes whole seconds from `now`), hence `= ok m` for
every message that is already normal — in particular for every message that was itself decoded
(`decoded_req_is_normal`).  The byte level (`prost`, unsigned-varint framing) is exercised by the
harness and trusted.
-/
namespace C44

theorem NS_pos : 0 < NS := by decide

/-! ## generic -/

theorem filterMap_idem {α : Type} {f : α → Option α} (hf : ∀ a a', f a = some a' → f a' = some a')
    (l : List α) : (l.filterMap f).filterMap f = l.filterMap f := by
  induction l with
  | nil => rfl
  | cons x xs ih =>
    cases hx : f x with
    | none => simp [hx, ih]
    | some y => simp [hx, hf x y hx, ih]

/-! ## addresses and peers -/

/-- `with_p2p` is idempotent: its successful output already carries the suffix -/
theorem withP2p_idem (a a' : Maddr) (id : List Nat) (h : Maddr.withP2p a id = some a') :
    Maddr.withP2p a' id = some a' := by
  unfold Maddr.withP2p at h
  split at h
  · rename_i q hq
    split at h
    · rename_i hqid
      cases h
      simp [Maddr.withP2p, hq, hqid]
    · cases h
  · cases h
    simp [Maddr.withP2p]

theorem conn_roundtrip (c : ConnTy) : ConnTy.ofInt c.toInt = some c := by
  cases c <;> rfl

/-- `ConnectionType` decoding succeeds exactly on 0..3 -/
theorem conn_ofInt_isSome (i : Int) : (ConnTy.ofInt i).isSome ↔ (0 ≤ i ∧ i ≤ 3) := by
  unfold ConnTy.ofInt
  constructor
  · intro h
    split at h
    · omega
    · split at h
      · omega
      · split at h
        · omega
        · split at h
          · omega
          · simp at h
  · intro ⟨h0, h3⟩
    have : i = 0 ∨ i = 1 ∨ i = 2 ∨ i = 3 := by omega
    rcases this with rfl | rfl | rfl | rfl <;> rfl

/-- one peer through `proto::Peer` and back: the node id and connection type are preserved, the
addresses are normalised -/
theorem peer_roundtrip (p : KadPeer) : peerFromProto (peerToProto p) = some (normPeer p) := by
  simp only [peerFromProto, peerToProto, conn_roundtrip, ↓reduceIte, List.filterMap_map, normPeer]
  congr

theorem normPeer_idem (p : KadPeer) : normPeer (normPeer p) = normPeer p := by
  simp only [normPeer]
  congr 1
  exact filterMap_idem (fun a a' h => withP2p_idem a a' p.nodeId h) p.addrs

/-- a peer is normal iff every address already ends in its own `/p2p` -/
theorem normPeer_eq_iff (p : KadPeer) :
    normPeer p = p ↔ p.addrs.filterMap (fun a => Maddr.withP2p a p.nodeId) = p.addrs := by
  cases p
  simp [normPeer]

/-- a list of peers through the wire: no peer is lost, each is normalised, order is kept -/
theorem peers_roundtrip (ps : List KadPeer) :
    (ps.map peerToProto).filterMap peerFromProto = ps.map normPeer := by
  induction ps with
  | nil => rfl
  | cons p ps ih => simp [peer_roundtrip, ih]

theorem peers_roundtrip' (ps : List KadPeer) :
    List.filterMap (peerFromProto ∘ peerToProto) ps = ps.map normPeer := by
  rw [← List.filterMap_map]; exact peers_roundtrip ps

/-- whatever `KadPeer::try_from` returns is normal -/
theorem peerFromProto_normal (q : PPeer) (p : KadPeer) (h : peerFromProto q = some p) : normPeer p = p := by
  unfold peerFromProto at h
  split at h
  · split at h
    · cases h
      simp only [normPeer]
      congr 1
      have hidem : ∀ a a', Maddr.withP2p a q.id.bytes = some a' → Maddr.withP2p a' q.id.bytes = some a' :=
        fun a a' h => withP2p_idem a a' _ h
      induction q.addrs with
      | nil => rfl
      | cons x xs ih =>
        cases hx : addrFromProto q.id.bytes x with
        | none => simpa [hx] using ih
        | some y =>
          have hy : Maddr.withP2p y q.id.bytes = some y := by
            cases x with
            | good a => exact hidem a y hx
            | bad b => simp [addrFromProto] at hx
          simp [hx, hy, ih]
    · cases h
  · cases h

theorem filterMap_peerFromProto_normal (qs : List PPeer) :
    (qs.filterMap peerFromProto).map normPeer = qs.filterMap peerFromProto := by
  induction qs with
  | nil => rfl
  | cons q qs ih =>
    cases hq : peerFromProto q with
    | none => simpa [hq] using ih
    | some p => simp [hq, peerFromProto_normal q p hq, ih]

/-! ## records -/

theorem ttl_pos (t now : Nat) : 0 < toProtoTtl (some t) now := by
  simp only [toProtoTtl]
  split <;> omega

theorem ttl_le (e : Option Nat) (now : Nat) : toProtoTtl e now ≤ u32Max := by
  unfold toProtoTtl u32Max
  split
  · omega
  · split <;> omega

/-- a wire TTL `1 ≤ w ≤ u32::MAX` decoded at `now` and re-encoded at `now` is `w` again -/
theorem ttl_of_decoded (w now : Nat) (h1 : 0 < w) (h2 : w ≤ u32Max) :
    toProtoTtl (some (now + w * NS)) now = w := by
  have hpos : 0 < w * NS := Nat.mul_pos h1 NS_pos
  have hgt : now + w * NS > now := by omega
  simp only [toProtoTtl, hgt, ↓reduceIte, Nat.add_sub_cancel_left, Nat.mul_div_cancel _ NS_pos]
  omega

theorem normExp_idem (now : Nat) (e : Option Nat) : normExp now (normExp now e) = normExp now e := by
  cases e with
  | none => rfl
  | some t =>
    simp only [normExp]
    rw [ttl_of_decoded _ now (ttl_pos t now) (ttl_le _ now)]

theorem normRecord_idem (now : Nat) (r : Record) : normRecord now (normRecord now r) = normRecord now r := by
  simp [normRecord, normExp_idem]

/-- a record through `proto::Record` and back at the same instant -/
theorem record_roundtrip (now : Nat) (r : Record) (hwf : r.WF) :
    recordFromProto now (recordToProto now r) = .ok (normRecord now r) := by
  obtain ⟨key, value, publisher, expires⟩ := r
  have hexp : (if toProtoTtl expires now > 0 then some (now + toProtoTtl expires now * NS) else none)
      = normExp now expires := by
    cases expires with
    | none => simp [toProtoTtl, normExp]
    | some t => simp [ttl_pos, normExp]
  cases publisher with
  | none => simp [recordFromProto, recordToProto, normRecord, hexp]
  | some b =>
    have hb : b ≠ [] := fun h => hwf (by simp [h])
    simp [recordFromProto, recordToProto, normRecord, hexp, hb]

/-- whatever `record_from_proto` returns (for a `uint32` TTL) is normal and well-formed -/
theorem recordFromProto_normal (now : Nat) (q : PRecord) (r : Record) (httl : q.ttl ≤ u32Max)
    (h : recordFromProto now q = .ok r) : normRecord now r = r ∧ r.WF := by
  unfold recordFromProto at h
  split at h
  · cases h
  · cases h
    constructor
    · simp only [normRecord]
      congr 1
      by_cases hz : q.ttl > 0
      · simp only [hz, ↓reduceIte, normExp]
        rw [ttl_of_decoded _ now hz httl]
      · simp [hz, normExp]
    · unfold Record.WF
      by_cases hb : q.publisher.bytes ≠ []
      · simp [hb]
      · simp [hb]

/-! ## requests -/

/-- **Round trip of every request** (well-formedness = the `PeerId` type's guarantee that a
publisher is not the empty byte string). -/
theorem req_roundtrip (now : Nat) (m : Req) (hwf : m.WF) :
    protoToReq now (reqToProto now m) = .ok (normReq now m) := by
  cases m with
  | ping => rfl
  | findNode key => rfl
  | getProviders key => rfl
  | getValue key => rfl
  | addProvider key p =>
    simp [protoToReq, reqToProto, PMsg.default, normReq, peer_roundtrip]
  | putValue r =>
    simp [protoToReq, reqToProto, PMsg.default, normReq, record_roundtrip now r hwf]

theorem normReq_idem (now : Nat) (m : Req) : normReq now (normReq now m) = normReq now m := by
  cases m <;> simp [normReq, normPeer_idem, normRecord_idem]

/-- "decodes to the same message": exact for every normal request -/
theorem req_roundtrip_exact (now : Nat) (m : Req) (hwf : m.WF) (hn : normReq now m = m) :
    protoToReq now (reqToProto now m) = .ok m := by
  rw [req_roundtrip now m hwf, hn]

/-- every request that came out of the decoder is normal and well-formed (so it round-trips
exactly) — for protobuf messages whose record TTL is a `uint32` -/
theorem decoded_req_is_normal (now : Nat) (q : PMsg) (m : Req)
    (httl : ∀ r, q.record = some r → r.ttl ≤ u32Max)
    (h : protoToReq now q = .ok m) : normReq now m = m ∧ m.WF := by
  unfold protoToReq at h
  split at h
  · cases h; exact ⟨rfl, trivial⟩
  · split at h
    · split at h
      · rename_i r hr
        cases h
        have httl' : (q.record.getD PRecord.default).ttl ≤ u32Max := by
          cases hq : q.record with
          | none => simp [PRecord.default, u32Max]
          | some r' => simpa using httl r' hq
        obtain ⟨h1, h2⟩ := recordFromProto_normal now _ r httl' hr
        exact ⟨by simp [normReq, h1], h2⟩
      · cases h
    · split at h
      · cases h; exact ⟨rfl, trivial⟩
      · split at h
        · cases h; exact ⟨rfl, trivial⟩
        · split at h
          · cases h; exact ⟨rfl, trivial⟩
          · split at h
            · split at h
              · rename_i p hp
                cases h
                obtain ⟨x, _, hx⟩ := List.exists_of_findSome?_eq_some hp
                exact ⟨by simp [normReq, peerFromProto_normal x p hx], trivial⟩
              · cases h
            · cases h

theorem decoded_req_roundtrips (now : Nat) (q : PMsg) (m : Req)
    (httl : ∀ r, q.record = some r → r.ttl ≤ u32Max) (h : protoToReq now q = .ok m) :
    protoToReq now (reqToProto now m) = .ok m :=
  let ⟨hn, hwf⟩ := decoded_req_is_normal now q m httl h
  req_roundtrip_exact now m hwf hn

/-- exactly when request decoding fails (never a panic: the function is total) -/
theorem protoToReq_error_iff (now : Nat) (q : PMsg) :
    (∃ e, protoToReq now q = .error e) ↔
      (q.ty < 0 ∨ 5 < q.ty) ∨
      (q.ty = 0 ∧ (q.record.getD PRecord.default).publisher.bytes ≠ [] ∧
        (q.record.getD PRecord.default).publisher.valid = false) ∨
      (q.ty = 2 ∧ q.provider.findSome? peerFromProto = none) := by
  unfold protoToReq
  by_cases h5 : q.ty = 5
  · simp [h5]
  by_cases h0 : q.ty = 0
  · by_cases hp : (q.record.getD PRecord.default).publisher.bytes ≠ [] ∧
        (q.record.getD PRecord.default).publisher.valid = false
    · simp [h0, recordFromProto, hp]
    · simp [h0, recordFromProto, hp]
  by_cases h1 : q.ty = 1
  · simp [h1]
  by_cases h4 : q.ty = 4
  · simp [h4]
  by_cases h3 : q.ty = 3
  · simp [h3]
  by_cases h2 : q.ty = 2
  · simp only [h2]
    cases hf : q.provider.findSome? peerFromProto <;> simp
  · simp only [h5, h0, h1, h4, h3, h2, ↓reduceIte, Except.error.injEq, exists_eq', false_and,
      or_false, true_iff]
    omega

/-! ## responses -/

theorem resp_roundtrip (now : Nat) (m : Resp) (hwf : m.WF) :
    protoToResp now (respToProto now m) = .ok (normResp now m) := by
  cases m with
  | pong => rfl
  | findNode closer =>
    simp [protoToResp, respToProto, PMsg.default, normResp, peers_roundtrip']
  | getProviders closer prov =>
    simp [protoToResp, respToProto, PMsg.default, normResp, peers_roundtrip']
  | getValue r closer =>
    cases r with
    | none => simp [protoToResp, respToProto, PMsg.default, normResp, peers_roundtrip']
    | some r =>
      have hwf' : r.WF := hwf
      simp [protoToResp, respToProto, PMsg.default, normResp, peers_roundtrip', record_roundtrip now r hwf']
  | putValue key value =>
    simp [protoToResp, respToProto, PMsg.default, PRecord.default, normResp]

theorem map_normPeer_idem (l : List KadPeer) : (l.map normPeer).map normPeer = l.map normPeer := by
  simp [List.map_map, Function.comp_def, normPeer_idem]

theorem normResp_idem (now : Nat) (m : Resp) : normResp now (normResp now m) = normResp now m := by
  cases m with
  | pong => rfl
  | findNode c => simp [normResp, normPeer_idem]
  | getProviders c p => simp [normResp, normPeer_idem]
  | getValue r c =>
    cases r <;> simp [normResp, normPeer_idem, normRecord_idem]
  | putValue k v => rfl

theorem resp_roundtrip_exact (now : Nat) (m : Resp) (hwf : m.WF) (hn : normResp now m = m) :
    protoToResp now (respToProto now m) = .ok m := by
  rw [resp_roundtrip now m hwf, hn]

/-- every response that came out of the decoder is normal and well-formed, hence round-trips
exactly (for protobuf messages whose record TTL is a `uint32`) -/
theorem decoded_resp_is_normal (now : Nat) (q : PMsg) (m : Resp)
    (httl : ∀ r, q.record = some r → r.ttl ≤ u32Max)
    (h : protoToResp now q = .ok m) : normResp now m = m ∧ m.WF := by
  unfold protoToResp at h
  split at h
  · cases h; exact ⟨rfl, trivial⟩
  · split at h
    · split at h
      · rename_i r hr
        split at h
        · rename_i rec hrec
          cases h
          obtain ⟨h1, h2⟩ := recordFromProto_normal now r rec (httl r hr) hrec
          exact ⟨by simp [normResp, h1, filterMap_peerFromProto_normal], h2⟩
        · cases h
      · cases h
        exact ⟨by simp [normResp, filterMap_peerFromProto_normal], trivial⟩
    · split at h
      · cases h
        exact ⟨by simp [normResp, filterMap_peerFromProto_normal], trivial⟩
      · split at h
        · cases h
          exact ⟨by simp [normResp, filterMap_peerFromProto_normal], trivial⟩
        · split at h
          · split at h
            · cases h; exact ⟨rfl, trivial⟩
            · cases h
          · split at h <;> cases h

theorem decoded_resp_roundtrips (now : Nat) (q : PMsg) (m : Resp)
    (httl : ∀ r, q.record = some r → r.ttl ≤ u32Max) (h : protoToResp now q = .ok m) :
    protoToResp now (respToProto now m) = .ok m :=
  let ⟨hn, hwf⟩ := decoded_resp_is_normal now q m httl h
  resp_roundtrip_exact now m hwf hn

/-- Ping and Pong share one wire representation: a response can only be told from a request by
the stream direction (the codec is instantiated per direction). -/
theorem ping_pong_share_wire (now : Nat) : reqToProto now .ping = respToProto now .pong := rfl

/-- exactly when response decoding fails -/
theorem protoToResp_error_iff (now : Nat) (q : PMsg) :
    (∃ e, protoToResp now q = .error e) ↔
      (q.ty < 0 ∨ 5 < q.ty) ∨ q.ty = 2 ∨ (q.ty = 0 ∧ q.record = none) ∨
      (q.ty = 1 ∧ ∃ r, q.record = some r ∧ r.publisher.bytes ≠ [] ∧ r.publisher.valid = false) := by
  unfold protoToResp
  by_cases h5 : q.ty = 5
  · simp [h5]
  by_cases h1 : q.ty = 1
  · simp only [h1]
    cases hr : q.record with
    | none => simp
    | some r =>
      by_cases hp : r.publisher.bytes ≠ [] ∧ r.publisher.valid = false
      · simp [recordFromProto, hp]
      · simp [recordFromProto, hp]
  by_cases h4 : q.ty = 4
  · simp [h4]
  by_cases h3 : q.ty = 3
  · simp [h3]
  by_cases h0 : q.ty = 0
  · simp only [h0]
    cases hr : q.record <;> simp
  by_cases h2 : q.ty = 2
  · simp [h2]
  · simp only [h5, h1, h4, h3, h0, h2, ↓reduceIte, Except.error.injEq, exists_eq', false_and,
      or_false, true_iff]
    omega

/-! ## the executable Spec -/

theorem specReq_ok_iff (now : Nat) (m : Req) (res : Res Req) :
    specReq now m res = "ok" ↔ res = .ok (normReq now m) := by
  unfold specReq
  cases res with
  | panic => simp
  | err e => simp
  | ok m' => by_cases h : m' = normReq now m <;> simp [h]

theorem specResp_ok_iff (now : Nat) (m : Resp) (res : Res Resp) :
    specResp now m res = "ok" ↔ res = .ok (normResp now m) := by
  unfold specResp
  cases res with
  | panic => simp
  | err e => simp
  | ok m' => by_cases h : m' = normResp now m <;> simp [h]

/-- the Spec accepts the model's round trip -/
theorem spec_req_model (now : Nat) (m : Req) (hwf : m.WF) :
    specReq now m (Res.ofExcept (protoToReq now (reqToProto now m))) = "ok" := by
  rw [specReq_ok_iff, req_roundtrip now m hwf]; rfl

theorem spec_resp_model (now : Nat) (m : Resp) (hwf : m.WF) :
    specResp now m (Res.ofExcept (protoToResp now (respToProto now m))) = "ok" := by
  rw [specResp_ok_iff, resp_roundtrip now m hwf]; rfl

/-- decoding never panics in the model: the Spec for arbitrary input accepts every model result -/
theorem spec_decode_model {α} (r : Except Err α) : specDecode (Res.ofExcept r) = "ok" := by
  cases r <;> rfl

/-! ## non-vacuity -/

-- the two unit tests of protocol.rs (`append_p2p`, `skip_invalid_multiaddr`) as model facts
example : peerFromProto ⟨⟨[1, 2], true⟩, 2, [.good [.ip6 7, .tcp 1234]]⟩
    = some ⟨[1, 2], .canConnect, [[.ip6 7, .tcp 1234, .p2p [1, 2]]]⟩ := by decide
example : peerFromProto ⟨⟨[1, 2], true⟩, 2,
      [.good [.ip6 7, .tcp 1234, .p2p [1, 2]], .good [.ip6 7, .tcp 1234, .p2p [9]], .bad [255, 255]]⟩
    = some ⟨[1, 2], .canConnect, [[.ip6 7, .tcp 1234, .p2p [1, 2]]]⟩ := by decide
-- a request that is NOT normal changes in the round trip, a normal one does not
example : protoToReq 0 (reqToProto 0 (.addProvider [1] ⟨[5], .connected, [[.tcp 1], [.tcp 2, .p2p [6]]]⟩))
    = .ok (.addProvider [1] ⟨[5], .connected, [[.tcp 1, .p2p [5]]]⟩) := by rfl
example : protoToReq 0 (reqToProto 0 (.addProvider [1] ⟨[5], .connected, [[.tcp 1, .p2p [5]]]⟩))
    = .ok (.addProvider [1] ⟨[5], .connected, [[.tcp 1, .p2p [5]]]⟩) := by rfl
example : protoToReq 0 ⟨7, 0, [], none, [], []⟩ = .error .unknownType := by rfl
example : protoToReq 0 ⟨2, 0, [], none, [], [⟨⟨[1], false⟩, 0, []⟩, ⟨⟨[2], true⟩, 9, []⟩]⟩ = .error .noValidPeer := by rfl
example : protoToResp 0 ⟨0, 0, [1], none, [], []⟩ = .error .noRecord := by rfl

end C44

#print axioms C44.withP2p_idem
#print axioms C44.conn_roundtrip
#print axioms C44.conn_ofInt_isSome
#print axioms C44.peer_roundtrip
#print axioms C44.normPeer_idem
#print axioms C44.peers_roundtrip
#print axioms C44.peerFromProto_normal
#print axioms C44.normExp_idem
#print axioms C44.record_roundtrip
#print axioms C44.recordFromProto_normal
#print axioms C44.req_roundtrip
#print axioms C44.normReq_idem
#print axioms C44.req_roundtrip_exact
#print axioms C44.decoded_req_is_normal
#print axioms C44.decoded_req_roundtrips
#print axioms C44.protoToReq_error_iff
#print axioms C44.resp_roundtrip
#print axioms C44.normResp_idem
#print axioms C44.resp_roundtrip_exact
#print axioms C44.decoded_resp_is_normal
#print axioms C44.decoded_resp_roundtrips
#print axioms C44.ping_pong_share_wire
#print axioms C44.protoToResp_error_iff
#print axioms C44.specReq_ok_iff
#print axioms C44.specResp_ok_iff
#print axioms C44.spec_req_model
#print axioms C44.spec_resp_model
#print axioms C44.spec_decode_model
