import Libp2pModel.Proofs.C23Lemmas
/-!
# C23 — DNS dialing is bounded and never leaks unresolved or foreign addresses

All theorems are about `C23.doDial b R I addr` for EVERY resolver oracle `R : Nat → Query → Answer`
(call-indexed: stateful, cyclic, adversarial resolvers included), EVERY inner-transport oracle
`I : Nat → Maddr → Verdict` and EVERY address.  `b = false` is the code as repaired (an empty
successful A/AAAA answer is a resolution error), `b = true` the pre-fix code (`.expect(..)`).
The three limits are `Gen.*`, regenerated from `transports/dns/src/lib.rs` on every run.
-/
namespace C23

/-! ## the constants the statements are about -/

theorem max_dns_lookups_eq : Gen.MAX_DNS_LOOKUPS = 32 := by decide
theorem max_dial_attempts_eq : Gen.MAX_DIAL_ATTEMPTS = 16 := by decide
theorem max_txt_records_eq : Gen.MAX_TXT_RECORDS = 16 := by decide

def lookupsOf (tr : List Event) : Nat := (tr.filter Event.isLookup).length
def acceptedOf (tr : List Event) : Nat := (tr.filter Event.isAccepted).length
def dialsOf (tr : List Event) : Nat := (tr.filter Event.isDial).length

@[simp] theorem lookupsOf_append (a b : List Event) : lookupsOf (a ++ b) = lookupsOf a + lookupsOf b := by
  simp [lookupsOf]
@[simp] theorem acceptedOf_append (a b : List Event) : acceptedOf (a ++ b) = acceptedOf a + acceptedOf b := by
  simp [acceptedOf]
@[simp] theorem dialsOf_append (a b : List Event) : dialsOf (a ++ b) = dialsOf a + dialsOf b := by
  simp [dialsOf]
@[simp] theorem lookupsOf_nil : lookupsOf [] = 0 := rfl
@[simp] theorem acceptedOf_nil : acceptedOf [] = 0 := rfl
@[simp] theorem dialsOf_nil : dialsOf [] = 0 := rfl
@[simp] theorem lookupsOf_cons_lookup (q : Query) (tr : List Event) :
    lookupsOf (.lookup q :: tr) = lookupsOf tr + 1 := rfl
@[simp] theorem lookupsOf_cons_dial (a : Maddr) (v : Verdict) (tr : List Event) :
    lookupsOf (.dial a v :: tr) = lookupsOf tr := rfl
@[simp] theorem acceptedOf_cons_lookup (q : Query) (tr : List Event) :
    acceptedOf (.lookup q :: tr) = acceptedOf tr := rfl
theorem acceptedOf_cons_dial (a : Maddr) (v : Verdict) (tr : List Event) :
    acceptedOf (.dial a v :: tr) = acceptedOf tr + (if v = .ok ∨ v = .fail then 1 else 0) := by
  cases v <;> rfl
@[simp] theorem dialsOf_cons_lookup (q : Query) (tr : List Event) :
    dialsOf (.lookup q :: tr) = dialsOf tr := rfl
@[simp] theorem dialsOf_cons_dial (a : Maddr) (v : Verdict) (tr : List Event) :
    dialsOf (.dial a v :: tr) = dialsOf tr + 1 := rfl

/-! ## termination -/

/-- **Termination**: every iteration of the `while let Some(addr) = unresolved.pop()` loop
strictly decreases `(MAX_DNS_LOOKUPS − dns_lookups, unresolved.len())` in the lexicographic order
and keeps `dns_lookups ≤ MAX_DNS_LOOKUPS`; `loop`/`doDial` are defined by well-founded recursion
on exactly this measure, so the dial future completes for every resolver and inner transport. -/
theorem terminates (b : Bool) (R : Resolver) (I : Inner) (c c' : Cfg) (ev : List Event)
    (h : c.lookups ≤ Gen.MAX_DNS_LOOKUPS) (hs : step b R I c = .cont c' ev) :
    c'.lookups ≤ Gen.MAX_DNS_LOOKUPS ∧
    Prod.Lex (· < ·) (· < ·)
      (Gen.MAX_DNS_LOOKUPS - c'.lookups, c'.unresolved.length)
      (Gen.MAX_DNS_LOOKUPS - c.lookups, c.unresolved.length) := by
  obtain ⟨h1, h2⟩ := step_decreases b R I c c' ev h hs
  refine ⟨h1, ?_⟩
  rcases h2 with h2 | ⟨h2, h3⟩
  · exact Prod.Lex.left _ _ h2
  · rw [h2]; exact Prod.Lex.right _ h3

/-! ## at most `MAX_DNS_LOOKUPS` resolver calls -/

theorem loop_lookups_le (b : Bool) (R : Resolver) (I : Inner) (c : Cfg)
    (h : c.lookups ≤ Gen.MAX_DNS_LOOKUPS) :
    lookupsOf (loop b R I c h).2 + c.lookups ≤ Gen.MAX_DNS_LOOKUPS := by
  refine loop_induction b R I (fun c => c.lookups ≤ Gen.MAX_DNS_LOOKUPS)
    (fun c out => lookupsOf out.2 + c.lookups ≤ Gen.MAX_DNS_LOOKUPS) ?_ ?_ c h h
  · intro c r ev hi hs
    rcases step_done_cases hs with ⟨_, rfl, _⟩ | ⟨q, rfl, _, _, hne⟩ | ⟨addr, rest, v, _, _, rfl, _⟩
    · simpa using hi
    · simp; omega
    · simpa using hi
  · intro c c' ev hi hs
    obtain ⟨addr, rest, hu, hc⟩ := step_cont_cases hs
    rcases hc with ⟨_, _, _, _, _, rfl, _, hl, _, _⟩ | ⟨_, _, _, q, _, hne, _, rfl, hl, _, _, _, _⟩ |
      ⟨_, v, rfl, _, _, hl, _, _, _⟩
    · exact ⟨by omega, fun out hp => by simp at hp ⊢; omega⟩
    · exact ⟨by omega, fun out hp => by simp at hp ⊢; omega⟩
    · exact ⟨by omega, fun out hp => by simp at hp ⊢; omega⟩

/-- **A single dial performs at most `MAX_DNS_LOOKUPS` (= 32) lookups**, for any resolver
behaviour — including cyclic `/dnsaddr` records and answers that change between calls. -/
theorem lookups_le (b : Bool) (R : Resolver) (I : Inner) (addr : Maddr) :
    lookupsOf (doDial b R I addr).2 ≤ Gen.MAX_DNS_LOOKUPS := by
  have := loop_lookups_le b R I (init addr) (Nat.zero_le _)
  simpa [doDial, init] using this

/-! ## at most `MAX_DIAL_ATTEMPTS` accepted inner dials -/

theorem loop_attempts_le (b : Bool) (R : Resolver) (I : Inner) (c : Cfg)
    (h : c.lookups ≤ Gen.MAX_DNS_LOOKUPS) (ha : c.attempts < Gen.MAX_DIAL_ATTEMPTS) :
    acceptedOf (loop b R I c h).2 + c.attempts ≤ Gen.MAX_DIAL_ATTEMPTS := by
  refine loop_induction b R I (fun c => c.attempts < Gen.MAX_DIAL_ATTEMPTS)
    (fun c out => acceptedOf out.2 + c.attempts ≤ Gen.MAX_DIAL_ATTEMPTS) ?_ ?_ c h ha
  · intro c r ev hi hs
    rcases step_done_cases hs with ⟨_, rfl, _⟩ | ⟨q, rfl, _, _, hne⟩ | ⟨addr, rest, v, _, _, rfl, _⟩
    · simp; omega
    · simp; omega
    · simp only [acceptedOf_cons_dial, acceptedOf_nil]; split <;> omega
  · intro c c' ev hi hs
    obtain ⟨addr, rest, hu, hc⟩ := step_cont_cases hs
    rcases hc with ⟨_, _, _, _, _, rfl, _, _, hat, _⟩ | ⟨_, _, _, q, _, _, _, rfl, _, hat, _, _, _⟩ |
      ⟨_, v, rfl, hv, _, _, hat, hne, _⟩
    · exact ⟨by omega, fun out hp => by simp at hp ⊢; omega⟩
    · exact ⟨by omega, fun out hp => by simp at hp ⊢; omega⟩
    · constructor
      · split at hat <;> omega
      · intro out hp
        simp only [List.cons_append, List.nil_append, acceptedOf_cons_dial]
        cases v <;> simp_all <;> omega

/-- **A single dial makes at most `MAX_DIAL_ATTEMPTS` (= 16) inner-transport dial attempts.**
An "attempt" is what the code counts: an `inner.dial` call for which the inner transport produced
a dial future (`Verdict.ok`/`Verdict.fail`); addresses the inner transport refuses synchronously
are not attempts. -/
theorem attempts_le (b : Bool) (R : Resolver) (I : Inner) (addr : Maddr) :
    acceptedOf (doDial b R I addr).2 ≤ Gen.MAX_DIAL_ATTEMPTS := by
  have := loop_attempts_le b R I (init addr) (Nat.zero_le _) (by show 0 < Gen.MAX_DIAL_ATTEMPTS; decide)
  simpa [doDial, init] using this

/-! ## no DNS component ever reaches the inner transport -/

theorem loop_no_dns_leak (b : Bool) (R : Resolver) (I : Inner) (c : Cfg)
    (h : c.lookups ≤ Gen.MAX_DNS_LOOKUPS) :
    ∀ a v, Event.dial a v ∈ (loop b R I c h).2 → dnsFree a = true := by
  refine loop_induction b R I (fun _ => True)
    (fun _ out => ∀ a v, Event.dial a v ∈ out.2 → dnsFree a = true) ?_ ?_ c h trivial
  · intro c r ev _ hs a v hm
    rcases step_done_cases hs with ⟨_, rfl, _⟩ | ⟨q, rfl, _, _, hne⟩ | ⟨addr, rest, v', _, hn, rfl, _⟩
    · simp at hm
    · simp at hm
    · simp at hm; obtain ⟨rfl, rfl⟩ := hm; exact splitDns_none hn
  · intro c c' ev _ hs
    refine ⟨trivial, fun out hp a v hm => ?_⟩
    obtain ⟨addr, rest, hu, hc⟩ := step_cont_cases hs
    simp only [List.mem_append] at hm
    rcases hm with hm | hm
    · rcases hc with ⟨_, _, _, _, _, rfl, _⟩ | ⟨_, _, _, q, _, _, _, rfl, _⟩ | ⟨hn, v', rfl, _⟩
      · simp at hm
      · simp at hm
      · simp at hm; obtain ⟨rfl, rfl⟩ := hm; exact splitDns_none hn
    · exact hp a v hm

/-- **The inner transport is never handed an address that still contains a `/dns`, `/dns4`,
`/dns6` or `/dnsaddr` component.** -/
theorem no_dns_leak (b : Bool) (R : Resolver) (I : Inner) (addr : Maddr) :
    ∀ a v, Event.dial a v ∈ (doDial b R I addr).2 → ∀ p ∈ a, p.isDns = false := by
  intro a v hm p hp
  have := loop_no_dns_leak b R I (init addr) (Nat.zero_le _) a v hm
  simp [dnsFree] at this
  simpa using this p hp

/-! ## the suffix invariant -/

/-- a DNS-free suffix of `pre ++ p :: suf`, `p` a DNS component, lies inside `suf` -/
theorem suffix_after_dns {s pre suf : Maddr} {p : Proto} (hp : p.isDns = true)
    (hs : dnsFree s = true) (h : s <:+ pre ++ p :: suf) : s <:+ suf := by
  have hps : p ∉ s := by
    intro hm
    simp [dnsFree] at hs
    have := hs p hm
    simp [hp] at this
  induction pre with
  | nil =>
    rcases List.suffix_cons_iff.1 h with rfl | h
    · exact absurd (by simp) hps
    · exact h
  | cons x pre ih =>
    rcases List.suffix_cons_iff.1 h with rfl | h
    · exact absurd (by simp) hps
    · exact ih h

theorem loop_suffix (b : Bool) (R : Resolver) (I : Inner) (s : Maddr) (hs : dnsFree s = true)
    (c : Cfg) (h : c.lookups ≤ Gen.MAX_DNS_LOOKUPS) (hc : ∀ x ∈ c.unresolved, s <:+ x) :
    ∀ a v, Event.dial a v ∈ (loop b R I c h).2 → s <:+ a := by
  refine loop_induction b R I (fun c => ∀ x ∈ c.unresolved, s <:+ x)
    (fun _ out => ∀ a v, Event.dial a v ∈ out.2 → s <:+ a) ?_ ?_ c h hc
  · intro c r ev hi hst a v hm
    rcases step_done_cases hst with ⟨_, rfl, _⟩ | ⟨q, rfl, _, _, hne⟩ | ⟨addr, rest, v', hu, hn, rfl, _⟩
    · simp at hm
    · simp at hm
    · simp at hm; obtain ⟨rfl, rfl⟩ := hm; exact hi _ (by simp [hu])
  · intro c c' ev hi hst
    obtain ⟨addr, rest, hu, hcase⟩ := step_cont_cases hst
    have haddr : s <:+ addr := hi _ (by simp [hu])
    have hrest : ∀ x ∈ rest, s <:+ x := fun x hx => hi _ (by simp [hu, hx])
    rcases hcase with ⟨_, _, _, _, _, rfl, hun, _⟩ |
      ⟨pre, p, suf, q, hsp, _, _, rfl, _, _, _, hstack, _⟩ | ⟨hn, v', rfl, _, hun, _⟩
    · refine ⟨by rw [hun]; exact hrest, fun out hp a v hm => ?_⟩
      exact hp a v (by simpa using hm)
    · obtain ⟨rfl, hpd, _⟩ := splitDns_some hsp
      have hsuf : s <:+ suf := suffix_after_dns hpd hs haddr
      refine ⟨fun x hx => ?_, fun out hp a v hm => hp a v (by simpa using hm)⟩
      rcases hstack x hx with hx | ⟨ip, rfl⟩ | ⟨a, ha, rfl⟩
      · exact hrest x hx
      · exact hsuf.trans ((List.suffix_cons ip suf).trans (List.suffix_append pre _))
      · exact (hsuf.trans ha).trans (List.suffix_append pre a)
    · refine ⟨by rw [hun]; exact hrest, fun out hp a v hm => ?_⟩
      simp only [List.mem_append, List.mem_singleton] at hm
      rcases hm with hm | hm
      · cases hm; exact haddr
      · exact hp a v hm

/-- **Suffix invariant, general form**: every DNS-free suffix `s` of the address being dialed
(e.g. its trailing `/p2p/<id>`, or `/tcp/443/tls/ws/p2p/<id>`) is a suffix of every address handed
to the inner transport — resolution only ever rewrites what is in front of it. -/
theorem suffix (b : Bool) (R : Resolver) (I : Inner) (addr s : Maddr)
    (hs : dnsFree s = true) (hsuf : s <:+ addr) :
    ∀ a v, Event.dial a v ∈ (doDial b R I addr).2 → s <:+ a := by
  apply loop_suffix b R I s hs (init addr) (Nat.zero_le _)
  intro x hx
  simp [init] at hx
  subst hx; exact hsuf

/-- **For `/dnsaddr`**: if the address is `pre ++ /dnsaddr/n ++ suf` with `suf` free of DNS
components, only resolved addresses that end with `suf` are dialed — whatever the TXT records
(or any later answers) say. -/
theorem suffix_dnsaddr (b : Bool) (R : Resolver) (I : Inner) (pre suf : Maddr) (n : List Nat)
    (hs : dnsFree suf = true) :
    ∀ a v, Event.dial a v ∈ (doDial b R I (pre ++ Proto.dnsaddr n :: suf)).2 → suf <:+ a :=
  suffix b R I _ suf hs ((List.suffix_cons _ suf).trans (List.suffix_append pre _))

/-! ## the TXT cap -/

/-- **At most `MAX_TXT_RECORDS` (= 16) addresses are pushed per TXT answer**, whatever the number
of (matching) records in it. -/
theorem txt_cap (pre suf : Maddr) (as : List Maddr) :
    (txtPushes pre suf as 0).length ≤ Gen.MAX_TXT_RECORDS :=
  txtPushes_length pre suf as 0

/-- …as seen on the loop's stack: an iteration that performed a TXT lookup replaces the popped
address by at most `MAX_TXT_RECORDS` new ones. -/
theorem txt_cap_step (b : Bool) (R : Resolver) (I : Inner) (c c' : Cfg) (q : Query)
    (hs : step b R I c = .cont c' [.lookup q]) (hq : q.kind = .txt) :
    c'.unresolved.length + 1 ≤ c.unresolved.length + Gen.MAX_TXT_RECORDS := by
  obtain ⟨addr, rest, hu, hc⟩ := step_cont_cases hs
  rcases hc with ⟨_, _, _, _, _, he, _⟩ | ⟨_, _, _, q', _, _, _, he, _, _, _, _, hlen⟩ | ⟨_, v, he, _⟩
  · cases he
  · cases he
    have := hlen hq
    simp [hu]; omega
  · cases he

theorem lookupsOf_zero_not_txt {tr : List Event} (h : lookupsOf tr = 0) :
    tr.any isTxtLookup = false := by
  simp only [lookupsOf, List.length_eq_zero_iff, List.filter_eq_nil_iff] at h
  simp only [List.any_eq_false]
  intro e he ht
  apply h e he
  cases e <;> simp_all [isTxtLookup, Event.isLookup]

/-- Trace form of the cap: (1) a run that performs no lookup dials at most once per stack entry;
(2) a run whose only lookup is a TXT lookup dials at most `stack − 1 + MAX_TXT_RECORDS` times. -/
theorem loop_txt_cap (b : Bool) (R : Resolver) (I : Inner) (c : Cfg)
    (h : c.lookups ≤ Gen.MAX_DNS_LOOKUPS) :
    (lookupsOf (loop b R I c h).2 = 0 → dialsOf (loop b R I c h).2 ≤ c.unresolved.length) ∧
    (lookupsOf (loop b R I c h).2 = 1 → (loop b R I c h).2.any isTxtLookup = true →
      dialsOf (loop b R I c h).2 + 1 ≤ c.unresolved.length + Gen.MAX_TXT_RECORDS) := by
  refine loop_induction b R I (fun _ => True)
    (fun c out => (lookupsOf out.2 = 0 → dialsOf out.2 ≤ c.unresolved.length) ∧
      (lookupsOf out.2 = 1 → out.2.any isTxtLookup = true →
        dialsOf out.2 + 1 ≤ c.unresolved.length + Gen.MAX_TXT_RECORDS)) ?_ ?_ c h trivial
  · intro c r ev _ hs
    rcases step_done_cases hs with ⟨_, rfl, _⟩ | ⟨q, rfl, _, _, hne⟩ | ⟨addr, rest, v, hu, _, rfl, _⟩
    · simp
    · simp; have : 0 < Gen.MAX_TXT_RECORDS := by decide
      omega
    · simp [hu]
  · intro c c' ev _ hs
    refine ⟨trivial, fun out hp => ?_⟩
    obtain ⟨hp0, hp1⟩ := hp
    obtain ⟨addr, rest, hu, hc⟩ := step_cont_cases hs
    rcases hc with ⟨_, _, _, _, _, rfl, hun, _⟩ | ⟨_, _, _, q, _, _, _, rfl, _, _, _, _, hlen⟩ |
      ⟨_, v, rfl, _, hun, _⟩
    · simp only [List.nil_append, hu, List.length_cons]
      rw [hun] at hp0 hp1
      exact ⟨fun h0 => by have := hp0 h0; omega, fun h1 ht => by have := hp1 h1 ht; omega⟩
    · simp only [List.cons_append, List.nil_append, lookupsOf_cons_lookup, dialsOf_cons_lookup, hu,
        List.length_cons]
      refine ⟨fun h0 => by omega, fun h1 ht => ?_⟩
      have hz : lookupsOf out.2 = 0 := by omega
      have hnt := lookupsOf_zero_not_txt hz
      have hk : q.kind = .txt := by
        simp only [List.any_cons, hnt, Bool.or_false] at ht
        simpa [isTxtLookup] using ht
      have := hlen hk
      have := hp0 hz
      omega
    · simp only [List.cons_append, List.nil_append, lookupsOf_cons_dial, dialsOf_cons_dial, hu,
        List.length_cons, List.any_cons]
      rw [hun] at hp0 hp1
      refine ⟨fun h0 => by have := hp0 (by omega); omega, fun h1 ht => ?_⟩
      have := hp1 (by omega) (by simpa [isTxtLookup] using ht)
      omega

/-- **Observable form of the TXT cap**: a dial whose only lookup is one TXT lookup reaches the
inner transport at most `MAX_TXT_RECORDS` times (every dialed address stems from that answer). -/
theorem txt_cap_trace (b : Bool) (R : Resolver) (I : Inner) (addr : Maddr)
    (h1 : lookupsOf (doDial b R I addr).2 = 1) (ht : (doDial b R I addr).2.any isTxtLookup = true) :
    dialsOf (doDial b R I addr).2 ≤ Gen.MAX_TXT_RECORDS := by
  have := (loop_txt_cap b R I (init addr) (Nat.zero_le _)).2 h1 ht
  have hl : (init addr).unresolved.length = 1 := rfl
  rw [hl] at this
  unfold doDial
  omega

/-! ## no panic -/

theorem loop_no_panic (R : Resolver) (I : Inner) (c : Cfg) (h : c.lookups ≤ Gen.MAX_DNS_LOOKUPS) :
    (loop false R I c h).1 ≠ .panic := by
  refine loop_induction false R I (fun _ => True) (fun _ out => out.1 ≠ .panic) ?_ ?_ c h trivial
  · intro c r ev _ hs
    rcases step_done_cases hs with ⟨_, _, rfl⟩ | ⟨q, _, _, hb, _⟩ | ⟨addr, rest, v, _, _, _, hr⟩
    · exact finish_ne_panic _
    · cases hb
    · rcases hr with ⟨_, rfl⟩ | ⟨_, hr⟩
      · simp
      · exact hr
  · intro c c' ev _ hs
    exact ⟨trivial, fun out hp => hp⟩

/-- **No panic**: for every resolver — empty answers, answers with only unusable records
(CNAME, wrong family), malformed or missing TXT strings, errors — and every inner transport, the
(repaired) dial future returns `Ok` or `Err`. -/
theorem no_panic (R : Resolver) (I : Inner) (addr : Maddr) : (doDial false R I addr).1 ≠ .panic :=
  loop_no_panic R I (init addr) (Nat.zero_le _)

/-! ## the pre-fix code: counterexample -/

theorem loop_of_done {b : Bool} {R : Resolver} {I : Inner} {c : Cfg}
    {h : c.lookups ≤ Gen.MAX_DNS_LOOKUPS} {r : Result} {ev : List Event}
    (hs : step b R I c = .done r ev) : loop b R I c h = (r, ev) := by
  rw [loop]
  split
  · rename_i r' ev' hs'; rw [hs] at hs'; cases hs'; rfl
  · rename_i c' ev' hs'; rw [hs] at hs'; cases hs'

theorem loop_of_cont {b : Bool} {R : Resolver} {I : Inner} {c c' : Cfg}
    {h : c.lookups ≤ Gen.MAX_DNS_LOOKUPS} {ev : List Event}
    (hs : step b R I c = .cont c' ev) :
    loop b R I c h = ((loop b R I c' (step_decreases b R I c c' ev h hs).1).1,
      ev ++ (loop b R I c' (step_decreases b R I c c' ev h hs).1).2) := by
  rw [loop]
  split
  · rename_i r' ev' hs'; rw [hs] at hs'; cases hs'
  · rename_i c'' ev' hs'
    have := hs'; rw [hs] at this; cases this; rfl

/-- **The unrepaired code panics** (DESIGN §8 row 7): with `.expect("If there are no results, …")`
in `resolve`, a resolver that answers `Ok` with no address record makes the dial of ANY address
starting with `/dns4/<name>` panic on its first lookup — for every inner transport. -/
theorem empty_answer_buggy_counterexample (I : Inner) (n : List Nat) (rest : Maddr) :
    doDial true (fun _ _ => .recs []) I (Proto.dns4 n :: rest) = (.panic, [.lookup ⟨.a, n⟩]) := by
  unfold doDial
  apply loop_of_done
  simp [step, init, splitDns, Proto.isDns, queryOf, resolveAns, oneOrMany, resolvedStep]
  decide

/-- the same input on the repaired code: a resolution error, no panic -/
theorem empty_answer_fixed (I : Inner) (n : List Nat) (rest : Maddr) :
    doDial false (fun _ _ => .recs []) I (Proto.dns4 n :: rest) =
      (.dial [.resolve], [.lookup ⟨.a, n⟩]) := by
  unfold doDial
  have h1 : step false (fun _ _ => .recs []) I (init (Proto.dns4 n :: rest)) =
      .cont ⟨[], 1, 0, 0, [.resolve]⟩ [.lookup ⟨.a, n⟩] := by
    simp [step, init, splitDns, Proto.isDns, queryOf, resolveAns, oneOrMany, resolvedStep]
    decide
  refine (loop_of_cont h1).trans ?_
  have h2 : step false (fun _ _ => Answer.recs []) I ⟨[], 1, 0, 0, [.resolve]⟩ =
      .done (.dial [.resolve]) [] := by
    simp [step, finish]
  rw [loop_of_done h2]
  simp

/-! ## the pre-fix suffix test: `Multiaddr::ends_with` compares BYTES -/

/-- binary encoding (`multiaddr` crate: protocol code, then payload) of the two component kinds
the counterexample needs -/
def encFrag : Proto → List Nat
  | .ip4 a => [4, a / 16777216 % 256, a / 65536 % 256, a / 256 % 256, a % 256]
  | .tcp p => [6, p / 256 % 256, p % 256]
  | _ => []

def encAddr (a : Maddr) : List Nat := a.flatMap encFrag

/-- `Multiaddr::ends_with` as the `multiaddr` crate defines it: on the encodings -/
def endsWithBytes (a s : List Nat) : Bool :=
  if a.length < s.length then false else a.drop (a.length - s.length) == s

/-- **The unrepaired suffix test accepts foreign addresses**: `do_dial` used
`a.ends_with(&suffix)`, which compares binary encodings; `/ip4/9.6.0.6` (`04 09 06 00 06`)
"ends with" `/tcp/6` (`06 00 06`) although its last component is not `/tcp/6` — so a TXT record
`dnsaddr=/ip4/9.6.0.6` was dialed for `/dnsaddr/<n>/tcp/6` (confirmed on the real code,
findings/C23-bytewise-suffix.md).  The repaired code compares components (`endsWith`). -/
theorem bytewise_suffix_buggy_counterexample :
    endsWithBytes (encAddr [.ip4 0x09060006]) (encAddr [.tcp 6]) = true ∧
    endsWith [.ip4 0x09060006] [.tcp 6] = false := by decide

/-! ## the executable Spec accepts the model -/

/-- The Spec evaluated by the driver on the IMPLEMENTATION's observations accepts every
observation the (repaired) model can produce: so "impl = model on this input" implies
"the Spec holds on impl". -/
theorem spec_model (R : Resolver) (I : Inner) (addr : Maddr) :
    spec addr (doDial false R I addr).1 (doDial false R I addr).2 = none := by
  have h1 := no_panic R I addr
  have h2 := lookups_le false R I addr
  have h3 := attempts_le false R I addr
  have h4 : (doDial false R I addr).2.all (Event.addrOk dnsFree) = true := by
    rw [List.all_eq_true]
    intro e he
    cases e with
    | lookup q => rfl
    | dial a v => exact loop_no_dns_leak false R I (init addr) (Nat.zero_le _) a v he
  have h5 : (doDial false R I addr).2.all
      (Event.addrOk fun a => endsWith a (dnsFreeTail addr)) = true := by
    rw [List.all_eq_true]
    intro e he
    cases e with
    | lookup q => rfl
    | dial a v =>
      exact (endsWith_iff _ _).2
        (suffix false R I addr _ (dnsFreeTail_dnsFree _) (dnsFreeTail_suffix _) a v he)
  have h6 : ¬ (((doDial false R I addr).2.filter Event.isLookup).length = 1 ∧
      (doDial false R I addr).2.any isTxtLookup = true ∧
      Gen.MAX_TXT_RECORDS < ((doDial false R I addr).2.filter Event.isDial).length) := by
    rintro ⟨a, b, c⟩
    have := txt_cap_trace false R I addr a b
    unfold dialsOf at this
    omega
  unfold lookupsOf at h2
  unfold acceptedOf at h3
  unfold spec
  rw [if_neg h1, if_neg (by omega), if_neg (by omega), if_neg (by simp [h4]),
    if_neg (by simp [h5]), if_neg h6]

/-! ## non-vacuity -/

/-- a resolver answering every TXT query with one `/dnsaddr` record pointing back at the same
name: the cyclic case the lookup limit exists for -/
def cyclicR (n : List Nat) : Resolver := fun _ _ => .recs [.txt [.good [.dnsaddr n]]]

theorem cyclic_step_lookup (n : List Nat) (I : Inner) (j : Nat) (errs : List DErr)
    (hj : j ≠ Gen.MAX_DNS_LOOKUPS) :
    step false (cyclicR n) I ⟨[[.dnsaddr n]], j, 0, 0, errs⟩ =
      .cont ⟨[[.dnsaddr n]], j + 1, 0, 0, errs⟩ [.lookup ⟨.txt, DNSADDR_PREFIX ++ n⟩] := by
  simp [step, splitDns, Proto.isDns, queryOf, cyclicR, resolveAns, addrOfRec, resolvedStep,
    txtPushes, endsWith, pushAll, hj, Gen.MAX_TXT_RECORDS]

theorem cyclic_step_limit (n : List Nat) (I : Inner) (errs : List DErr) :
    step false (cyclicR n) I ⟨[[.dnsaddr n]], Gen.MAX_DNS_LOOKUPS, 0, 0, errs⟩ =
      .cont ⟨[], Gen.MAX_DNS_LOOKUPS, 0, 0, errs ++ [.tooMany]⟩ [] := by
  simp [step, splitDns, Proto.isDns]

theorem cyclic_loop (n : List Nat) (I : Inner) :
    ∀ (k j : Nat) (errs : List DErr) (h : j ≤ Gen.MAX_DNS_LOOKUPS), j + k = Gen.MAX_DNS_LOOKUPS →
      lookupsOf (loop false (cyclicR n) I ⟨[[.dnsaddr n]], j, 0, 0, errs⟩ h).2 = k ∧
      (loop false (cyclicR n) I ⟨[[.dnsaddr n]], j, 0, 0, errs⟩ h).1 = .dial (errs ++ [.tooMany]) := by
  intro k
  induction k with
  | zero =>
    intro j errs h hk
    have hj : j = Gen.MAX_DNS_LOOKUPS := by omega
    subst hj
    rw [loop_of_cont (cyclic_step_limit n I errs)]
    have h2 : step false (cyclicR n) I ⟨[], Gen.MAX_DNS_LOOKUPS, 0, 0, errs ++ [.tooMany]⟩ =
        .done (.dial (errs ++ [.tooMany])) [] := by
      simp [step, finish]
    rw [loop_of_done h2]
    simp
  | succ k ih =>
    intro j errs h hk
    have hj : j ≠ Gen.MAX_DNS_LOOKUPS := by omega
    rw [loop_of_cont (cyclic_step_lookup n I j errs hj)]
    obtain ⟨h1, h2⟩ := ih (j + 1) errs (by omega) (by omega)
    simp [h1, h2]

/-- **The lookup bound is attained**: against a `/dnsaddr` record that points back at itself the
dial performs exactly `MAX_DNS_LOOKUPS` lookups and then gives up with `TooManyLookups`. -/
theorem lookups_bound_attained (n : List Nat) (I : Inner) :
    lookupsOf (doDial false (cyclicR n) I [.dnsaddr n]).2 = Gen.MAX_DNS_LOOKUPS ∧
    (doDial false (cyclicR n) I [.dnsaddr n]).1 = .dial [.tooMany] := by
  have := cyclic_loop n I Gen.MAX_DNS_LOOKUPS 0 [] (Nat.zero_le _) (by omega)
  simpa [doDial, init] using this

/-- against an inner transport whose every dial is accepted and fails, a stack of `r + 1` resolved
addresses is dialed `min (r + 1) (MAX_DIAL_ATTEMPTS − dial_attempts)` times -/
theorem failing_loop (R : Resolver) (x : Maddr) (hx : splitDns x = none) :
    ∀ (r att d lk : Nat) (errs : List DErr) (h : lk ≤ Gen.MAX_DNS_LOOKUPS),
      att < Gen.MAX_DIAL_ATTEMPTS →
      acceptedOf (loop false R (fun _ _ => .fail) ⟨List.replicate (r + 1) x, lk, att, d, errs⟩ h).2 =
        min (r + 1) (Gen.MAX_DIAL_ATTEMPTS - att) := by
  intro r
  induction r with
  | zero =>
    intro att d lk errs h ha
    have hs : step false R (fun _ _ => Verdict.fail) ⟨List.replicate 1 x, lk, att, d, errs⟩ =
        .done (finish (errs ++ [.transport])) [.dial x .fail] := by
      simp [step, hx, dialStep, afterFailedDial, List.replicate]
    rw [loop_of_done hs]
    simp only [acceptedOf_cons_dial, acceptedOf_nil]
    simp; omega
  | succ r ih =>
    intro att d lk errs h ha
    by_cases hm : att + 1 = Gen.MAX_DIAL_ATTEMPTS
    · have hs : step false R (fun _ _ => Verdict.fail) ⟨List.replicate (r + 1 + 1) x, lk, att, d, errs⟩ =
          .done (finish (errs ++ [.transport])) [.dial x .fail] := by
        simp [step, hx, dialStep, afterFailedDial, List.replicate, hm]
      rw [loop_of_done hs]
      simp only [acceptedOf_cons_dial, acceptedOf_nil]
      simp; omega
    · have hs : step false R (fun _ _ => Verdict.fail) ⟨List.replicate (r + 1 + 1) x, lk, att, d, errs⟩ =
          .cont ⟨List.replicate (r + 1) x, lk, att + 1, d + 1, errs ++ [.transport]⟩ [.dial x .fail] := by
        simp [step, hx, dialStep, afterFailedDial, List.replicate, hm]
      rw [loop_of_cont hs]
      have := ih (att + 1) (d + 1) lk (errs ++ [.transport]) h (by omega)
      simp only [List.cons_append, List.nil_append, acceptedOf_cons_dial, this]
      simp; omega

/-- **The attempt bound is attained**: a `/dns4` name with 20 A records, every dial accepted and
failing — exactly `MAX_DIAL_ATTEMPTS` attempts are made, the remaining 4 addresses are dropped. -/
theorem attempts_bound_attained (n : List Nat) :
    acceptedOf (doDial false (fun _ _ => .recs (List.replicate 20 (.a 1))) (fun _ _ => .fail)
      [.dns4 n]).2 = Gen.MAX_DIAL_ATTEMPTS := by
  have hs : step false (fun _ _ => Answer.recs (List.replicate 20 (Rec.a 1))) (fun _ _ => Verdict.fail)
      (init [.dns4 n]) = .cont ⟨List.replicate (19 + 1) [.ip4 1], 1, 0, 0, []⟩ [.lookup ⟨.a, n⟩] := by
    have h0 : (0 : Nat) ≠ Gen.MAX_DNS_LOOKUPS := by decide
    simp [step, init, splitDns, Proto.isDns, queryOf, resolveAns, resolvedStep, pushAll, oneOrMany,
      ip4OfRec, h0, List.replicate]
  have e : doDial false (fun _ _ => Answer.recs (List.replicate 20 (Rec.a 1))) (fun _ _ => Verdict.fail)
      [.dns4 n] = _ := loop_of_cont hs
  rw [e]
  have := failing_loop (fun _ _ => Answer.recs (List.replicate 20 (Rec.a 1))) [.ip4 1] (by decide)
    19 0 0 1 [] (by decide) (by decide)
  simp only [List.cons_append, List.nil_append, acceptedOf_cons_lookup, this]
  decide

/-- the hypotheses of `suffix_dnsaddr` are satisfiable, and a matching TXT entry IS dialed -/
example : dnsFree [Proto.p2p [1, 2]] = true := by decide
example : step false (fun _ _ => .recs [.txt [.good [.ip4 1, .tcp 2, .p2p [7]]], .txt [.good [.ip4 3, .p2p [8]]]])
    (fun _ _ => .ok) (init [.dnsaddr [110], .p2p [7]]) =
    .cont ⟨[[.ip4 1, .tcp 2, .p2p [7]]], 1, 0, 0, []⟩ [.lookup ⟨.txt, DNSADDR_PREFIX ++ [110]⟩] := by
  decide
/-- the lookup bound is met with equality by the cyclic resolver at the last admissible lookup -/
example : step false (cyclicR [110]) (fun _ _ => .fail) ⟨[[.dnsaddr [110]]], 31, 0, 0, []⟩ =
    .cont ⟨[[.dnsaddr [110]]], 32, 0, 0, []⟩ [.lookup ⟨.txt, DNSADDR_PREFIX ++ [110]⟩] := by decide
example : step false (cyclicR [110]) (fun _ _ => .fail) ⟨[[.dnsaddr [110]]], 32, 0, 0, []⟩ =
    .cont ⟨[], 32, 0, 0, [.tooMany]⟩ [] := by decide
/-- the 16th accepted failing dial stops the loop although addresses remain -/
example : step false (cyclicR []) (fun _ _ => .fail) ⟨[[.ip4 1], [.ip4 2]], 1, 15, 15, []⟩ =
    .done (.dial [.transport]) [.dial [.ip4 1] .fail] := by decide
/-- a refused address is not an attempt: the loop goes on -/
example : step false (cyclicR []) (fun _ _ => .refused) ⟨[[.ip4 1], [.ip4 2]], 1, 15, 15, []⟩ =
    .cont ⟨[[.ip4 2]], 1, 15, 16, [.notSupported [.ip4 1]]⟩ [.dial [.ip4 1] .refused] := by decide
/-- 20 matching TXT entries, 16 pushed -/
example : (txtPushes [] [] (List.replicate 20 [.ip4 1]) 0).length = 16 := by decide

#print axioms C23.max_dns_lookups_eq
#print axioms C23.max_dial_attempts_eq
#print axioms C23.max_txt_records_eq
#print axioms C23.terminates
#print axioms C23.lookups_le
#print axioms C23.attempts_le
#print axioms C23.no_dns_leak
#print axioms C23.suffix
#print axioms C23.suffix_dnsaddr
#print axioms C23.txt_cap
#print axioms C23.txt_cap_step
#print axioms C23.txt_cap_trace
#print axioms C23.no_panic
#print axioms C23.spec_model
#print axioms C23.lookups_bound_attained
#print axioms C23.attempts_bound_attained
#print axioms C23.empty_answer_buggy_counterexample
#print axioms C23.empty_answer_fixed
#print axioms C23.bytewise_suffix_buggy_counterexample

end C23
