import Libp2pModel.Model.C42
/-!
# C42 — record lifetimes are never extended or lost in transit: property theorems

Statement (properties.jsonl): *A record stored because a peer sent it never expires later than the
expiry the peer gave it, nor later than the locally configured TTL would, and is stored without
expiry only if neither is set.  A record with an expiry is never sent to peers as a record that
does not expire.*

All theorems quantify over every instant, duration, replication factor, node count and TTL
configuration (`Nat`s, no bounds).  The model is that of the REPAIRED code (see
`findings/C42-*.md`); the `*_buggy_counterexample` theorems document the two pre-fix defects.
-/
namespace C42

theorem NS_pos : 0 < NS := by decide

/-! ## the expiry merge -/

/-- the merged expiry is a real expiry, never later than the one the peer gave -/
theorem merge_le_remote (r : Nat) (e : Option Nat) : ∃ x, merge (some r) e = some x ∧ x ≤ r := by
  cases e with
  | none => exact ⟨r, rfl, Nat.le_refl _⟩
  | some l => exact ⟨min r l, rfl, Nat.min_le_left _ _⟩

/-- … and never later than the local expiration -/
theorem merge_le_local (a : Option Nat) (l : Nat) : ∃ x, merge a (some l) = some x ∧ x ≤ l := by
  cases a with
  | none => exact ⟨l, rfl, Nat.le_refl _⟩
  | some r => exact ⟨min r l, rfl, Nat.min_le_right _ _⟩

/-- "forever" only if neither side has an expiry -/
theorem merge_none_iff (a e : Option Nat) : merge a e = none ↔ a = none ∧ e = none := by
  cases a <;> cases e <;> simp [merge, optOr]

/-- `exp_decrease` never lengthens the TTL (it truncates to whole seconds and halves) -/
theorem expDecrease_le (ttl exp : Nat) : expDecrease ttl exp ≤ ttl := by
  unfold expDecrease
  split
  · have h1 : (ttl / NS) >>> exp ≤ ttl / NS := by
      rw [Nat.shiftRight_eq_div_pow]; exact Nat.div_le_self _ _
    calc (ttl / NS) >>> exp * NS ≤ (ttl / NS) * NS := Nat.mul_le_mul_right _ h1
      _ ≤ ttl := Nat.div_mul_le_self _ _
  · simp

/-- the local expiration, when there is one, is `now + d` with `d ≤ ttl` -/
theorem localExpiration_some {ttl : Option Nat} {k nb now : Nat} {x : Option Nat}
    (h : localExpiration ttl k nb now = some x) :
    (ttl = none ∧ x = none) ∨ (∃ l y, ttl = some l ∧ x = some y ∧ y ≤ now + l) := by
  cases ttl with
  | none => left; simp [localExpiration] at h; exact ⟨rfl, h.symm⟩
  | some l =>
    right
    simp only [localExpiration, instAdd] at h
    split at h
    · simp at h
      exact ⟨l, _, rfl, h.symm, Nat.add_le_add_left (expDecrease_le _ _) _⟩
    · simp at h

/-! ## `record_received`: clause 1 of the property -/

/-- what `kept e` means: there was a local expiration (no panic), `e` is the merge, and it is live -/
theorem kept_inv (remote ttl : Option Nat) (k nb now : Nat) (e : Option Nat)
    (h : recordReceived remote ttl k nb now = .kept e) :
    ∃ expiration, localExpiration ttl k nb now = some expiration ∧ e = merge remote expiration ∧
      isExpired e now = false := by
  unfold recordReceived recordReceivedWith at h
  split at h
  · simp at h
  · rename_i expiration hloc
    simp only at h
    split at h
    · simp at h
    · rename_i hne
      simp only [Outcome.kept.injEq] at h
      refine ⟨expiration, hloc, h.symm, ?_⟩
      rw [← h]; simpa using hne

/-- Whatever is stored (or handed to the application) for a record whose sender gave the expiry
`r` HAS an expiry, not later than `r` — under every TTL configuration, replication factor and
routing-table population. -/
theorem received_le_remote (r : Nat) (ttl : Option Nat) (k nb now : Nat) (e : Option Nat)
    (h : recordReceived (some r) ttl k nb now = .kept e) : ∃ x, e = some x ∧ x ≤ r := by
  obtain ⟨expiration, _, he, _⟩ := kept_inv _ _ _ _ _ _ h
  obtain ⟨x, hx, hle⟩ := merge_le_remote r expiration
  exact ⟨x, by rw [he, hx], hle⟩

/-- … nor later than the locally configured TTL would allow (`now + ttl`). -/
theorem received_le_local (remote : Option Nat) (l k nb now : Nat) (e : Option Nat)
    (h : recordReceived remote (some l) k nb now = .kept e) : ∃ x, e = some x ∧ x ≤ now + l := by
  obtain ⟨expiration, hloc, he, _⟩ := kept_inv _ _ _ _ _ _ h
  rcases localExpiration_some hloc with ⟨hn, _⟩ | ⟨l', y, hl, hy, hle⟩
  · exact absurd hn (by simp)
  · have hl' : l = l' := Option.some.inj hl
    subst hl' hy
    obtain ⟨x, hx, hxl⟩ := merge_le_local remote y
    exact ⟨x, by rw [he, hx], Nat.le_trans hxl hle⟩

/-- A record is kept without expiry only if the sender gave none AND no record TTL is configured
(and then it is). -/
theorem received_none_iff (remote ttl : Option Nat) (k nb now : Nat) (e : Option Nat)
    (h : recordReceived remote ttl k nb now = .kept e) : e = none ↔ remote = none ∧ ttl = none := by
  constructor
  · intro he
    subst he
    constructor
    · cases remote with
      | none => rfl
      | some r => obtain ⟨x, hx, _⟩ := received_le_remote r ttl k nb now none h; simp at hx
    · cases ttl with
      | none => rfl
      | some l => obtain ⟨x, hx, _⟩ := received_le_local remote l k nb now none h; simp at hx
  · rintro ⟨rfl, rfl⟩
    obtain ⟨expiration, hloc, he, _⟩ := kept_inv _ _ _ _ _ _ h
    have : expiration = none := by simpa [localExpiration] using hloc.symm
    subst this
    exact he

/-- what is kept is not yet expired -/
theorem received_kept_live (remote ttl : Option Nat) (k nb now : Nat) (e : Option Nat)
    (h : recordReceived remote ttl k nb now = .kept e) : isExpired e now = false :=
  (kept_inv _ _ _ _ _ _ h).choose_spec.2.2

/-- The three clauses together, for every input. -/
theorem received_lifetime (remote ttl : Option Nat) (k nb now : Nat) (e : Option Nat)
    (h : recordReceived remote ttl k nb now = .kept e) :
    (∀ r, remote = some r → ∃ x, e = some x ∧ x ≤ r) ∧
    (∀ l, ttl = some l → ∃ x, e = some x ∧ x ≤ now + l) ∧
    (e = none ↔ remote = none ∧ ttl = none) :=
  ⟨fun r hr => received_le_remote r ttl k nb now e (hr ▸ h),
   fun l hl => received_le_local remote l k nb now e (hl ▸ h),
   received_none_iff remote ttl k nb now e h⟩

/-- DEFECT (pre-fix code, `record.expires.or(expiration).min(expiration)`): with no local record
TTL every record that arrives with a live expiry is stored WITHOUT expiry, because
`Some(t).min(None) = None` in Rust's `Option` ordering. -/
theorem remote_ttl_lost_buggy_counterexample (r k nb now : Nat) :
    recordReceivedBuggy (some r) none k nb now = .kept none := by
  simp [recordReceivedBuggy, recordReceivedWith, localExpiration, mergeBuggy, optOr, optMin, isExpired]

/-- the two merges differ exactly there: with a local expiration they agree -/
theorem mergeBuggy_eq_of_local (a : Option Nat) (l : Nat) : mergeBuggy a (some l) = merge a (some l) := by
  cases a <;> simp [mergeBuggy, merge, optOr, optMin]

/-! ## `record_to_proto`: clause 2 of the property -/

/-- A record with an expiry is never sent with `ttl = 0` ("does not expire"), whatever its
remaining lifetime: sub-second, already expired, or beyond 2³² seconds. -/
theorem ttl_nonzero (t now : Nat) : toProtoTtl (some t) now ≠ 0 := by
  simp only [toProtoTtl]
  split <;> omega

theorem ttl_zero_iff (e : Option Nat) (now : Nat) : toProtoTtl e now = 0 ↔ e = none := by
  cases e with
  | none => simp [toProtoTtl]
  | some t => simp [ttl_nonzero]

/-- the value fits the wire's `uint32` (no truncating cast is left) -/
theorem ttl_fits_u32 (e : Option Nat) (now : Nat) : toProtoTtl e now ≤ u32Max := by
  unfold toProtoTtl u32Max
  split
  · omega
  · split <;> omega

/-- The lifetime on the wire is the minimum unit (1 s) or not longer than the remaining lifetime. -/
theorem ttl_not_extended (t now : Nat) :
    toProtoTtl (some t) now = 1 ∨ toProtoTtl (some t) now * NS ≤ t - now := by
  simp only [toProtoTtl]
  split
  · by_cases h1 : 1 ≤ min ((t - now) / NS) u32Max
    · right
      rw [Nat.max_eq_left h1]
      calc min ((t - now) / NS) u32Max * NS ≤ ((t - now) / NS) * NS :=
            Nat.mul_le_mul_right _ (Nat.min_le_left _ _)
        _ ≤ t - now := Nat.div_mul_le_self _ _
    · left; omega
  · left; rfl

/-- DEFECT (pre-fix code, `(t - now).as_secs() as u32`): every sub-second remaining lifetime is
sent as `0`, i.e. as a record that never expires. -/
theorem ttl_sent_as_zero_buggy_counterexample (now d : Nat) (h0 : 0 < d) (h1 : d < NS) :
    toProtoTtlBuggy (some (now + d)) now = 0 := by
  unfold toProtoTtlBuggy
  have : now + d > now := by omega
  simp only [this, ↓reduceIte, Nat.add_sub_cancel_left]
  rw [Nat.div_eq_of_lt h1]

/-- … and so is every lifetime of a whole multiple of 2³² seconds (truncating cast). -/
theorem ttl_wraps_buggy_counterexample (now m : Nat) (hm : 0 < m) :
    toProtoTtlBuggy (some (now + m * 2 ^ 32 * NS)) now = 0 := by
  unfold toProtoTtlBuggy
  have hpos : 0 < m * 2 ^ 32 * NS := by
    have := NS_pos
    exact Nat.mul_pos (Nat.mul_pos hm (by decide)) this
  have : now + m * 2 ^ 32 * NS > now := by omega
  simp only [this, ↓reduceIte, Nat.add_sub_cancel_left]
  rw [Nat.mul_div_cancel _ NS_pos]
  exact Nat.mul_mod_left _ _

/-! ## `record_from_proto` and the whole transit -/

/-- decoding a wire TTL `w > 0` yields exactly `now + w s`; `w = 0` yields no expiry -/
theorem fromProto_eq (w now : Nat) (e : Option Nat) (h : fromProtoExpires w now = some e) :
    e = if 0 < w then some (now + w * NS) else none := by
  unfold fromProtoExpires instAdd at h
  by_cases hw : w > 0
  · simp only [hw, ↓reduceIte] at h
    split at h <;> simp at h
    simp [hw, h]
  · simp only [hw, ↓reduceIte, Option.some.injEq] at h
    simp [hw, h]

/-- End to end (sender `record_to_proto` at `now0`, transit `delay`, receiver `record_from_proto`
+ `record_received` at `now0 + delay`): a record that had the expiry `t` at the sender is kept
by the receiver WITH an expiry, which is not later than `t` (or, for lifetimes below the wire's
1 s granularity, `now0 + 1 s`) plus the transit delay — under every receiver configuration. -/
theorem relay_bound (t now0 delay : Nat) (ttl : Option Nat) (k nb : Nat) (remote e : Option Nat)
    (hdec : fromProtoExpires (toProtoTtl (some t) now0) (now0 + delay) = some remote)
    (hrecv : recordReceived remote ttl k nb (now0 + delay) = .kept e) :
    ∃ x, e = some x ∧ x ≤ max t (now0 + NS) + delay := by
  have hw := ttl_nonzero t now0
  have hrem := fromProto_eq _ _ _ hdec
  have hpos : 0 < toProtoTtl (some t) now0 := Nat.pos_of_ne_zero hw
  simp only [hpos, ↓reduceIte] at hrem
  subst hrem
  obtain ⟨x, hx, hle⟩ := received_le_remote _ ttl k nb _ e hrecv
  refine ⟨x, hx, Nat.le_trans hle ?_⟩
  rcases ttl_not_extended t now0 with h1 | h2
  · rw [h1]
    have : now0 + NS ≤ max t (now0 + NS) := Nat.le_max_right _ _
    omega
  · have : t ≤ max t (now0 + NS) := Nat.le_max_left _ _
    omega

/-! ## the executable Spec (the oracle run on the implementation's outputs) -/

/-- The Spec for a kept record says exactly the three clauses of the statement … -/
theorem specKept_ok_iff (remote ttl : Option Nat) (now : Nat) (e : Option Nat) :
    specKept remote ttl now e = "ok" ↔
      (∀ r, remote = some r → ∃ x, e = some x ∧ x ≤ r) ∧
      (∀ l, ttl = some l → ∃ x, e = some x ∧ x ≤ now + l) := by
  unfold specKept
  cases e with
  | none =>
    cases remote <;> cases ttl <;> simp
  | some x =>
    cases remote with
    | none =>
      cases ttl with
      | none => simp
      | some l =>
        by_cases h : now + l < x
        · simp [h] <;> omega
        · simp [h] <;> omega
    | some r =>
      by_cases hr : r < x
      · simp [hr] <;> omega
      · cases ttl with
        | none => simp [hr] <;> omega
        | some l =>
          by_cases h : now + l < x
          · simp [hr, h] <;> omega
          · simp [hr, h] <;> omega

/-- … and it accepts the model (so `impl = model` implies the Spec holds on the implementation). -/
theorem spec_kept_model (remote ttl : Option Nat) (k nb now : Nat) (e : Option Nat)
    (h : recordReceived remote ttl k nb now = .kept e) : specKept remote ttl now e = "ok" := by
  rw [specKept_ok_iff]
  exact ⟨(received_lifetime remote ttl k nb now e h).1, (received_lifetime remote ttl k nb now e h).2.1⟩

/-- the Spec for an outgoing record says: an expiry is never sent as 0, and the wire lifetime is 1
or strictly less than the remaining lifetime plus one second -/
theorem specToProto_ok_iff (t now w : Nat) :
    specToProto (some t) now w = "ok" ↔ w ≠ 0 ∧ (w = 1 ∨ (w - 1) * NS < t - now) := by
  unfold specToProto
  by_cases h0 : w = 0
  · simp [h0]
  · by_cases h1 : w = 1
    · simp [h1]
    · by_cases h2 : (w - 1) * NS < t - now
      · simp [h0, h1, h2]
      · simp [h0, h1, h2]

theorem spec_toProto_model (e : Option Nat) (now : Nat) : specToProto e now (toProtoTtl e now) = "ok" := by
  cases e with
  | none => rfl
  | some t =>
    rw [specToProto_ok_iff]
    refine ⟨ttl_nonzero t now, ?_⟩
    rcases ttl_not_extended t now with h | h
    · left; exact h
    · right
      have hp : 0 < toProtoTtl (some t) now := Nat.pos_of_ne_zero (ttl_nonzero t now)
      have : (toProtoTtl (some t) now - 1) * NS < toProtoTtl (some t) now * NS :=
        Nat.mul_lt_mul_of_pos_right (by omega) NS_pos
      omega

theorem spec_fromProto_model (w now : Nat) (e : Option Nat) (h : fromProtoExpires w now = some e) :
    specFromProto w now e = "ok" := by
  have := fromProto_eq w now e h
  unfold specFromProto
  by_cases hw : w = 0
  · simp [hw]
  · have hp : 0 < w := Nat.pos_of_ne_zero hw
    simp only [hp, ↓reduceIte] at this
    subst this
    simp [hw]

/-! ## non-vacuity -/

-- a 1 h remote TTL with no local TTL is kept with exactly that expiry (the case the defect lost)
example : recordReceived (some (1000 + 3600 * NS)) none 20 0 1000 = .kept (some (1000 + 3600 * NS)) := by decide
-- the smaller of the two prevails
example : recordReceived (some (1000 + 3600 * NS)) (some (60 * NS)) 20 0 1000 = .kept (some (1000 + 60 * NS)) := by decide
-- 3 nodes beyond k halve the local TTL three times
example : recordReceived none (some (80 * NS)) 1 4 0 = .kept (some (10 * NS)) := by decide
-- 64 or more nodes beyond k: the local lifetime is 0 and the record is dropped
example : recordReceived (some (5 * NS)) (some (80 * NS)) 1 65 0 = .dropped (some 0) := by decide
-- neither set: kept forever
example : recordReceived none none 20 0 7 = .kept none := by decide
-- absurd TTL configuration: the addition panics
example : recordReceived none (some (2 ^ 64 * NS)) 20 0 0 = .panic := by decide
-- outgoing: half a second is sent as 1, 2^32 s saturates
example : toProtoTtl (some (NS / 2)) 0 = 1 := by decide
example : toProtoTtl (some (2 ^ 32 * NS)) 0 = 2 ^ 32 - 1 := by decide
example : toProtoTtl (some (90 * NS + 5)) 0 = 90 := by decide
example : toProtoTtlBuggy (some (NS / 2)) 0 = 0 := by decide

end C42

#print axioms C42.merge_le_remote
#print axioms C42.merge_le_local
#print axioms C42.merge_none_iff
#print axioms C42.expDecrease_le
#print axioms C42.kept_inv
#print axioms C42.received_le_remote
#print axioms C42.received_le_local
#print axioms C42.received_none_iff
#print axioms C42.received_kept_live
#print axioms C42.received_lifetime
#print axioms C42.remote_ttl_lost_buggy_counterexample
#print axioms C42.ttl_nonzero
#print axioms C42.ttl_zero_iff
#print axioms C42.ttl_fits_u32
#print axioms C42.ttl_not_extended
#print axioms C42.ttl_sent_as_zero_buggy_counterexample
#print axioms C42.ttl_wraps_buggy_counterexample
#print axioms C42.fromProto_eq
#print axioms C42.relay_bound
#print axioms C42.specKept_ok_iff
#print axioms C42.spec_kept_model
#print axioms C42.specToProto_ok_iff
#print axioms C42.spec_toProto_model
#print axioms C42.spec_fromProto_model
