import Libp2pModel.Model.C40
/-!
# C40 — XOR distance is a metric with consistent bucket indices (property theorems)

Everything is stated for *all* keys (well-formed 32-byte strings) / all 256-bit integers.
-/
namespace C40

/-! ## Bit-level lemmas on `Nat` -/

/-- `x ⊕ y ≤ x + y`, by induction on the binary representation (no `bv_decide`). -/
theorem xor_le_add (x y : Nat) : x ^^^ y ≤ x + y := by
  induction x using Nat.strongRecOn generalizing y with
  | _ x ih =>
    by_cases hx : x = 0
    · subst hx; simp
    · have h2 := ih (x / 2) (by omega) (y / 2)
      have hd : (x ^^^ y) / 2 = x / 2 ^^^ y / 2 := Nat.xor_div_two
      have hm : (x ^^^ y) % 2 = x % 2 ^^^ y % 2 := by
        have := @Nat.xor_mod_two_pow x y 1
        simpa using this
      have hm' : (x ^^^ y) % 2 ≤ x % 2 + y % 2 := by
        rw [hm]
        rcases Nat.mod_two_eq_zero_or_one x with h | h <;>
          rcases Nat.mod_two_eq_zero_or_one y with h' | h' <;> simp [h, h']
      omega

theorem xor_triangle (a b c : Nat) : a ^^^ c ≤ (a ^^^ b) + (b ^^^ c) := by
  have h : a ^^^ c = (a ^^^ b) ^^^ (b ^^^ c) := by
    rw [Nat.xor_assoc, ← Nat.xor_assoc b b c, Nat.xor_self, Nat.zero_xor]
  rw [h]
  exact xor_le_add _ _

theorem xor_eq_zero_iff (a b : Nat) : a ^^^ b = 0 ↔ a = b := by
  constructor
  · intro h
    have : (a ^^^ b) ^^^ b = 0 ^^^ b := by rw [h]
    rw [Nat.xor_assoc, Nat.xor_self, Nat.xor_zero, Nat.zero_xor] at this
    exact this
  · rintro rfl; exact Nat.xor_self a

theorem xor_left_cancel (a b c : Nat) (h : a ^^^ b = a ^^^ c) : b = c := by
  have : a ^^^ (a ^^^ b) = a ^^^ (a ^^^ c) := by rw [h]
  rw [← Nat.xor_assoc, ← Nat.xor_assoc, Nat.xor_self, Nat.zero_xor, Nat.zero_xor] at this
  exact this

theorem xor_xor_cancel_left (a d : Nat) : a ^^^ (a ^^^ d) = d := by
  rw [← Nat.xor_assoc, Nat.xor_self, Nat.zero_xor]

/-! ## Big-endian conversion -/

theorem fromBE_lt (bs : List Nat) (h : ∀ b ∈ bs, b < 256) : fromBE bs < 256 ^ bs.length := by
  induction bs with
  | nil => simp [fromBE]
  | cons b bs ih =>
    have hb : b < 256 := h b (by simp)
    have := ih (fun x hx => h x (by simp [hx]))
    simp only [fromBE, List.length_cons, Nat.pow_succ]
    have hpos : 0 < 256 ^ bs.length := Nat.pow_pos (by decide)
    calc b * 256 ^ bs.length + fromBE bs
        < b * 256 ^ bs.length + 256 ^ bs.length := by omega
      _ = (b + 1) * 256 ^ bs.length := by rw [Nat.add_mul, Nat.one_mul]
      _ ≤ 256 * 256 ^ bs.length := Nat.mul_le_mul_right _ (by omega)
      _ = 256 ^ bs.length * 256 := Nat.mul_comm _ _

theorem toBE_length (k n : Nat) : (toBE k n).length = k := by
  induction k with
  | zero => rfl
  | succ k ih => simp [toBE, ih]

theorem toBE_bytes (k n : Nat) : ∀ b ∈ toBE k n, b < 256 := by
  induction k with
  | zero => intro b hb; simp [toBE] at hb
  | succ k ih =>
    intro b hb
    simp only [toBE, List.mem_cons] at hb
    rcases hb with rfl | hb
    · exact Nat.mod_lt _ (by decide)
    · exact ih b hb

/-- `from_big_endian ∘ to_big_endian` -/
theorem fromBE_toBE (k n : Nat) : fromBE (toBE k n) = n % 256 ^ k := by
  induction k with
  | zero => simp [toBE, fromBE, Nat.mod_one]
  | succ k ih =>
    simp only [toBE, fromBE, toBE_length, ih]
    rw [Nat.mod_pow_succ]
    rw [Nat.mul_comm, Nat.add_comm]

/-- the low `k` bytes depend only on `n mod 256^k` -/
theorem toBE_add_mul (k n m : Nat) : toBE k (m * 256 ^ k + n) = toBE k n := by
  induction k generalizing n m with
  | zero => rfl
  | succ k ih =>
    simp only [toBE]
    have h1 : m * 256 ^ (k + 1) + n = (m * 256) * 256 ^ k + n := by
      rw [Nat.pow_succ, Nat.mul_assoc, Nat.mul_comm 256 (256 ^ k)]
    rw [h1, ih]
    congr 1
    have hpos : 0 < 256 ^ k := Nat.pow_pos (by decide)
    rw [Nat.add_comm, Nat.add_mul_div_right _ _ hpos, Nat.add_mul_mod_self_right]

/-- `to_big_endian ∘ from_big_endian` -/
theorem toBE_fromBE (bs : List Nat) (h : ∀ b ∈ bs, b < 256) : toBE bs.length (fromBE bs) = bs := by
  induction bs with
  | nil => rfl
  | cons b bs ih =>
    have hb : b < 256 := h b (by simp)
    have hbs : ∀ x ∈ bs, x < 256 := fun x hx => h x (by simp [hx])
    have hlt := fromBE_lt bs hbs
    have hpos : 0 < 256 ^ bs.length := Nat.pow_pos (by decide)
    simp only [List.length_cons, toBE, fromBE]
    rw [toBE_add_mul, ih hbs]
    congr 1
    rw [Nat.add_comm, Nat.add_mul_div_right _ _ hpos, Nat.div_eq_of_lt hlt, Nat.zero_add,
      Nat.mod_eq_of_lt hb]

theorem pow_256_32 : (256 : Nat) ^ 32 = 2 ^ 256 := by decide

theorem key_lt {k : List Nat} (h : ValidKey k) : fromBE k < 2 ^ 256 := by
  have := fromBE_lt k h.2
  rw [h.1, pow_256_32] at this
  exact this

theorem toBE_fromBE_key {k : List Nat} (h : ValidKey k) : toBE 32 (fromBE k) = k := by
  have := toBE_fromBE k h.2
  rwa [h.1] at this

theorem fromBE_inj {a b : List Nat} (ha : ValidKey a) (hb : ValidKey b)
    (h : fromBE a = fromBE b) : a = b := by
  rw [← toBE_fromBE_key ha, ← toBE_fromBE_key hb, h]

theorem validKey_iff (k : List Nat) : validKey k = true ↔ ValidKey k := by
  simp [validKey, ValidKey]

theorem validKey_toBE (n : Nat) : ValidKey (toBE 32 n) := ⟨toBE_length 32 n, toBE_bytes 32 n⟩

/-! ## The property -/

/-- every distance is a 256-bit value (no `U256` overflow anywhere in `distance`) -/
theorem distance_lt {a b : List Nat} (ha : ValidKey a) (hb : ValidKey b) :
    distance a b < 2 ^ 256 :=
  Nat.xor_lt_two_pow (key_lt ha) (key_lt hb)

/-- **zero exactly for equal keys** -/
theorem zero_iff {a b : List Nat} (ha : ValidKey a) (hb : ValidKey b) :
    distance a b = 0 ↔ a = b := by
  unfold distance
  rw [xor_eq_zero_iff]
  exact ⟨fromBE_inj ha hb, fun h => by rw [h]⟩

/-- **symmetric** -/
theorem symm (a b : List Nat) : distance a b = distance b a := Nat.xor_comm _ _

/-- **triangle inequality** (on the integers, i.e. without the `U256` overflow escape) -/
theorem triangle (a b c : List Nat) : distance a c ≤ distance a b + distance b c :=
  xor_triangle _ _ _

/-- **unidirectional**: for a given key and distance there is exactly one other key -/
theorem unidirectional {a b c : List Nat} (hb : ValidKey b) (hc : ValidKey c)
    (h : distance a b = distance a c) : b = c :=
  fromBE_inj hb hc (xor_left_cancel _ _ _ h)

/-- `for_distance` returns a well-formed key -/
theorem for_distance_valid (a : List Nat) (d : Nat) : ValidKey (forDistance a d) :=
  validKey_toBE _

/-- **for_distance inverts distance** (both directions): the key returned for distance `d` is at
distance `d`, and the key returned for `distance a b` is `b`. -/
theorem for_distance_inverts {a : List Nat} (ha : ValidKey a) :
    (∀ d, d < 2 ^ 256 → distance a (forDistance a d) = d) ∧
    (∀ b, ValidKey b → forDistance a (distance a b) = b) := by
  constructor
  · intro d hd
    unfold distance forDistance
    rw [fromBE_toBE, pow_256_32, Nat.mod_eq_of_lt (Nat.xor_lt_two_pow (key_lt ha) hd)]
    exact xor_xor_cancel_left _ _
  · intro b hb
    unfold distance forDistance
    rw [xor_xor_cancel_left]
    exact toBE_fromBE_key hb

/-- `self xor other = distance <==> other = self xor distance` (the doc comment of `for_distance`) -/
theorem for_distance_iff {a b : List Nat} (ha : ValidKey a) (hb : ValidKey b) (d : Nat)
    (hd : d < 2 ^ 256) : distance a b = d ↔ b = forDistance a d := by
  constructor
  · intro h; rw [← h]; exact ((for_distance_inverts ha).2 b hb).symm
  · intro h; rw [h]; exact (for_distance_inverts ha).1 d hd

theorem ilog2_zero : ilog2 0 = none := by decide

theorem ilog2_pos {d : Nat} (hd : d ≠ 0) (hlt : d < 2 ^ 256) : ilog2 d = some d.log2 := by
  have h1 : d.log2 < 256 := (Nat.log2_lt hd).2 hlt
  simp only [ilog2, leadingZeros, bits, hd, if_false, checkedSub]
  have : 1 ≤ 256 - (256 - (d.log2 + 1)) := by omega
  rw [if_pos this]
  congr 1
  omega

/-- **bucket index = position of the highest set bit**: for every 256-bit distance `d`,
`BucketIndex::new(d) = Some(i)` iff `2^i ≤ d < 2^(i+1)`, and `None` iff `d = 0`. -/
theorem bucket_index {d : Nat} (hlt : d < 2 ^ 256) :
    (∀ i, bucketIndex d = some i ↔ (2 ^ i ≤ d ∧ d < 2 ^ (i + 1))) ∧
    (bucketIndex d = none ↔ d = 0) := by
  by_cases hd : d = 0
  · subst hd
    refine ⟨fun i => ?_, by simp [bucketIndex, ilog2_zero]⟩
    simp only [bucketIndex, ilog2_zero, Option.map_none]
    constructor
    · intro h; cases h
    · intro ⟨h, _⟩
      have : 0 < 2 ^ i := Nat.pow_pos (by decide)
      omega
  · refine ⟨fun i => ?_, by simp [bucketIndex, ilog2_pos hd hlt, hd]⟩
    simp only [bucketIndex, ilog2_pos hd hlt, Option.map_some, Option.some.injEq]
    exact Nat.log2_eq_iff hd

/-- the same in terms of bits: bit `i` of `d` is set and no higher bit is -/
theorem bucket_index_bits {d i : Nat} (hlt : d < 2 ^ 256) (h : bucketIndex d = some i) :
    d.testBit i = true ∧ (∀ j, i < j → d.testBit j = false) ∧ i < 256 := by
  have ⟨h1, h2⟩ := ((bucket_index hlt).1 i).1 h
  refine ⟨Nat.testBit_of_two_pow_le_and_two_pow_add_one_gt h1 h2, fun j hj => ?_, ?_⟩
  · apply Nat.testBit_lt_two_pow
    exact Nat.lt_of_lt_of_le h2 (Nat.pow_le_pow_right (by decide) hj)
  · apply Classical.byContradiction
    intro hge
    have : 2 ^ 256 ≤ 2 ^ i := Nat.pow_le_pow_right (by decide) (by omega)
    omega

/-- conversely: the highest set bit determines the bucket -/
theorem bucket_index_of_bits {d i : Nat} (hlt : d < 2 ^ 256) (hb : d.testBit i = true)
    (hhi : ∀ j, i < j → d.testBit j = false) : bucketIndex d = some i := by
  apply ((bucket_index hlt).1 i).2
  refine ⟨Nat.ge_two_pow_of_testBit hb, ?_⟩
  exact Nat.lt_pow_two_of_testBit d (fun j hj => hhi j (by omega))

/-- `BucketIndex::range` is exactly the set of distances mapped to that index (incl. `i = 255`,
where the upper end is `U256::MAX`); no `pow` overflow for any `i ≤ 255`. -/
theorem range_iff {i d : Nat} (hi : i < 256) (hlt : d < 2 ^ 256) :
    ((range i).1 ≤ d ∧ d ≤ (range i).2) ↔ bucketIndex d = some i := by
  rw [(bucket_index hlt).1 i]
  unfold range
  have hpos : 0 < 2 ^ (i + 1) := Nat.pow_pos (by decide)
  by_cases h : i = 255
  · subst h; simp only [if_true]; omega
  · simp only [h, if_false]; omega

theorem range_no_overflow {i : Nat} (hi : i < 256) : (range i).1 < 2 ^ 256 ∧ (range i).2 < 2 ^ 256 := by
  unfold range
  have h1 : 2 ^ i < 2 ^ 256 := Nat.pow_lt_pow_right (by decide) hi
  by_cases h : i = 255
  · subst h; simp only [if_true]; omega
  · simp only [h, if_false]
    have : 2 ^ (i + 1) ≤ 2 ^ 255 := Nat.pow_le_pow_right (by decide) (by omega)
    have : (2:Nat) ^ 255 < 2 ^ 256 := by decide
    omega

/-- a key's bucket (w.r.t. a local key) is the position of the highest bit in which they differ -/
theorem key_bucket_index {l k : List Nat} (hl : ValidKey l) (hk : ValidKey k) :
    (bucketIndex (distance l k) = none ↔ k = l) ∧
    (∀ i, bucketIndex (distance l k) = some i ↔
      ((fromBE l).testBit i ≠ (fromBE k).testBit i ∧
        ∀ j, i < j → (fromBE l).testBit j = (fromBE k).testBit j)) := by
  have hlt := distance_lt hl hk
  constructor
  · rw [(bucket_index hlt).2, zero_iff hl hk]; exact ⟨fun h => h.symm, fun h => h.symm⟩
  · intro i
    constructor
    · intro h
      have ⟨h1, h2, _⟩ := bucket_index_bits hlt h
      unfold distance at h1 h2
      constructor
      · rw [Nat.testBit_xor] at h1
        intro heq; rw [heq] at h1; simp at h1
      · intro j hj
        have := h2 j hj
        rw [Nat.testBit_xor] at this
        cases hx : (fromBE l).testBit j <;> cases hy : (fromBE k).testBit j <;> simp_all
    · intro ⟨h1, h2⟩
      apply bucket_index_of_bits hlt
      · unfold distance; rw [Nat.testBit_xor]
        cases hx : (fromBE l).testBit i <;> cases hy : (fromBE k).testBit i <;> simp_all
      · intro j hj
        unfold distance; rw [Nat.testBit_xor, h2 j hj]; simp

/-! ## The Spec accepts the model (so `impl = model` ⇒ Spec holds on impl) -/

theorem contains_iff (i d : Nat) : contains i d = true ↔ bucketIndex d = some i := by
  unfold contains
  cases bucketIndex d <;> simp

theorem spec_dist {a b : List Nat} (ha : ValidKey a) (hb : ValidKey b) :
    specDist a b (distance a b) (distance b a) (ilog2 (distance a b)) (bucketIndex (distance a b))
      (contains ((bucketIndex (distance a b)).getD 0) (distance a b)) = true := by
  have hlt := distance_lt ha hb
  have hz := zero_iff ha hb
  simp only [specDist, Bool.and_eq_true]
  refine ⟨⟨⟨?_, ?_⟩, ?_⟩, ?_⟩
  · simp only [specZeroIff]
    by_cases h : a = b
    · subst h; simp [distance]
    · have : distance a b ≠ 0 := fun h0 => h (hz.1 h0)
      have h1 : (distance a b == 0) = false := by simp [this]
      have h2 : (a == b) = false := by simp [h]
      rw [h1, h2]; rfl
  · simp [specSymm, symm a b]
  · by_cases hd : distance a b = 0
    · rw [hd, ilog2_zero]; rfl
    · rw [ilog2_pos hd hlt]
      simp only [specIlog2, isHighestBit, Bool.and_eq_true, decide_eq_true_eq]
      exact (Nat.log2_eq_iff hd).1 rfl
  · by_cases hd : distance a b = 0
    · rw [hd]; decide
    · have hl : (distance a b).log2 < 256 := (Nat.log2_lt hd).2 hlt
      simp [specBucketIndex, bucketIndex, ilog2_pos hd hlt, contains, hl]

theorem spec_tri (a b c : List Nat) :
    specTri (distance a b) (distance b c) (distance a c)
      (triLe (distance a b) (distance b c) (distance a c)) = true := by
  have := triangle a b c
  simp only [specTri, triLe, Bool.and_eq_true, decide_eq_true_eq]
  refine ⟨this, ?_⟩
  split <;> simp [this]

theorem spec_uni {a b c : List Nat} (hb : ValidKey b) (hc : ValidKey c) :
    specUni b c (distance a b) (distance a c) = true := by
  simp only [specUni, Bool.or_eq_true, Bool.not_eq_true', beq_eq_false_iff_ne, beq_iff_eq]
  by_cases h : distance a b = distance a c
  · exact Or.inr (unidirectional hb hc h)
  · exact Or.inl h

theorem spec_for_dist {a : List Nat} (ha : ValidKey a) {d : Nat} (hd : d < 2 ^ 256) :
    specForDist d (forDistance a d) (distance a (forDistance a d)) = true := by
  simp [specForDist, (validKey_iff _).2 (for_distance_valid a d), (for_distance_inverts ha).1 d hd]

theorem spec_inv {a b : List Nat} (ha : ValidKey a) (hb : ValidKey b) :
    specInv b (forDistance a (distance a b)) = true := by
  simp [specInv, (for_distance_inverts ha).2 b hb]

theorem spec_range {i : Nat} (hi : i < 256) : specRange i (range i).1 (range i).2 = true := by
  unfold range specRange
  have hpos : 0 < 2 ^ i := Nat.pow_pos (by decide)
  have hs : 2 ^ (i + 1) = 2 * 2 ^ i := by rw [Nat.pow_succ, Nat.mul_comm]
  by_cases h : i = 255
  · subst h; decide
  · simp only [h, if_false, Bool.and_eq_true, beq_iff_eq, hs]
    refine ⟨trivial, ?_⟩
    omega

/-- and the Spec's clauses mean what the property says: a reported `(d, il)` accepted by
`specIlog2` is the model's `ilog2`. -/
theorem spec_ilog2_unique {d : Nat} (hlt : d < 2 ^ 256) (il : Option Nat)
    (h : specIlog2 d il = true) : il = bucketIndex d := by
  cases il with
  | none =>
    simp only [specIlog2, beq_iff_eq] at h
    exact ((bucket_index hlt).2.2 h).symm
  | some i =>
    simp only [specIlog2, isHighestBit, Bool.and_eq_true, decide_eq_true_eq] at h
    exact (((bucket_index hlt).1 i).2 h).symm

/-! ## Non-vacuity -/
example : ValidKey (toBE 32 5) := validKey_toBE 5
example : distance (toBE 32 5) (toBE 32 6) = 3 := by decide
example : bucketIndex 1 = some 0 := by decide
example : bucketIndex (2 ^ 256 - 1) = some 255 := by decide
example : range 255 = (2 ^ 255, 2 ^ 256 - 1) := by decide

end C40

#print axioms C40.xor_le_add
#print axioms C40.zero_iff
#print axioms C40.symm
#print axioms C40.triangle
#print axioms C40.unidirectional
#print axioms C40.for_distance_inverts
#print axioms C40.for_distance_iff
#print axioms C40.bucket_index
#print axioms C40.bucket_index_bits
#print axioms C40.bucket_index_of_bits
#print axioms C40.key_bucket_index
#print axioms C40.range_iff
#print axioms C40.range_no_overflow
#print axioms C40.toBE_fromBE
#print axioms C40.fromBE_toBE
#print axioms C40.spec_dist
#print axioms C40.spec_tri
#print axioms C40.spec_uni
#print axioms C40.spec_for_dist
#print axioms C40.spec_inv
#print axioms C40.spec_range
#print axioms C40.spec_ilog2_unique
