import Libp2pModel.Proofs.C54c
import Libp2pModel.Proofs.C54d
import Libp2pModel.Common.Machine
/-!
# C54 — the peer store keeps permanent addresses and bounded records

Model: `Libp2pModel/Model/C54.lean` (`step` = the repaired `MemoryStore`, `stepG false` = the code
at the pinned commit).  All theorems quantify over every configuration with non-zero capacities
(`NonZeroUsize` in the code) and every finite sequence of public-API calls / swarm events
(`Machine.exec step (init cfg) ops`), of any length.

* `peer_cap`, `record_cap` — the two bounds, in every reachable state;
* `permanent_survives_removal` / `permanent_survives_transport` / `permanent_survives` — an
  explicitly added address is never removed by the automatic (non-forced) removal paths; it can
  only disappear during a swarm event through LRU capacity eviction, which happens only when that
  very event stored a NEW address (witnessed by the `PeerAddressAdded{is_permanent:false}` it emits);
* `permanent_step`, `permanent_run` — for EVERY op (resp. along any run): a permanent address stays
  stored and permanent unless it is explicitly removed or some op stored a new key;
  `eviction_exact` — what the LRU eviction inside `add_address_inner` drops, exactly;
* `events_exact` (+ `_add`, `_remove`, `_auto_remove`, `_poll`) — the events queued by an op are
  exactly those of the set-level reference `refOp` (which knows nothing about LRU order): `Added`
  iff the pair was not stored, `Removed` iff it was stored and (forced or not permanent); nothing
  for LRU evictions; `poll` hands them out in FIFO order;
* `spec_accepts_model` — the executable trace monitor used on the implementation's outputs
  accepts every run of the model (so "impl = model on this input" implies "Spec holds on impl");
* `peer_cap_plus_one_buggy_counterexample` — the pre-fix function reaches 3 peers at capacity 2.
-/
set_option linter.unusedSimpArgs false
set_option linter.unusedVariables false

namespace C54
open Lru

/-! ## the reference's reading of an op in a model state -/

/-- the permanent pairs of a state, as a list -/
def permOf (s : State) : List Pair :=
  (pairsOf (dump s)).filter fun x => flag s x.1 x.2 == some true

theorem permRel_permOf {s : State} (h : Inv s) : PermRel s (permOf s) := by
  intro q b
  unfold permOf
  rw [List.mem_filter, mem_pairs_dump s h.wf]
  constructor
  · intro ⟨_, ht⟩; simpa using ht
  · intro ht; simp [ht]

theorem peers_keys (s : State) (p : Peer) : s.records.keys.contains p = (s.records.peek p).isSome := by
  have := mem_keys_iff s.records p
  cases hh : (s.records.peek p).isSome <;> simp_all

/-- what the property says the op must do in state `s` (set level, no LRU order) -/
def ref (s : State) (op : Op) : Ref × Option Bool :=
  refOp s.cfg (permOf s) s.records.keys (pairsOf (dump s)) op

theorem step_post_exact {s : State} (h : Inv s) (op : Op) (hop : op ≠ Op.poll) :
    Post s (permOf s) op (step s op).1 (step s op).2 (ref s op) :=
  step_post h (permRel_permOf h) (cur_pairs_dump h) (peers_keys s) op hop

theorem step_poll (s : State) :
    step s Op.poll =
      match s.pending with
      | e :: rest => ({ s with pending := rest }, Out.event (some e))
      | [] => (s, Out.event none) := rfl

/-! ## reachable states -/

theorem step_inv {s : State} (h : Inv s) (op : Op) : Inv (step s op).1 ∧ (step s op).1.cfg = s.cfg := by
  by_cases hop : op = Op.poll
  · subst hop
    rw [step_poll]
    cases hp : s.pending with
    | nil => exact ⟨h, rfl⟩
    | cons e rest => exact ⟨⟨h.wf, h.cap, h.len, h.recs, h.pc1, h.rc1⟩, rfl⟩
  · exact ⟨(step_post_exact h op hop).inv, (step_post_exact h op hop).cfg⟩

theorem reachable_inv (cfg : Cfg) (h1 : 1 ≤ cfg.peerCap) (h2 : 1 ≤ cfg.recCap) (ops : List Op) :
    Inv (Machine.exec step (init cfg) ops) ∧ (Machine.exec step (init cfg) ops).cfg = cfg :=
  Machine.invariant_of_step step (fun s => Inv s ∧ s.cfg = cfg)
    (fun s o h => ⟨(step_inv h.1 o).1, (step_inv h.1 o).2.trans h.2⟩) ops _ ⟨inv_init cfg h1 h2, rfl⟩

/-! ## THE property theorems -/

/-- **the store holds at most `peer_capacity` peers**, after every sequence of operations -/
theorem peer_cap (cfg : Cfg) (h1 : 1 ≤ cfg.peerCap) (h2 : 1 ≤ cfg.recCap) (ops : List Op) :
    (Machine.exec step (init cfg) ops).records.len ≤ cfg.peerCap ∧
    (dump (Machine.exec step (init cfg) ops)).length ≤ cfg.peerCap := by
  obtain ⟨hi, hc⟩ := reachable_inv cfg h1 h2 ops
  have := hi.len
  rw [hc] at this
  exact ⟨this, by rw [dump_length]; exact this⟩

/-- **every peer keeps at most `record_capacity` addresses**, after every sequence of operations -/
theorem record_cap (cfg : Cfg) (h1 : 1 ≤ cfg.peerCap) (h2 : 1 ≤ cfg.recCap) (ops : List Op) :
    (∀ p r, (Machine.exec step (init cfg) ops).records.peek p = some r → r.addrs.len ≤ cfg.recCap) ∧
    (∀ e ∈ dump (Machine.exec step (init cfg) ops), e.2.1.length ≤ cfg.recCap) := by
  obtain ⟨hi, hc⟩ := reachable_inv cfg h1 h2 ops
  constructor
  · intro p r hp
    have := (Cache.allV_of_peek _ hi.recs hp).len
    rw [hc] at this; exact this
  · intro e he
    have := dump_recCap _ hi e he
    rw [hc] at this; exact this

/-- the automatic removal path (`remove_address_inner(.., force = false)`) never removes, demotes
or otherwise touches a permanent address — of any peer, in any state satisfying the invariant -/
theorem permanent_survives_removal {s : State} (h : Inv s) {p : Peer} {a : Addr}
    (hf : flag s p a = some true) (q : Peer) (b : Addr) :
    flag (removeInner s q b false).1 p a = some true ∧
    ((removeInner s q b false).2 = true → (q, b) ≠ (p, a)) := by
  obtain ⟨_, _, i3, _, i5⟩ := removeInner_spec h q b false
  constructor
  · rw [i5]
    by_cases hqb : p = q ∧ a = b
    · obtain ⟨rfl, rfl⟩ := hqb
      rw [hf] at i3
      simp only [Bool.false_or, Bool.not_true] at i3
      simp [i3, hf]
    · simp [hqb, hf]
  · intro hret e
    obtain ⟨rfl, rfl⟩ := Prod.mk.inj e
    rw [hf] at i3
    simp only [Bool.false_or, Bool.not_true] at i3
    rw [i3] at hret; cases hret

/-- no new key stored by a swarm event ⇒ every permanent address is still there, still permanent -/
theorem permanent_survives_of_no_new {s : State} (h : Inv s) {op : Op} (hauto : isAuto op = true)
    (hnk : (ref s op).1.newKey = false) {p : Peer} {a : Addr} (hf : flag s p a = some true) :
    flag (step s op).1 p a = some true := by
  have hop : op ≠ Op.poll := by intro e; subst e; simp [isAuto] at hauto
  have P := step_post_exact h op hop
  have hperm : (p, a) ∈ permOf s := (permRel_permOf h p a).2 hf
  have hcur : (p, a) ∈ pairsOf (dump s) := (cur_pairs_dump h p a).2 (by simp [hf])
  have hkeep := refOp_keeps_perm s.cfg (permOf s) s.records.keys (pairsOf (dump s)) op hauto hperm hcur
  have hsome := P.sup hnk p a hkeep
  refine (P.perm' p a).2 ⟨Or.inl ⟨hperm, ?_⟩, hsome⟩
  intro e; subst e; simp [isAuto] at hauto

/-- **dial failures never remove an explicitly added address**: for `DialFailure{Transport(..)}`
(removals only) without any exception -/
theorem permanent_survives_transport {s : State} (h : Inv s) {p : Peer} {a : Addr}
    (hf : flag s p a = some true) (peer : Option Peer) (l : List Addr) :
    flag (step s (Op.dialFail peer (DialErr.transport l))).1 p a = some true := by
  apply permanent_survives_of_no_new h rfl _ hf
  unfold ref refOp
  cases s.cfg.removeOnErr with
  | false => rfl
  | true =>
    cases peer with
    | none => rfl
    | some q => exact Ref.removeMany_newKey _ _ _ _

/-- **permanent addresses survive every swarm event** (`NewExternalAddrOfPeer`,
`ConnectionEstablished{failed_addresses}`, `DialFailure{WrongPeerId | Transport | …}`, any other):
after the event the address is still stored and still permanent — unless the event itself stored
a NEW address (it then emits `PeerAddressAdded{is_permanent: false}`), the only situation in
which the LRU capacity eviction of a full record / full store can drop entries. -/
theorem permanent_survives {s : State} (h : Inv s) {op : Op} (hauto : isAuto op = true)
    {p : Peer} {a : Addr} (hf : flag s p a = some true) :
    flag (step s op).1 p a = some true ∨
    ∃ q b evs, (step s op).1.pending = s.pending ++ evs ∧ Event.added q b false ∈ evs := by
  have hop : op ≠ Op.poll := by intro e; subst e; simp [isAuto] at hauto
  cases hnk : (ref s op).1.newKey with
  | false => exact Or.inl (permanent_survives_of_no_new h hauto hnk hf)
  | true =>
    obtain ⟨q, b, hm⟩ := refOp_newKey_added s.cfg (permOf s) s.records.keys (pairsOf (dump s)) op hauto hnk
    exact Or.inr ⟨q, b, _, (step_post_exact h op hop).pend, hm⟩

/-- reachable-state form of `permanent_survives` -/
theorem permanent_survives_reachable (cfg : Cfg) (h1 : 1 ≤ cfg.peerCap) (h2 : 1 ≤ cfg.recCap)
    (ops : List Op) (op : Op) (hauto : isAuto op = true) (p : Peer) (a : Addr)
    (hf : flag (Machine.exec step (init cfg) ops) p a = some true) :
    flag (step (Machine.exec step (init cfg) ops) op).1 p a = some true ∨
    ∃ q b evs, (step (Machine.exec step (init cfg) ops) op).1.pending =
        (Machine.exec step (init cfg) ops).pending ++ evs ∧ Event.added q b false ∈ evs :=
  permanent_survives (reachable_inv cfg h1 h2 ops).1 hauto hf

/-- **events are emitted exactly** as the set-level reference prescribes (for every op but `poll`):
the queue grows by exactly `(ref s op).1.evs`, and `add_address`/`remove_address` return the
reference's verdict. -/
theorem events_exact {s : State} (h : Inv s) (op : Op) (hop : op ≠ Op.poll) :
    (step s op).1.pending = s.pending ++ (ref s op).1.evs ∧
    (∀ b, (ref s op).2 = some b → (step s op).2 = Out.bool b) :=
  ⟨(step_post_exact h op hop).pend, (step_post_exact h op hop).ret⟩

theorem events_exact_reachable (cfg : Cfg) (h1 : 1 ≤ cfg.peerCap) (h2 : 1 ≤ cfg.recCap)
    (ops : List Op) (op : Op) (hop : op ≠ Op.poll) :
    (step (Machine.exec step (init cfg) ops) op).1.pending =
      (Machine.exec step (init cfg) ops).pending ++ (ref (Machine.exec step (init cfg) ops) op).1.evs :=
  (events_exact (reachable_inv cfg h1 h2 ops).1 op hop).1

/-- `add_address`: `PeerAddressAdded{is_permanent: true}` iff the address was not stored; returns that -/
theorem events_exact_add {s : State} (h : Inv s) (p : Peer) (a : Addr) :
    (step s (Op.add p a)).2 = Out.bool (flag s p a).isNone ∧
    (step s (Op.add p a)).1.pending =
      s.pending ++ (if (flag s p a).isNone then [Event.added p a true] else []) := by
  obtain ⟨_, _, i3, i4, _⟩ := addInner_spec h p a true
  show Out.bool (addInner true s p a true).2 = _ ∧ (addInner true s p a true).1.pending = _
  rw [i4, i3]; exact ⟨rfl, rfl⟩

/-- `NewExternalAddrOfPeer`: `PeerAddressAdded{is_permanent: false}` iff the address was not stored -/
theorem events_exact_newExt {s : State} (h : Inv s) (p : Peer) (a : Addr) :
    (step s (Op.newExt p a)).1.pending =
      s.pending ++ (if (flag s p a).isNone then [Event.added p a false] else []) := by
  obtain ⟨_, _, i3, i4, _⟩ := addInner_spec h p a false
  show (addInner true s p a false).1.pending = _
  rw [i4, i3]

/-- `remove_address`: `PeerAddressRemoved` iff the address was stored; returns that -/
theorem events_exact_remove {s : State} (h : Inv s) (p : Peer) (a : Addr) :
    (step s (Op.remove p a)).2 = Out.bool (flag s p a).isSome ∧
    (step s (Op.remove p a)).1.pending =
      s.pending ++ (if (flag s p a).isSome then [Event.removed p a] else []) := by
  obtain ⟨_, _, i3, i4, _⟩ := removeInner_spec h p a true
  show Out.bool (removeInner s p a true).2 = _ ∧ (removeInner s p a true).1.pending = _
  have : (removeInner s p a true).2 = (flag s p a).isSome := by
    rw [i3]; cases flag s p a <;> simp
  rw [i4, this]; exact ⟨rfl, rfl⟩

/-- an automatic removal emits `PeerAddressRemoved` iff the address was stored and NOT permanent,
and then it is gone -/
theorem events_exact_auto_remove {s : State} (h : Inv s) (p : Peer) (a : Addr) :
    (removeInner s p a false).2 = (flag s p a == some false) ∧
    (removeInner s p a false).1.pending =
      s.pending ++ (if flag s p a == some false then [Event.removed p a] else []) ∧
    flag (removeInner s p a false).1 p a = (if flag s p a == some false then none else flag s p a) := by
  obtain ⟨_, _, i3, i4, i5⟩ := removeInner_spec h p a false
  have : (removeInner s p a false).2 = (flag s p a == some false) := by
    rw [i3]; cases hh : flag s p a with
    | none => rfl
    | some f => cases f <;> rfl
  refine ⟨this, by rw [i4, this], ?_⟩
  rw [i5, this]; simp

/-- `poll` hands out the queued events in FIFO order and changes nothing else -/
theorem events_exact_poll (s : State) :
    (step s Op.poll).2 = Out.event s.pending.head? ∧ (step s Op.poll).1.pending = s.pending.tail ∧
    (step s Op.poll).1.records = s.records := by
  rw [step_poll]
  cases hp : s.pending with
  | nil => exact ⟨rfl, by simp [hp], rfl⟩
  | cons e rest => exact ⟨rfl, rfl, rfl⟩

/-! ## eviction, called out explicitly -/

/-- **what LRU capacity eviction drops, exactly** (it emits no event): when `add_address_inner(p, a, ·)`
changes the stored state of another pair `(q, b)`, that pair is gone, and either `q = p`, `a` was
new, `p`'s record was full and `b` was its least-recently-used address — or `p` was not stored, the
store was full and `q` was its least-recently-used peer (all of `q`'s addresses go). -/
theorem eviction_exact {s : State} (h : Inv s) (p : Peer) (a : Addr) (isPerm : Bool)
    (q : Peer) (b : Addr) (hne : (q, b) ≠ (p, a))
    (hch : flag (addInner true s p a isPerm).1 q b ≠ flag s q b) :
    flag (addInner true s p a isPerm).1 q b = none ∧
    ((q = p ∧ flag s p a = none ∧
        ∃ r, s.records.peek p = some r ∧ r.addrs.len = s.cfg.recCap ∧ r.addrs.lruKey = some b) ∨
     (q ≠ p ∧ s.records.peek p = none ∧ s.records.len = s.cfg.peerCap ∧ s.records.lruKey = some q)) :=
  addInner_evicts h p a isPerm q b hne hch

/-- for EVERY op: a permanent address stays stored and permanent unless the op is the explicit
`remove_address` of that very address, or the op stored a new key (capacity eviction possible) -/
theorem permanent_step {s : State} (h : Inv s) (op : Op) {p : Peer} {a : Addr}
    (hf : flag s p a = some true) :
    flag (step s op).1 p a = some true ∨ op = Op.remove p a ∨ (ref s op).1.newKey = true := by
  by_cases hop : op = Op.poll
  · subst hop
    left
    have := (events_exact_poll s).2.2
    unfold flag; rw [this]; exact hf
  by_cases hrm : op = Op.remove p a
  · exact Or.inr (Or.inl hrm)
  cases hnk : (ref s op).1.newKey with
  | true => exact Or.inr (Or.inr rfl)
  | false =>
    left
    have P := step_post_exact h op hop
    have hperm : (p, a) ∈ permOf s := (permRel_permOf h p a).2 hf
    have hcur : (p, a) ∈ pairsOf (dump s) := (cur_pairs_dump h p a).2 (by simp [hf])
    have hkeep : (p, a) ∈ (ref s op).1.cur := by
      cases hauto : isAuto op with
      | true => exact refOp_keeps_perm _ _ _ _ op hauto hperm hcur
      | false =>
        unfold ref refOp
        cases op with
        | add q b => exact Ref.add_keeps q b true hcur
        | remove q b =>
          simp only
          unfold Ref.remove
          split
          · simp only [Ref.start, List.mem_filter, bne_iff_ne, ne_eq]
            refine ⟨hcur, ?_⟩
            intro e
            obtain ⟨rfl, rfl⟩ := Prod.mk.inj e
            exact hrm rfl
          · exact hcur
        | insertCustom q d => exact hcur
        | takeCustom q => exact hcur
        | getCustomMut q => exact hcur
        | getCustom q => exact hcur
        | addrsOf q => exact hcur
        | poll => exact absurd rfl hop
        | newExt q b => simp [isAuto] at hauto
        | connEst q r f d => simp [isAuto] at hauto
        | dialFail q e => simp [isAuto] at hauto
        | otherSwarm => simp [isAuto] at hauto
    exact (P.perm' p a).2 ⟨Or.inl ⟨hperm, hrm⟩, P.sup hnk p a hkeep⟩

/-- run form: along ANY op sequence, a permanent address is still stored and permanent at the
end, unless somewhere in the run it was explicitly removed or some op stored a new key -/
theorem permanent_run {p : Peer} {a : Addr} (ops : List Op) :
    ∀ {s : State}, Inv s → flag s p a = some true →
    flag (Machine.exec step s ops) p a = some true ∨
    ∃ pre op post, ops = pre ++ op :: post ∧
      (op = Op.remove p a ∨ (ref (Machine.exec step s pre) op).1.newKey = true) := by
  induction ops with
  | nil => intro s _ hf; exact Or.inl hf
  | cons op rest ih =>
    intro s h hf
    rcases permanent_step h op hf with h1 | h2 | h3
    · rcases ih (step_inv h op).1 h1 with g | ⟨pre, o, post, e, g⟩
      · exact Or.inl g
      · exact Or.inr ⟨op :: pre, o, post, by rw [e]; rfl, g⟩
    · exact Or.inr ⟨[], op, rest, rfl, Or.inl h2⟩
    · exact Or.inr ⟨[], op, rest, rfl, Or.inr h3⟩

/-! ## the executable Spec accepts every run of the model -/

structure Rel (s : State) (t : Mon) : Prop where
  inv : Inv s
  cfg : t.cfg = s.cfg
  prev : t.prev = dump s
  queue : t.queue = s.pending
  perm : PermRel s t.perm

theorem firstFail_ok {l : List (String × Bool)} (h : ∀ x ∈ l, x.2 = true) : firstFail l = "ok" := by
  induction l with
  | nil => rfl
  | cons x t ih =>
    obtain ⟨k, b⟩ := x
    have hb : b = true := h (k, b) (by simp)
    subst hb
    simp only [firstFail, ↓reduceIte]
    exact ih (fun y hy => h y (List.mem_cons_of_mem _ hy))

theorem mem_permAfter (perm : List Pair) (op : Op) (after : List Pair) (q : Peer) (b : Addr) :
    (q, b) ∈ permAfter perm op after ↔
      ((((q, b) ∈ perm ∧ op ≠ Op.remove q b) ∨ op = Op.add q b) ∧ (q, b) ∈ after) := by
  unfold permAfter
  cases op <;> simp <;> grind

theorem rel_init (cfg : Cfg) (h1 : 1 ≤ cfg.peerCap) (h2 : 1 ≤ cfg.recCap) : Rel (init cfg) (Mon.init cfg) :=
  ⟨inv_init cfg h1 h2, rfl, rfl, rfl, by intro q b; simp [Mon.init, flag, init]⟩

/-- one step: the monitor's verdict on the model's own output is `ok`, and it stays in sync -/
theorem spec_step {s : State} {t : Mon} (hrel : Rel s t) (op : Op) :
    (spec t op (step s op).2 (dump (step s op).1)).2 = "ok" ∧
    Rel (step s op).1 (spec t op (step s op).2 (dump (step s op).1)).1 := by
  obtain ⟨hinv, hcfg, hprev, hqueue, hperm⟩ := hrel
  obtain ⟨tcfg, tprev, tperm, tqueue⟩ := t
  simp only at hcfg hprev hqueue hperm
  subst hcfg hprev hqueue
  unfold spec verdict checks monStep
  by_cases hop : op = Op.poll
  · subst hop
    simp only [↓reduceIte]
    obtain ⟨e1, e2, e3⟩ := events_exact_poll s
    have hd : dump (step s Op.poll).1 = dump s := by unfold dump; rw [e3]
    have hfl : ∀ q b, flag (step s Op.poll).1 q b = flag s q b := by
      intro q b; unfold flag; rw [e3]
    refine ⟨firstFail_ok ?_, ⟨(step_inv hinv _).1, (step_inv hinv _).2.symm, rfl, e2.symm, ?_⟩⟩
    · intro x hx
      simp only [List.mem_cons, List.not_mem_nil, or_false] at hx
      rcases hx with rfl | rfl
      · simp [e1]
      · simp [hd]
    · intro q b; rw [hfl]; exact hperm q b
  · simp only [hop, ↓reduceIte]
    have hpeers : ∀ p, ((dump s).map (·.1)).contains p = (s.records.peek p).isSome := by
      intro p; rw [dump_keys]; exact peers_keys s p
    have P := step_post hinv hperm (cur_pairs_dump hinv) hpeers op hop
    have hwf' := P.inv.wf
    have hmem' : ∀ q b, (q, b) ∈ pairsOf (dump (step s op).1) ↔ (flag (step s op).1 q b).isSome :=
      fun q b => mem_pairs_dump _ hwf' q b
    refine ⟨firstFail_ok ?_, ⟨P.inv, P.cfg.symm, rfl, P.pend.symm, ?_⟩⟩
    · intro x hx
      simp only [List.mem_cons, List.not_mem_nil, or_false] at hx
      rcases hx with rfl | rfl | rfl | rfl | rfl | rfl
      · -- peer_cap
        have := P.inv.len
        rw [P.cfg] at this
        simp only [decide_eq_true_eq]
        rw [dump_length]; exact this
      · -- record_cap
        simp only [List.all_eq_true, decide_eq_true_eq]
        intro e he
        have := dump_recCap _ P.inv e he
        rw [P.cfg] at this; exact this
      · -- events_exact_ret
        simp only
        cases hr : (refOp s.cfg tperm ((dump s).map (·.1)) (pairsOf (dump s)) op).2 with
        | none => rfl
        | some b => simp [P.ret b hr]
      · -- permanent_survives
        simp only [Bool.or_eq_true, Bool.not_eq_eq_eq_not, Bool.not_true, List.all_eq_true,
          List.contains_eq_mem, decide_eq_true_eq, decide_eq_false_iff_not]
        cases hauto : isAuto op with
        | false => left; left; rfl
        | true =>
          cases hnk : (refOp s.cfg tperm ((dump s).map (·.1)) (pairsOf (dump s)) op).1.newKey with
          | true => left; right; rfl
          | false =>
            right
            intro x hx
            obtain ⟨q, b⟩ := x
            by_cases hc : (q, b) ∈ pairsOf (dump s)
            · right
              have hk := refOp_keeps_perm s.cfg tperm ((dump s).map (·.1)) (pairsOf (dump s)) op hauto hx hc
              exact (hmem' q b).2 (P.sup hnk q b hk)
            · left; exact hc
      · -- phantom_address
        simp only [List.all_eq_true, List.contains_eq_mem, decide_eq_true_eq]
        intro x hx
        obtain ⟨q, b⟩ := x
        exact P.sub q b ((hmem' q b).1 hx)
      · -- silent_loss
        simp only [Bool.or_eq_true, List.all_eq_true, List.contains_eq_mem, decide_eq_true_eq]
        cases hnk : (refOp s.cfg tperm ((dump s).map (·.1)) (pairsOf (dump s)) op).1.newKey with
        | true => left; rfl
        | false =>
          right
          intro x hx
          obtain ⟨q, b⟩ := x
          exact (hmem' q b).2 (P.sup hnk q b hx)
    · intro q b
      simp only
      rw [mem_permAfter, P.perm' q b, hmem' q b]

/-- the monitor's verdicts along a run of the model -/
def trace : State → Mon → List Op → List String
  | _, _, [] => []
  | s, t, op :: ops =>
    let x := step s op
    let y := spec t op x.2 (dump x.1)
    y.2 :: trace x.1 y.1 ops

/-- **the Spec accepts the model**: for every configuration with non-zero capacities and every
op sequence, every verdict of the trace monitor on the model's outputs is `"ok"`. -/
theorem spec_accepts_model (cfg : Cfg) (h1 : 1 ≤ cfg.peerCap) (h2 : 1 ≤ cfg.recCap) (ops : List Op) :
    ∀ v ∈ trace (init cfg) (Mon.init cfg) ops, v = "ok" := by
  have key : ∀ (ops : List Op) (s : State) (t : Mon), Rel s t → ∀ v ∈ trace s t ops, v = "ok" := by
    intro ops
    induction ops with
    | nil => intro s t _ v hv; simp [trace] at hv
    | cons op rest ih =>
      intro s t hrel v hv
      obtain ⟨h1, h2⟩ := spec_step hrel op
      simp only [trace, List.mem_cons] at hv
      rcases hv with rfl | hv
      · exact h1
      · exact ih _ _ h2 v hv
  exact key ops _ _ (rel_init cfg h1 h2)

/-! ## the defect at the pinned commit, kept as documentation -/

/-- `peer_capacity = 2`, three `add_address` calls for three peers: the pre-fix
`add_address_inner` (`records.entry(..).or_insert_with(..)` without a capacity test) holds 3 peers. -/
theorem peer_cap_plus_one_buggy_counterexample :
    (dump (Machine.exec (stepG false) (init ⟨2, 2, true⟩)
      [Op.add 0 0, Op.add 1 0, Op.add 2 0])).length = 3 ∧
    (dump (Machine.exec step (init ⟨2, 2, true⟩)
      [Op.add 0 0, Op.add 1 0, Op.add 2 0])).length = 2 := by decide

/-! ## non-vacuity -/

/-- a permanent address survives a dial failure naming it, a discovered one does not -/
example : (step (Machine.exec step (init ⟨2, 2, true⟩) [Op.add 0 0, Op.newExt 0 1])
    (Op.dialFail (some 0) (DialErr.transport [0, 1]))).1.records.items.map
      (fun pr => (pr.1, pr.2.addrs.items)) = [(0, [(0, true)])] := by decide
/-- capacity eviction does drop a permanent address (the exception in `permanent_survives`) -/
example : flag (Machine.exec step (init ⟨2, 1, true⟩) [Op.add 0 0]) 0 0 = some true ∧
    flag (step (Machine.exec step (init ⟨2, 1, true⟩) [Op.add 0 0]) (Op.newExt 0 1)).1 0 0 = none := by decide
/-- events of a small run -/
example : (Machine.exec step (init ⟨2, 2, true⟩)
    [Op.add 0 0, Op.add 0 0, Op.newExt 0 1, Op.dialFail (some 0) (DialErr.transport [0, 1]), Op.remove 0 0]).pending =
    [Event.added 0 0 true, Event.added 0 1 false, Event.removed 0 1, Event.removed 0 0] := by decide

end C54

#print axioms C54.peer_cap
#print axioms C54.record_cap
#print axioms C54.permanent_survives_removal
#print axioms C54.permanent_survives_transport
#print axioms C54.permanent_survives
#print axioms C54.permanent_survives_reachable
#print axioms C54.eviction_exact
#print axioms C54.permanent_step
#print axioms C54.permanent_run
#print axioms C54.events_exact
#print axioms C54.events_exact_reachable
#print axioms C54.events_exact_add
#print axioms C54.events_exact_newExt
#print axioms C54.events_exact_remove
#print axioms C54.events_exact_auto_remove
#print axioms C54.events_exact_poll
#print axioms C54.spec_accepts_model
#print axioms C54.peer_cap_plus_one_buggy_counterexample
