import Libp2pModel.Proofs.C12PaSpec
import Libp2pModel.Proofs.C12Sw
/-!
# C12 — property theorems

"Listen and external address views equal the fold of their events": every theorem below is for
arbitrary event histories (lists of any length) and arbitrary capacities ≥ 1 (the code's are 20,
10 and `number_of_peers: NonZeroUsize`).
-/
namespace C12
open Machine

/-! ## ExternalAddresses -/

/-- after ANY history the `ExternalAddresses` list is the Spec fold "most recent first, truncated
to the capacity" (and it is duplicate-free and within the capacity). -/
theorem ext_fold (cap : Nat) (evs : List Ev) :
    exec (extStep cap) [] evs = evs.foldl (Spec.ext cap) [] ∧ ExtInv cap (exec (extStep cap) [] evs) := by
  have : ∀ (l : List Maddr), ExtInv cap l →
      exec (extStep cap) l evs = evs.foldl (Spec.ext cap) l ∧ ExtInv cap (exec (extStep cap) l evs) := by
    induction evs with
    | nil => intro l hi; exact ⟨rfl, hi⟩
    | cons e es ih =>
      intro l hi
      simp only [exec, List.foldl_cons] at ih ⊢
      rw [← extStep_eq_spec cap l e hi]
      exact ih _ (extStep_inv cap l e hi)
  exact this [] ⟨List.nodup_nil, Nat.zero_le _⟩

/-- after ANY history, `on_swarm_event` returns `true` exactly when the set of external addresses changes -/
theorem ext_changed_iff (cap : Nat) (hcap : 1 ≤ cap) (evs : List Ev) (ev : Ev) :
    let l := exec (extStep cap) [] evs
    (extStep cap l ev).2 = true ↔ ¬ (∀ x, x ∈ (extStep cap l ev).1 ↔ x ∈ l) :=
  extStep_changed_iff cap hcap _ ev (ext_fold cap evs).2

/-- the Spec monitor accepts the model: list and flag are what `Spec.ext` / `sameSet` demand -/
theorem ext_spec_accepts (cap : Nat) (hcap : 1 ≤ cap) (evs : List Ev) (ev : Ev) :
    let l := exec (extStep cap) [] evs
    (extStep cap l ev).1 = Spec.ext cap l ev ∧ (extStep cap l ev).2 = !Spec.sameSet l (Spec.ext cap l ev) :=
  ⟨extStep_eq_spec cap _ ev (ext_fold cap evs).2, extStep_flag_spec cap hcap _ ev (ext_fold cap evs).2⟩

/-! ## ListenAddresses -/

/-- `x` is a listen address after a history iff the last event about `x` is `NewListenAddr` -/
theorem lis_fold (x : Maddr) (evs : List Ev) :
    x ∈ exec lisStep [] evs ↔ lisMember x false evs = true := by
  simpa using lis_mem_fold x evs []

theorem lis_changed_iff (s : List Maddr) (ev : Ev) :
    (lisStep s ev).2 = true ↔ ¬ (∀ x, x ∈ (lisStep s ev).1 ↔ x ∈ s) :=
  lisStep_changed_iff s ev

/-- model set = Spec set along any history (and the model list has no duplicates) -/
theorem lis_spec_accepts (evs : List Ev) :
    (∀ x, x ∈ exec lisStep [] evs ↔ x ∈ evs.foldl Spec.lis []) ∧ (exec lisStep [] evs).Nodup := by
  have : ∀ (s s' : List Maddr), (∀ x, x ∈ s ↔ x ∈ s') → s.Nodup →
      (∀ x, x ∈ exec lisStep s evs ↔ x ∈ evs.foldl Spec.lis s') ∧ (exec lisStep s evs).Nodup := by
    induction evs with
    | nil => intro s s' h hn; exact ⟨h, hn⟩
    | cons e es ih =>
      intro s s' h hn
      simp only [exec, List.foldl_cons] at ih ⊢
      exact ih _ _ (lisStep_spec_mem s s' e h) (lisStep_nodup s e hn)
  exact this [] [] (fun _ => Iff.rfl) List.nodup_nil

/-! ## PeerAddresses (repaired code) -/

/-- after ANY history of events and `get` calls the cache is, read most-recent-first, the Spec fold
(per peer the `addr` most recently reported addresses, for the `peers` most recently used peers). -/
theorem pa_fold (c : Caps) (hcap : 1 ≤ c.addr) (evs : List Ev) :
    abs (exec (paStep c) [] evs) = evs.foldl (Spec.pa c) [] ∧ PaInv c (exec (paStep c) [] evs) := by
  have : ∀ (o : PA), PaInv c o →
      abs (exec (paStep c) o evs) = evs.foldl (Spec.pa c) (abs o) ∧ PaInv c (exec (paStep c) o evs) := by
    induction evs with
    | nil => intro o hi; exact ⟨rfl, hi⟩
    | cons e es ih =>
      intro o hi
      simp only [exec, List.foldl_cons] at ih ⊢
      rw [← paStep_abs c o hi e]
      exact ih _ (paStep_inv c hcap o hi e)
  exact this [] ⟨List.nodup_nil, Nat.zero_le _, fun _ h => absurd h List.not_mem_nil⟩

/-- `get` returns the Spec's list for that peer (oldest first) and counts as a use of the peer -/
theorem pa_get (c : Caps) (o : PA) (hi : PaInv c o) (p : Peer) :
    abs (paGet o p).1 = Spec.paUse (abs o) p id ∧ (paGet o p).2 = (Spec.addrs (abs o) p).reverse ∧
    PaInv c (paGet o p).1 :=
  ⟨(paGet_abs o hi.nodup p).1, (paGet_abs o hi.nodup p).2, paGet_inv c o hi p⟩

/-- **changed-iff**: in every reachable state, `PeerAddresses::on_swarm_event` returns `true`
exactly when some peer's address set differs before/after. -/
theorem pa_changed_iff (c : Caps) (ha : 1 ≤ c.addr) (hp : 1 ≤ c.peers) (evs : List Ev) (ev : Ev) :
    let o := exec (paStep c) [] evs
    (paStep c o ev).2 = true ↔ ¬ SameAddrs o (paStep c o ev).1 :=
  paStep_changed_iff c ha hp _ (pa_fold c ha evs).2 ev

/-- the Spec monitor accepts the model: new contents and flag are what `Spec.pa` / `Spec.paChanged` demand -/
theorem pa_spec_accepts (c : Caps) (ha : 1 ≤ c.addr) (hp : 1 ≤ c.peers) (evs : List Ev) (ev : Ev) :
    let o := exec (paStep c) [] evs
    abs (paStep c o ev).1 = Spec.pa c (abs o) ev ∧
    (paStep c o ev).2 = Spec.paChanged (abs o) (Spec.pa c (abs o) ev) :=
  ⟨paStep_abs c _ (pa_fold c ha evs).2 ev, paStep_flag_spec c ha hp _ (pa_fold c ha evs).2 ev⟩

/-- the pre-fix code (`for … { self.remove(..); } true`) violates changed-iff: a `DialFailure`
with no addresses on an empty cache reports `true` although nothing changed. -/
theorem dialfailure_changed_buggy_counterexample (c : Caps) (p : Peer) :
    (paStepBuggy c [] (.dialFailure (some p) (.transport []))).2 = true ∧
    SameAddrs [] (paStepBuggy c [] (.dialFailure (some p) (.transport []))).1 := by
  constructor
  · rfl
  · intro q x; exact Iff.rfl

/-- … and not only on the empty cache: whenever no listed address is cached the pre-fix flag is wrong -/
theorem dialfailure_changed_buggy_general (c : Caps) (o : PA) (p : Peer) (as : List Maddr)
    (h : (paRemoveAll o p as).2 = false) :
    (paStepBuggy c o (.dialFailure (some p) (.transport as))).2 = true ∧
    SameAddrs o (paStepBuggy c o (.dialFailure (some p) (.transport as))).1 := by
  refine ⟨rfl, ?_⟩
  have hl : ¬ Lost o (paRemoveAll o p as).1 := fun hl => by
    have := (paRemoveAll_flag p as o).2 hl
    rw [h] at this; exact Bool.false_ne_true this
  have hns : ¬¬ SameAddrs o (paRemoveAll o p as).1 :=
    fun hn => hl ((lost_iff_not_same o _ (paRemoveAll_sub p as o)).2 hn)
  exact Classical.not_not.1 hns

/-! ## Swarm::listeners / Swarm::external_addresses -/

/-- for ANY history of transport events / API calls / behaviour commands: `listened_addrs`
(whose flattening is `Swarm::listeners()`) equals the fold of the emitted
NewListenAddr / ExpiredListenAddr / ListenerClosed `SwarmEvent`s, and every `ListenerClosed`
carries exactly that listener's remaining addresses. -/
theorem listeners_fold (ops : List SwOp) :
    let r := swRun {} ops
    listeners r.1 = (r.2.2.foldl Spec.listen []).flatMap (·.2) ∧ Spec.listenCheck [] r.2.2 = true := by
  have := swRun_listen ops {}
  exact ⟨by simp only [listeners]; rw [← this.1], this.2⟩

/-- no listener id occurs twice and no address twice per listener ("announced exactly once") -/
theorem listeners_nodup (ops : List SwOp) :
    let s := (swRun {} ops).1
    (s.listened.map (·.1)).Nodup ∧ (∀ e ∈ s.listened, e.2.Nodup) ∧ s.confirmed.Nodup := by
  have := swRun_inv ops {} ⟨List.nodup_nil, fun _ h => absurd h List.not_mem_nil, List.nodup_nil⟩
  exact ⟨this.keys, this.vals, this.conf⟩

/-- `Swarm::external_addresses()` = fold of the ExternalAddrConfirmed / ExternalAddrExpired
`FromSwarm` events handed to the behaviours -/
theorem external_fold (ops : List SwOp) :
    let r := swRun {} ops
    r.1.confirmed = r.2.1.foldl Spec.confirmed [] := by
  have := swRun_confirmed ops {}
  exact this.symm

/-- on `ListenerClosed` the behaviours are told `ExpiredListenAddr` for exactly the remaining
addresses of that listener, then `ListenerClosed` -/
theorem closed_fromswarm (s : Sw) (lid : Nat) :
    Spec.closedFromSwarmOk s.listened lid (swStep s (.closed lid)).2.1 = true := by
  simp [Spec.closedFromSwarmOk, swStep]

/-! ## non-vacuity -/

example : (extStep 2 [[.memory 2], [.memory 1]] (.extConfirmed [.memory 3])) = ([[.memory 3], [.memory 2]], true) := by decide
example : (extStep 2 [[.memory 2], [.memory 1]] (.extConfirmed [.memory 1])) = ([[.memory 1], [.memory 2]], false) := by decide
example : (paStep ⟨20, 10, 1⟩ [([1], [[.memory 1, .p2p [1]]])] (.newExtAddrOfPeer [2] [.memory 5])).1
    = [([2], [[.memory 5, .p2p [2]]])] := by decide
example : (paStep ⟨20, 10, 4⟩ [([1], [[.memory 1, .p2p [1]]])] (.dialFailure (some [1]) (.transport [[.memory 1]])))
    = ([([1], [])], true) := by decide
example : (paStep ⟨20, 10, 4⟩ [([1], [[.memory 1, .p2p [1]]])] (.dialFailure (some [1]) (.transport [[.memory 2]])))
    = ([([1], [[.memory 1, .p2p [1]]])], false) := by decide
example : (swStep { listened := [(0, [[.memory 1], [.memory 2]])] } (.closed 0)).2.2 = [.listenerClosed 0 [[.memory 1], [.memory 2]]] := by decide

end C12

#print axioms C12.ext_fold
#print axioms C12.ext_changed_iff
#print axioms C12.ext_spec_accepts
#print axioms C12.lis_fold
#print axioms C12.lis_changed_iff
#print axioms C12.lis_spec_accepts
#print axioms C12.pa_fold
#print axioms C12.pa_get
#print axioms C12.pa_changed_iff
#print axioms C12.pa_spec_accepts
#print axioms C12.dialfailure_changed_buggy_counterexample
#print axioms C12.dialfailure_changed_buggy_general
#print axioms C12.listeners_fold
#print axioms C12.listeners_nodup
#print axioms C12.external_fold
#print axioms C12.closed_fromswarm
