import Libp2pModel.Proofs.SwarmFrame
/-!
# C05 — Established peer identity matches expectation and is never local

Statement (properties.jsonl): a connection is reported established only if the peer id
authenticated by the transport equals the peer id the dial was for (when one was given) and
differs from the local peer id; otherwise the attempt fails with WrongPeerId or LocalPeerId and
the underlying connection is closed.
-/
namespace Swarm.C05
open Swarm

/-- the `check_peer_id` closure accepts exactly when the expectation (if any) is met and the peer is not us -/
theorem checkPeerId_ok_iff (expected : Option Nat) (obtained loc : Nat) :
    checkPeerId expected obtained loc = .ok ↔
      (expected = none ∨ expected = some obtained) ∧ obtained ≠ loc := by
  unfold checkPeerId
  cases expected with
  | none => by_cases h : loc = obtained <;> simp [h] <;> omega
  | some e =>
    by_cases h1 : e = obtained <;> by_cases h2 : loc = obtained <;> simp [h1, h2] <;> omega

theorem checkPeerId_wrong_iff (expected : Option Nat) (obtained loc : Nat) :
    checkPeerId expected obtained loc = .wrongPeerId ↔ ∃ e, expected = some e ∧ e ≠ obtained := by
  unfold checkPeerId
  cases expected with
  | none => by_cases h : loc = obtained <;> simp [h]
  | some e => by_cases h1 : e = obtained <;> by_cases h2 : loc = obtained <;> simp [h1, h2]

/-- the mismatch is tested first; LocalPeerId is reported only when the expectation (if any) is met -/
theorem checkPeerId_local_iff (expected : Option Nat) (obtained loc : Nat) :
    checkPeerId expected obtained loc = .localPeerId ↔
      (expected = none ∨ expected = some obtained) ∧ obtained = loc := by
  unfold checkPeerId
  cases expected with
  | none => by_cases h : loc = obtained <;> simp [h] <;> omega
  | some e =>
    by_cases h1 : e = obtained <;> by_cases h2 : loc = obtained <;> simp [h1, h2] <;> omega

def isEstablished : Ev → Bool
  | .sEstablished .. | .bEstablished .. => true
  | _ => false

theorem outFailEvents_no_est (id : Nat) (p : Option Nat) (e : DialErr) :
    ∀ ev ∈ outFailEvents id p e, isEstablished ev = false := by
  intro ev h; simp [outFailEvents] at h; rcases h with rfl | rfl <;> rfl

theorem inFailEvents_no_est (id : Nat) (p : Option Nat) (e : ListenErr) :
    ∀ ev ∈ inFailEvents id p e, isEstablished ev = false := by
  intro ev h; simp [inFailEvents] at h; rcases h with rfl | rfl <;> rfl

/-- **Outbound**: resolving a transport dial with authenticated peer `p` reports the connection
established **iff** the dial is pending, its expected peer (if any) is `p`, `p` is not the local peer
and no behaviour denies; and then it is reported for exactly that connection and that peer. -/
theorem resolveDial_established_iff (s : State) (k p : Nat) (deny : Bool) :
    (∃ ev ∈ (resolveDial s k p deny).2, isEstablished ev = true) ↔
      ∃ pc, findPendOut s.pendOut k = some pc ∧ (pc.peer = none ∨ pc.peer = some p) ∧
        p ≠ s.localPeer ∧ deny = false := by
  unfold resolveDial
  cases hf : findPendOut s.pendOut k with
  | none => simp
  | some pc =>
    simp only [removePendOut]
    cases hc : checkPeerId pc.peer p s.localPeer with
    | wrongPeerId =>
      have hw := (checkPeerId_wrong_iff _ _ _).1 hc
      obtain ⟨e, he, hne⟩ := hw
      constructor
      · rintro ⟨ev, hev, hest⟩
        simp only [List.mem_append, List.mem_singleton] at hev
        rcases hev with h | rfl
        · rw [outFailEvents_no_est _ _ _ ev h] at hest; cases hest
        · cases hest
      · rintro ⟨pc', hpc, hexp, _, _⟩
        cases hpc
        rcases hexp with h | h <;> simp_all
    | localPeerId =>
      have hl := (checkPeerId_local_iff _ _ _).1 hc
      constructor
      · rintro ⟨ev, hev, hest⟩
        simp only [List.mem_append, List.mem_singleton] at hev
        rcases hev with h | rfl
        · rw [outFailEvents_no_est _ _ _ ev h] at hest; cases hest
        · cases hest
      · rintro ⟨pc', hpc, _, hne, _⟩
        exact absurd hl.2 hne
    | ok =>
      have hok := (checkPeerId_ok_iff _ _ _).1 hc
      cases deny with
      | true =>
        constructor
        · rintro ⟨ev, hev, hest⟩
          simp [outFailEvents] at hev
          rcases hev with rfl | rfl | rfl | rfl <;> cases hest
        · rintro ⟨_, _, _, _, h⟩; cases h
      | false =>
        constructor
        · intro _; exact ⟨pc, rfl, hok.1, hok.2, rfl⟩
        · intro _
          simp [establish, isEstablished]

/-- …and what is reported established is exactly the authenticated peer, on the pending dial's id. -/
theorem resolveDial_established_peer (s : State) (k p : Nat) (deny : Bool) (c q : Nat) (o : Bool) (n : Nat) (f : List Maddr)
    (h : Ev.sEstablished c q o n f ∈ (resolveDial s k p deny).2) :
    q = p ∧ o = true ∧ ∃ pc, findPendOut s.pendOut k = some pc ∧ pc.id = c ∧
      (pc.peer = none ∨ pc.peer = some q) ∧ q ≠ s.localPeer := by
  unfold resolveDial at h
  cases hf : findPendOut s.pendOut k with
  | none => simp [hf] at h
  | some pc =>
    simp only [hf, removePendOut] at h
    cases hc : checkPeerId pc.peer p s.localPeer with
    | wrongPeerId => simp [hc, outFailEvents] at h
    | localPeerId => simp [hc, outFailEvents] at h
    | ok =>
      have hok := (checkPeerId_ok_iff _ _ _).1 hc
      cases deny with
      | true => simp [hc, outFailEvents] at h
      | false =>
        simp [hc, establish] at h
        obtain ⟨rfl, rfl, rfl, _, _⟩ := h
        exact ⟨rfl, rfl, pc, rfl, rfl, hok.1, hok.2⟩

/-- A mismatching peer id fails the attempt with `WrongPeerId{obtained}`, the connection is not
counted, and the underlying connection (muxer of transport dial `k`) is closed. -/
theorem resolveDial_wrong_peer (s : State) (k p e : Nat) (deny : Bool) (pc : PendingOut)
    (hf : findPendOut s.pendOut k = some pc) (he : pc.peer = some e) (hne : e ≠ p) :
    (resolveDial s k p deny).2 =
        [Ev.bDialFailure pc.id (some e) (.wrongPeerId p), Ev.sOutgoingError pc.id (some e) (.wrongPeerId p),
         Ev.muxClosed true k] ∧
      (resolveDial s k p deny).1.est = s.est := by
  have hc : checkPeerId pc.peer p s.localPeer = .wrongPeerId :=
    (checkPeerId_wrong_iff _ _ _).2 ⟨e, he, hne⟩
  simp only [resolveDial, hf, removePendOut, hc, outFailEvents]
  simp [he]

/-- The local peer id fails the attempt with `LocalPeerId` and the connection is closed. -/
theorem resolveDial_local_peer (s : State) (k : Nat) (deny : Bool) (pc : PendingOut)
    (hf : findPendOut s.pendOut k = some pc) (he : pc.peer = none ∨ pc.peer = some s.localPeer) :
    (resolveDial s k s.localPeer deny).2 =
        [Ev.bDialFailure pc.id (some s.localPeer) .localPeerId, Ev.sOutgoingError pc.id (some s.localPeer) .localPeerId,
         Ev.muxClosed true k] ∧
      (resolveDial s k s.localPeer deny).1.est = s.est := by
  have hc : checkPeerId pc.peer s.localPeer s.localPeer = .localPeerId :=
    (checkPeerId_local_iff _ _ _).2 ⟨he, rfl⟩
  simp only [resolveDial, hf, removePendOut, hc, outFailEvents]
  simp

/-- **Inbound**: established iff pending, the authenticated peer is not local, and nobody denies. -/
theorem resolveIn_established_iff (s : State) (k p : Nat) (deny : Bool) :
    (∃ ev ∈ (resolveIn s k p deny).2, isEstablished ev = true) ↔
      ∃ pc, s.pendIn.find? (·.k == k) = some pc ∧ p ≠ s.localPeer ∧ deny = false := by
  unfold resolveIn
  cases hf : s.pendIn.find? (·.k == k) with
  | none => simp
  | some pc =>
    simp only [removePendIn]
    cases hc : checkPeerId none p s.localPeer with
    | wrongPeerId => have := (checkPeerId_wrong_iff _ _ _).1 hc; simp at this
    | localPeerId =>
      have hl := (checkPeerId_local_iff _ _ _).1 hc
      constructor
      · rintro ⟨ev, hev, hest⟩
        simp only [List.mem_append, List.mem_singleton] at hev
        rcases hev with h | rfl
        · rw [inFailEvents_no_est _ _ _ ev h] at hest; cases hest
        · cases hest
      · rintro ⟨_, _, hne, _⟩; exact absurd hl.2 hne
    | ok =>
      have hok := (checkPeerId_ok_iff _ _ _).1 hc
      cases deny with
      | true =>
        constructor
        · rintro ⟨ev, hev, hest⟩
          simp [inFailEvents] at hev
          rcases hev with rfl | rfl | rfl | rfl <;> cases hest
        · rintro ⟨_, _, _, h⟩; cases h
      | false =>
        constructor
        · intro _; exact ⟨pc, rfl, hok.2, rfl⟩
        · intro _
          simp [establish, isEstablished]

theorem resolveIn_local_peer (s : State) (k : Nat) (deny : Bool) (pc : PendingIn)
    (hf : s.pendIn.find? (·.k == k) = some pc) :
    (resolveIn s k s.localPeer deny).2 =
        [Ev.bListenFailure pc.id none .localPeerId, Ev.sIncomingError pc.id none .localPeerId,
         Ev.muxClosed false k] ∧
      (resolveIn s k s.localPeer deny).1.est = s.est := by
  have hc : checkPeerId none s.localPeer s.localPeer = .localPeerId :=
    (checkPeerId_local_iff _ _ _).2 ⟨Or.inl rfl, rfl⟩
  simp only [resolveIn, hf, removePendIn, hc, inFailEvents]
  simp

/-! ### lifted to every reachable state: no established connection ever carries the local peer id -/

def NoLocal (s : State) : Prop := ∀ e ∈ s.est, e.peer ≠ s.localPeer

theorem localPeer_step (s : State) (op : Op) : (step s op).1.localPeer = s.localPeer := by
  cases op with
  | dial v c p a e b d r => exact (dial_frame s v c p a e b d r).2.1
  | resolve k p d =>
    simp only [step]; unfold resolveDial
    cases findPendOut s.pendOut k with
    | none => rfl
    | some pc =>
      simp only [removePendOut]
      cases checkPeerId pc.peer p s.localPeer <;> try rfl
      cases d <;> simp [establish]
  | fail k =>
    simp only [step]; unfold failDial
    cases findPendOut s.pendOut k with
    | none => rfl
    | some pc => simp only [removePendOut]; split <;> rfl
  | incoming d => simp only [step, incoming]; split <;> rfl
  | resolveIn k p d =>
    simp only [step]; unfold resolveIn
    cases s.pendIn.find? (·.k == k) with
    | none => rfl
    | some pc =>
      simp only [removePendIn]
      cases checkPeerId none p s.localPeer <;> try rfl
      cases d <;> simp [establish]
  | failIn k =>
    simp only [step]; unfold failIn
    cases s.pendIn.find? (·.k == k) <;> rfl
  | close c => exact (closeConn_frame s c true).2.1
  | disconnect p o a =>
    simp only [step]
    cases hd : disconnect s p o a with
    | none => rfl
    | some r =>
      rw [disconnect_eq s p o a r hd]
      exact ((abortMany_frame a _).2.1).trans ((closeMany_frame o s).2.1)
  | remoteClose c => exact (closeConn_frame s c false).2.1
  | newAddr a => rfl
  | expire a => rfl
  | behClose p one o a =>
    simp only [step]
    cases one with
    | some c => exact (closeConn_frame s c true).2.1
    | none =>
      simp only
      cases hd : disconnect s p o a with
      | none => rfl
      | some r =>
        rw [disconnect_eq s p o a r hd]
        exact ((abortMany_frame a _).2.1).trans ((closeMany_frame o s).2.1)

/-- every connection in the table after a step was there before, or has just been established with
a peer that passed `check_peer_id` (so it is not the local peer) -/
theorem est_step (s : State) (op : Op) :
    ∀ e ∈ (step s op).1.est, e ∈ s.est ∨ e.peer ≠ s.localPeer := by
  cases op with
  | dial v c p a e b d r =>
    intro x hx; simp only [step] at hx; rw [(dial_frame s v c p a e b d r).1] at hx; exact Or.inl hx
  | resolve k p d =>
    simp only [step]; unfold resolveDial
    cases findPendOut s.pendOut k with
    | none => intro x hx; exact Or.inl hx
    | some pc =>
      simp only [removePendOut]
      cases hc : checkPeerId pc.peer p s.localPeer with
      | wrongPeerId => intro x hx; exact Or.inl hx
      | localPeerId => intro x hx; exact Or.inl hx
      | ok =>
        have hok := (checkPeerId_ok_iff _ _ _).1 hc
        cases d with
        | true => intro x hx; exact Or.inl hx
        | false =>
          intro x hx
          simp [establish] at hx
          rcases hx with hx | rfl
          · exact Or.inl hx
          · exact Or.inr hok.2
  | fail k =>
    simp only [step]; unfold failDial
    cases findPendOut s.pendOut k with
    | none => intro x hx; exact Or.inl hx
    | some pc => simp only [removePendOut]; split <;> (intro x hx; exact Or.inl hx)
  | incoming d => simp only [step, incoming]; split <;> (intro x hx; exact Or.inl hx)
  | resolveIn k p d =>
    simp only [step]; unfold resolveIn
    cases s.pendIn.find? (·.k == k) with
    | none => intro x hx; exact Or.inl hx
    | some pc =>
      simp only [removePendIn]
      cases hc : checkPeerId none p s.localPeer with
      | wrongPeerId => intro x hx; exact Or.inl hx
      | localPeerId => intro x hx; exact Or.inl hx
      | ok =>
        have hok := (checkPeerId_ok_iff _ _ _).1 hc
        cases d with
        | true => intro x hx; exact Or.inl hx
        | false =>
          intro x hx
          simp [establish] at hx
          rcases hx with hx | rfl
          · exact Or.inl hx
          · exact Or.inr hok.2
  | failIn k =>
    simp only [step]; unfold failIn
    cases s.pendIn.find? (·.k == k) <;> (intro x hx; exact Or.inl hx)
  | close c =>
    intro x hx; simp only [step] at hx
    rw [(closeConn_frame s c true).1] at hx; exact Or.inl (List.mem_filter.1 hx).1
  | disconnect p o a =>
    simp only [step]
    cases hd : disconnect s p o a with
    | none => intro x hx; exact Or.inl hx
    | some r =>
      rw [disconnect_eq s p o a r hd]
      intro x hx
      simp only at hx
      rw [(abortMany_frame a _).1, (closeMany_frame o s).1] at hx
      exact Or.inl (List.mem_filter.1 hx).1
  | remoteClose c =>
    intro x hx; simp only [step] at hx
    rw [(closeConn_frame s c false).1] at hx; exact Or.inl (List.mem_filter.1 hx).1
  | newAddr a => intro x hx; exact Or.inl hx
  | expire a => intro x hx; exact Or.inl hx
  | behClose p one o a =>
    simp only [step]
    cases one with
    | some c =>
      intro x hx; simp only at hx
      rw [(closeConn_frame s c true).1] at hx; exact Or.inl (List.mem_filter.1 hx).1
    | none =>
      simp only
      cases hd : disconnect s p o a with
      | none => intro x hx; exact Or.inl hx
      | some r =>
        rw [disconnect_eq s p o a r hd]
        intro x hx
        simp only at hx
        rw [(abortMany_frame a _).1, (closeMany_frame o s).1] at hx
        exact Or.inl (List.mem_filter.1 hx).1

theorem step_noLocal (s : State) (op : Op) (h : NoLocal s) : NoLocal (step s op).1 := by
  intro e he
  rw [localPeer_step]
  rcases est_step s op e he with h1 | h1
  · exact h e h1
  · exact h1

/-- **For every operation history**: no established connection is ever to the local peer id. -/
theorem never_established_to_local (peerIds : List (List Nat)) (ops : List Op) :
    NoLocal (ops.foldl (fun s o => (step s o).1) (State.init peerIds)) := by
  have : ∀ (ops : List Op) (s : State), NoLocal s → NoLocal (ops.foldl (fun s o => (step s o).1) s) := by
    intro ops
    induction ops with
    | nil => intro s h; exact h
    | cons o os ih => intro s h; exact ih _ (step_noLocal s o h)
  exact this ops _ (by intro e he; simp [State.init] at he)

/-- non-vacuity: a dial for peer 2 answered by peer 2 is established; answered by peer 3 it is WrongPeerId -/
example :
    let s0 := State.init [[0], [1], [2], [3]]
    let (s1, _, _) := step s0 (.dial false .always (some 2) [[.tcp 1]] false [] false [])
    ((step s1 (.resolve 0 2 false)).2.2.any isEstablished, (step s1 (.resolve 0 3 false)).2.2.any isEstablished)
      = (true, false) := by decide

end Swarm.C05

#print axioms Swarm.C05.checkPeerId_ok_iff
#print axioms Swarm.C05.resolveDial_established_iff
#print axioms Swarm.C05.resolveDial_established_peer
#print axioms Swarm.C05.resolveDial_wrong_peer
#print axioms Swarm.C05.resolveDial_local_peer
#print axioms Swarm.C05.resolveIn_established_iff
#print axioms Swarm.C05.resolveIn_local_peer
#print axioms Swarm.C05.never_established_to_local
