import Libp2pModel.Proofs.C48
import Libp2pModel.Common.Machine
/-!
# C48 — relay rate limiters are token buckets: property theorems

All theorems are about `C48.tryNext` (the model of `GenericRateLimiter::try_next` after the repair
`findings/C48-micros-truncation.fix.diff`), for every configuration with `interval > 0`
(asserted by `GenericRateLimiter::new`) and `limit ≥ 1` (`NonZeroU32`), every number of keys and
every request sequence with non-decreasing timestamps.
-/
namespace C48

/-- a request: (key, timestamp in ns) -/
abbrev Req := Id × Nat

def step (c : Cfg) (st : St) (r : Req) : St × Out := tryNext c st r.1 r.2

/-- timestamps non-decreasing, none before `t` -/
def Mono : Nat → List Req → Prop
  | _, [] => True
  | t, r :: rs => t ≤ r.2 ∧ Mono r.2 rs

def lastTime : Nat → List Req → Nat
  | t, [] => t
  | _, r :: rs => lastTime r.2 rs

/-- number of accepted requests of key `id` -/
def countAcc (id : Id) : List Req → List Out → Nat
  | r :: rs, o :: os => (if r.1 = id ∧ o = .accept true then 1 else 0) + countAcc id rs os
  | _, _ => 0

theorem Mono.append {t : Nat} {a b : List Req} (h : Mono t (a ++ b)) : Mono t a ∧ Mono (lastTime t a) b := by
  induction a generalizing t with
  | nil => exact ⟨trivial, h⟩
  | cons r rs ih =>
    obtain ⟨h1, h2⟩ := h
    obtain ⟨h3, h4⟩ := ih h2
    exact ⟨⟨h1, h3⟩, h4⟩

theorem Mono.le_last {t : Nat} {a : List Req} (h : Mono t a) : t ≤ lastTime t a := by
  induction a generalizing t with
  | nil => exact Nat.le_refl _
  | cons r rs ih => exact Nat.le_trans h.1 (ih h.2)

/-- one step from a well-formed state, packaged -/
theorem step_spec (c : Cfg) (hI : 0 < c.interval) (hL : 1 ≤ c.limit) (st : St) (t : Nat)
    (hwf : WF c st t) (r : Req) (ht : t ≤ r.2) :
    ∃ st' b, step c st r = (st', .accept b) ∧ WF c st' r.2 ∧
      b = (stepV c newTokens r.2 true (st.view r.1)).2 ∧
      ∀ id, st'.view id = (stepV c newTokens r.2 (decide (id = r.1)) (st.view id)).1 :=
  tryNextG_spec c newTokens hI hL st t hwf r.1 r.2 ht

/-- **`schedule_sorted` / no panic**: every reachable state is well-formed (one schedule entry per
bucket, schedule sorted by time — the fact the early exit of `refill` relies on —, balances below
the limit) and no call panics (`expect("Queue not to be empty.")`,
`expect("Entry can only be removed via refill.")`, `expect("To override value.")`). -/
theorem schedule_sorted (c : Cfg) (hI : 0 < c.interval) (hL : 1 ≤ c.limit) (ops : List Req) :
    ∀ (st : St) (t : Nat), WF c st t → Mono t ops →
      WF c (Machine.run (step c) st ops).1 (lastTime t ops) ∧
      ∀ o ∈ (Machine.run (step c) st ops).2, ∃ b, o = .accept b := by
  induction ops with
  | nil => intro st t h _; exact ⟨h, by simp [Machine.run]⟩
  | cons r rs ih =>
    intro st t h hm
    obtain ⟨st', b, hstep, hwf', _, _⟩ := step_spec c hI hL st t h r hm.1
    obtain ⟨ih1, ih2⟩ := ih st' r.2 hwf' hm.2
    simp only [Machine.run, hstep, lastTime]
    refine ⟨ih1, ?_⟩
    intro o ho
    rcases List.mem_cons.1 ho with rfl | ho
    · exact ⟨b, rfl⟩
    · exact ih2 o ho

/-- accounting over a run: what key `id` was granted (in token·ns) plus its final potential is at
most its initial potential plus the time that passed -/
theorem run_phi (c : Cfg) (hI : 0 < c.interval) (hL : 1 ≤ c.limit) (id : Id) (ops : List Req) :
    ∀ (st : St) (t : Nat), WF c st t → Mono t ops →
      countAcc id ops (Machine.run (step c) st ops).2 * c.interval
        + phi c (lastTime t ops) ((Machine.run (step c) st ops).1.view id)
      ≤ phi c t (st.view id) + (lastTime t ops - t) := by
  induction ops with
  | nil => intro st t _ _; simp [Machine.run, countAcc, lastTime]
  | cons r rs ih =>
    intro st t h hm
    obtain ⟨st', b, hstep, hwf', hb, hview⟩ := step_spec c hI hL st t h r hm.1
    have ih' := ih st' r.2 hwf' hm.2
    have hp := (stepV_phi c hI hL t r.2 hm.1 (decide (id = r.1)) (st.view id) (h.validV id)).2.1
    rw [← hview id] at hp
    have hle := Mono.le_last hm.2
    have hle1 := hm.1
    simp only [Machine.run, hstep, lastTime, countAcc]
    by_cases hid : r.1 = id
    · subst hid
      simp only [decide_true] at hp
      rw [← hb] at hp
      cases b with
      | true =>
        simp only [↓reduceIte, true_and] at hp ⊢
        rw [Nat.add_mul]; omega
      | false =>
        simp only [Bool.false_eq_true, ↓reduceIte, Nat.add_zero] at hp
        simp; omega
    · have hid' : ¬ id = r.1 := fun e => hid e.symm
      simp only [hid', decide_false, stepV, Bool.false_eq_true, ↓reduceIte, Nat.add_zero] at hp
      simp only [hid, false_and, ↓reduceIte, Nat.zero_add]
      omega

/-- **`window_bound`** (clause 1 of the property).  Take any request history `pre`, then any window
of requests `first :: rest` (to any keys, timestamps non-decreasing throughout).  The number of
requests of one key `id` accepted inside the window is at most
`limit + ⌊(time of the window's last request − time of its first request) / interval⌋`. -/
theorem window_bound (c : Cfg) (hI : 0 < c.interval) (hL : 1 ≤ c.limit) (id : Id)
    (pre : List Req) (first : Req) (rest : List Req) (hm : Mono 0 (pre ++ first :: rest)) :
    countAcc id (first :: rest)
        (Machine.run (step c) (Machine.run (step c) St.empty pre).1 (first :: rest)).2
      ≤ c.limit + (lastTime first.2 rest - first.2) / c.interval := by
  obtain ⟨hm1, hm2⟩ := Mono.append hm
  have hwf := (schedule_sorted c hI hL pre St.empty 0 (WF.empty c 0) hm1).1
  generalize (Machine.run (step c) St.empty pre).1 = st at hwf ⊢
  generalize lastTime 0 pre = t at hwf hm2
  obtain ⟨st', b, hstep, hwf', hb, hview⟩ := step_spec c hI hL st t hwf first hm2.1
  have hp := (stepV_phi c hI hL t first.2 hm2.1 (decide (id = first.1)) (st.view id) (hwf.validV id)).2.1
  rw [← hview id] at hp
  have hrun := run_phi c hI hL id rest st' first.2 hwf' hm2.2
  have hle := Mono.le_last hm2.2
  have hle1 := hm2.1
  simp only [Machine.run, hstep, countAcc]
  -- count·interval ≤ limit·interval + elapsed
  have key : ((if first.1 = id ∧ Out.accept b = Out.accept true then 1 else 0)
      + countAcc id rest (Machine.run (step c) st' rest).2) * c.interval
      ≤ c.limit * c.interval + (lastTime first.2 rest - first.2) := by
    rw [Nat.add_mul]
    by_cases hid : first.1 = id
    · subst hid
      simp only [decide_true] at hp
      rw [← hb] at hp
      cases b with
      | true => simp only [↓reduceIte] at hp; simp; omega
      | false => simp; omega
    · simp only [hid, false_and, ↓reduceIte, Nat.zero_mul, Nat.zero_add]
      have hid' : ¬ id = first.1 := fun e => hid e.symm
      simp only [hid', decide_false, stepV, Bool.false_eq_true, ↓reduceIte, Nat.add_zero] at hp
      omega
  -- divide
  have : (if first.1 = id ∧ Out.accept b = Out.accept true then 1 else 0)
      + countAcc id rest (Machine.run (step c) st' rest).2 - c.limit
      ≤ (lastTime first.2 rest - first.2) / c.interval := by
    rw [Nat.le_div_iff_mul_le hI, Nat.sub_mul]
    omega
  omega

/-! ## The ideal token bucket dominates the limiter (and the Spec accepts the model) -/

/-- relation between the limiter's view of one key and the ideal bucket `(cr, tl)` the Spec
monitor keeps for it, at time `t`: the limiter's potential never exceeds the ideal credit -/
def KeyInv (c : Cfg) (st : St) (m : Mon) (t : Nat) (id : Id) : Prop :=
  match lookup m.credit id, lookup m.last id with
  | some cr, some tl =>
    tl ≤ t ∧ phi c t (st.view id) ≤ min (c.limit * c.interval) (cr + (t - tl)) ∧ J tl (st.view id)
  | none, none => st.view id = none
  | _, _ => False

structure MI (c : Cfg) (st : St) (m : Mon) (t : Nat) : Prop where
  void : m.void = false
  tg : m.tg = t
  wf : WF c st t
  keys : ∀ id, KeyInv c st m t id

theorem MI.empty (c : Cfg) : MI c St.empty Mon.empty 0 :=
  ⟨rfl, rfl, WF.empty c 0, fun id => by simp [KeyInv, Mon.empty, lookup, St.empty, St.view, view, sfind]⟩

theorem interval_le_cap (c : Cfg) (hL : 1 ≤ c.limit) : c.interval ≤ c.limit * c.interval :=
  Nat.le_mul_of_pos_left _ hL

/-- one judged model step keeps the invariant and is accepted by the Spec -/
theorem mon_step (c : Cfg) (hI : 0 < c.interval) (hL : 1 ≤ c.limit) (st : St) (m : Mon) (t : Nat)
    (h : MI c st m t) (r : Req) (ht : t ≤ r.2) :
    ∃ st' b, step c st r = (st', .accept b) ∧ (monStep c m r.1 r.2 b).2 = "ok" ∧
      MI c st' (monStep c m r.1 r.2 b).1 r.2 := by
  obtain ⟨id, now⟩ := r
  simp only at ht
  obtain ⟨st', b, hstep, hwf', hb, hview⟩ := step_spec c hI hL st t h.wf (id, now) ht
  simp only at hb hview hwf'
  refine ⟨st', b, hstep, ?_⟩
  have hcap := interval_le_cap c hL
  have hval := h.wf.validV id
  obtain ⟨hv', hp, hafford⟩ := stepV_phi c hI hL t now ht true (st.view id) hval
  rw [← hb] at hp hafford
  have hvid := hview id
  simp only [decide_true] at hvid
  rw [← hvid] at hv' hp
  have hnotlt : ¬ now < m.tg := by rw [h.tg]; omega
  have hk := h.keys id
  -- the other keys
  have hothers : ∀ id', id' ≠ id → ∀ (cr' : Nat),
      KeyInv c st' ⟨insert m.credit id cr', insert m.last id now, now, false⟩ now id' := by
    intro id' hne cr'
    have hk' := h.keys id'
    have hv := hview id'
    simp only [hne, decide_false, stepV, Bool.false_eq_true, ↓reduceIte] at hv
    obtain ⟨_, hp'⟩ := refillView_phi c hI t now ht (st.view id') (h.wf.validV id')
    simp only [KeyInv, lookup_insert, hne, ↓reduceIte] at hk' ⊢
    cases hc : lookup m.credit id' with
    | none =>
      cases hl : lookup m.last id' with
      | none => rw [hc, hl] at hk'; simp only at hk' ⊢; rw [hv, hk']; rfl
      | some tl => rw [hc, hl] at hk'; exact hk'.elim
    | some cr =>
      cases hl : lookup m.last id' with
      | none => rw [hc, hl] at hk'; exact hk'.elim
      | some tl =>
        rw [hc, hl] at hk'
        obtain ⟨h1, h2, h3⟩ := hk'
        simp only
        rw [hv]
        exact ⟨by omega, by omega, refillView_J c hI now tl _ h3⟩
  have hJ' : J now (st'.view id) := by
    cases hv : st'.view id with
    | none => trivial
    | some p => obtain ⟨b', s⟩ := p; rw [hv] at hv'; exact Or.inr hv'.2
  simp only [KeyInv] at hk
  have hcase : (lookup m.credit id = none ∧ lookup m.last id = none ∧ st.view id = none) ∨
      ∃ cr tl, lookup m.credit id = some cr ∧ lookup m.last id = some tl ∧ tl ≤ t ∧
        phi c t (st.view id) ≤ min (c.limit * c.interval) (cr + (t - tl)) ∧ J tl (st.view id) := by
    revert hk
    cases lookup m.credit id <;> cases lookup m.last id <;> simp
  rcases hcase with ⟨hc, hl, hk⟩ | ⟨cr, tl, hc, hl, h1, h2, h3⟩
  · simp only [monStep, h.void, Bool.false_eq_true, ↓reduceIte, hnotlt, creditAt, idleAt, hc, hl]
    -- a key never seen: no bucket, accepted
    have hbt : b = true := by rw [hb, hk]; simp [stepV, refillView, takeView]
    subst hbt
    simp only [↓reduceIte] at hp
    refine ⟨by simp; omega, rfl, rfl, hwf', ?_⟩
    intro id'
    by_cases hne : id' = id
    · subst hne
      simp only [KeyInv, lookup_insert, ↓reduceIte]
      rw [hk] at hp
      have hfull : phi c t none = c.limit * c.interval := rfl
      rw [hfull] at hp
      exact ⟨Nat.le_refl _, by omega, hJ'⟩
    · exact hothers id' hne _
  · simp only [monStep, h.void, Bool.false_eq_true, ↓reduceIte, hnotlt, creditAt, idleAt, hc, hl]
    have hidle : c.limit * c.interval ≤ now - tl → b = true := by
      intro hi
      rw [hb]
      exact take_of_J c hI now tl _ h3 (by omega)
    refine ⟨?_, rfl, rfl, hwf', ?_⟩
    · cases b with
      | true =>
        have := hafford rfl
        have hnl : ¬ min (c.limit * c.interval) (cr + (now - tl)) < c.interval := by omega
        simp [hnl]
      | false =>
        have : ¬ c.limit * c.interval ≤ now - tl := fun hi => by simpa using hidle hi
        simp [this]
    · intro id'
      by_cases hne : id' = id
      · subst hne
        simp only [KeyInv, lookup_insert, ↓reduceIte]
        refine ⟨Nat.le_refl _, ?_, hJ'⟩
        cases b with
        | true =>
          have := hafford rfl
          simp only [↓reduceIte] at hp ⊢
          omega
        | false =>
          simp only [Bool.false_eq_true, ↓reduceIte, Nat.add_zero] at hp ⊢
          omega
      · exact hothers id' hne _

/-- requests as the precast limiters see them: the key is `none` for an address without IP under
the per-IP limiter -/
abbrev KReq := Option Id × Nat

def stepK (c : Cfg) (st : St) (r : KReq) : St × Out :=
  match r.1 with
  | some id => tryNext c st id r.2
  | none => (st, .accept true)

def keyed : List KReq → List Req
  | [] => []
  | (some id, t) :: rs => (id, t) :: keyed rs
  | (none, _) :: rs => keyed rs

/-- the model judged by the Spec monitor, request by request -/
def specRun (c : Cfg) : St → Mon → List KReq → List String
  | _, _, [] => []
  | st, m, r :: rs =>
    let (st', o) := stepK c st r
    let (m', v) := specStep c m r.1 r.2 o
    v :: specRun c st' m' rs

/-- **`dominated_by_ideal`** = *the Spec accepts the model*.  For every request sequence with
non-decreasing timestamps the Spec monitor (ideal token bucket per key, charged with exactly the
requests the limiter accepted) answers `ok` at every step: the limiter never accepts what the
ideal bucket could not pay (`window_bound` clause), and never refuses a key idle for
`limit·interval` (`idle_accept` clause); an address without IP is accepted.  Consequently an
implementation trace equal to the model's is accepted by the Spec. -/
theorem dominated_by_ideal (c : Cfg) (hI : 0 < c.interval) (hL : 1 ≤ c.limit) (ops : List KReq) :
    ∀ (st : St) (m : Mon) (t : Nat), MI c st m t → Mono t (keyed ops) →
      ∀ v ∈ specRun c st m ops, v = "ok" := by
  induction ops with
  | nil => intro st m t _ _ v hv; simp [specRun] at hv
  | cons r rs ih =>
    intro st m t h hm v hv
    obtain ⟨k, now⟩ := r
    cases k with
    | none =>
      simp only [specRun, stepK, specStep, ↓reduceIte, List.mem_cons] at hv
      rcases hv with rfl | hv
      · rfl
      · exact ih st m t h hm v hv
    | some id =>
      simp only [keyed] at hm
      obtain ⟨st', b, hstep, hok, hmi⟩ := mon_step c hI hL st m t h (id, now) hm.1
      simp only [step] at hstep
      simp only [specRun, stepK, hstep, specStep, List.mem_cons] at hv
      rcases hv with rfl | hv
      · exact hok
      · exact ih st' _ now hmi hm.2 v hv

/-- `dominated_by_ideal` from the initial state -/
theorem spec_accepts_model (c : Cfg) (hI : 0 < c.interval) (hL : 1 ≤ c.limit) (ops : List KReq)
    (hm : Mono 0 (keyed ops)) : ∀ v ∈ specRun c St.empty Mon.empty ops, v = "ok" :=
  dominated_by_ideal c hI hL ops St.empty Mon.empty 0 (MI.empty c) hm

/-! ## idle keys are accepted -/

theorem exec_cons (c : Cfg) (st : St) (r : Req) (rs : List Req) :
    Machine.exec (step c) st (r :: rs) = Machine.exec (step c) (step c st r).1 rs := rfl

theorem exec_wf (c : Cfg) (hI : 0 < c.interval) (hL : 1 ≤ c.limit) (ops : List Req) (st : St) (t : Nat)
    (h : WF c st t) (hm : Mono t ops) : WF c (Machine.exec (step c) st ops) (lastTime t ops) := by
  rw [← Machine.run_fst]; exact (schedule_sorted c hI hL ops st t h hm).1

/-- requests of other keys keep `J tl` for key `id` -/
theorem exec_J (c : Cfg) (hI : 0 < c.interval) (hL : 1 ≤ c.limit) (id : Id) (tl : Nat) (ops : List Req) :
    ∀ (st : St) (t : Nat), WF c st t → Mono t ops → (∀ r ∈ ops, r.1 ≠ id) → J tl (st.view id) →
      J tl ((Machine.exec (step c) st ops).view id) := by
  induction ops with
  | nil => intro st t _ _ _ hj; exact hj
  | cons r rs ih =>
    intro st t h hm hne hj
    obtain ⟨st', b, hstep, hwf', _, hview⟩ := step_spec c hI hL st t h r hm.1
    rw [exec_cons, hstep]
    apply ih st' r.2 hwf' hm.2 (fun r' hr' => hne r' (List.mem_cons_of_mem _ hr'))
    have hid : ¬ id = r.1 := fun e => hne r (List.mem_cons_self ..) e.symm
    rw [hview id]
    simp only [hid, decide_false, stepV, Bool.false_eq_true, ↓reduceIte]
    exact refillView_J c hI r.2 tl _ hj

/-- **`idle_accept`** (clause 2 of the property, in the stronger form "idle for one `interval`").
After any history `pre`, a request of key `id` at `t0`, and any requests `mid` of *other* keys
(timestamps non-decreasing), a request of `id` at `now` with `now − t0 ≥ interval` is accepted. -/
theorem idle_accept_interval (c : Cfg) (hI : 0 < c.interval) (hL : 1 ≤ c.limit) (id : Id)
    (pre mid : List Req) (t0 now : Nat) (hm : Mono 0 (pre ++ (id, t0) :: mid))
    (hmid : ∀ r ∈ mid, r.1 ≠ id) (hnow : lastTime 0 (pre ++ (id, t0) :: mid) ≤ now)
    (hidle : c.interval ≤ now - t0) :
    (step c (Machine.exec (step c) St.empty (pre ++ (id, t0) :: mid)) (id, now)).2 = .accept true := by
  obtain ⟨hm1, hm2⟩ := Mono.append hm
  have hwf0 := exec_wf c hI hL pre St.empty 0 (WF.empty c 0) hm1
  have hwfAll := exec_wf c hI hL _ St.empty 0 (WF.empty c 0) hm
  unfold Machine.exec at hwf0 hwfAll ⊢
  rw [List.foldl_append] at hwfAll ⊢
  generalize List.foldl (fun s o => (step c s o).1) St.empty pre = st at hwf0 hwfAll ⊢
  generalize lastTime 0 pre = t at hwf0 hm2
  -- the request at t0
  obtain ⟨st1, b1, hstep1, hwf1, _, hview1⟩ := step_spec c hI hL st t hwf0 (id, t0) hm2.1
  have hj1 : J t0 (st1.view id) := by
    cases hv : st1.view id with
    | none => trivial
    | some p => obtain ⟨b', s⟩ := p; have := hwf1.validV id; rw [hv] at this; exact Or.inr this.2
  have hj := exec_J c hI hL id t0 mid st1 t0 hwf1 hm2.2 hmid hj1
  simp only [List.foldl_cons, hstep1] at hwfAll ⊢
  change J t0 ((List.foldl (fun s o => (step c s o).1) st1 mid).view id) at hj
  generalize List.foldl (fun s o => (step c s o).1) st1 mid = st2 at hwfAll hj ⊢
  obtain ⟨st3, b3, hstep3, _, hb3, _⟩ := step_spec c hI hL st2 _ hwfAll (id, now) hnow
  rw [hstep3, hb3]
  simp only [stepV, ↓reduceIte]
  rw [take_of_J c hI now t0 _ hj hidle]

/-- **`idle_accept`** exactly as the property words it: idle for `limit · interval`. -/
theorem idle_accept (c : Cfg) (hI : 0 < c.interval) (hL : 1 ≤ c.limit) (id : Id)
    (pre mid : List Req) (t0 now : Nat) (hm : Mono 0 (pre ++ (id, t0) :: mid))
    (hmid : ∀ r ∈ mid, r.1 ≠ id) (hnow : lastTime 0 (pre ++ (id, t0) :: mid) ≤ now)
    (hidle : c.limit * c.interval ≤ now - t0) :
    (step c (Machine.exec (step c) St.empty (pre ++ (id, t0) :: mid)) (id, now)).2 = .accept true :=
  idle_accept_interval c hI hL id pre mid t0 now hm hmid hnow
    (Nat.le_trans (interval_le_cap c hL) hidle)

/-- a key that never asked before is accepted -/
theorem first_request_accept (c : Cfg) (hI : 0 < c.interval) (hL : 1 ≤ c.limit) (id : Id)
    (pre : List Req) (now : Nat) (hm : Mono 0 pre) (hpre : ∀ r ∈ pre, r.1 ≠ id)
    (hnow : lastTime 0 pre ≤ now) :
    (step c (Machine.exec (step c) St.empty pre) (id, now)).2 = .accept true := by
  have hwf := exec_wf c hI hL pre St.empty 0 (WF.empty c 0) hm
  have hj := exec_J c hI hL id 0 pre St.empty 0 (WF.empty c 0) hm hpre trivial
  -- J alone is not enough here; use that the view stays `none`
  have hnone : (Machine.exec (step c) St.empty pre).view id = none := by
    clear hj hwf hnow
    have : ∀ (ops : List Req) (st : St) (t : Nat), WF c st t → Mono t ops → (∀ r ∈ ops, r.1 ≠ id) →
        st.view id = none → (Machine.exec (step c) st ops).view id = none := by
      intro ops
      induction ops with
      | nil => intro st t _ _ _ h; exact h
      | cons r rs ih =>
        intro st t h hm hne hv
        obtain ⟨st', b, hstep, hwf', _, hview⟩ := step_spec c hI hL st t h r hm.1
        rw [exec_cons, hstep]
        apply ih st' r.2 hwf' hm.2 (fun r' hr' => hne r' (List.mem_cons_of_mem _ hr'))
        have hid : ¬ id = r.1 := fun e => hne r (List.mem_cons_self ..) e.symm
        rw [hview id, hv]
        simp [hid, stepV, refillView]
    exact this pre St.empty 0 (WF.empty c 0) hm hpre (by simp [St.view, view, St.empty, sfind])
  obtain ⟨st3, b3, hstep3, _, hb3, _⟩ := step_spec c hI hL _ _ hwf (id, now) hnow
  rw [hstep3, hb3, hnone]
  simp [stepV, refillView, takeView]

/-! ## the precast limiters -/

theorem perPeer_eq_stepK (c : Cfg) (st : St) (p : Id) (a : Maddr) (now : Nat) :
    perPeer c st p a now = stepK c st (some p, now) := rfl

theorem perIp_eq_stepK (c : Cfg) (st : St) (p : Id) (a : Maddr) (now : Nat) :
    perIp c st p a now = stepK c st (ipKey a, now) := by
  unfold perIp stepK; cases ipKey a <;> rfl

/-- an address without IP component is always accepted and leaves the limiter untouched -/
theorem perIp_no_ip (c : Cfg) (st : St) (p : Id) (a : Maddr) (now : Nat) (h : ipKey a = none) :
    perIp c st p a now = (st, .accept true) := by
  simp [perIp, h]

/-- a per-IP request: (peer, address, timestamp) -/
abbrev IpReq := Id × Maddr × Nat

def stepIp (c : Cfg) (st : St) (r : IpReq) : St × Out := perIp c st r.1 r.2.1 r.2.2

/-- **`per_ip_ignores_peer`** (clause 3): two request histories that agree on (address, time) at
every position — whatever the peer ids — drive the per-IP limiter through the same states and get
the same answers. -/
theorem per_ip_ignores_peer (c : Cfg) (ops ops' : List IpReq) (h : ops.map (·.2) = ops'.map (·.2)) :
    ∀ st, Machine.run (stepIp c) st ops = Machine.run (stepIp c) st ops' := by
  induction ops generalizing ops' with
  | nil =>
    intro st
    cases ops' with
    | nil => rfl
    | cons _ _ => simp at h
  | cons r rs ih =>
    intro st
    cases ops' with
    | nil => simp at h
    | cons r' rs' =>
      simp only [List.map_cons, List.cons.injEq] at h
      have hr : stepIp c st r = stepIp c st r' := by
        unfold stepIp perIp; rw [h.1]
      simp only [Machine.run, hr, ih rs' h.2]

/-! ## the pre-fix code breaks the window bound -/

/-- `limit = 3`, `interval = 1500 ns`: `as_micros` truncates the interval to 1 µs, so after 3000 ns
the pre-fix code grants 3 tokens instead of 2 — six requests accepted in a window of 3000 ns,
more than `3 + ⌊3000/1500⌋ = 5`.  (`findings/C48-micros-truncation.md`) -/
theorem micros_truncation_buggy_counterexample :
    (Machine.run (fun st (r : Req) => tryNextMicros ⟨3, 1500⟩ st r.1 r.2) St.empty
        [(1, 0), (1, 0), (1, 0), (1, 3000), (1, 3000), (1, 3000)]).2
      = [.accept true, .accept true, .accept true, .accept true, .accept true, .accept true]
    ∧ ¬ (6 ≤ 3 + (3000 - 0) / 1500) := by decide

/-- sub-microsecond interval: `interval.as_micros() = 0`, `checked_div` fails and `u32::MAX` tokens
are granted after 2 ns -/
theorem micros_truncation_buggy_counterexample_submicro :
    (Machine.run (fun st (r : Req) => tryNextMicros ⟨3, 1⟩ st r.1 r.2) St.empty
        [(1, 2), (1, 2), (1, 2), (1, 4), (1, 4), (1, 4)]).2
      = [.accept true, .accept true, .accept true, .accept true, .accept true, .accept true]
    ∧ ¬ (6 ≤ 3 + (4 - 2) / 1) := by decide

/-! ## non-vacuity -/

/-- the repaired code on the same input refuses the sixth request -/
example : (Machine.run (step ⟨3, 1500⟩) St.empty [(1, 0), (1, 0), (1, 0), (1, 3000), (1, 3000), (1, 3000)]).2
    = [.accept true, .accept true, .accept true, .accept true, .accept true, .accept false] := by decide
/-- the window bound is tight: `limit + ⌊elapsed/interval⌋` requests are accepted -/
example : countAcc 1 [(1, 0), (1, 0), (1, 1000), (1, 2000)]
    (Machine.run (step ⟨2, 1000⟩) St.empty [(1, 0), (1, 0), (1, 1000), (1, 2000)]).2 = 2 + (2000 - 0) / 1000 := by
  decide
example : Mono 0 [(1, 0), (2, 0), (1, 5)] := by simp [Mono]
example : Mono 0 (keyed [(some 1, 0), (none, 7), (some 2, 3)]) := by simp [Mono, keyed]
/-- buckets of different keys are independent; a refused request -/
example : (Machine.run (step ⟨1, 10⟩) St.empty [(1, 0), (2, 0), (1, 9), (1, 10)]).2
    = [.accept true, .accept true, .accept false, .accept true] := by decide
example : ipKey [.dns4 [120], .ip4 7, .ip6 9] = some 14 := by decide
example : ipKey [.memory 7] = none := by decide

end C48

#print axioms C48.schedule_sorted
#print axioms C48.window_bound
#print axioms C48.dominated_by_ideal
#print axioms C48.spec_accepts_model
#print axioms C48.idle_accept_interval
#print axioms C48.idle_accept
#print axioms C48.first_request_accept
#print axioms C48.per_ip_ignores_peer
#print axioms C48.perIp_no_ip
#print axioms C48.perIp_eq_stepK
#print axioms C48.micros_truncation_buggy_counterexample
#print axioms C48.micros_truncation_buggy_counterexample_submicro
