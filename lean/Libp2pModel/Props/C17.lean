import Libp2pModel.Common.Machine
import Libp2pModel.Proofs.C17Write
import Libp2pModel.Proofs.C17Honest
/-!
# C17 — Secure channels deliver exactly the written bytes or fail

Model: `Model/C17.lean` (transcription of `transports/noise/src/io.rs` and `io/framed.rs`).
The AEAD is an abstract function pair; its laws are the hypothesis structure `AeadIdeal`
(relative to the honest transcript), never axioms.

* `write_accounting`, `write_outputs`, `accepted_eq_outputs`, `flushed_all_framed`
  — for ANY sequence of `poll_write`/`poll_flush` calls with ANY buffer sizes: frames ++ pending
  buffer = accepted bytes, every frame plaintext `0 < len ≤ MAX_FRAME_LEN`, the wire is exactly the
  length-prefixed encryption of these frames, writes make progress and never panic.
* `lp_good`, `frames_split_independent`, `chunked_wire_frames` — the u16 length-prefix decoder is
  `Framed.Good`; any chunking of a wire yields the same ciphertext frames.
* `tamper` — for ANY bytes arriving on the wire (any modification, truncation, reordering,
  replay, injection), in ANY chunking, with ANY read sizes: the bytes returned by `poll_read` are
  a prefix of the bytes written; never anything else, never a panic.
* `delivery_no_error`, `delivery_complete`, `end_to_end` — untampered wire, any chunking, any read
  sizes: no read error, progress, and once the wire is fully delivered a `Pending` read means every
  written byte was returned.
* `spec_accepts_model_read/_write` — the executable Spec accepts the model's outputs.
-/
namespace C17

/-! ## framing: split independence -/

theorem frames_split_independent (cs : List Bytes) :
    Framed.feedMany decodeLengthPrefixed [] cs =
      Framed.drainAll decodeLengthPrefixed cs.flatten :=
  Framed.feedMany_nil_start _ lp_good cs

theorem drainAll_frame (c rest : Bytes) (hc : c.length < 65536) :
    Framed.drainAll decodeLengthPrefixed (encodeLengthPrefixed c ++ rest) =
      (c :: (Framed.drainAll decodeLengthPrefixed rest).1,
        (Framed.drainAll decodeLengthPrefixed rest).2) := by
  have h1 : Framed.drainAll decodeLengthPrefixed (encodeLengthPrefixed c) = ([c], []) := by
    unfold Framed.drainAll
    rw [encode_length]
    have := decode_encode c [] hc
    rw [List.append_nil] at this
    simp only [Framed.drain, this]
    cases c.length + 1 <;> simp [decodeLengthPrefixed]
  rw [Framed.drainAll_append _ lp_good, h1]
  simp

/-- decoding the concatenation of encoded frames gives back exactly the frames -/
theorem drainAll_wire (cts : List Bytes) (h : ∀ c ∈ cts, c.length < 65536) :
    Framed.drainAll decodeLengthPrefixed (cts.map encodeLengthPrefixed).flatten = (cts, []) := by
  induction cts with
  | nil => rfl
  | cons c cs ih =>
    simp only [List.map_cons, List.flatten_cons]
    rw [drainAll_frame c _ (h c (by simp)), ih (fun x hx => h x (by simp [hx]))]

/-- **any chunking** of the wire carrying the ciphertext frames `cts` yields exactly `cts`. -/
theorem chunked_wire_frames (cts : List Bytes) (h : ∀ c ∈ cts, c.length < 65536)
    (cs : List Bytes) (hcs : cs.flatten = (cts.map encodeLengthPrefixed).flatten) :
    Framed.feedMany decodeLengthPrefixed [] cs = (cts, []) := by
  rw [frames_split_independent, hcs, drainAll_wire cts h]

/-! ## write side -/

theorem pollWrite_step (A : Aead) (w : Writer) (buf : Bytes) (h : WInv A w) :
    WInv A (pollWrite A w buf).1 ∧
    (((pollWrite A w buf).2 = .err ∧ (pollWrite A w buf).1 = w ∧ w.nonce = NONCE_MAX) ∨
     (∃ n, (pollWrite A w buf).2 = .ok n ∧ n ≤ buf.length ∧ (buf ≠ [] → 0 < n) ∧
        (pollWrite A w buf).1.accepted = w.accepted ++ buf.take n)) := by
  rw [pollWrite_eq]
  by_cases hfull : w.sendOff = MAX_FRAME_LEN
  · simp only [hfull, ↓reduceIte]
    cases hs : startSend A w with
    | none =>
      simp only [Option.map_none]
      refine ⟨h, Or.inl ⟨by trivial, by trivial, ?_⟩⟩
      unfold startSend at hs
      cases hsw : snowWrite A w.nonce w.sendBuf (w.sendBuf.length + EXTRA_ENCRYPT_SPACE) with
      | some ct => simp [hsw] at hs
      | none =>
        unfold snowWrite at hsw
        have hlen : w.sendBuf.length = w.sendOff := by
          rcases h.buf_len with h0 | h1
          · have := max_frame_pos; omega
          · exact h1
        have := max_frame_tag_le
        have := tag_le_extra
        split at hsw
        · rename_i hc; omega
        · split at hsw
          · assumption
          · simp at hsw
    | some w' =>
      simp only [Option.map_some]
      have hpos : 0 < w.sendOff := by have := max_frame_pos; omega
      obtain ⟨hinv, _, hacc, _⟩ := startSend_inv A w w' h hpos hs
      obtain ⟨hi, hout, ha, _⟩ := bufferPart_inv A _ buf hinv
      refine ⟨hi, Or.inr ⟨_, hout, ?_, ?_, ?_⟩⟩
      · simp only; omega
      · intro hne
        have : 0 < buf.length := List.length_pos_iff.2 hne
        have := max_frame_pos
        simp only; omega
      · rw [ha]; simp only [hacc]
  · simp only [hfull, ↓reduceIte]
    obtain ⟨hi, hout, ha, _⟩ := bufferPart_inv A w buf h
    refine ⟨hi, Or.inr ⟨_, hout, ?_, ?_, ha⟩⟩
    · omega
    · intro hne
      have : 0 < buf.length := List.length_pos_iff.2 hne
      have := h.off_le
      omega

theorem pollFlush_step (A : Aead) (w : Writer) (h : WInv A w) :
    WInv A (pollFlush A w).1 ∧ (pollFlush A w).1.accepted = w.accepted ∧
    (((pollFlush A w).2 = .err ∧ (pollFlush A w).1 = w ∧ w.nonce = NONCE_MAX) ∨
     ((pollFlush A w).2 = .ok ∧ (pollFlush A w).1.sendOff = 0 ∧
        (pollFlush A w).1.flushed = (pollFlush A w).1.wire.length)) := by
  unfold pollFlush
  by_cases hpos : w.sendOff > 0
  · simp only [hpos, ↓reduceIte]
    cases hs : startSend A w with
    | none =>
      refine ⟨h, by trivial, Or.inl ⟨by trivial, by trivial, ?_⟩⟩
      unfold startSend at hs
      cases hsw : snowWrite A w.nonce w.sendBuf (w.sendBuf.length + EXTRA_ENCRYPT_SPACE) with
      | some ct => simp [hsw] at hs
      | none =>
        unfold snowWrite at hsw
        have hlen : w.sendBuf.length = w.sendOff := by
          rcases h.buf_len with h0 | h1
          · omega
          · exact h1
        have := max_frame_tag_le
        have := tag_le_extra
        have := h.off_le
        split at hsw
        · rename_i hc; omega
        · split at hsw
          · assumption
          · simp at hsw
    | some w' =>
      obtain ⟨hinv, _, hacc, _⟩ := startSend_inv A w w' h hpos hs
      refine ⟨?_, hacc, Or.inr ⟨by trivial, by trivial, by trivial⟩⟩
      exact ⟨hinv.off_le, hinv.buf_len, hinv.frames_ok, hinv.acct, hinv.nonce_eq, hinv.wire_eq⟩
  · simp only [hpos, ↓reduceIte]
    have h0 : w.sendOff = 0 := by omega
    exact ⟨⟨h.off_le, h.buf_len, h.frames_ok, h.acct, h.nonce_eq, h.wire_eq⟩, by trivial,
      Or.inr ⟨by trivial, h0, by trivial⟩⟩

theorem wstep_inv (A : Aead) (w : Writer) (o : WOp) (h : WInv A w) : WInv A (wstep A w o).1 := by
  cases o with
  | write buf => exact (pollWrite_step A w buf h).1
  | flush => exact (pollFlush_step A w h).1

/-- **Write accounting**, for any sequence of writes and flushes of any sizes: the frames sent
so far followed by the pending part of the send buffer are exactly the accepted bytes; every frame
plaintext is non-empty and at most `MAX_FRAME_LEN`; the wire is the length-prefixed encryption of
exactly these frames under nonces 0,1,2,… -/
theorem write_accounting (A : Aead) (ops : List WOp) :
    let w := Machine.exec (wstep A) {} ops
    w.frames.flatten ++ w.sendBuf.take w.sendOff = w.accepted ∧
    (∀ f ∈ w.frames, 0 < f.length ∧ f.length ≤ MAX_FRAME_LEN) ∧
    w.wire = wireOf A 0 w.frames ∧ w.nonce = w.frames.length ∧ w.sendOff ≤ MAX_FRAME_LEN := by
  have h := Machine.invariant_of_step (wstep A) (WInv A) (wstep_inv A) ops {} (winv_init A)
  exact ⟨h.acct, h.frames_ok, h.wire_eq, h.nonce_eq, h.off_le⟩

/-- acceptable write outputs: what `specWrite` checks, plus: an error only on nonce exhaustion -/
def goodWOut (w : Writer) : WOp → WOut → Prop
  | .write buf, .w (.ok n) => n ≤ buf.length ∧ (buf ≠ [] → 0 < n)
  | .write _, .w .err => w.nonce = NONCE_MAX
  | .flush, .f .ok => True
  | .flush, .f .err => w.nonce = NONCE_MAX
  | _, _ => False

theorem wstep_out (A : Aead) (w : Writer) (o : WOp) (h : WInv A w) :
    goodWOut w o (wstep A w o).2 := by
  cases o with
  | write buf =>
    rcases (pollWrite_step A w buf h).2 with ⟨he, _, hn⟩ | ⟨n, ho, h1, h2, _⟩
    · simp only [wstep, he, goodWOut]; exact hn
    · simp only [wstep, ho, goodWOut]; exact ⟨h1, h2⟩
  | flush =>
    rcases (pollFlush_step A w h).2.2 with ⟨he, _, hn⟩ | ⟨ho, _, _⟩
    · simp only [wstep, he, goodWOut]; exact hn
    · simp only [wstep, ho, goodWOut]

/-- every write returns `Ok(n)` with `n ≤ buf.len()` and `n > 0` for a non-empty buffer (or an
error once the 2^64−1 nonces are used up); no call panics — along any op sequence. -/
theorem write_outputs (A : Aead) (ops : List WOp) (w : Writer) (h : WInv A w) :
    ∀ (pre : List WOp) (o : WOp) (post : List WOp), ops = pre ++ o :: post →
      goodWOut (Machine.exec (wstep A) w pre) o (wstep A (Machine.exec (wstep A) w pre) o).2 := by
  intro pre o post _
  exact wstep_out A _ o (Machine.invariant_of_step (wstep A) (WInv A) (wstep_inv A) pre w h)

/-- the accepted prefix of one op, read off its output -/
def acceptedOf : WOp → WOut → Bytes
  | .write buf, .w (.ok n) => buf.take n
  | _, _ => []

/-- the ghost `accepted` is the concatenation of `buf[..n]` over all `poll_write(buf) = Ok(n)` -/
theorem accepted_eq_outputs (A : Aead) (ops : List WOp) :
    ∀ (w : Writer), WInv A w →
      (Machine.exec (wstep A) w ops).accepted =
        w.accepted ++ (List.zipWith acceptedOf ops (Machine.run (wstep A) w ops).2).flatten := by
  induction ops with
  | nil => intro w _; simp [Machine.exec, Machine.run]
  | cons o os ih =>
    intro w h
    have hi := wstep_inv A w o h
    have hstep : (wstep A w o).1.accepted = w.accepted ++ acceptedOf o (wstep A w o).2 := by
      cases o with
      | write buf =>
        rcases (pollWrite_step A w buf h).2 with ⟨he, hw, _⟩ | ⟨n, ho, _, _, ha⟩
        · simp only [wstep, he, hw, acceptedOf, List.append_nil]
        · simp only [wstep, ho, acceptedOf]; exact ha
      | flush =>
        have := (pollFlush_step A w h).2.1
        simp only [wstep, acceptedOf, List.append_nil]; exact this
    have := ih (wstep A w o).1 hi
    simp only [Machine.exec, List.foldl_cons, Machine.run] at this ⊢
    rw [this, hstep]
    simp [List.append_assoc]

/-- after a successful flush everything accepted has been framed -/
theorem flushed_all_framed (A : Aead) (ops : List WOp) :
    let w := Machine.exec (wstep A) {} ops
    w.sendOff = 0 → w.frames.flatten = w.accepted := by
  intro w h0
  have h := (write_accounting A ops).1
  simp only [show (Machine.exec (wstep A) {} ops).sendOff = 0 from h0, List.take_zero,
    List.append_nil] at h
  exact h

/-! ## read side: arbitrary (adversarial) wire -/

theorem rstep_inv (A : Aead) (sent : List Bytes) (hA : AeadIdeal A sent) (r : Reader) (o : ROp)
    (h : RInv sent r) : RInv sent (rstep A r o).1 := by
  cases o with
  | feed chunk => exact ⟨h.recv_ok, h.nonce_le, h.acct⟩
  | eof => exact ⟨h.recv_ok, h.nonce_le, h.acct⟩
  | read n => exact (loop_inv A sent hA n (r.inbuf.length + 1) r h).1

theorem flatten_take_prefix (sent : List Bytes) (k : Nat) :
    (sent.take k).flatten <+: sent.flatten := by
  refine ⟨(sent.drop k).flatten, ?_⟩
  rw [← List.flatten_append, List.take_append_drop]

/-- the data returned by one op -/
def dataOf : ROut → Bytes
  | .r (.ok d) => d
  | _ => []

theorem delivered_eq_outputs (A : Aead) (sent : List Bytes) (hA : AeadIdeal A sent)
    (ops : List ROp) : ∀ (r : Reader), RInv sent r →
      (Machine.exec (rstep A) r ops).delivered =
        r.delivered ++ ((Machine.run (rstep A) r ops).2.map dataOf).flatten := by
  induction ops with
  | nil => intro r _; simp [Machine.exec, Machine.run]
  | cons o os ih =>
    intro r h
    have hi := rstep_inv A sent hA r o h
    have hstep : (rstep A r o).1.delivered = r.delivered ++ dataOf (rstep A r o).2 := by
      cases o with
      | feed chunk => simp [rstep, dataOf]
      | eof => simp [rstep, dataOf]
      | read n =>
        obtain ⟨_, _, hok, hnok⟩ := loop_inv A sent hA n (r.inbuf.length + 1) r h
        simp only [rstep, pollRead]
        cases hres : (pollReadLoop A (r.inbuf.length + 1) r n).2 with
        | ok d => simp only [dataOf]; exact hok d hres
        | pending => simp only [dataOf, List.append_nil]; exact hnok (by simp [hres])
        | err e => simp only [dataOf, List.append_nil]; exact hnok (by simp [hres])
        | panic => simp only [dataOf, List.append_nil]; exact hnok (by simp [hres])
    have := ih (rstep A r o).1 hi
    simp only [Machine.exec, List.foldl_cons, Machine.run] at this ⊢
    rw [this, hstep]
    simp [List.append_assoc]

/-- **Tamper resistance**. Under the AEAD integrity hypothesis, for ANY sequence of socket events
(chunks of ARBITRARY bytes — modified, truncated, reordered, replayed or injected —, end of
stream) interleaved with reads of ANY sizes: the concatenation of everything `poll_read` ever
returned is a prefix of the bytes the peer wrote (`sent.flatten`), it consists of whole honest
frames up to the part still buffered, and no call panics. A modification can therefore only
produce an error or a stall, never altered plaintext. -/
theorem tamper (A : Aead) (sent : List Bytes) (hA : AeadIdeal A sent) (ops : List ROp) :
    let res := Machine.run (rstep A) {} ops
    (res.2.map dataOf).flatten <+: sent.flatten ∧
    (∃ k, k ≤ sent.length ∧
      (res.2.map dataOf).flatten ++ res.1.recvBuf.drop res.1.recvOff = (sent.take k).flatten) ∧
    (∀ o ∈ res.2, o ≠ .r .panic) := by
  have hinv := Machine.invariant_of_step (rstep A) (RInv sent) (rstep_inv A sent hA) ops {}
    (rinv_init sent)
  have hdel := delivered_eq_outputs A sent hA ops {} (rinv_init sent)
  simp only [List.nil_append] at hdel
  rw [← Machine.run_fst] at hinv hdel
  refine ⟨?_, ⟨_, hinv.nonce_le, by rw [← hdel]; exact hinv.acct⟩, ?_⟩
  · rw [← hdel]
    have hp := flatten_take_prefix sent (Machine.run (rstep A) {} ops).1.nonce
    rw [← hinv.acct] at hp
    exact List.IsPrefix.trans (List.prefix_append _ _) hp
  · apply Machine.outputs_of_step (rstep A) (RInv sent) (fun o => o ≠ .r .panic)
      (rstep_inv A sent hA) _ ops {} (rinv_init sent)
    intro r o h
    cases o with
    | feed chunk => simp [rstep]
    | eof => simp [rstep]
    | read n =>
      have := (loop_inv A sent hA n (r.inbuf.length + 1) r h).2.1
      simp only [rstep, pollRead, ne_eq, ROut.r.injEq]
      exact this

/-! ## read side: untampered wire, arbitrary chunking -/

inductive HOp where
  /-- the socket delivers the next `k` bytes of the honest wire -/
  | feed (k : Nat)
  | read (buflen : Nat)

/-- honest world: reader + the part of the honest wire not yet delivered -/
def hstep (A : Aead) (st : Reader × Bytes) : HOp → (Reader × Bytes) × ROut
  | .feed k => (({ st.1 with inbuf := st.1.inbuf ++ st.2.take k }, st.2.drop k), .none)
  | .read n => let (r', res) := pollRead A st.1 n; ((r', st.2), .r res)

theorem hstep_inv (A : Aead) (sent : List Bytes) (hH : Honest A sent) (st : Reader × Bytes)
    (o : HOp) (h : HInv A sent st.1 st.2) : HInv A sent (hstep A st o).1.1 (hstep A st o).1.2 := by
  cases o with
  | feed k =>
    refine ⟨⟨h.rinv.recv_ok, h.rinv.nonce_le, h.rinv.acct⟩, h.no_eof, ?_⟩
    simp only [hstep, List.append_assoc, List.take_append_drop]
    exact h.wire
  | read n => exact (pollRead_honest A sent hH st.1 st.2 n h).1

theorem hinv_init (A : Aead) (sent : List Bytes) : HInv A sent {} (wireOf A 0 sent) :=
  ⟨rinv_init sent, rfl, by simp⟩

/-- **Delivery, no spurious failure**: on an untampered wire delivered in ANY chunking, every
`poll_read` returns `Pending` or `Ok(data)` (never an error, never a panic), and `data` is
non-empty whenever the destination buffer is. -/
theorem delivery_no_error (A : Aead) (sent : List Bytes) (hH : Honest A sent) (ops : List HOp) :
    ∀ out ∈ (Machine.run (hstep A) ({}, wireOf A 0 sent) ops).2,
      out = .none ∨ out = .r .pending ∨ ∃ d, out = .r (.ok d) := by
  apply Machine.outputs_of_step (hstep A) (fun st => HInv A sent st.1 st.2)
    (fun out => out = .none ∨ out = .r .pending ∨ ∃ d, out = .r (.ok d))
    (fun st o h => hstep_inv A sent hH st o h) _ ops _ (hinv_init A sent)
  intro st o h
  cases o with
  | feed k => left; rfl
  | read n =>
    rcases (pollRead_honest A sent hH st.1 st.2 n h).2 with ⟨hp, _⟩ | ⟨d, hd, _⟩
    · right; left; simp only [hstep, hp]
    · right; right; exact ⟨d, by simp only [hstep, hd]⟩

/-- **Delivery, completeness**: untampered wire, ANY chunking and read sizes. A read makes
progress (`Ok` with ≥ 1 byte for a non-empty buffer) unless it returns `Pending`; and when it
returns `Pending` after the whole wire was delivered, the reads so far have returned exactly the
written bytes `sent.flatten`. -/
theorem delivery_complete (A : Aead) (sent : List Bytes) (hH : Honest A sent) (ops : List HOp)
    (n : Nat) :
    let st := Machine.exec (hstep A) ({}, wireOf A 0 sent) ops
    ((pollRead A st.1 n).2 = .pending ∨
      ∃ d, (pollRead A st.1 n).2 = .ok d ∧ (0 < n → d ≠ []) ∧
        (pollRead A st.1 n).1.delivered = st.1.delivered ++ d) ∧
    (st.2 = [] → (pollRead A st.1 n).2 = .pending →
      (pollRead A st.1 n).1.delivered = sent.flatten ∧ st.1.delivered = sent.flatten) := by
  intro st
  have h : HInv A sent st.1 st.2 :=
    Machine.invariant_of_step (hstep A) (fun st => HInv A sent st.1 st.2)
      (fun st o h => hstep_inv A sent hH st o h) ops _ (hinv_init A sent)
  obtain ⟨hi, hcases⟩ := pollRead_honest A sent hH st.1 st.2 n h
  constructor
  · rcases hcases with ⟨hp, _⟩ | ⟨d, hd, hne, hdel⟩
    · left; exact hp
    · right; exact ⟨d, hd, hne, hdel⟩
  · intro hrem hpend
    rcases hcases with ⟨_, hbuf, hnone, hdel⟩ | ⟨d, hd, _⟩
    · rw [hrem] at hi
      have := (pending_complete A sent hH _ hi hbuf hnone).2
      exact ⟨this, by rw [← hdel]; exact this⟩
    · rw [hd] at hpend; simp at hpend

/-- **End to end**: any writes/flushes ending with an empty send buffer (e.g. after a successful
`poll_flush`), the resulting wire delivered untampered in any chunking with any read sizes: once
the wire is fully delivered and a read reports `Pending`, the reader has returned exactly the
accepted bytes. -/
theorem end_to_end (A : Aead) (wops : List WOp) (hops : List HOp) (n : Nat) :
    let w := Machine.exec (wstep A) {} wops
    w.sendOff = 0 → AeadIdeal A w.frames → w.frames.length ≤ NONCE_MAX →
    let st := Machine.exec (hstep A) ({}, w.wire) hops
    st.2 = [] → (pollRead A st.1 n).2 = .pending → st.1.delivered = w.accepted := by
  intro w h0 hA hcount st hrem hpend
  have hacc := write_accounting A wops
  have hH : Honest A w.frames := ⟨hA, hacc.2.1, hcount⟩
  have hw : w.wire = wireOf A 0 w.frames := hacc.2.2.1
  have := (delivery_complete A w.frames hH hops n).2
  rw [← hw] at this
  have h2 := (this hrem hpend).2
  rw [h2]
  exact flushed_all_framed A wops h0

/-! ## the Spec accepts the model -/

theorem spec_accepts_model_write (A : Aead) (w : Writer) (buf : Bytes) (h : WInv A w) :
    specWrite buf (pollWrite A w buf).2 = true := by
  rcases (pollWrite_step A w buf h).2 with ⟨he, _, _⟩ | ⟨n, ho, h1, h2, _⟩
  · rw [he]; rfl
  · rw [ho]
    simp only [specWrite, Bool.and_eq_true, decide_eq_true_eq, Bool.or_eq_true,
      List.isEmpty_iff]
    refine ⟨h1, ?_⟩
    by_cases hb : buf = []
    · left; exact hb
    · right; exact h2 hb

/-- the reader's outputs satisfy the Spec w.r.t. the peer writer's accepted bytes, whatever
arrives on the wire -/
theorem spec_accepts_model_read (A : Aead) (w : Writer) (r : Reader) (n : Nat)
    (hw : WInv A w) (hA : AeadIdeal A w.frames) (hr : RInv w.frames r) :
    specRead w.accepted r.delivered (pollRead A r n).2 = true := by
  obtain ⟨hi, hnp, hok, _⟩ := loop_inv A w.frames hA n (r.inbuf.length + 1) r hr
  unfold pollRead
  cases hres : (pollReadLoop A (r.inbuf.length + 1) r n).2 with
  | pending => rfl
  | err e => rfl
  | panic => exact absurd hres hnp
  | ok d =>
    simp only [specRead, List.isPrefixOf_iff_prefix]
    have hd := hok d hres
    have hp := flatten_take_prefix w.frames (pollReadLoop A (r.inbuf.length + 1) r n).1.nonce
    rw [← hi.acct, hd] at hp
    have h1 : r.delivered ++ d <+: w.frames.flatten :=
      List.IsPrefix.trans (List.prefix_append _ _) hp
    have h2 : w.frames.flatten <+: w.accepted := by
      rw [← hw.acct]; exact List.prefix_append _ _
    exact List.IsPrefix.trans h1 h2

/-! ## the hypotheses are satisfiable -/

/-- the table AEAD (real ciphertexts as opaque atoms, as used by the driver) is ideal -/
theorem tableAead_ideal (sent cts : List Bytes) (hl : cts.length = sent.length)
    (hlen : ∀ (n : Nat) (c p : Bytes), cts[n]? = some c → sent[n]? = some p → c.length = p.length + TAGLEN) :
    AeadIdeal (tableAead sent cts) sent where
  correct := by
    intro n p hp
    have hn : n < cts.length := by
      rcases Nat.lt_or_ge n sent.length with h | h
      · omega
      · rw [List.getElem?_eq_none h] at hp; simp at hp
    have hc : cts[n]? = some cts[n] := List.getElem?_eq_getElem hn
    simp [tableAead, hc, hp, List.getD_eq_getElem?_getD]
  integrity := by
    intro n c q h
    simp only [tableAead] at h
    split at h
    · rename_i c' p hc hp
      split at h
      · rename_i hcc
        simp only [Option.some.injEq] at h
        refine ⟨p, hp, ?_⟩
        simp [tableAead, hcc, List.getD_eq_getElem?_getD, hc]
      · simp at h
    · simp at h
  overhead := by
    intro n p hp
    have hn : n < cts.length := by
      rcases Nat.lt_or_ge n sent.length with h | h
      · omega
      · rw [List.getElem?_eq_none h] at hp; simp at hp
    have hc : cts[n]? = some cts[n] := List.getElem?_eq_getElem hn
    have := hlen n _ p hc hp
    simp [tableAead, List.getD_eq_getElem?_getD, hc, this]

/-- non-vacuity: a concrete ideal AEAD for a concrete transcript -/
example : AeadIdeal (tableAead [[1, 2, 3]] [List.replicate 19 7]) [[1, 2, 3]] :=
  tableAead_ideal _ _ rfl (by
    intro n c p hc hp
    cases n with
    | zero => simp at hc hp; subst hc; subst hp; rfl
    | succ k => simp at hc)

/-- non-vacuity of `Honest` and a concrete end-to-end run: write 3 bytes, flush, deliver the wire
in two chunks, read with a 2-byte buffer until `Pending`. -/
example :
    let A := tableAead [[1, 2, 3]] [List.replicate 19 7]
    let w := Machine.exec (wstep A) {} [.write [1, 2, 3], .flush]
    let st := Machine.exec (hstep A) ({}, w.wire) [.feed 5, .read 2, .feed 100, .read 2, .read 2]
    w.frames = [[1, 2, 3]] ∧ st.2 = [] ∧ (pollRead A st.1 2).2 = .pending ∧
      st.1.delivered = [1, 2, 3] := by decide

end C17

#print axioms C17.lp_good
#print axioms C17.frames_split_independent
#print axioms C17.chunked_wire_frames
#print axioms C17.write_accounting
#print axioms C17.write_outputs
#print axioms C17.accepted_eq_outputs
#print axioms C17.flushed_all_framed
#print axioms C17.tamper
#print axioms C17.delivery_no_error
#print axioms C17.delivery_complete
#print axioms C17.end_to_end
#print axioms C17.spec_accepts_model_write
#print axioms C17.spec_accepts_model_read
#print axioms C17.tableAead_ideal
