import Libp2pModel.Model.C43
import Libp2pModel.Common.Machine
/-!
# C43 — provider records are only accepted from the provider itself: property theorems

Statement: *An ADD_PROVIDER request is stored only when the announced provider is the peer that
sent it and is not the local node, and a PUT_VALUE whose publisher is the local node never changes
the local record.*  Quantified over every store state, store configuration (limits), filter mode,
and — by induction over op sequences — every history of inbound requests.
-/
namespace C43

/-- the announced provider is the sender and is not the local node -/
def Legit (c : Cfg) (src prov : Nat) : Prop := prov = src ∧ prov ≠ c.localId

instance (c : Cfg) (src prov : Nat) : Decidable (Legit c src prov) := by unfold Legit; infer_instance

theorem legit_bool_true (c : Cfg) (src prov : Nat) (h : Legit c src prov) :
    (prov = src && prov != c.localId) = true := by
  obtain ⟨h1, h2⟩ := h
  subst h1
  simp [h2]

theorem legit_bool_false (c : Cfg) (src prov : Nat) (h : ¬ Legit c src prov) :
    (prov = src && prov != c.localId) = false := by
  by_cases h1 : prov = src
  · subst h1
    have h2 : prov = c.localId := by
      by_cases h2 : prov = c.localId
      · exact h2
      · exact absurd ⟨rfl, h2⟩ h
    simp [h2]
  · simp [h1]

/-! ## single requests -/

/-- An ADD_PROVIDER that is not legitimate does nothing at all: store unchanged, nothing emitted. -/
theorem add_provider_illegit_noop (c : Cfg) (s : Store) (src key prov : Nat) (addrs : List Nat)
    (h : ¬ Legit c src prov) : step c s (.addProvider src key prov addrs) = (s, []) := by
  simp only [step, onAddProvider]
  by_cases h1 : prov = src
  · subst h1
    have h2 : prov = c.localId := by
      by_cases h2 : prov = c.localId
      · exact h2
      · exact absurd ⟨rfl, h2⟩ h
    simp [h2]
  · simp [h1]

/-- Exact behaviour of a legitimate ADD_PROVIDER: handed to the application (`FilterBoth`) or
passed to `RecordStore::add_provider` (`Unfiltered`), with exactly the announced record. -/
theorem add_provider_legit (c : Cfg) (s : Store) (src key prov : Nat) (addrs : List Nat)
    (h : Legit c src prov) :
    step c s (.addProvider src key prov addrs) =
      if c.filter then (s, [.evAddProvider (some ⟨key, prov, addrs⟩)])
      else match storeAddProvider c s ⟨key, prov, addrs⟩ with
        | none => (s, [])
        | some s' => (s', [.evAddProvider none]) := by
  obtain ⟨h1, h2⟩ := h
  subst h1
  show onAddProvider c s prov key prov addrs = _
  unfold onAddProvider
  rw [if_neg (by simp), if_neg h2]
  rfl

/-- **"stored only when …"**: the store changes, or anything is emitted, only for a legitimate
announcement. -/
theorem add_provider_effect_only_if_legit (c : Cfg) (s : Store) (src key prov : Nat) (addrs : List Nat)
    (h : (step c s (.addProvider src key prov addrs)).1 ≠ s ∨ (step c s (.addProvider src key prov addrs)).2 ≠ []) :
    Legit c src prov := by
  by_cases hl : Legit c src prov
  · exact hl
  · rw [add_provider_illegit_noop c s src key prov addrs hl] at h
    simp at h

/-- under `FilterBoth` the application sees the record iff the announcement is legitimate, and the
store is never touched -/
theorem add_provider_filter_iff (c : Cfg) (s : Store) (src key prov : Nat) (addrs : List Nat)
    (hf : c.filter = true) :
    (step c s (.addProvider src key prov addrs)).1 = s ∧
    ((step c s (.addProvider src key prov addrs)).2 = [.evAddProvider (some ⟨key, prov, addrs⟩)] ↔ Legit c src prov) := by
  by_cases hl : Legit c src prov
  · rw [add_provider_legit c s src key prov addrs hl]; simp [hf, hl]
  · rw [add_provider_illegit_noop c s src key prov addrs hl]; simp [hl]

/-- **A PUT_VALUE whose publisher is the local node never changes anything**: the store is
untouched, nothing is handed to the application, the request is still acknowledged. -/
theorem local_publisher_untouched (c : Cfg) (s : Store) (src key : Nat) (v : List Nat) (req : Nat) :
    step c s (.putRecord src key v (some c.localId) req) = (s, [.ack key v req]) := by
  simp [step, onPutRecord]

/-! ## the two request kinds do not interfere -/

theorem storeAddProvider_records (c : Cfg) (s s' : Store) (p : Prov)
    (h : storeAddProvider c s p = some s') : s'.records = s.records := by
  unfold storeAddProvider at h
  split at h
  · split at h
    · cases h
    · split at h <;> (cases h; rfl)
  · split at h
    · cases h; rfl
    · split at h <;> (cases h; rfl)

theorem storePut_providers (c : Cfg) (s s' : Store) (r : Rec)
    (h : storePut c s r = some s') : s'.providers = s.providers ∧ s'.provided = s.provided := by
  unfold storePut at h
  split at h
  · cases h
  · split at h
    · cases h; exact ⟨rfl, rfl⟩
    · split at h
      · cases h
      · cases h; exact ⟨rfl, rfl⟩

theorem add_provider_keeps_records (c : Cfg) (s : Store) (src key prov : Nat) (addrs : List Nat) :
    (step c s (.addProvider src key prov addrs)).1.records = s.records := by
  by_cases hl : Legit c src prov
  · rw [add_provider_legit c s src key prov addrs hl]
    split
    · rfl
    · split
      · rfl
      · rename_i s' hs; exact storeAddProvider_records c s s' _ hs
  · rw [add_provider_illegit_noop c s src key prov addrs hl]

theorem put_keeps_providers (c : Cfg) (s : Store) (src key : Nat) (v : List Nat) (pub : Option Nat) (req : Nat) :
    (step c s (.putRecord src key v pub req)).1.providers = s.providers ∧
    (step c s (.putRecord src key v pub req)).1.provided = s.provided := by
  simp only [step, onPutRecord]
  split
  · exact ⟨rfl, rfl⟩
  · split
    · exact ⟨rfl, rfl⟩
    · split
      · rename_i s' hs; exact storePut_providers c s s' _ hs
      · exact ⟨rfl, rfl⟩

/-! ## histories: which provider entries can a store contain after ANY sequence of inbound requests -/

theorem mem_setEntry {key : Nat} {l : List Prov} {m : List (Nat × List Prov)} {e : Nat × List Prov}
    (h : e ∈ setEntry key l m) : e = (key, l) ∨ e ∈ m := by
  induction m with
  | nil => simp [setEntry] at h; exact Or.inl h
  | cons x xs ih =>
    obtain ⟨k, v⟩ := x
    simp only [setEntry] at h
    by_cases hk : k = key
    · rw [if_pos hk] at h
      rcases List.mem_cons.1 h with h | h
      · exact Or.inl (by rw [h, hk])
      · exact Or.inr (List.mem_cons_of_mem _ h)
    · rw [if_neg hk] at h
      rcases List.mem_cons.1 h with h | h
      · exact Or.inr (by rw [h]; exact List.mem_cons_self)
      · rcases ih h with h | h
        · exact Or.inl h
        · exact Or.inr (List.mem_cons_of_mem _ h)

theorem mem_replaceProv {p q : Prov} {l : List Prov} (h : q ∈ replaceProv p l) : q = p ∨ q ∈ l := by
  induction l with
  | nil => simp [replaceProv] at h
  | cons x xs ih =>
    simp only [replaceProv] at h
    split at h
    · rcases List.mem_cons.1 h with h | h
      · exact Or.inl h
      · exact Or.inr (List.mem_cons_of_mem _ h)
    · rcases List.mem_cons.1 h with h | h
      · exact Or.inr (by rw [h]; exact List.mem_cons_self)
      · rcases ih h with h | h
        · exact Or.inl h
        · exact Or.inr (List.mem_cons_of_mem _ h)

theorem getEntry_some {key : Nat} {m : List (Nat × List Prov)} {l : List Prov}
    (h : getEntry key m = some l) : ∃ e ∈ m, e.2 = l := by
  unfold getEntry at h
  cases hf : m.find? (fun e => e.1 = key) with
  | none => simp [hf] at h
  | some e =>
    simp [hf] at h
    exact ⟨e, List.mem_of_find?_eq_some hf, h⟩

/-- every provider entry of the store after `add_provider(p)` was there before or is `p` -/
theorem storeAddProvider_mem (c : Cfg) (s s' : Store) (p : Prov)
    (h : storeAddProvider c s p = some s') :
    ∀ e ∈ s'.providers, ∀ q ∈ e.2, q = p ∨ ∃ e0 ∈ s.providers, q ∈ e0.2 := by
  intro e he q hq
  unfold storeAddProvider at h
  split at h
  · split at h
    · cases h
    · split at h
      · cases h
        rcases mem_setEntry he with rfl | he
        · simp at hq
        · exact Or.inr ⟨e, he, hq⟩
      · cases h
        rcases mem_setEntry he with rfl | he
        · simp at hq; exact Or.inl hq
        · exact Or.inr ⟨e, he, hq⟩
  · rename_i l hl
    obtain ⟨e0, he0, hl0⟩ := getEntry_some hl
    split at h
    · cases h
      rcases mem_setEntry he with rfl | he
      · rcases mem_replaceProv hq with hq | hq
        · exact Or.inl hq
        · exact Or.inr ⟨e0, he0, hl0 ▸ hq⟩
      · exact Or.inr ⟨e, he, hq⟩
    · split at h
      · cases h; exact Or.inr ⟨e, he, hq⟩
      · cases h
        rcases mem_setEntry he with rfl | he
        · rcases List.mem_append.1 hq with hq | hq
          · exact Or.inr ⟨e0, he0, hl0 ▸ hq⟩
          · simp at hq; exact Or.inl hq
        · exact Or.inr ⟨e, he, hq⟩

/-- one inbound request: every provider entry afterwards was there before, or is exactly the
record a legitimate sender announced about itself -/
theorem step_provider_provenance (c : Cfg) (s : Store) (op : Op) :
    ∀ e ∈ (step c s op).1.providers, ∀ q ∈ e.2,
      (∃ e0 ∈ s.providers, q ∈ e0.2) ∨
      (∃ addrs, op = .addProvider q.provider q.key q.provider addrs ∧ q.provider ≠ c.localId) := by
  intro e he q hq
  cases op with
  | putRecord src key v pub req =>
    rw [(put_keeps_providers c s src key v pub req).1] at he
    exact Or.inl ⟨e, he, hq⟩
  | addProvider src key prov addrs =>
    by_cases hl : Legit c src prov
    · rw [add_provider_legit c s src key prov addrs hl] at he
      split at he
      · exact Or.inl ⟨e, he, hq⟩
      · split at he
        · exact Or.inl ⟨e, he, hq⟩
        · rename_i s' hs
          rcases storeAddProvider_mem c s s' _ hs e he q hq with rfl | h
          · exact Or.inr ⟨addrs, by simp [hl.1], hl.2⟩
          · exact Or.inl h
    · rw [add_provider_illegit_noop c s src key prov addrs hl] at he
      exact Or.inl ⟨e, he, hq⟩

/-- no provider entry names the local node -/
def NoLocalProvider (c : Cfg) (s : Store) : Prop :=
  ∀ e ∈ s.providers, ∀ q ∈ e.2, q.provider ≠ c.localId

theorem step_noLocalProvider (c : Cfg) (s : Store) (op : Op) (h : NoLocalProvider c s) :
    NoLocalProvider c (step c s op).1 := by
  intro e he q hq
  rcases step_provider_provenance c s op e he q hq with ⟨e0, he0, hq0⟩ | ⟨_, _, hne⟩
  · exact h e0 he0 q hq0
  · exact hne

/-- **History form, part 1**: whatever sequence of inbound requests arrives (any senders, any
announced providers, any publishers), no remote request ever makes the local node a provider. -/
theorem history_noLocalProvider (c : Cfg) (ops : List Op) (s : Store) (h : NoLocalProvider c s) :
    NoLocalProvider c (Machine.exec (step c) s ops) :=
  Machine.invariant_of_step (step c) (NoLocalProvider c) (fun s o hs => step_noLocalProvider c s o hs) ops s h

/-- **History form, part 2**: every provider entry present after any sequence of inbound requests
was present initially or was announced, in that sequence, by the provider itself (≠ local). -/
theorem history_provider_provenance (c : Cfg) (ops : List Op) (s : Store) :
    ∀ e ∈ (Machine.exec (step c) s ops).providers, ∀ q ∈ e.2,
      (∃ e0 ∈ s.providers, q ∈ e0.2) ∨
      (∃ addrs, Op.addProvider q.provider q.key q.provider addrs ∈ ops ∧ q.provider ≠ c.localId) := by
  induction ops generalizing s with
  | nil => intro e he q hq; exact Or.inl ⟨e, he, hq⟩
  | cons o os ih =>
    intro e he q hq
    have := ih (step c s o).1 e (by simpa [Machine.exec] using he) q hq
    rcases this with ⟨e1, he1, hq1⟩ | ⟨addrs, hmem, hne⟩
    · rcases step_provider_provenance c s o e1 he1 q hq1 with h | ⟨addrs, ho, hne⟩
      · exact Or.inl h
      · exact Or.inr ⟨addrs, by rw [ho]; exact List.mem_cons_self, hne⟩
    · exact Or.inr ⟨addrs, List.mem_cons_of_mem _ hmem, hne⟩

/-- **History form, part 3**: a record is never changed by requests that name the local node as
publisher: along any history, the records after a step differ from before only if the step is a
PUT_VALUE with a publisher other than the local node. -/
theorem records_change_only_by_foreign_put (c : Cfg) (s : Store) (op : Op)
    (h : (step c s op).1.records ≠ s.records) :
    ∃ src key v pub req, op = .putRecord src key v pub req ∧ pub ≠ some c.localId := by
  cases op with
  | addProvider src key prov addrs => exact absurd (add_provider_keeps_records c s src key prov addrs) h
  | putRecord src key v pub req =>
    refine ⟨src, key, v, pub, req, rfl, ?_⟩
    intro hp
    subst hp
    rw [local_publisher_untouched] at h
    exact h rfl

/-! ## the executable Spec accepts the model -/

theorem spec_model (c : Cfg) (s : Store) (op : Op) :
    spec c (dump s) op (dump (step c s op).1) (step c s op).2 = "ok" := by
  cases op with
  | addProvider src key prov addrs =>
    have hrec : (dump (step c s (.addProvider src key prov addrs)).1).recs = (dump s).recs := by
      simp [dump, add_provider_keeps_records]
    by_cases hl : Legit c src prov
    · have hlb : (prov = src && prov != c.localId) = true := by
        exact legit_bool_true c src prov hl
      by_cases hf : c.filter = true
      · have h1 := (add_provider_filter_iff c s src key prov addrs hf).1
        simp [spec, hrec, hlb, hf, h1]
      · simp [spec, hrec, hlb, hf]
    · have hlb : (prov = src && prov != c.localId) = false := by
        exact legit_bool_false c src prov hl
      rw [add_provider_illegit_noop c s src key prov addrs hl]
      simp [spec, hlb, handsOnProvider]
  | putRecord src key v pub req =>
    have hp := put_keeps_providers c s src key v pub req
    have hprov : (dump (step c s (.putRecord src key v pub req)).1).provs = (dump s).provs := by
      simp [dump, hp.1]
    have hprovd : (dump (step c s (.putRecord src key v pub req)).1).provided = (dump s).provided := by
      simp [dump, hp.2]
    by_cases hl : pub = some c.localId
    · subst hl
      rw [local_publisher_untouched]
      simp [spec, handsOnRecord]
    · by_cases hf : c.filter = true
      · have h1 : (step c s (.putRecord src key v pub req)).1 = s := by
          simp [step, onPutRecord, hl, hf]
        simp [spec, hprov, hprovd, hl, hf, h1]
      · simp [spec, hprov, hprovd, hl, hf]

/-- what a passing Spec verdict on an ADD_PROVIDER means (this is what is checked on the
implementation's observable outputs) -/
theorem spec_ok_add_provider (c : Cfg) (before after : Dump) (src key prov : Nat) (addrs : List Nat)
    (outs : List Out) (h : spec c before (.addProvider src key prov addrs) after outs = "ok")
    (hl : ¬ Legit c src prov) : after = before ∧ handsOnProvider outs = false := by
  have hlb : (prov = src && prov != c.localId) = false := by
    exact legit_bool_false c src prov hl
  simp only [spec, hlb] at h
  by_cases hr : after.recs ≠ before.recs
  · simp [hr] at h
  · by_cases hc : (after != before || handsOnProvider outs) = true
    · simp only [hr, ↓reduceIte, Bool.not_false, Bool.true_and, hc] at h
      split at h <;> simp at h
    · simp only [Bool.or_eq_true, bne_iff_ne, ne_eq, not_or, Decidable.not_not, Bool.not_eq_true] at hc
      exact hc

/-- … and on a PUT_VALUE that names the local node as publisher -/
theorem spec_ok_local_put (c : Cfg) (before after : Dump) (src key : Nat) (v : List Nat) (req : Nat)
    (outs : List Out) (h : spec c before (.putRecord src key v (some c.localId) req) after outs = "ok") :
    after = before ∧ handsOnRecord outs = false := by
  simp only [spec] at h
  by_cases h1 : after.provs ≠ before.provs ∨ after.provided ≠ before.provided
  · simp [h1] at h
  · by_cases h2 : after ≠ before ∨ handsOnRecord outs = true
    · simp [h1, h2] at h
    · simp only [not_or, Decidable.not_not, Bool.not_eq_true] at h2
      exact h2

/-! ## non-vacuity -/

def cfg0 : Cfg := ⟨0, false, 1024, 66560, 20, 1024⟩

example : (step cfg0 Store.empty (.addProvider 1 7 1 [4])).1.providers = [(7, [⟨7, 1, [4]⟩])] := by decide
example : step cfg0 Store.empty (.addProvider 1 7 2 [4]) = (Store.empty, []) := by decide
example : step cfg0 Store.empty (.addProvider 0 7 0 []) = (Store.empty, []) := by decide
example : (step cfg0 ⟨[⟨5, [1], some 0⟩], [], []⟩ (.putRecord 1 5 [9] (some 0) 3)) =
    (⟨[⟨5, [1], some 0⟩], [], []⟩, [.ack 5 [9] 3]) := by decide
-- a PUT_VALUE with another publisher DOES overwrite a locally published record (as the code says)
example : (step cfg0 ⟨[⟨5, [1], some 0⟩], [], []⟩ (.putRecord 1 5 [9] (some 1) 3)).1.records = [⟨5, [9], some 1⟩] := by decide

end C43

#print axioms C43.add_provider_illegit_noop
#print axioms C43.add_provider_legit
#print axioms C43.add_provider_effect_only_if_legit
#print axioms C43.add_provider_filter_iff
#print axioms C43.local_publisher_untouched
#print axioms C43.add_provider_keeps_records
#print axioms C43.put_keeps_providers
#print axioms C43.storeAddProvider_mem
#print axioms C43.step_provider_provenance
#print axioms C43.history_noLocalProvider
#print axioms C43.history_provider_provenance
#print axioms C43.records_change_only_by_foreign_put
#print axioms C43.spec_model
#print axioms C43.spec_ok_add_provider
#print axioms C43.spec_ok_local_put
