import Libp2pModel.Proofs.C58Sim
/-!
# C58 — derived behaviours compose their fields faithfully: property theorems

All statements are about the model of the macro's output for an ARBITRARY field list `fs`
(any number of fields `n`), proved by induction on the list.  The tie to the macro itself is the
correspondence run on `n ≤ 4` (the macro is a program generator; its output for other shapes is
not examined) — hence level *partial*.
-/
namespace C58

/-! ## 1. every field sees every swarm event exactly once, in field order -/

/-- The derived `on_swarm_event` produces exactly the calls `field 0, field 1, …, field n-1`, each
with the event it was given: the log IS the list of all field indices in order (so every field
exactly once, no field twice, nothing else). -/
theorem swarm_event_all (fs : List Probe) (ev : String) :
    onSwarmEvent fs ev = (List.range fs.length).map fun i => Entry.swarm i ev := by
  simp [onSwarmEvent, onSwarmFrom_eq, List.range_eq_range']

/-- pointwise reading: the log has `n` entries and the `i`-th one is field `i`'s -/
theorem swarm_event_nth (fs : List Probe) (ev : String) :
    (onSwarmEvent fs ev).length = fs.length ∧
      ∀ i, i < fs.length → (onSwarmEvent fs ev)[i]? = some (Entry.swarm i ev) := by
  rw [swarm_event_all]
  refine ⟨by simp, ?_⟩
  intro i hi
  simp [hi]

theorem count_swarm_range' (ev : String) (i : Nat) : ∀ (k a : Nat),
    ((List.range' a k).map fun j => Entry.swarm j ev).count (Entry.swarm i ev) =
      if a ≤ i ∧ i < a + k then 1 else 0 := by
  intro k
  induction k with
  | zero => intro a; simp
  | succ k ih =>
    intro a
    rw [List.range'_succ, List.map_cons, List.count_cons, ih (a + 1)]
    by_cases h : a = i
    · subst h
      have : ¬ (a + 1 ≤ a ∧ a < a + 1 + k) := by omega
      simp [this]
    · have h' : (Entry.swarm a ev == Entry.swarm i ev) = false := by
        simp [h]
      rw [h']
      by_cases h2 : a + 1 ≤ i ∧ i < a + 1 + k
      · have : a ≤ i ∧ i < a + (k + 1) := by omega
        simp [h2, this]
      · have : ¬ (a ≤ i ∧ i < a + (k + 1)) := by omega
        simp [h2, this]

/-- exactly once -/
theorem swarm_event_once (fs : List Probe) (ev : String) (i : Nat) (hi : i < fs.length) :
    (onSwarmEvent fs ev).count (Entry.swarm i ev) = 1 := by
  rw [swarm_event_all, List.range_eq_range', count_swarm_range']
  simp [hi]

/-! ## 2. handler events from component `i` reach field `i` only -/

/-- For every `n ≥ 1`, every component `i < n` and EVERY payload (so also for fields whose own
handler event type is again an `Either`): the event wrapped for component `i` is dispatched to
field `i` with the payload untouched, and no other field's arm matches it. -/
theorem handler_event_routed (n i : Nat) (p : Nest) (hi : i < n) :
    dispatch n (wrap n i p) = some (i, p) ∧
      ∀ j, j < n → j ≠ i → (pattern n j).matches (wrap n i p) = none :=
  ⟨dispatch_wrap n i p hi, fun j hj hne => matches_other n i j p hi hj hne⟩

/-- End to end through `ConnectionHandlerSelect`: whatever the derived handler of `n` probe fields
returns from `poll` is the echo `v` of the first ready component `i`, and the derived
`on_connection_handler_event` hands it to field `i` — one call, to that field. -/
theorem handler_event_end_to_end (c : Nat) (qs : List (List Nat)) (h h' : HTree) (e : Nest)
    (peer : String) (ht : tree c qs = some h) (hp : h.poll = some (h', e)) :
    ∃ i v qs', firstPop qs = some (i, v, qs') ∧ tree c qs' = some h' ∧
      onHandlerEvent qs.length c peer e = [Entry.fromHandler i c peer (.leaf v)] := by
  have := tree_poll c qs h ht
  cases hf : firstPop qs with
  | none => rw [hf] at this; simp only at this; rw [this] at hp; cases hp
  | some r =>
    obtain ⟨i, v, qs'⟩ := r
    rw [hf] at this
    obtain ⟨h2, h3, h4⟩ := this
    rw [h3] at hp
    simp only [Option.some.injEq, Prod.mk.injEq] at hp
    obtain ⟨rfl, rfl⟩ := hp
    refine ⟨i, v, qs', rfl, h4, ?_⟩
    simp [onHandlerEvent, dispatch_wrap _ _ _ (firstPop_length _ _ _ _ hf).2]

/-! ## 3. denies iff some field denies; fields after the first denier are not consulted -/

theorem any_denies (pt : Point) (fs : List Probe) :
    (denies pt fs).any id = true ↔ ∃ f ∈ fs, pt.deny f.script = true := by
  simp [denies]

theorem firstDeny_denies (pt : Point) (fs : List Probe) :
    firstDeny (denies pt fs) = fs.findIdx? fun f => pt.deny f.script := by
  induction fs with
  | nil => rfl
  | cons f fs ih =>
    simp only [denies, List.map_cons] at ih ⊢
    cases h : pt.deny f.script
    · rw [firstDeny_cons_false, ih]; simp [List.findIdx?_cons, h]
    · rw [firstDeny_cons_true]; simp [List.findIdx?_cons, h]

/-- The shape shared by the four generated `handle_*` functions, for every field list, accumulator
and combining step: the result is a denial iff some field denies. -/
theorem chain_deny_iff {α : Type} (pt : Point) (c : Nat) (step : α → Nat → Probe → α) (acc : α)
    (fs : List Probe) :
    (chain pt c step 0 acc fs).2 = none ↔ ∃ f ∈ fs, pt.deny f.script = true := by
  rw [chain_ret, ← any_denies]
  cases (denies pt fs).any id <;> simp

/-- …and the calls it makes: with `k` the first denying field, fields `0 … k-1` HAVE been asked
(each answered ok; at the established points each already built its handler, which is dropped
with the early return; at pending-outbound each already returned its addresses, which are
discarded), field `k` is asked and denies, fields `k+1 …` are not consulted at all.  Without a
denier every field is asked once, in order. -/
theorem chain_calls {α : Type} (pt : Point) (c : Nat) (step : α → Nat → Probe → α) (acc : α)
    (fs : List Probe) :
    (chain pt c step 0 acc fs).1 =
      match fs.findIdx? fun f => pt.deny f.script with
      | some k => (List.range k).map (fun j => Entry.decide pt j c false) ++ [Entry.decide pt k c true]
      | none => (List.range fs.length).map fun j => Entry.decide pt j c false := by
  rw [chain_log, logFrom_eq, firstDeny_denies]
  cases fs.findIdx? fun f => pt.deny f.script <;> simp [List.range_eq_range', denies]

/-- `deny_iff` for the four generated functions -/
theorem deny_iff (fs : List Probe) (c : Nat) :
    ((pendIn fs c).2 = none ↔ ∃ f ∈ fs, f.script.denyPendIn = true) ∧
    ((pendOut fs c).2 = none ↔ ∃ f ∈ fs, f.script.denyPendOut = true) ∧
    ((est .estIn fs c).2 = none ↔ ∃ f ∈ fs, f.script.denyEstIn = true) ∧
    ((est .estOut fs c).2 = none ↔ ∃ f ∈ fs, f.script.denyEstOut = true) :=
  ⟨chain_deny_iff .pendIn c _ _ fs, chain_deny_iff .pendOut c _ _ fs,
   chain_deny_iff .estIn c _ _ fs, chain_deny_iff .estOut c _ _ fs⟩

/-- no field after the first denier appears in the call log (for any of the four functions) -/
theorem not_consulted_after_denier {α : Type} (pt : Point) (c : Nat) (step : α → Nat → Probe → α)
    (acc : α) (fs : List Probe) (k : Nat) (hk : fs.findIdx? (fun f => pt.deny f.script) = some k)
    (j : Nat) (b : Bool) (hj : Entry.decide pt j c b ∈ (chain pt c step 0 acc fs).1) : j ≤ k := by
  rw [chain_calls, hk] at hj
  simp only [List.mem_append, List.mem_map, List.mem_range, List.mem_singleton] at hj
  rcases hj with ⟨a, ha, he⟩ | he
  · simp only [Entry.decide.injEq, true_and] at he; omega
  · simp only [Entry.decide.injEq, true_and] at he; omega

/-- when nobody denies, the established points return the left-nested select tree of all fields'
fresh handlers -/
theorem est_handler (pt : Point) (fs : List Probe) (c : Nat)
    (h : ∀ f ∈ fs, pt.deny f.script = false) :
    (est pt fs c).2 = some (tree c (List.replicate fs.length [])) := by
  have : (denies pt fs).any id = false := by
    rw [Bool.eq_false_iff]; intro hc
    obtain ⟨f, hf, hd⟩ := (any_denies pt fs).1 hc
    rw [h f hf] at hd; cases hd
  rw [est, chain_ret, this, foldIdx_selStep_zero]; rfl

/-! ## 4. pending-outbound addresses = concatenation of the fields' answers, in order -/

theorem addresses_concat (fs : List Probe) (c : Nat) :
    (pendOut fs c).2 =
      if ∃ f ∈ fs, f.script.denyPendOut = true then none
      else some (fs.map (·.script.addrs)).flatten := by
  rw [pendOut, chain_ret, foldIdx_addrs]
  by_cases h : ∃ f ∈ fs, f.script.denyPendOut = true
  · have := (any_denies .pendOut fs).2 h
    simp [this, h]
  · have : (denies .pendOut fs).any id = false := by
      rw [Bool.eq_false_iff]; intro hc; exact h ((any_denies .pendOut fs).1 hc)
    simp [this, h]

/-! ## 5. `poll`: first ready field in field order; its `NotifyHandler` reaches handler component `i` -/

/-- The derived `poll` returns `Pending` iff every field's queue is empty; otherwise it returns
the head command of the FIRST field (field order) with a non-empty queue, mapped for that field's
index, pops exactly that command and leaves every script untouched. -/
theorem poll_mapping (user : Bool) (fs : List Probe) :
    match firstPop (fs.map (·.queue)) with
    | none => poll user fs = none
    | some (i, cmd, qs) =>
      ∃ fs', poll user fs = some (mapCmd user fs.length i cmd, fs') ∧
        fs'.map (·.queue) = qs ∧ fs'.map (·.script) = fs.map (·.script) := by
  have := pollFrom_spec user fs.length fs 0
  cases h : firstPop (fs.map (·.queue)) with
  | none => rw [h] at this; exact this
  | some r =>
    obtain ⟨i, cmd, qs⟩ := r
    rw [h] at this
    obtain ⟨fs', h1, h2, h3⟩ := this
    exact ⟨fs', by rw [poll, h1, Nat.zero_add], h2, h3⟩

/-- A `NotifyHandler { event: v }` returned by field `i` leaves the derived `poll` with the event
wrapped as `wrap n i`, and the derived handler of the same `n` fields delivers exactly that event
to component `i` — one delivery, to that component, payload unchanged. -/
theorem notify_reaches_component (user : Bool) (n i v : Nat) (p tg : String) (c : Nat)
    (qs : List (List Nat)) (h : HTree) (hn : qs.length = n) (hi : i < n) (ht : tree c qs = some h) :
    ∃ e h', mapCmd user n i (.notify p tg v) = .notify p tg e ∧
      h.recv e = some (h', Entry.hrecv i c v) ∧ tree c (pushAt qs i v) = some h' := by
  subst hn
  obtain ⟨h', h1, h2⟩ := tree_recv_wrap c qs h ht i v hi
  exact ⟨_, h', rfl, h1, h2⟩

/-- out-events: tagged with the field's own variant (generated enum) or converted by `into`
(user-supplied `to_swarm`); all other commands pass through unchanged -/
theorem poll_out_event (user : Bool) (n i v : Nat) (t : String) :
    mapCmd user n i (.gen v) = .gen (if user then .user v else .variant i v) ∧
      mapCmd user n i (.other t) = .other t :=
  ⟨rfl, rfl⟩

/-! ## 6. the executable Spec (run on the implementation's outputs) accepts the model -/

/-- the ops of a run are of the kind the harness can produce (see `Op.wt`) -/
def WtRun : St → List Op → Prop
  | _, [] => True
  | s, op :: ops => op.wt s ∧ WtRun (step s op).1 ops

/-- every model output along a run is accepted by the Spec monitor -/
def Accepted : St → Flat → List Op → Prop
  | _, _, [] => True
  | s, t, op :: ops =>
    (spec t op (step s op).2).2 = true ∧ Accepted (step s op).1 (spec t op (step s op).2).1 ops

theorem accepted_of_rel (ops : List Op) : ∀ (s : St) (t : Flat), Rel s t → WtRun s ops → Accepted s t ops := by
  induction ops with
  | nil => intro _ _ _ _; trivial
  | cons op ops ih =>
    intro s t R hw
    obtain ⟨h1, h2⟩ := step_accepted R op hw.1
    refine ⟨by simp [spec, h1], ?_⟩
    exact ih _ _ (by simpa [spec] using h2) hw.2

/-- For every number of fields, both `to_swarm` flavours and every op sequence (any length): the
Spec accepts every output of the model.  Hence "impl = model on this run" implies "the Spec holds
on the implementation's outputs". -/
theorem spec_accepts_model (n : Nat) (user : Bool) (ops : List Op) (h : WtRun (St.init n user) ops) :
    Accepted (St.init n user) (Flat.init n user) ops :=
  accepted_of_rel ops _ _ (rel_init n user) h

/-- …and it accepts nothing else: for every op the Spec pins the output uniquely -/
theorem spec_unique (t : Flat) (op : Op) (o1 o2 : Out)
    (h1 : (spec t op o1).2 = true) (h2 : (spec t op o2).2 = true) : o1 = o2 := by
  simp only [spec, decide_eq_true_eq] at h1 h2
  rw [h1] at h2
  exact Option.some.inj h2

/-- the Spec's component addressing is the macro's: `decode` inverts `wrap` -/
theorem decode_iff_wrap (n : Nat) (e : Nest) (i v : Nat) :
    decode n e = some (i, v) ↔ i < n ∧ e = wrap n i (.leaf v) :=
  ⟨decode_eq_some n e i v, fun ⟨hi, he⟩ => he ▸ decode_wrap n i v hi⟩

/-! ## non-vacuity -/

private def deny (pt : Point) : Probe := { script := (({} : Script).setDeny pt true) }
private def addr (a : List String) : Probe := { script := { addrs := a } }

example : pendIn [{}, deny .pendIn, {}] 7 =
    ([.decide .pendIn 0 7 false, .decide .pendIn 1 7 true], none) := by decide
example : pendOut [addr ["x"], addr [], addr ["y", "z"]] 7 =
    ([.decide .pendOut 0 7 false, .decide .pendOut 1 7 false, .decide .pendOut 2 7 false],
     some ["x", "y", "z"]) := by decide
example : (est .estIn [{}, {}, deny .estIn, {}] 3).2 = none := by decide
example : dispatch 4 (wrap 4 2 (.leaf 9)) = some (2, .leaf 9) := by decide
example : wrap 3 0 (.leaf 1) = .left (.left (.leaf 1)) ∧ wrap 3 1 (.leaf 1) = .left (.right (.leaf 1)) ∧
    wrap 3 2 (.leaf 1) = .right (.leaf 1) ∧ wrap 1 0 (.leaf 1) = .leaf 1 := by decide
example : ∃ h, tree 5 [[], [4], [6]] = some h ∧
    h.poll = some (.sel (.sel (.leaf 0 5 []) (.leaf 1 5 [])) (.leaf 2 5 [6]), .left (.right (.leaf 4))) :=
  ⟨_, rfl, by decide⟩
example : WtRun (St.init 2 false)
    [.decide .estOut 0 [false, false] [], .mvPush [(1, .notify "1" "any" 5)], .poll,
     .hrecv 0 (.right (.leaf 5)), .hemit 0, .fromHandler 0 "1" (.right (.leaf 5))] := by
  refine ⟨⟨rfl, by simp⟩, trivial, trivial, ⟨⟨_, rfl⟩, 1, 5, by decide, rfl⟩, ⟨_, rfl⟩, ⟨1, 5, by decide, rfl⟩, trivial⟩

end C58

#print axioms C58.swarm_event_all
#print axioms C58.swarm_event_nth
#print axioms C58.swarm_event_once
#print axioms C58.handler_event_routed
#print axioms C58.handler_event_end_to_end
#print axioms C58.chain_deny_iff
#print axioms C58.chain_calls
#print axioms C58.deny_iff
#print axioms C58.not_consulted_after_denier
#print axioms C58.est_handler
#print axioms C58.addresses_concat
#print axioms C58.poll_mapping
#print axioms C58.notify_reaches_component
#print axioms C58.poll_out_event
#print axioms C58.spec_accepts_model
#print axioms C58.spec_unique
#print axioms C58.decode_iff_wrap
