import Libp2pModel.Proofs.C37Table
import Libp2pModel.Proofs.C37Cap
import Libp2pModel.Proofs.C37Spec
import Libp2pModel.Proofs.C37MonE
/-!
# C37 — the k-bucket routing table keeps its structural invariants (property theorems)

`Table.step` is one call of the routing-table API (`entry(k)` followed by insert / update /
remove / view, `bucket(k)`, `iter()`), or an advance of the clock. Ghost fields of a node:
`gst` = the status most recently assigned to it by `insert(.., status)`, `update(status)` or by
applying it as a pending node with its pending status; `stamp` = the logical time of that
assignment (strictly increasing along a run).
-/
namespace C37

/-- **C37.inv** — the invariant holds in every reachable state: for every local key, bucket size
`≥ 1`, pending timeout, and every sequence of API calls on 256-bit keys and clock advances. -/
theorem inv (l s T : Nat) (hl : l < 2 ^ 256) (hs : 1 ≤ s) (ops : List Op) (hv : ∀ o ∈ ops, o.Valid) :
    TInv ((Table.new l s T).run ops) :=
  inv_run ops _ (inv_new l s T hl hs) hv

/-! ## What the invariant says, clause by clause -/

/-- every bucket holds at most its capacity of entries -/
theorem capacity_bound {t : Table} (h : TInv t) {i : Nat} (hi : i < 256) :
    (t.bucket i).nodes.length ≤ (t.bucket i).capacity := (h.buckets i hi).len

/-- …and that capacity is the configured `bucket_size`, in every reachable state: at most
`bucket_size` entries per bucket -/
theorem at_most_bucket_size (l s T : Nat) (hl : l < 2 ^ 256) (hs : 1 ≤ s) (ops : List Op)
    (hv : ∀ o ∈ ops, o.Valid) {i : Nat} (hi : i < 256) :
    (((Table.new l s T).run ops).bucket i).nodes.length ≤ s := by
  have h := capacity_bound (inv l s T hl hs ops hv) hi
  rw [run_cap, bucket_new l s T i hi] at h
  exact h

/-- each key lives in the bucket matching its log-distance to the local key -/
theorem key_in_matching_bucket {t : Table} (h : TInv t) {i : Nat} (hi : i < 256) {n : Node}
    (hn : n ∈ (t.bucket i).nodes) : bucketIndex (t.localKey ^^^ n.key) = some i :=
  (h.buckets i hi).index n hn

/-- each key appears at most once in the table: not twice in a bucket, not in two buckets, and a
pending key is not also stored -/
theorem key_at_most_once {t : Table} (h : TInv t) :
    (∀ i, i < 256 → (keysOf (t.bucket i).nodes).Nodup) ∧
    (∀ i j k, i < 256 → j < 256 → k ∈ keysOf (t.bucket i).nodes → k ∈ keysOf (t.bucket j).nodes → i = j) ∧
    (∀ i j p, i < 256 → j < 256 → (t.bucket i).pending = some p → p.node.key ∉ keysOf (t.bucket j).nodes) := by
  refine ⟨fun i hi => (h.buckets i hi).nodup, ?_, ?_⟩
  · intro i j k hi hj hki hkj
    obtain ⟨n, hn, rfl⟩ := List.mem_map.1 hki
    obtain ⟨m, hm, hmk⟩ := List.mem_map.1 hkj
    have h1 := (h.buckets i hi).index n hn
    have h2 := (h.buckets j hj).index m hm
    rw [hmk] at h2
    rw [h1] at h2
    exact Option.some.inj h2
  · intro i j p hi hj hp hin
    obtain ⟨m, hm, hmk⟩ := List.mem_map.1 hin
    have h1 := (h.buckets i hi).pendingIndex p hp
    have h2 := (h.buckets j hj).index m hm
    rw [hmk, h1] at h2
    have hij : i = j := Option.some.inj h2
    subst hij
    exact (h.buckets i hi).pendingNotIn p hp hin

/-- the local key is never stored (neither as an entry nor as a pending entry) -/
theorem local_key_never_stored {t : Table} (h : TInv t) {i : Nat} (hi : i < 256) :
    t.localKey ∉ keysOf (t.bucket i).nodes ∧ ∀ p, (t.bucket i).pending = some p → p.node.key ≠ t.localKey := by
  have h0 : bucketIndex (t.localKey ^^^ t.localKey) = none := by simp [bucketIndex]
  constructor
  · intro hin
    obtain ⟨n, hn, hk⟩ := List.mem_map.1 hin
    have := (h.buckets i hi).index n hn
    rw [hk, h0] at this
    cases this
  · intro p hp e
    have := (h.buckets i hi).pendingIndex p hp
    rw [e, h0] at this
    cases this

/-- position-wise reading of the split `D ++ C` -/
theorem getElem_split {b : Bucket} {D C : List Node} (hsp : Split b D C) {pos : Nat} {n : Node}
    (hn : b.nodes[pos]? = some n) : (pos < D.length ∧ n ∈ D) ∨ (D.length ≤ pos ∧ n ∈ C ∧ C ≠ []) := by
  rw [hsp.nodes] at hn
  by_cases hlt : pos < D.length
  · rw [List.getElem?_append_left hlt] at hn
    exact Or.inl ⟨hlt, List.mem_of_getElem? hn⟩
  · have hle : D.length ≤ pos := by omega
    rw [List.getElem?_append_right hle] at hn
    have hm := List.mem_of_getElem? hn
    exact Or.inr ⟨hle, hm, List.ne_nil_of_mem hm⟩

/-- the status the table reports for a position (`KBucket::status`, what `iter()` yields) is the
status last assigned to that node -/
theorem reported_status_is_last_assigned {t : Table} (h : TInv t) {i : Nat} (hi : i < 256) {pos : Nat}
    {n : Node} (hn : (t.bucket i).nodes[pos]? = some n) : (t.bucket i).status pos = n.gst := by
  obtain ⟨D, C, hsp⟩ := (h.buckets i hi).split
  rw [status_of_split hsp]
  rcases getElem_split hsp hn with ⟨hlt, hD⟩ | ⟨hle, hC, hne⟩
  · have : ¬ (D.length ≤ pos ∧ C ≠ []) := fun ⟨h1, _⟩ => by omega
    rw [if_neg this, hsp.dis n hD]
  · rw [if_pos ⟨hle, hne⟩, hsp.con n hC]

/-- disconnected entries precede connected ones, and within each group the entries are in
least-recently-updated order (strictly increasing assignment stamps) -/
theorem disconnected_first_lru_order {t : Table} (h : TInv t) {i : Nat} (hi : i < 256) {p q : Nat}
    {n m : Node} (hpq : p < q) (hn : (t.bucket i).nodes[p]? = some n) (hm : (t.bucket i).nodes[q]? = some m) :
    (n.gst = .connected → m.gst = .connected) ∧ (n.gst = m.gst → n.stamp < m.stamp) := by
  obtain ⟨D, C, hsp⟩ := (h.buckets i hi).split
  have hn' := hn
  have hm' := hm
  rw [hsp.nodes] at hn' hm'
  rcases getElem_split hsp hn with ⟨hlt, hD⟩ | ⟨hle, hC, hne⟩
  · rcases getElem_split hsp hm with ⟨hlt2, hD2⟩ | ⟨hle2, hC2, _⟩
    · refine ⟨fun e => (by rw [hsp.dis n hD] at e; cases e), fun _ => ?_⟩
      rw [List.getElem?_append_left hlt] at hn'
      rw [List.getElem?_append_left hlt2] at hm'
      have := List.pairwise_iff_getElem.1 hsp.sortedD p q hlt hlt2 hpq
      rw [List.getElem?_eq_getElem hlt, Option.some.injEq] at hn'
      rw [List.getElem?_eq_getElem hlt2, Option.some.injEq] at hm'
      rw [hn', hm'] at this
      exact this
    · refine ⟨fun _ => hsp.con m hC2, fun e => ?_⟩
      rw [hsp.dis n hD, hsp.con m hC2] at e
      cases e
  · have hle2 : D.length ≤ q := by omega
    rw [List.getElem?_append_right hle] at hn'
    rw [List.getElem?_append_right hle2] at hm'
    have hmC : m ∈ C := List.mem_of_getElem? hm'
    refine ⟨fun _ => hsp.con m hmC, fun _ => ?_⟩
    have hq : q - D.length < C.length := (List.getElem?_eq_some_iff.1 hm').1
    have hp : p - D.length < C.length := by omega
    have := List.pairwise_iff_getElem.1 hsp.sortedC (p - D.length) (q - D.length) hp hq (by omega)
    rw [List.getElem?_eq_getElem hp, Option.some.injEq] at hn'
    rw [List.getElem?_eq_getElem hq, Option.some.injEq] at hm'
    rw [hn', hm'] at this
    exact this

/-- **C37.no_panic** — none of the `expect`, `unreachable!`, `debug_assert!`, index and underflow
panics of the transcribed code is reachable -/
theorem no_panic {t : Table} (h : TInv t) {i : Nat} (hi : i < 256) : (t.bucket i).poisoned = false :=
  (h.buckets i hi).notPoisoned

/-! ## The pending rule -/

/-- **C37.pending_rule** — `apply_pending` inserts the pending node only after its timeout, and
then evicts exactly the head of the bucket — the least-recently-updated disconnected node — and
only if the bucket is full and that node is (still) disconnected; with room it evicts nothing. -/
theorem pending_rule {l i B tick : Nat} {b : Bucket} (h : BInv l i B b) (now : Nat) (hB : B ≤ tick)
    {a : Applied} (ha : (b.applyPending now tick).2 = some a) :
    ∃ pn, b.pending = some pn ∧ pn.replace ≤ now ∧ a.inserted = appliedNode pn tick ∧
      (b.applyPending now tick).1.pending = none ∧
      (match a.evicted with
       | none => b.nodes.length < b.capacity ∧
          (b.applyPending now tick).1.nodes.Perm (appliedNode pn tick :: b.nodes)
       | some ev => b.capacity ≤ b.nodes.length ∧ b.nodes.head? = some ev ∧ b.status 0 = .disconnected ∧
          ev.gst = .disconnected ∧ (∀ n ∈ b.nodes, n.gst = .disconnected → ev.stamp ≤ n.stamp) ∧
          (b.applyPending now tick).1.nodes.Perm (appliedNode pn tick :: b.nodes.tail)) := by
  have hc := applyPending_spec h now hB
  revert ha hc
  generalize b.applyPending now tick = res
  intro ha hc
  cases hc with
  | kept _ => cases ha
  | dropped pn _ _ _ _ => cases ha
  | evicted pn ev rest b' hp hdue hfull hst hnodes hevd hevmin _ hpend hperm _ =>
    simp only [Option.some.injEq] at ha
    subst ha
    refine ⟨pn, hp, hdue, rfl, hpend, ?_⟩
    simp only
    refine ⟨hfull, by rw [hnodes]; rfl, hst, hevd, hevmin, ?_⟩
    rw [hnodes]; exact hperm
  | room pn b' hp hdue hroom _ hpend hperm _ =>
    simp only [Option.some.injEq] at ha
    subst ha
    exact ⟨pn, hp, hdue, rfl, hpend, hroom, hperm⟩

/-- never before the timeout: a pending node that is not yet due stays pending and nothing changes -/
theorem pending_not_before_timeout {b : Bucket} {pn : PendingNode} (hp : b.pending = some pn) {now : Nat}
    (hlt : now < pn.replace) (tick : Nat) : b.applyPending now tick = (b, none) := by
  have : ¬ pn.replace ≤ now := by omega
  simp only [Bucket.applyPending, hp, this, if_false]

/-- conversely, a due pending node IS applied iff there is room or the head is disconnected;
if the bucket is full and its head is connected, it is dropped and nothing is evicted -/
theorem pending_applied_iff {l i B tick : Nat} {b : Bucket} (h : BInv l i B b) (now : Nat) (hB : B ≤ tick)
    {pn : PendingNode} (hp : b.pending = some pn) (hdue : pn.replace ≤ now) :
    ((b.applyPending now tick).2.isSome ↔ (b.nodes.length < b.capacity ∨ b.status 0 = .disconnected)) ∧
    ((b.applyPending now tick).2 = none → b.applyPending now tick = ({ b with pending := none }, none)) := by
  have hc := applyPending_spec h now hB
  revert hc
  generalize b.applyPending now tick = res
  intro hc
  cases hc with
  | kept hk =>
    rcases hk with hk | ⟨q, hq, hlt⟩
    · rw [hp] at hk; cases hk
    · rw [hp] at hq; cases hq; omega
  | dropped q _ _ hfull hst =>
    refine ⟨⟨fun hs => (by cases hs), fun hor => ?_⟩, fun _ => rfl⟩
    rcases hor with hr | hd
    · omega
    · rw [hst] at hd; cases hd
  | evicted q ev rest b' _ _ _ hst _ _ _ _ _ _ _ =>
    exact ⟨⟨fun _ => Or.inr hst, fun _ => rfl⟩, fun hn => by cases hn⟩
  | room q b' _ _ hroom _ _ _ _ =>
    exact ⟨⟨fun _ => Or.inl hroom, fun _ => rfl⟩, fun hn => by cases hn⟩

/-- …"and only if that entry is still disconnected": when the least-recently-updated entry
(position 0) is updated to `Connected`, the pending entry is discarded -/
theorem head_reconnect_drops_pending {l i B : Nat} {b : Bucket} (h : BInv l i B b) (key now tick : Nat)
    (hpos : b.position key = some 0) : (b.update key .connected now tick).pending = none := by
  rcases remove_spec h key with ⟨hnone, _, _⟩ | ⟨b1, node, st0, pos, hrem, hpos', hr⟩
  · rw [hpos] at hnone; cases hnone
  · rw [hpos] at hpos'
    have hp0 : pos = 0 := (Option.some.inj hpos').symm
    subst hp0
    simp only [Bucket.update, hrem, true_and, if_true]
    have hb2 : BInv l i B { b1 with pending := none } := binv_clear_pending hr.inv
    have hroom : ({ b1 with pending := none } : Bucket).nodes.length < ({ b1 with pending := none } : Bucket).capacity := by
      show b1.nodes.length < b1.capacity
      rw [hr.cap]
      have := h.len
      have := hr.len
      omega
    have hins := insert_result_inserted hb2 { node with gst := .connected, stamp := tick } .connected now hroom
    have hnf : ¬ b1.capacity ≤ b1.nodes.length := by
      have : b1.nodes.length < b1.capacity := hroom
      omega
    have hpend : (({ b1 with pending := none } : Bucket).insert { node with gst := .connected, stamp := tick }
        .connected now).1.pending = none := by
      unfold Bucket.insert
      simp only [hnf, if_false]
    revert hins hpend
    generalize ({ b1 with pending := none } : Bucket).insert { node with gst := .connected, stamp := tick }
      .connected now = res
    intro hins hpend
    obtain ⟨b3, r⟩ := res
    simp only at hins hpend
    subst hins
    exact hpend

/-! ## `insert` results -/

/-- **C37.insert_results** — `Inserted` / `Pending` / `Full` exactly per the documented cases -/
theorem insert_results {l i B : Nat} {b : Bucket} (h : BInv l i B b) (node : Node) (st : Status) (now : Nat) :
    (b.nodes.length < b.capacity → (b.insert node st now).2 = .inserted) ∧
    (b.capacity ≤ b.nodes.length → st = .disconnected → (b.insert node st now) = (b, .full)) ∧
    (b.capacity ≤ b.nodes.length → st = .connected → (b.status 0 = .connected ∨ b.pending.isSome) →
      (b.insert node st now) = (b, .full)) ∧
    (b.capacity ≤ b.nodes.length → st = .connected → b.status 0 = .disconnected → b.pending = none →
      ∃ d, (b.insert node st now).2 = .pending d) := by
  refine ⟨fun hroom => insert_result_inserted h node st now hroom, ?_, ?_, ?_⟩
  · intro hfull hst; subst hst
    simp only [Bucket.insert, hfull, if_true]
  · intro hfull hst hor; subst hst
    have hc : b.firstConn = some 0 ∨ b.pending.isSome = true := by
      rcases hor with hs | hp
      · left
        unfold Bucket.status at hs
        cases hfc : b.firstConn with
        | none => simp [hfc] at hs
        | some p =>
          simp only [hfc] at hs
          by_cases hp : p ≤ 0
          · have : p = 0 := by omega
            rw [this]
          · simp [hp] at hs
      · exact Or.inr hp
    simp only [Bucket.insert, hfull, if_true, hc]
  · intro hfull hst hs hp; subst hst
    have hc : ¬ (b.firstConn = some 0 ∨ b.pending.isSome = true) := by
      intro hor
      rcases hor with hf | hq
      · simp [Bucket.status, hf] at hs
      · simp [hp] at hq
    have hne : b.nodes ≠ [] := by
      intro e
      have := h.capPos
      rw [e] at hfull
      simp at hfull
      omega
    obtain ⟨n0, rest, hnodes⟩ := List.exists_cons_of_ne_nil hne
    refine ⟨n0.key, ?_⟩
    simp only [Bucket.insert, hfull, if_true, hc, if_false]
    rw [hnodes]

/-! ## The executable structural Spec accepts the model -/

/-- **the Spec accepts the model**: in every reachable state the structural Spec (`specDump`: capacity,
bucket index, key uniqueness, local key absent, disconnected-before-connected, pending key valid) —
the one the driver evaluates on the IMPLEMENTATION's dumps — is `true` on the model's dump. -/
theorem spec_accepts_model (l s T : Nat) (hl : l < 2 ^ 256) (hs : 1 ≤ s) (ops : List Op)
    (hv : ∀ o ∈ ops, o.Valid) :
    specDump l s ((Table.new l s T).run ops).dump = true := by
  have h := inv l s T hl hs ops hv
  have hloc : ((Table.new l s T).run ops).localKey = l := run_local ops _
  have := spec_dump h s (fun i hi => by rw [run_cap, bucket_new l s T i hi]; rfl)
  rw [hloc] at this
  exact this

/-! ## The trace monitor accepts the model's own trace -/

theorem observe_inv {t : Table} (h : TInv t) (op : Op) (hv : op.Valid) : TInv (t.observe op).1 := by
  have hs := step_inv h op hv
  exact ⟨hs.localLt, hs.len, hs.buckets⟩

theorem mdump_new (l s T : Nat) : (Table.new l s T).mdump = [] := by
  unfold Table.mdump
  rw [List.filterMap_eq_nil_iff]
  intro i hi
  have hi' : i < 256 := by simpa [NUM_BUCKETS] using hi
  rw [bucket_new l s T i hi']
  simp [Bucket.new]

/-- the initial monitor state is related to the empty table -/
theorem monR_init (l s T : Nat) : MonR (Mon.init l s T) (Table.new l s T) := by
  refine ⟨rfl, ?_, ?_, rfl, rfl, (mdump_new l s T).symm, rfl, ?_, ?_⟩
  · intro i hi; rw [bucket_new l s T i hi]; rfl
  · intro i hi; rw [bucket_new l s T i hi]; rfl
  · intro i hi n hn; rw [bucket_new l s T i hi] at hn; simp [Bucket.new] at hn
  · intro i hi p hp; rw [bucket_new l s T i hi] at hp; simp [Bucket.new] at hp

theorem monRun_of_rel : ∀ (ops : List Op) (m : Mon) (t : Table), MonR m t → TInv t → (∀ o ∈ ops, o.Valid) →
    monRun m (t.traceOf ops) = true
  | [], _, _, _, _, _ => rfl
  | o :: os, m, t, hR, h, hv => by
    obtain ⟨h1, h2⟩ := step_accepts hR h o (hv o (by simp))
    simp only [Table.traceOf, monRun, h1, Option.isNone_none, Bool.true_and]
    exact monRun_of_rel os _ _ h2 (observe_inv h o (hv o (by simp))) (fun x hx => hv x (by simp [hx]))

/-- **C37.monitor_accepts_model** — for every local key, bucket size, timeout and every history of
API calls (insert / update / remove / lookup / bucket / iter on arbitrary 256-bit keys and statuses,
`apply_pending` firing at arbitrary instants, `take_applied_pending` drained after every call) and
clock advances, the complete trace monitor (`monStep`: structural clauses, the pending rule on every
applied record, last-assigned status and least-recently-updated order by the monitor's own
bookkeeping) accepts the model's own trace. The relation `MonR` ties the monitor's bookkeeping to the
model's ghost state (`assigned` = ghost status/stamp of every stored node; `created + timeout` = the
unobservable `PendingNode.replace`). -/
theorem monitor_accepts_model (l s T : Nat) (hl : l < 2 ^ 256) (hs : 1 ≤ s) (ops : List Op)
    (hv : ∀ o ∈ ops, o.Valid) :
    monRun (Mon.init l s T) ((Table.new l s T).traceOf ops) = true :=
  monRun_of_rel ops _ _ (monR_init l s T) (inv_new l s T hl hs) hv

/-! ## Non-vacuity: a concrete run that creates, keeps, and applies a pending entry -/

/-- local key 0, bucket size 1, timeout 5; keys 4 and 5 share bucket 2 -/
def demoOps : List Op :=
  [.insert 4 0 .disconnected, .insert 5 1 .connected, .advance 4, .lookup 5, .advance 1, .lookup 4]

example : ∀ o ∈ demoOps, o.Valid := by
  intro o ho
  simp only [demoOps, List.mem_cons, List.mem_nil_iff, or_false] at ho
  rcases ho with rfl | rfl | rfl | rfl | rfl | rfl <;> simp [Op.Valid]

example : (((Table.new 0 1 5).run demoOps).bucket 2).nodes.map (·.key) = [5] ∧
    ((Table.new 0 1 5).run demoOps).applied.map (fun a => (a.inserted.key, a.evicted.map (·.key))) =
      [(5, some 4)] := by decide +kernel

/-- the demo history (a pending entry applied after its timeout, evicting the least-recently-updated
disconnected node) is accepted by the monitor -/
example : monRun (Mon.init 0 1 5) ((Table.new 0 1 5).traceOf demoOps) = true :=
  monitor_accepts_model 0 1 5 (by decide) (by decide) demoOps (by
    intro o ho
    simp only [demoOps, List.mem_cons, List.mem_nil_iff, or_false] at ho
    rcases ho with rfl | rfl | rfl | rfl | rfl | rfl <;> simp [Op.Valid])

end C37

#print axioms C37.inv
#print axioms C37.step_inv
#print axioms C37.capacity_bound
#print axioms C37.at_most_bucket_size
#print axioms C37.key_in_matching_bucket
#print axioms C37.key_at_most_once
#print axioms C37.local_key_never_stored
#print axioms C37.reported_status_is_last_assigned
#print axioms C37.disconnected_first_lru_order
#print axioms C37.no_panic
#print axioms C37.pending_rule
#print axioms C37.pending_not_before_timeout
#print axioms C37.pending_applied_iff
#print axioms C37.pending_created
#print axioms C37.head_reconnect_drops_pending
#print axioms C37.insert_results
#print axioms C37.spec_accepts_model
#print axioms C37.step_accepts
#print axioms C37.monitor_accepts_model
#print axioms C37.spec_dump
#print axioms C37.insert_inv
#print axioms C37.remove_spec
#print axioms C37.update_inv
#print axioms C37.applyPending_spec
