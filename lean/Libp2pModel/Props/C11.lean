import Libp2pModel.Model.C11
/-!
# C11 — property theorems: protocol-change notifications track the advertised sets
-/
namespace C11

/-! ## set equality -/
theorem setEq_iff (a b : List Name) : setEq a b = true ↔ ∀ p, p ∈ a ↔ p ∈ b := by
  simp only [setEq, Bool.and_eq_true, List.all_eq_true, List.contains_iff_mem]
  constructor
  · intro ⟨h1, h2⟩ p; exact ⟨h1 p, h2 p⟩
  · intro h; exact ⟨fun p hp => (h p).1 hp, fun p hp => (h p).2 hp⟩

/-! ## `gather` / `Connection::new` -/
theorem hasKey_iff (m : LMap) (p : Name) : hasKey m p = true ↔ p ∈ keys m := by
  simp [hasKey, keys]

theorem gather_keys (l : List Name) : ∀ k, k ∈ keys (gather l) ↔ k ∈ l := by
  induction l with
  | nil => simp [gather, keys]
  | cons p r ih =>
    intro k
    simp only [gather]
    split
    · rename_i h
      have hp := (ih p).1 ((hasKey_iff _ _).1 h)
      rw [ih k]; simp only [List.mem_cons]
      constructor
      · exact Or.inr
      · rintro (rfl | h') <;> assumption
    · have := ih k
      simp only [keys, List.map_cons, List.mem_cons] at this ⊢
      rw [this]

theorem applyEvs_nil (s : List Name) : applyEvs s [] = s := rfl

theorem init_fold (l : List Name) :
    ∀ p, p ∈ applyEvs [] (initLocal l).2 ↔ p ∈ l ∧ valid p = true := by
  intro p
  unfold initLocal
  simp only
  split
  · rename_i h
    have : ∀ k, ¬ k ∈ l := by
      intro k hk
      have := (gather_keys l k).2 hk
      have hm : gather l = [] := by simpa using h
      simp [hm, keys] at this
    simp only [applyEvs_nil, List.not_mem_nil, false_iff]
    exact fun h' => this p h'.1
  · simp only [applyEvs, List.foldl_cons, List.foldl_nil, applyEv, List.nil_append, List.mem_filter]
    rw [gather_keys]

/-! ## the `for new_protocol in new_protocols` loop -/
/-- loop invariant relative to the old key set `K0` and the names visited so far -/
def J (st : VS) (K0 done : List Name) : Prop :=
  (∀ k, (k, true) ∈ st.m ↔ k ∈ done) ∧
  (∀ k, (k, false) ∈ st.m ↔ k ∈ K0 ∧ k ∉ done) ∧
  (∀ p, p ∈ st.buf ↔ p ∈ done ∧ p ∉ K0 ∧ valid p = true)

theorem mem_keys_of_J {st : VS} {K0 done : List Name} (h : J st K0 done) (k : Name) :
    k ∈ keys st.m ↔ k ∈ K0 ∨ k ∈ done := by
  obtain ⟨h1, h2, _⟩ := h
  simp only [keys, List.mem_map, Prod.exists, exists_and_right, exists_eq_right]
  constructor
  · rintro ⟨b, hb⟩
    cases b
    · exact Or.inl ((h2 k).1 hb).1
    · exact Or.inr ((h1 k).1 hb)
  · intro h
    by_cases hd : k ∈ done
    · exact ⟨true, (h1 k).2 hd⟩
    · rcases h with h | h
      · exact ⟨false, (h2 k).2 ⟨h, hd⟩⟩
      · exact absurd h hd

theorem mem_setTrue (m : LMap) (p k : Name) (b : Bool) :
    (k, b) ∈ m.map (fun e => if e.1 = p then (e.1, true) else e) ↔
      ((k, b) ∈ m ∧ k ≠ p) ∨ (k = p ∧ b = true ∧ p ∈ keys m) := by
  constructor
  · intro h
    obtain ⟨e, hm, he⟩ := List.mem_map.1 h
    by_cases hk : e.1 = p
    · rw [if_pos hk] at he
      cases he
      exact Or.inr ⟨hk, rfl, List.mem_map.2 ⟨e, hm, hk⟩⟩
    · rw [if_neg hk] at he
      subst he
      exact Or.inl ⟨hm, hk⟩
  · rintro (⟨hm, hk⟩ | ⟨rfl, rfl, hp⟩)
    · exact List.mem_map.2 ⟨(k, b), hm, if_neg hk⟩
    · obtain ⟨e, hm, he⟩ := List.mem_map.1 hp
      refine List.mem_map.2 ⟨e, hm, ?_⟩
      have he' : e.1 = k := he
      rw [if_pos he', he']

theorem visit_J (st : VS) (K0 done : List Name) (p : Name) (h : J st K0 done) :
    J (visit st p) K0 (p :: done) := by
  have hkeys := mem_keys_of_J h
  obtain ⟨h1, h2, h3⟩ := h
  unfold visit
  split
  · rename_i hk
    have hp : p ∈ keys st.m := (hasKey_iff _ _).1 hk
    refine ⟨?_, ?_, ?_⟩
    · intro k
      simp only [mem_setTrue, List.mem_cons, h1]
      grind
    · intro k
      simp only [mem_setTrue, List.mem_cons, h2]
      grind
    · intro q
      have := (hkeys p).1 hp
      simp only [h3, List.mem_cons]
      grind
  · rename_i hk
    have hp : p ∉ keys st.m := fun h => hk ((hasKey_iff _ _).2 h)
    have hpk : p ∉ K0 := fun h => hp ((hkeys p).2 (Or.inl h))
    have hpd : p ∉ done := fun h => hp ((hkeys p).2 (Or.inr h))
    refine ⟨?_, ?_, ?_⟩
    · intro k
      simp only [List.mem_append, List.mem_cons, List.not_mem_nil, or_false, Prod.mk.injEq, and_true, h1]
      grind
    · intro k
      simp only [List.mem_append, List.mem_cons, List.not_mem_nil, or_false, Prod.mk.injEq,
        Bool.false_eq_true, and_false, h2]
      grind
    · intro q
      by_cases hv : valid p = true
      · simp only [hv, ↓reduceIte, List.mem_append, List.mem_cons, List.not_mem_nil, or_false, h3]
        grind
      · simp only [hv, Bool.false_eq_true, ↓reduceIte, h3, List.mem_cons]
        grind

theorem foldl_visit_J (l : List Name) (st : VS) (K0 done : List Name) (h : J st K0 done) :
    J (l.foldl visit st) K0 (l.reverse ++ done) := by
  induction l generalizing st done with
  | nil => simpa using h
  | cons p r ih =>
    have := ih (visit st p) (p :: done) (visit_J st K0 done p h)
    simpa using this

theorem visitAll_J (m : LMap) (new : List Name) : J (visitAll m new) (keys m) new.reverse := by
  have h0 : J { m := m.map (fun e => (e.1, false)) } (keys m) [] := by
    refine ⟨?_, ?_, ?_⟩
    · intro k; simp
    · intro k; simp [keys]
    · intro p; simp
  have := foldl_visit_J new _ (keys m) [] h0
  simpa [visitAll] using this

/-! ## the repaired early exit is exactly "nothing to report" -/
theorem fromFullSets_eq_finish (m : LMap) (new : List Name) :
    fromFullSets m new = finish (visitAll m new) := by
  unfold fromFullSets
  simp only
  split
  · rename_i h
    simp only [Bool.and_eq_true, List.all_eq_true, List.isEmpty_iff] at h
    obtain ⟨hall, hbuf⟩ := h
    unfold finish
    have h1 : (visitAll m new).m.filter (·.2) = (visitAll m new).m :=
      List.filter_eq_self.2 hall
    have h2 : (visitAll m new).m.filter (fun e => !e.2) = [] := by
      apply List.filter_eq_nil_iff.2
      intro e he; simp [hall e he]
    simp [h1, h2, hbuf]
  · rfl

theorem applyEvs_finish (folded : List Name) (st : VS) :
    applyEvs folded (finish st).2 =
      (folded ++ st.buf).filter (fun p =>
        !(((st.m.filter (fun e => !e.2)).map (·.1)).filter valid).contains p) := by
  unfold finish
  simp only
  generalize ((st.m.filter (fun e => !e.2)).map (·.1)).filter valid = R
  have hT : ∀ l : List Name, l.filter (fun _ => true) = l := fun l => List.filter_eq_self.2 (by simp)
  cases hb : st.buf with
  | nil =>
    cases R with
    | nil => simp [applyEvs, hT]
    | cons a r => simp [applyEvs, applyEv]
  | cons b bs =>
    cases R with
    | nil => simp [applyEvs, applyEv, hT]
    | cons a r => simp [applyEvs, applyEv]

/-- **one `from_full_sets` step**: from a handler view that equals the valid old keys, the events
bring it to exactly the valid newly advertised names, and the map keeps exactly the new names. -/
theorem fromFullSets_step (m : LMap) (new folded : List Name)
    (hf : ∀ p, p ∈ folded ↔ p ∈ keys m ∧ valid p = true) :
    (∀ k, k ∈ keys (fromFullSets m new).1 ↔ k ∈ new) ∧
    (∀ p, p ∈ applyEvs folded (fromFullSets m new).2 ↔ p ∈ new ∧ valid p = true) := by
  rw [fromFullSets_eq_finish]
  obtain ⟨h1, h2, h3⟩ := visitAll_J m new
  simp only [List.mem_reverse] at h1 h2 h3
  refine ⟨?_, ?_⟩
  · intro k
    rw [← h1 k]
    simp only [finish, keys, List.mem_map, List.mem_filter]
    constructor
    · rintro ⟨⟨k', b⟩, ⟨hm, hb⟩, rfl⟩
      simp only at hb; subst hb; exact hm
    · intro h; exact ⟨(k, true), ⟨h, rfl⟩, rfl⟩
  · intro p
    rw [applyEvs_finish]
    have hR : p ∈ ((List.filter (fun e => !e.2) (visitAll m new).m).map (·.1)).filter valid ↔
        (p ∈ keys m ∧ p ∉ new) ∧ valid p = true := by
      simp only [List.mem_filter, List.mem_map]
      constructor
      · rintro ⟨⟨⟨k', b⟩, ⟨hm, hb⟩, rfl⟩, hv⟩
        have hb' : b = false := by simpa using hb
        subst hb'
        exact ⟨(h2 k').1 hm, hv⟩
      · rintro ⟨h, hv⟩; exact ⟨⟨(p, false), ⟨(h2 p).2 h, rfl⟩, rfl⟩, hv⟩
    simp only [List.mem_filter, List.mem_append, Bool.not_eq_eq_eq_not, Bool.not_true,
      List.contains_eq_mem, decide_eq_false_iff_not, hf, h3, hR]
    grind

/-! ## remote side -/
theorem remoteAdd_step (set toAdd folded reported : List Name)
    (hf : ∀ p, p ∈ folded ↔ p ∈ reported) (hs : ∀ p, p ∈ set ↔ p ∈ reported) :
    (∀ p, p ∈ applyEvs folded (remoteAdd set toAdd).2 ↔ p ∈ reportFold reported true toAdd) ∧
    (∀ p, p ∈ (remoteAdd set toAdd).1 ↔ p ∈ reportFold reported true toAdd) := by
  unfold remoteAdd reportFold
  simp only [↓reduceIte]
  have hb : ∀ p, p ∈ toAdd.eraseDups.filter (fun p => !set.contains p) ↔ p ∈ toAdd ∧ p ∉ set := by
    intro p; simp [List.mem_eraseDups]
  split
  · rename_i he
    have he' : ∀ p, p ∈ toAdd → p ∈ set := by
      intro p hp
      have hnil : toAdd.eraseDups.filter (fun p => !set.contains p) = [] := by simpa using he
      have := (hb p)
      rw [hnil] at this
      simp only [List.not_mem_nil, false_iff, not_and, Classical.not_not] at this
      exact this hp
    constructor
    · intro p
      simp only [applyEvs_nil, List.mem_append, hf]
      constructor
      · exact Or.inl
      · rintro (h | h)
        · exact h
        · exact (hs p).1 (he' p h)
    · intro p
      simp only [List.mem_append, hs]
      constructor
      · exact Or.inl
      · rintro (h | h)
        · exact h
        · exact (hs p).1 (he' p h)
  · constructor
    · intro p
      simp only [applyEvs, List.foldl_cons, List.foldl_nil, applyEv, List.mem_append, hb, hf, hs]
      by_cases h1 : p ∈ reported <;> by_cases h2 : p ∈ toAdd <;> simp [h1, h2]
    · intro p
      simp only [List.mem_append, hb, hs]
      by_cases h1 : p ∈ reported <;> by_cases h2 : p ∈ toAdd <;> simp [h1, h2]

theorem remoteRemove_step (set toRemove folded reported : List Name)
    (hf : ∀ p, p ∈ folded ↔ p ∈ reported) (hs : ∀ p, p ∈ set ↔ p ∈ reported) :
    (∀ p, p ∈ applyEvs folded (remoteRemove set toRemove).2 ↔ p ∈ reportFold reported false toRemove) ∧
    (∀ p, p ∈ (remoteRemove set toRemove).1 ↔ p ∈ reportFold reported false toRemove) := by
  unfold remoteRemove reportFold
  simp only [Bool.false_eq_true, ↓reduceIte]
  have hb : ∀ p, p ∈ toRemove.eraseDups.filter (fun p => set.contains p) ↔ p ∈ toRemove ∧ p ∈ set := by
    intro p; simp [List.mem_eraseDups]
  split
  · rename_i he
    have he' : ∀ p, p ∈ toRemove → p ∉ set := by
      intro p hp hps
      have hnil : toRemove.eraseDups.filter (fun p => set.contains p) = [] := by simpa using he
      have := (hb p)
      rw [hnil] at this
      simp only [List.not_mem_nil, false_iff, not_and] at this
      exact this hp hps
    constructor
    · intro p
      simp only [applyEvs_nil, List.mem_filter, Bool.not_eq_eq_eq_not, Bool.not_true,
        List.contains_eq_mem, decide_eq_false_iff_not, hf]
      constructor
      · intro h; exact ⟨h, fun hr => he' p hr ((hs p).2 h)⟩
      · exact fun h => h.1
    · intro p
      simp only [List.mem_filter, Bool.not_eq_eq_eq_not, Bool.not_true,
        List.contains_eq_mem, decide_eq_false_iff_not, hs]
      constructor
      · intro h; exact ⟨h, fun hr => he' p hr ((hs p).2 h)⟩
      · exact fun h => h.1
  · constructor
    · intro p
      simp only [applyEvs, List.foldl_cons, List.foldl_nil, applyEv, List.mem_filter,
        Bool.not_eq_eq_eq_not, Bool.not_true, List.contains_eq_mem, decide_eq_false_iff_not, hb, hf, hs]
      by_cases h1 : p ∈ reported <;> by_cases h2 : p ∈ toRemove <;> simp [h1, h2]
    · intro p
      simp only [List.mem_filter, Bool.not_eq_eq_eq_not, Bool.not_true,
        List.contains_eq_mem, decide_eq_false_iff_not, hb, hs]
      by_cases h1 : p ∈ reported <;> by_cases h2 : p ∈ toRemove <;> simp [h1, h2]

/-! ## the connection: every history -/
/-- invariant of the connection machine -/
def Inv (c : Conn) : Prop :=
  (∀ k, k ∈ keys c.lmap ↔ k ∈ c.adv) ∧
  (∀ p, p ∈ c.lfold ↔ p ∈ c.adv ∧ valid p = true) ∧
  (∀ p, p ∈ c.rfold ↔ p ∈ c.reported) ∧
  (∀ p, p ∈ c.rset ↔ p ∈ c.reported)

theorem inv_init (l : List Name) : Inv (connInit l) := by
  refine ⟨?_, ?_, ?_, ?_⟩
  · exact gather_keys l
  · exact init_fold l
  · intro p; simp [connInit]
  · intro p; simp [connInit]

theorem inv_step (c : Conn) (o : Op) (h : Inv c) : Inv (connStep c o).1 := by
  obtain ⟨hk, hl, hr, hs⟩ := h
  cases o with
  | local_ l =>
    have := fromFullSets_step c.lmap l c.lfold (by intro p; rw [hl, hk])
    exact ⟨this.1, this.2, hr, hs⟩
  | radd l =>
    have := remoteAdd_step c.rset l c.rfold c.reported hr hs
    exact ⟨hk, hl, this.1, this.2⟩
  | rrem l =>
    have := remoteRemove_step c.rset l c.rfold c.reported hr hs
    exact ⟨hk, hl, this.1, this.2⟩

theorem inv_reachable (l0 : List Name) (ops : List Op) : Inv (Machine.exec connStep (connInit l0) ops) :=
  Machine.invariant_of_step connStep Inv inv_step ops _ (inv_init l0)

/-- the list advertised last (ghost field `adv`) really is the last `local_` op's list -/
def lastAdvertised (l0 : List Name) : List Op → List Name
  | [] => l0
  | .local_ l :: r => lastAdvertised l r
  | _ :: r => lastAdvertised l0 r

/-- what the handler reported about the remote so far: added minus removed, in order -/
def reportedSoFar (cur : List Name) : List Op → List Name
  | [] => cur
  | .radd l :: r => reportedSoFar (reportFold cur true l) r
  | .rrem l :: r => reportedSoFar (reportFold cur false l) r
  | _ :: r => reportedSoFar cur r

theorem ghost_fields (c : Conn) (ops : List Op) :
    (Machine.exec connStep c ops).adv = lastAdvertised c.adv ops ∧
    (Machine.exec connStep c ops).reported = reportedSoFar c.reported ops := by
  induction ops generalizing c with
  | nil => exact ⟨rfl, rfl⟩
  | cons o r ih =>
    have := ih (connStep c o).1
    cases o <;> simpa [Machine.exec, lastAdvertised, reportedSoFar, connStep] using this

/-- **C11.local_fold** — for every initial list and every history of advertised lists and remote
reports (duplicates, invalid names, growth, shrinkage — anything), folding the
LocalProtocolsChange Added/Removed events yields exactly the valid names currently advertised. -/
theorem local_fold (l0 : List Name) (ops : List Op) (p : Name) :
    p ∈ (Machine.exec connStep (connInit l0) ops).lfold ↔
      p ∈ lastAdvertised l0 ops ∧ valid p = true := by
  have h := (inv_reachable l0 ops).2.1 p
  have hg : (Machine.exec connStep (connInit l0) ops).adv = lastAdvertised l0 ops :=
    (ghost_fields (connInit l0) ops).1
  rw [hg] at h
  exact h

/-- **C11.remote_fold** — folding the RemoteProtocolsChange events yields exactly the protocols
reported so far (added minus removed), which is also the connection's retained set. -/
theorem remote_fold (l0 : List Name) (ops : List Op) (p : Name) :
    (p ∈ (Machine.exec connStep (connInit l0) ops).rfold ↔ p ∈ reportedSoFar [] ops) ∧
    (p ∈ (Machine.exec connStep (connInit l0) ops).rset ↔ p ∈ reportedSoFar [] ops) := by
  obtain ⟨_, _, hr, hs⟩ := inv_reachable l0 ops
  have hg : (Machine.exec connStep (connInit l0) ops).reported = reportedSoFar [] ops :=
    (ghost_fields (connInit l0) ops).2
  rw [hg] at hr hs
  exact ⟨hr p, hs p⟩

/-- the state reached from `Connection::new` after a history -/
def reach (l0 : List Name) (ops : List Op) : Conn := Machine.exec connStep (connInit l0) ops

/-- **Spec accepts the model**: in every reachable state the executable Spec clauses hold. -/
theorem spec_ok (l0 : List Name) (ops : List Op) :
    specLocal (reach l0 ops).lfold (reach l0 ops).adv = true ∧
    specRemote (reach l0 ops).rfold (reach l0 ops).reported = true ∧
    setEq (reach l0 ops).rset (reach l0 ops).reported = true := by
  unfold reach
  obtain ⟨_, hl, hr, hs⟩ := inv_reachable l0 ops
  refine ⟨?_, ?_, ?_⟩
  · rw [specLocal, setEq_iff]; intro p; rw [hl p]; simp [List.mem_filter]
  · rw [specRemote, setEq_iff]; exact hr
  · rw [setEq_iff]; exact hs

/-- no event carries an empty protocol list in `from_full_sets` / `add` / `remove` steps -/
theorem no_empty_event (c : Conn) (o : Op) : ∀ e ∈ (connStep c o).2, e ≠ .added [] ∧ e ≠ .removed [] := by
  intro e he
  cases o with
  | local_ l =>
    simp only [connStep] at he
    rw [fromFullSets_eq_finish] at he
    unfold finish at he
    simp only [List.mem_append] at he
    rcases he with he | he <;> split at he <;> simp_all
    all_goals (subst he; simp_all)
  | radd l =>
    simp only [connStep, remoteAdd] at he
    split at he <;> simp_all
  | rrem l =>
    simp only [connStep, remoteRemove] at he
    split at he <;> simp_all

/-! ## `Connection::poll` granularity: every history of scripted handler behaviour -/

/-- what holds between any two ops: the handler's local view is the valid part of the connection's
retained key set; the remote view and the retained remote set are the fold of the reports -/
structure PInv (c : PC) : Prop where
  loc : ∀ p, p ∈ c.lfold ↔ p ∈ keys c.lmap ∧ valid p = true
  rem : ∀ p, p ∈ c.rfold ↔ p ∈ c.reported
  rset : ∀ p, p ∈ c.rset ↔ p ∈ c.reported

/-- the handler's view equals what `listen_protocol()` advertises now -/
def Synced (c : PC) : Prop :=
  (∀ p, p ∈ c.lfold ↔ p ∈ c.adv ∧ valid p = true) ∧ (∀ k, k ∈ keys c.lmap ↔ k ∈ c.adv)

theorem setAdv_fields (c : PC) (s : Option (List Name)) :
    (setAdv c s).lmap = c.lmap ∧ (setAdv c s).lfold = c.lfold ∧ (setAdv c s).rfold = c.rfold ∧
    (setAdv c s).rset = c.rset ∧ (setAdv c s).reported = c.reported := by
  cases s <;> exact ⟨rfl, rfl, rfl, rfl, rfl⟩

theorem deliver_fields (isLocal : Bool) (c : PC) (e : Ev) :
    (deliver isLocal c e).lmap = c.lmap ∧ (deliver isLocal c e).rset = c.rset ∧
    (deliver isLocal c e).reported = c.reported ∧
    (deliver isLocal c e).lfold = (if isLocal then applyEv c.lfold e else c.lfold) ∧
    (deliver isLocal c e).rfold = (if isLocal then c.rfold else applyEv c.rfold e) := by
  unfold deliver
  cases isLocal <;> simp only [Bool.false_eq_true, ↓reduceIte] <;> split
  · exact ⟨rfl, rfl, rfl, rfl, rfl⟩
  · rename_i s r _; cases s <;> exact ⟨rfl, rfl, rfl, rfl, rfl⟩
  · exact ⟨rfl, rfl, rfl, rfl, rfl⟩
  · rename_i s r _; cases s <;> exact ⟨rfl, rfl, rfl, rfl, rfl⟩

theorem deliverAll_fields (isLocal : Bool) (evs : List Ev) (c : PC) :
    (deliverAll isLocal c evs).lmap = c.lmap ∧ (deliverAll isLocal c evs).rset = c.rset ∧
    (deliverAll isLocal c evs).reported = c.reported ∧
    (deliverAll isLocal c evs).lfold = (if isLocal then applyEvs c.lfold evs else c.lfold) ∧
    (deliverAll isLocal c evs).rfold = (if isLocal then c.rfold else applyEvs c.rfold evs) := by
  induction evs generalizing c with
  | nil => cases isLocal <;> exact ⟨rfl, rfl, rfl, rfl, rfl⟩
  | cons e r ih =>
    have h1 := deliver_fields isLocal c e
    have h2 := ih (deliver isLocal c e)
    simp only [deliverAll, List.foldl_cons] at h2 ⊢
    obtain ⟨a1, a2, a3, a4, a5⟩ := h1
    obtain ⟨b1, b2, b3, b4, b5⟩ := h2
    refine ⟨b1.trans a1, b2.trans a2, b3.trans a3, ?_, ?_⟩
    · rw [b4, a4]; cases isLocal <;> simp [applyEvs]
    · rw [b5, a5]; cases isLocal <;> simp [applyEvs]

/-- the bottom of the loop keeps the invariant; if it found nothing to report, the handler is in sync -/
theorem bottomStep_spec (c : PC) (h : PInv c) :
    PInv (bottomStep c).1 ∧ ((bottomStep c).2 = false → Synced (bottomStep c).1) := by
  have hstep := fromFullSets_step c.lmap c.adv c.lfold h.loc
  unfold bottomStep
  simp only
  split
  · rename_i hemp
    have hnil : (fromFullSets c.lmap c.adv).2 = [] := by simpa using hemp
    have hfold : ∀ p, p ∈ c.lfold ↔ p ∈ c.adv ∧ valid p = true := by
      intro p; have := hstep.2 p; rw [hnil] at this; exact this
    refine ⟨⟨?_, h.rem, h.rset⟩, fun _ => ⟨hfold, hstep.1⟩⟩
    intro p
    show p ∈ c.lfold ↔ p ∈ keys (fromFullSets c.lmap c.adv).1 ∧ valid p = true
    rw [hfold p, hstep.1 p]
  · obtain ⟨d1, d2, d3, d4, d5⟩ :=
      deliverAll_fields true (fromFullSets c.lmap c.adv).2 { c with lmap := (fromFullSets c.lmap c.adv).1 }
    refine ⟨⟨?_, ?_, ?_⟩, fun hc => by simp at hc⟩
    · intro p
      rw [d4, d1]
      simp only [↓reduceIte]
      show p ∈ applyEvs c.lfold (fromFullSets c.lmap c.adv).2 ↔ p ∈ keys (fromFullSets c.lmap c.adv).1 ∧ _
      rw [hstep.2 p, hstep.1 p]
    · intro p; rw [d5, d3]; exact h.rem p
    · intro p; rw [d2, d3]; exact h.rset p

theorem pinv_setAdv (c : PC) (s : Option (List Name)) (h : PInv c) : PInv (setAdv c s) := by
  obtain ⟨a1, a2, a3, a4, a5⟩ := setAdv_fields c s
  exact ⟨by intro p; rw [a2, a1]; exact h.loc p, by intro p; rw [a3, a5]; exact h.rem p,
    by intro p; rw [a4, a5]; exact h.rset p⟩

theorem ploop_spec (fuel : Nat) (c : PC) (h : PInv c) :
    PInv (ploop fuel c).1 ∧ ((ploop fuel c).2 = .pending → Synced (ploop fuel c).1) := by
  induction fuel generalizing c with
  | zero => exact ⟨h, by intro hc; cases hc⟩
  | succ fuel ih =>
    unfold ploop
    split
    · -- NotifyBehaviour: returned at once, the diff at the bottom is not reached
      rename_i s r _
      exact ⟨pinv_setAdv _ s ⟨h.loc, h.rem, h.rset⟩, by intro hc; cases hc⟩
    · rename_i l r _
      apply ih
      have hs := remoteAdd_step c.rset l c.rfold c.reported h.rem h.rset
      obtain ⟨d1, d2, d3, d4, d5⟩ := deliverAll_fields false (remoteAdd c.rset l).2
        { c with steps := r, rset := (remoteAdd c.rset l).1, reported := reportFold c.reported true l,
                 emitted := c.emitted ++ [(true, l)] }
      exact ⟨by intro p; rw [d4, d1]; exact h.loc p,
        by intro p; rw [d5, d3]; exact hs.1 p, by intro p; rw [d2, d3]; exact hs.2 p⟩
    · rename_i l r _
      apply ih
      have hs := remoteRemove_step c.rset l c.rfold c.reported h.rem h.rset
      obtain ⟨d1, d2, d3, d4, d5⟩ := deliverAll_fields false (remoteRemove c.rset l).2
        { c with steps := r, rset := (remoteRemove c.rset l).1, reported := reportFold c.reported false l,
                 emitted := c.emitted ++ [(false, l)] }
      exact ⟨by intro p; rw [d4, d1]; exact h.loc p,
        by intro p; rw [d5, d3]; exact hs.1 p, by intro p; rw [d2, d3]; exact hs.2 p⟩
    · rename_i s r _
      have hb := bottomStep_spec (setAdv { c with steps := r } s) (pinv_setAdv _ s ⟨h.loc, h.rem, h.rset⟩)
      simp only
      split
      · exact ih _ hb.1
      · rename_i hc
        exact ⟨hb.1, fun _ => hb.2 (by simpa using hc)⟩
    · have hb := bottomStep_spec c h
      simp only
      split
      · exact ih _ hb.1
      · rename_i hc
        exact ⟨hb.1, fun _ => hb.2 (by simpa using hc)⟩

theorem pinv_init (l : List Name) : PInv (pinit l) := by
  refine ⟨?_, by intro p; simp [pinit], by intro p; simp [pinit]⟩
  intro p
  show p ∈ applyEvs [] (initLocal l).2 ↔ p ∈ keys (gather l) ∧ valid p = true
  rw [init_fold l p, gather_keys l p]

theorem pinv_pstep (c : PC) (o : POp) (h : PInv c) : PInv (pstep c o).1 := by
  have h0 : PInv { c with log := [], emitted := [] } := ⟨h.loc, h.rem, h.rset⟩
  cases o with
  | steps l => exact ⟨h.loc, h.rem, h.rset⟩
  | onEv l => exact ⟨h.loc, h.rem, h.rset⟩
  | beh l => exact ⟨h.loc, h.rem, h.rset⟩
  | poll => exact (ploop_spec _ _ h0).1

/-- the state after an op history, from `Connection::new` with the handler advertising `l0` -/
def preach (l0 : List Name) (ops : List POp) : PC := Machine.exec pstep (pinit l0) ops

theorem pinv_reach (l0 : List Name) (ops : List POp) : PInv (preach l0 ops) :=
  Machine.invariant_of_step pstep PInv pinv_pstep ops _ (pinv_init l0)

/-- **C11.poll_return_synced** — for EVERY history (the handler changing its advertised set inside
`poll` returning Pending or an event, inside `on_connection_event`, via `on_behaviour_event`; remote
reports with duplicates / unknown removals; any interleaving with polls): whenever a
`Connection::poll` returns `Pending`, the fold of the LocalProtocolsChange events the handler has
received is exactly the valid part of what `listen_protocol()` advertises at that moment (and the
connection's retained keys are exactly the advertised names). -/
theorem poll_return_synced (l0 : List Name) (ops : List POp)
    (hp : (pstep (preach l0 ops) .poll).2 = some .pending) :
    Synced (pstep (preach l0 ops) .poll).1 := by
  have h := pinv_reach l0 ops
  have h0 : PInv { preach l0 ops with log := [], emitted := [] } := ⟨h.loc, h.rem, h.rset⟩
  have := (ploop_spec ((preach l0 ops).steps.length + (preach l0 ops).onEv.length + 3) _ h0).2
  apply this
  simpa [pstep] using hp

/-- **C11.poll_return_remote** — at every return of every op (Pending, event, or no poll at all) the
fold of the RemoteProtocolsChange events equals the fold of the reports (added minus removed) and the
connection's retained remote set; the local fold equals the valid part of the retained local keys. -/
theorem poll_return_remote (l0 : List Name) (ops : List POp) :
    PInv (preach l0 ops) := pinv_reach l0 ops

/-- every local notification produced by the diff is real: non-empty lists only (no-op freedom
follows from `fromFullSets_step` on the fold) -/
theorem bottom_events_nonempty (c : PC) : ∀ e ∈ (fromFullSets c.lmap c.adv).2, e ≠ .added [] ∧ e ≠ .removed [] := by
  intro e he
  rw [fromFullSets_eq_finish] at he
  unfold finish at he
  simp only [List.mem_append] at he
  rcases he with he | he <;> split at he <;> simp_all
  all_goals (subst he; simp_all)

/-- the lag at an *event* return is real (also in the code): a handler that changes its set inside a
`poll` returning `NotifyBehaviour` is told only at the next `Connection::poll` -/
example : (pstep (pstep (pinit [[47, 97]]) (.steps [.event (some [[47, 98]])])).1 .poll).1.lfold = [[47, 97]]
    ∧ (pstep (pstep (pinit [[47, 97]]) (.steps [.event (some [[47, 98]])])).1 .poll).1.adv = [[47, 98]] := by decide
/-- a scripted change inside `poll` returning Pending is reported before `Connection::poll` returns -/
example : (pstep (pstep (pinit [[47, 97], [47, 98]]) (.steps [.pend (some [[47, 97], [47, 97]])])).1 .poll).2
      = some .pending
    ∧ (pstep (pstep (pinit [[47, 97], [47, 98]]) (.steps [.pend (some [[47, 97], [47, 97]])])).1 .poll).1.log
      = [(true, .removed [[47, 98]])] := by decide

/-! ## the pinned commit violates the property -/
def pa : Name := [47, 97]
def pb : Name := [47, 98]

/-- Defect (`from_full_sets` early exit counts duplicates): existing `{/a,/b}`, newly advertised
`[/a,/a]` ⇒ no event at all, so the handler still believes `/b` is advertised. -/
theorem early_exit_duplicates_buggy_counterexample :
    (fromFullSetsBuggy (initLocal [pa, pb]).1 [pa, pa]).2 = []
    ∧ specLocal (applyEvs (applyEvs [] (initLocal [pa, pb]).2) (fromFullSetsBuggy (initLocal [pa, pb]).1 [pa, pa]).2) [pa, pa] = false
    ∧ (fromFullSets (initLocal [pa, pb]).1 [pa, pa]).2 = [.removed [pb]] := by decide

/-- non-vacuity: add + remove in one step, invalid names never reported -/
example : (fromFullSets (initLocal [pa, pb]).1 [pa, [47, 99], [120]]).2 = [.added [[47, 99]], .removed [pb]] := by decide
example : (connStep (connInit []) (.radd [pa, pa, pb])).2 = [.added [pa, pb]] := by decide

end C11

#print axioms C11.local_fold
#print axioms C11.remote_fold
#print axioms C11.spec_ok
#print axioms C11.no_empty_event
#print axioms C11.fromFullSets_step
#print axioms C11.fromFullSets_eq_finish
#print axioms C11.early_exit_duplicates_buggy_counterexample
#print axioms C11.poll_return_synced
#print axioms C11.poll_return_remote
#print axioms C11.ploop_spec
#print axioms C11.bottom_events_nonempty
