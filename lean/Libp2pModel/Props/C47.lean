import Libp2pModel.Model.C47
import Libp2pModel.Proofs.C47_handler
import Libp2pModel.Common.Machine
/-!
# C47 — relay resource limits hold: property theorems

About `C47.step Variant.repaired` (the admission code after `findings/C47-*.fix.diff`), for every
configuration and every sequence of swarm / handler events that respects the *handler contract*
`OpOk` (what the relay's connection handler guarantees about the events it sends, see below).
-/
namespace C47

/-! ## counting lemmas -/

theorem countP_filter_le {α} (f g : α → Bool) (l : List α) : (l.filter g).countP f ≤ l.countP f :=
  List.Sublist.countP_le (List.filter_sublist)

theorem countP_filter_lt {α} (f g : α → Bool) (l : List α) (x : α) (hx : x ∈ l) (hf : f x = true)
    (hg : g x = false) : (l.filter g).countP f + 1 ≤ l.countP f := by
  induction l with
  | nil => simp at hx
  | cons y ys ih =>
    rcases List.mem_cons.1 hx with rfl | hx
    · have := countP_filter_le f g ys
      simp [List.filter_cons, hg, List.countP_cons, hf]
      omega
    · have := ih hx
      by_cases hgy : g y = true
      · simp only [List.filter_cons, hgy, ↓reduceIte, List.countP_cons]; omega
      · have hgy' : g y = false := by simpa using hgy
        simp only [List.filter_cons, hgy', Bool.false_eq_true, ↓reduceIte, List.countP_cons]; omega

/-- a counting predicate that only counts active entries -/
def OnlyActive (f : Peer × Conn × Bool → Bool) : Prop := ∀ p c, f (p, c, false) = false

theorem countP_removeConn_le (f : Peer × Conn × Bool → Bool) (l : List (Peer × Conn × Bool)) (p : Peer) (c : Conn) :
    (removeConn l p c).countP f ≤ l.countP f := countP_filter_le f _ l

theorem countP_setConn_false (f : Peer × Conn × Bool → Bool) (hf : OnlyActive f)
    (l : List (Peer × Conn × Bool)) (p : Peer) (c : Conn) :
    (setConn l p c false).countP f ≤ l.countP f := by
  have := countP_removeConn_le f l p c
  simp only [setConn, List.countP_append, List.countP_cons, List.countP_nil, hf p c]
  simpa using this

theorem countP_setConn_true_le_succ (f : Peer × Conn × Bool → Bool)
    (l : List (Peer × Conn × Bool)) (p : Peer) (c : Conn) :
    (setConn l p c true).countP f ≤ l.countP f + 1 := by
  have := countP_removeConn_le f l p c
  simp only [setConn, List.countP_append, List.countP_cons, List.countP_nil]
  split <;> omega

/-- re-activating a connection that is already active does not raise any count -/
theorem countP_setConn_true_of_mem (f : Peer × Conn × Bool → Bool)
    (l : List (Peer × Conn × Bool)) (p : Peer) (c : Conn) (h : (p, c, true) ∈ l) :
    (setConn l p c true).countP f ≤ l.countP f := by
  simp only [setConn, List.countP_append, List.countP_cons, List.countP_nil]
  by_cases hf : f (p, c, true) = true
  · have := countP_filter_lt f (fun e => !isKey p c e) l (p, c, true) h hf (by simp [isKey])
    simp only [removeConn, hf, ↓reduceIte]
    omega
  · have := countP_removeConn_le f l p c
    simp only [hf, Bool.false_eq_true, ↓reduceIte]
    omega

theorem countP_setConn_true_other (f : Peer × Conn × Bool → Bool)
    (l : List (Peer × Conn × Bool)) (p : Peer) (c : Conn) (hf : f (p, c, true) = false) :
    (setConn l p c true).countP f ≤ l.countP f := by
  have := countP_removeConn_le f l p c
  simp only [setConn, List.countP_append, List.countP_cons, List.countP_nil, hf]
  simpa using this

/-! ## the invariant = the property -/

structure Inv (cfg : Cfg) (st : St) : Prop where
  resPerPeer : ∀ p, activeOf st.conns p ≤ cfg.maxResPerPeer
  resTotal : totalActive st.conns ≤ cfg.maxRes
  circPerPeer : ∀ p, numOf st.circuits p ≤ cfg.maxCircPerPeer
  circTotal : st.circuits.length ≤ cfg.maxCirc

theorem Inv.empty (cfg : Cfg) : Inv cfg St.empty :=
  ⟨fun _ => Nat.zero_le _, Nat.zero_le _, fun _ => Nat.zero_le _, Nat.zero_le _⟩

/-- **Handler contract.**  What `behaviour/handler.rs` guarantees about the events of one
connection, as far as the limits depend on it:
* `ReservationReqReceived { renewed: true }` is only sent while the handler holds an active
  reservation, which the behaviour has recorded as `Reservation::Active` for that connection;
* `ReservationReqAccepted` confirms an acceptance the behaviour has already recorded.
(Both are about the order of events of a single connection; see `handler_race_exceeds` for what a
reservation expiring between the behaviour's acceptance and the handler's confirmation does.) -/
def OpOk (st : St) : Op → Prop
  | .resReq p c renewed _ => renewed = true → (p, c, true) ∈ st.conns
  | .resAccepted p c => (p, c, true) ∈ st.conns
  | _ => True

theorem onlyActive_activeOf (p : Peer) : OnlyActive (fun e => e.1 == p && e.2.2) := by
  intro _ _; simp
theorem onlyActive_total : OnlyActive (fun e => e.2.2) := by intro _ _; rfl

theorem numOf_filter_le (l : List Circuit) (g : Circuit → Bool) (p : Peer) :
    numOf (l.filter g) p ≤ numOf l p := countP_filter_le _ _ _

theorem numOf_map_accept (l : List Circuit) (id : Nat) (p : Peer) :
    numOf (l.map (fun k => if k.id == id then { k with accepted := true } else k)) p = numOf l p := by
  unfold numOf
  rw [List.countP_map]
  congr 1
  funext k
  simp only [Function.comp]
  split <;> rfl

/-- **every event keeps the four bounds** -/
theorem step_inv (cfg : Cfg) (st : St) (op : Op) (h : Inv cfg st) (hok : OpOk st op) :
    Inv cfg (step Variant.repaired cfg st op).1 := by
  cases op with
  | established p c =>
    exact ⟨fun q => Nat.le_trans (countP_setConn_false _ (onlyActive_activeOf q) _ p c) (h.resPerPeer q),
      Nat.le_trans (countP_setConn_false _ onlyActive_total _ p c) h.resTotal, h.circPerPeer, h.circTotal⟩
  | closed p c =>
    exact ⟨fun q => Nat.le_trans (countP_removeConn_le _ _ p c) (h.resPerPeer q),
      Nat.le_trans (countP_removeConn_le _ _ p c) h.resTotal,
      fun q => Nat.le_trans (numOf_filter_le _ _ q) (h.circPerPeer q),
      Nat.le_trans (List.length_filter_le _ _) h.circTotal⟩
  | resReq p c renewed rate =>
    simp only [step]
    split
    · exact h
    · rename_i hdeny
      simp only [Bool.or_eq_true, Bool.and_eq_true, Bool.not_eq_eq_eq_not, Bool.not_true,
        decide_eq_true_eq, not_or, not_and, Nat.not_le, exceeds, Variant.repaired, ↓reduceIte] at hdeny
      obtain ⟨⟨hpp, htot⟩, _⟩ := hdeny
      cases renewed with
      | true =>
        have hmem := hok rfl
        exact ⟨fun q => Nat.le_trans (countP_setConn_true_of_mem _ _ p c hmem) (h.resPerPeer q),
          Nat.le_trans (countP_setConn_true_of_mem _ _ p c hmem) h.resTotal, h.circPerPeer, h.circTotal⟩
      | false =>
        have hlt : activeOf st.conns p < cfg.maxResPerPeer := by
          have := hpp rfl
          simpa using this
        refine ⟨fun q => ?_, ?_, h.circPerPeer, h.circTotal⟩
        · by_cases hq : p = q
          · subst hq
            have := countP_setConn_true_le_succ (fun e => e.1 == p && e.2.2) st.conns p c
            unfold activeOf at hlt ⊢
            simp only at this ⊢
            omega
          · have hf : (fun e : Peer × Conn × Bool => e.1 == q && e.2.2) (p, c, true) = false := by
              simp [hq]
            exact Nat.le_trans (countP_setConn_true_other _ _ p c hf) (h.resPerPeer q)
        · have := countP_setConn_true_le_succ (fun e => e.2.2) st.conns p c
          unfold totalActive at htot ⊢
          simp only at this ⊢
          omega
  | resAccepted p c =>
    simp only [step]
    split
    · have hmem : (p, c, true) ∈ st.conns := hok
      exact ⟨fun q => Nat.le_trans (countP_setConn_true_of_mem _ _ p c hmem) (h.resPerPeer q),
        Nat.le_trans (countP_setConn_true_of_mem _ _ p c hmem) h.resTotal, h.circPerPeer, h.circTotal⟩
    · exact h
  | resTimedOut p c =>
    simp only [step]
    split
    · exact ⟨fun q => Nat.le_trans (countP_removeConn_le _ _ p c) (h.resPerPeer q),
        Nat.le_trans (countP_removeConn_le _ _ p c) h.resTotal, h.circPerPeer, h.circTotal⟩
    · exact h
  | circReq p c dst rate pick =>
    simp only [step]
    split
    · exact h
    · rename_i hdeny
      simp only [Bool.or_eq_true, Bool.and_eq_true, decide_eq_true_eq, not_or, not_and, Nat.not_le,
        exceeds, Variant.repaired, ↓reduceIte, true_and] at hdeny
      obtain ⟨⟨⟨hsrc, hdst⟩, htot⟩, _⟩ := hdeny
      split
      · cases pick with
        | none => exact h
        | some dc =>
          simp only
          split
          · refine ⟨h.resPerPeer, h.resTotal, fun q => ?_, ?_⟩
            · simp only [numOf, List.countP_append, List.countP_cons, List.countP_nil, involves]
              have hq := h.circPerPeer q
              unfold numOf at hq hsrc hdst
              by_cases h1 : p = q
              · subst h1
                simp only [beq_self_eq_true, Bool.true_or, ↓reduceIte]; omega
              · by_cases h2 : dst = q
                · subst h2
                  simp only [beq_self_eq_true, Bool.or_true, ↓reduceIte]; omega
                · simp [h1, h2]; exact hq
            · simp only [List.length_append, List.length_cons, List.length_nil]; omega
          · exact h
      · exact h
  | circAccepted id =>
    exact ⟨h.resPerPeer, h.resTotal, fun q => by
      show numOf (st.circuits.map _) q ≤ _
      rw [numOf_map_accept]; exact h.circPerPeer q,
      by show (st.circuits.map _).length ≤ _; rw [List.length_map]; exact h.circTotal⟩
  | circRemove id =>
    exact ⟨h.resPerPeer, h.resTotal, fun q => Nat.le_trans (numOf_filter_le _ _ q) (h.circPerPeer q),
      Nat.le_trans (List.length_filter_le _ _) h.circTotal⟩

/-- an event sequence every event of which respects the handler contract in the state it meets -/
def Contract (cfg : Cfg) : St → List Op → Prop
  | _, [] => True
  | st, op :: ops => OpOk st op ∧ Contract cfg (step Variant.repaired cfg st op).1 ops

/-- the property for every event sequence, of any length, from any state within the limits -/
theorem limits_hold_from (cfg : Cfg) (ops : List Op) :
    ∀ st, Inv cfg st → Contract cfg st ops → Inv cfg (Machine.exec (step Variant.repaired cfg) st ops) := by
  induction ops with
  | nil => intro st h _; exact h
  | cons op ops ih => intro st h hc; exact ih _ (step_inv cfg st op h hc.1) hc.2

/-- **C47**: from the initial (empty) relay, after any sequence of connection, reservation and
circuit events, all four limits hold. -/
theorem limits_hold (cfg : Cfg) (ops : List Op) (hc : Contract cfg St.empty ops) :
    Inv cfg (Machine.exec (step Variant.repaired cfg) St.empty ops) :=
  limits_hold_from cfg ops St.empty (Inv.empty cfg) hc

theorem reservations_per_peer (cfg : Cfg) (ops : List Op) (hc : Contract cfg St.empty ops) (p : Peer) :
    activeOf (Machine.exec (step Variant.repaired cfg) St.empty ops).conns p ≤ cfg.maxResPerPeer :=
  (limits_hold cfg ops hc).resPerPeer p

theorem reservations_total (cfg : Cfg) (ops : List Op) (hc : Contract cfg St.empty ops) :
    totalActive (Machine.exec (step Variant.repaired cfg) St.empty ops).conns ≤ cfg.maxRes :=
  (limits_hold cfg ops hc).resTotal

/-- for every peer, counting circuits in which it is the source *or* the destination -/
theorem circuits_per_peer (cfg : Cfg) (ops : List Op) (hc : Contract cfg St.empty ops) (p : Peer) :
    numOf (Machine.exec (step Variant.repaired cfg) St.empty ops).circuits p ≤ cfg.maxCircPerPeer :=
  (limits_hold cfg ops hc).circPerPeer p

theorem circuits_total (cfg : Cfg) (ops : List Op) (hc : Contract cfg St.empty ops) :
    (Machine.exec (step Variant.repaired cfg) St.empty ops).circuits.length ≤ cfg.maxCirc :=
  (limits_hold cfg ops hc).circTotal

/-- the executable Spec (run on snapshots of the real relay's bookkeeping) accepts every state
within the limits — hence every model state -/
theorem spec_of_inv (cfg : Cfg) (st : St) (h : Inv cfg st) : spec cfg st.conns st.circuits = "ok" := by
  unfold spec
  have h1 : st.conns.all (fun e => decide (activeOf st.conns e.1 ≤ cfg.maxResPerPeer)) = true := by
    simp only [List.all_eq_true, decide_eq_true_eq]; intro e _; exact h.resPerPeer e.1
  have h2 : st.circuits.all (fun k => decide (numOf st.circuits k.src ≤ cfg.maxCircPerPeer)
      && decide (numOf st.circuits k.dst ≤ cfg.maxCircPerPeer)) = true := by
    simp only [List.all_eq_true, Bool.and_eq_true, decide_eq_true_eq]
    intro k _; exact ⟨h.circPerPeer k.src, h.circPerPeer k.dst⟩
  simp [h1, h2, h.resTotal, h.circTotal]

theorem spec_accepts_model (cfg : Cfg) (ops : List Op) (hc : Contract cfg St.empty ops) :
    let st := Machine.exec (step Variant.repaired cfg) St.empty ops
    spec cfg st.conns st.circuits = "ok" :=
  spec_of_inv cfg _ (limits_hold cfg ops hc)

/-! ## the code before the repairs -/

/-- pre-fix: `count > max` lets one peer hold `max + 1` reservations
(`max_reservations_per_peer = 1`, two connections of peer 0, a reservation on each) -/
theorem per_peer_off_by_one_buggy_counterexample :
    let cfg : Cfg := ⟨4, 1, 4, 1⟩
    let st := Machine.exec (step Variant.preFix cfg) St.empty
      [.established 0 0, .established 0 1, .resReq 0 0 false true, .resReq 0 1 false true]
    activeOf st.conns 0 = 2 ∧ ¬ (activeOf st.conns 0 ≤ cfg.maxResPerPeer) := by decide

/-- pre-fix: the same `>` on the source's circuit count (`max_circuits_per_peer = 1`) -/
theorem per_peer_off_by_one_buggy_counterexample_circuits :
    let cfg : Cfg := ⟨4, 2, 4, 1⟩
    let st := Machine.exec (step Variant.preFix cfg) St.empty
      [.established 0 0, .established 1 1, .established 2 2, .resReq 1 1 false true, .resReq 2 2 false true,
       .circReq 0 0 1 true (some 1), .circReq 0 0 2 true (some 2)]
    numOf st.circuits 0 = 2 ∧ ¬ (numOf st.circuits 0 ≤ cfg.maxCircPerPeer) := by decide

/-- with only the comparison repaired, the destination is still unlimited: three sources open a
circuit each to peer 0 (`max_circuits_per_peer = 1`) -/
theorem dst_circuits_unchecked_buggy_counterexample :
    let cfg : Cfg := ⟨4, 2, 4, 1⟩
    let st := Machine.exec (step ⟨true, false⟩ cfg) St.empty
      [.established 0 0, .established 1 1, .established 2 2, .established 3 3, .resReq 0 0 false true,
       .circReq 1 1 0 true (some 0), .circReq 2 2 0 true (some 0), .circReq 3 3 0 true (some 0)]
    numOf st.circuits 0 = 3 ∧ ¬ (numOf st.circuits 0 ≤ cfg.maxCircPerPeer) := by decide

/-- Outside the handler contract the bound can still be exceeded in the repaired code: a renewal
is accepted on connection 0, the old reservation times out before the handler confirms (the
behaviour forgets the connection), another connection of the same peer reserves, then the late
`ReservationReqAccepted` re-activates connection 0 without any test.  (Model-level observation; it
needs the reservation timer to fire between two polls of one handler and was not reproduced on
the real code.) -/
theorem handler_race_exceeds :
    let cfg : Cfg := ⟨4, 1, 4, 1⟩
    let st := Machine.exec (step Variant.repaired cfg) St.empty
      [.established 0 0, .established 0 1, .resReq 0 0 false true, .resAccepted 0 0,
       .resReq 0 0 true true, .resTimedOut 0 0, .resReq 0 1 false true, .resAccepted 0 1, .resAccepted 0 0]
    activeOf st.conns 0 = 2 := by decide

/-! ## the handler contract is a consequence of the (repaired) handler

`C47h` composes one connection's handler with the behaviour's record of that connection through
the two event queues.  `bActive` there is the projection `(p, c, true) ∈ st.conns` of the behaviour
model here (`proj_*` below); `headOk` is `OpOk` for the event at the head of the queue. -/

/-- **`OpOk` holds with the repaired handler**: in every reachable state of the asynchronous
composition (any interleaving of requests, expiry, answers, completions and admission outcomes)
the event the behaviour processes next satisfies the contract. -/
theorem handler_contract (acts : List C47h.Act) :
    ∀ s, C47h.run true C47h.Sys.init acts = some s → C47h.headOk s = true := by
  suffices h : ∀ (acts : List C47h.Act) (s0 s : C47h.Sys), C47h.Inv s0 → C47h.run true s0 acts = some s → C47h.Inv s by
    intro s hr; exact C47h.headOk_of_inv s (h acts _ s C47h.Inv.init hr)
  intro acts
  induction acts with
  | nil => intro s0 s h hr; simp only [C47h.run, Option.some.injEq] at hr; subst hr; exact h
  | cons a as ih =>
    intro s0 s h hr
    simp only [C47h.run] at hr
    cases hs : C47h.step true s0 a with
    | none => rw [hs] at hr; simp at hr
    | some s1 => rw [hs] at hr; exact ih s1 s (C47h.step_inv s0 s1 a h hs) hr

/-- the handler as it was: the renewal's expiry is reported while the request is in flight, the
behaviour forgets the connection, and `ReservationReqAccepted` arrives for a connection that is
not recorded active (`findings/C47-renewal-expiry-race.md`) -/
theorem renewal_expiry_race_buggy_counterexample :
    (C47h.run false C47h.Sys.init
      [.request, .process true, .command, .complete true, .process true,   -- first reservation
       .request, .expire, .process true, .process true, .command, .complete true]).map C47h.headOk
      = some false := by decide

/-- … and what the behaviour then does with it: `expect("valid connection")` panics when that was
the peer's only connection -/
theorem renewal_expiry_race_buggy_counterexample_panic :
    (step Variant.repaired ⟨4, 1, 4, 1⟩
      (Machine.exec (step Variant.repaired ⟨4, 1, 4, 1⟩) St.empty
        [.established 0 0, .resReq 0 0 false true, .resAccepted 0 0, .resReq 0 0 true true, .resTimedOut 0 0])
      (.resAccepted 0 0)).2 = .panic := by decide

theorem mem_removeConn (l : List (Peer × Conn × Bool)) (p : Peer) (c : Conn) (e : Peer × Conn × Bool) :
    e ∈ removeConn l p c ↔ e ∈ l ∧ ¬ (e.1 = p ∧ e.2.1 = c) := by
  simp only [removeConn, isKey, List.mem_filter, Bool.not_eq_true', Bool.and_eq_false_iff, beq_eq_false_iff_ne,
    ne_eq, not_and]
  constructor
  · rintro ⟨h1, h2⟩; exact ⟨h1, fun hp hc => by rcases h2 with h | h <;> contradiction⟩
  · rintro ⟨h1, h2⟩
    refine ⟨h1, ?_⟩
    by_cases hp : e.1 = p
    · exact Or.inr (h2 hp)
    · exact Or.inl hp

theorem mem_setConn (l : List (Peer × Conn × Bool)) (p : Peer) (c : Conn) (a : Bool) (e : Peer × Conn × Bool) :
    e ∈ setConn l p c a ↔ (e ∈ l ∧ ¬ (e.1 = p ∧ e.2.1 = c)) ∨ e = (p, c, a) := by
  simp [setConn, mem_removeConn]

/-- the behaviour's record of connection `(p, c)` under its own events is what `C47h.step`'s
`process` does to `bActive` -/
theorem proj_resReq (cfg : Cfg) (st : St) (p : Peer) (c : Conn) (renewed rate : Bool) :
    let r := step Variant.repaired cfg st (.resReq p c renewed rate)
    (r.2 = .resAccept → (p, c, true) ∈ r.1.conns) ∧ (r.2 = .resDeny → r.1 = st) := by
  simp only [step]
  split
  · exact ⟨fun h => by simp at h, fun _ => rfl⟩
  · exact ⟨fun _ => by simp [mem_setConn], fun h => by simp at h⟩

theorem proj_resTimedOut (cfg : Cfg) (st : St) (p : Peer) (c : Conn) :
    let r := step Variant.repaired cfg st (.resTimedOut p c)
    r.2 = .none → (p, c, true) ∉ r.1.conns := by
  simp only [step]
  split
  · intro _; simp [mem_removeConn]
  · intro h; simp at h

theorem proj_resAccepted (cfg : Cfg) (st : St) (p : Peer) (c : Conn) :
    let r := step Variant.repaired cfg st (.resAccepted p c)
    r.2 = .none → (p, c, true) ∈ r.1.conns := by
  simp only [step]
  split
  · intro _; simp [mem_setConn]
  · intro h; simp at h

/-- reservation events of another connection do not touch the record of `(p, c)` -/
theorem proj_other (cfg : Cfg) (st : St) (p q : Peer) (c k : Conn) (hne : ¬ (p = q ∧ c = k)) (a : Bool)
    (op : Op) (hop : op = .resReq q k a true ∨ op = .resAccepted q k ∨ op = .resTimedOut q k ∨ op = .established q k) :
    (p, c, true) ∈ (step Variant.repaired cfg st op).1.conns ↔ (p, c, true) ∈ st.conns := by
  have hk : ¬ ((p, c, true) : Peer × Conn × Bool) = (q, k, true) := by
    intro h; simp only [Prod.mk.injEq] at h; exact hne ⟨h.1, h.2.1⟩
  rcases hop with rfl | rfl | rfl | rfl <;> simp only [step]
  · split <;> simp [mem_setConn, hne, hk]
  · split <;> simp [mem_setConn, hne, hk]
  · split <;> simp [mem_removeConn, hne]
  · simp [mem_setConn, hne]

/-! ## the circuit ledger (Spec part 2) agrees with the model -/

/-- after every request all tracked circuits are `Accepted` and their ids are below `next_id` -/
structure LInv (st : St) : Prop where
  acc : ∀ k ∈ st.circuits, k.accepted = true
  ids : ∀ k ∈ st.circuits, k.id < st.nextId

theorem LInv.empty : LInv St.empty := ⟨by simp [St.empty], by simp [St.empty]⟩

theorem map_accept_id (l : List Circuit) (id : Nat) (h : ∀ k ∈ l, k.accepted = true) :
    l.map (fun k => if k.id == id then { k with accepted := true } else k) = l := by
  induction l with
  | nil => rfl
  | cons k ks ih =>
    have hk := h k (List.mem_cons_self ..)
    simp only [List.map_cons, ih (fun k' hk' => h k' (List.mem_cons_of_mem _ hk'))]
    congr 1
    split
    · cases k; simp_all
    · rfl

theorem filter_ne_of_lt (l : List Circuit) (n : Nat) (h : ∀ k ∈ l, k.id < n) :
    l.filter (fun k => !(k.id == n)) = l := by
  apply List.filter_eq_self.2
  intro k hk
  have := h k hk
  simp; omega

/-- the four possible results of the `CircuitReqReceived` arm -/
theorem circReq_cases (cfg : Cfg) (st : St) (p : Peer) (c : Conn) (dst : Peer) (rate : Bool) (pick : Option Conn) :
    let r := step Variant.repaired cfg st (.circReq p c dst rate pick)
    r = (st, .circDenyLimit) ∨ r = (st, .circDenyNoRes) ∨ r = (st, .badOracle) ∨
    ∃ dc, pick = some dc ∧
      r = ({ st with circuits := st.circuits ++ [⟨st.nextId, p, c, dst, dc, false⟩], nextId := st.nextId + 1 },
           .circAccept st.nextId) := by
  simp only [step]
  split
  · exact Or.inl rfl
  · split
    · cases pick with
      | none => exact Or.inr (Or.inr (Or.inl rfl))
      | some dc =>
        simp only
        split
        · exact Or.inr (Or.inr (Or.inr ⟨dc, rfl, rfl⟩))
        · exact Or.inr (Or.inr (Or.inl rfl))
    · exact Or.inr (Or.inl rfl)

/-- reservation events leave the circuit table alone -/
theorem res_circuits (cfg : Cfg) (st : St) (op : Op)
    (hop : (∃ p c r t, op = .resReq p c r t) ∨ (∃ p c, op = .resAccepted p c)) :
    (step Variant.repaired cfg st op).1.circuits = st.circuits ∧
    (step Variant.repaired cfg st op).1.nextId = st.nextId := by
  rcases hop with ⟨p, c, r, t, rfl⟩ | ⟨p, c, rfl⟩ <;> simp only [step] <;> split <;> exact ⟨rfl, rfl⟩

/-- **the ledger is the model's circuit table**: kept only from the observed outcomes of the
requests, it equals `CircuitsTracker.circuits` of the model after every request -/
theorem ledger_tracks (cfg : Cfg) (st : St) (op : DOp) (h : LInv st) :
    ledgerStep st.circuits op (dstep Variant.repaired cfg st op).2 = (dstep Variant.repaired cfg st op).1.circuits
    ∧ LInv (dstep Variant.repaired cfg st op).1 := by
  cases op with
  | conn p c => exact ⟨rfl, ⟨h.acc, h.ids⟩⟩
  | closeconn p c =>
    refine ⟨rfl, ⟨fun k hk => h.acc k (List.mem_filter.1 hk).1, fun k hk => h.ids k (List.mem_filter.1 hk).1⟩⟩
  | closecirc id =>
    refine ⟨rfl, ⟨fun k hk => h.acc k (List.mem_filter.1 hk).1, fun k hk => h.ids k (List.mem_filter.1 hk).1⟩⟩
  | reserve p c renewed =>
    have e1 := res_circuits cfg st (.resReq p c renewed true) (Or.inl ⟨p, c, renewed, true, rfl⟩)
    simp only [dstep]
    generalize step Variant.repaired cfg st (.resReq p c renewed true) = r1 at e1 ⊢
    obtain ⟨st1, o1⟩ := r1
    simp only at e1
    have hl1 : LInv st1 := ⟨by rw [e1.1]; exact h.acc, by rw [e1.1, e1.2]; exact h.ids⟩
    cases o1 <;> simp only <;> try exact ⟨by simp [ledgerStep, e1.1], hl1⟩
    have e2 := res_circuits cfg st1 (.resAccepted p c) (Or.inr ⟨p, c, rfl⟩)
    generalize step Variant.repaired cfg st1 (.resAccepted p c) = r2 at e2 ⊢
    obtain ⟨st2, o2⟩ := r2
    simp only at e2
    have hl2 : LInv st2 := ⟨by rw [e2.1]; exact hl1.acc, by rw [e2.1, e2.2]; exact hl1.ids⟩
    cases o2 <;> simp only <;> first | exact ⟨by simp [ledgerStep, e2.1, e1.1], hl2⟩ | exact ⟨rfl, h⟩
  | circuit p c dst pick =>
    simp only [dstep]
    rcases circReq_cases cfg st p c dst true pick with e | e | e | ⟨dc, hp, e⟩
    · rw [e]; exact ⟨by simp [ledgerStep], h⟩
    · rw [e]; exact ⟨by simp [ledgerStep], h⟩
    · rw [e]; exact ⟨by simp [ledgerStep], h⟩
    · subst hp
      rw [e]
      simp only [step, ledgerStep, List.map_append, List.map_cons, List.map_nil, beq_self_eq_true, ↓reduceIte,
        map_accept_id _ _ h.acc]
      refine ⟨trivial, ⟨?_, ?_⟩⟩
      · intro k hk
        rcases List.mem_append.1 hk with hk | hk
        · exact h.acc k hk
        · simp at hk; subst hk; rfl
      · intro k hk
        rcases List.mem_append.1 hk with hk | hk
        · have := h.ids k hk; simp only; omega
        · simp at hk; subst hk; simp
  | circuitFail p c dst =>
    simp only [dstep]
    rcases circReq_cases cfg st p c dst true ((st.conns.find? (fun e => e.1 == dst && e.2.2)).map (·.2.1))
      with e | e | e | ⟨dc, _, e⟩
    · rw [e]; exact ⟨by simp [ledgerStep], h⟩
    · rw [e]; exact ⟨by simp [ledgerStep], h⟩
    · rw [e]; exact ⟨by simp [ledgerStep], h⟩
    · rw [e]
      simp only [step, ledgerStep, List.filter_append, filter_ne_of_lt _ _ h.ids, List.filter_cons,
        beq_self_eq_true, Bool.not_true, Bool.false_eq_true, ↓reduceIte, List.filter_nil, List.append_nil]
      exact ⟨trivial, ⟨h.acc, fun k hk => by have := h.ids k hk; simp only; omega⟩⟩

/-- the handler contract on requests: a reservation request flagged `renewed` comes from a
connection recorded active (`C47.handler_contract`) -/
def DOk (st : St) : DOp → Prop
  | .reserve p c renewed => renewed = true → (p, c, true) ∈ st.conns
  | _ => True

theorem dstep_inv (cfg : Cfg) (st : St) (op : DOp) (h : Inv cfg st) (hok : DOk st op) :
    Inv cfg (dstep Variant.repaired cfg st op).1 := by
  cases op with
  | conn p c => exact step_inv cfg st _ h trivial
  | closeconn p c => exact step_inv cfg st _ h trivial
  | closecirc id => exact step_inv cfg st _ h trivial
  | reserve p c renewed =>
    have h1 := step_inv cfg st (.resReq p c renewed true) h hok
    have hp := proj_resReq cfg st p c renewed true
    simp only [dstep]
    generalize step Variant.repaired cfg st (.resReq p c renewed true) = r1 at h1 hp ⊢
    obtain ⟨st1, o1⟩ := r1
    cases o1 <;> simp only <;> try exact h1
    have hm : (p, c, true) ∈ st1.conns := hp.1 rfl
    have h2 := step_inv cfg st1 (.resAccepted p c) h1 hm
    generalize step Variant.repaired cfg st1 (.resAccepted p c) = r2 at h2 ⊢
    obtain ⟨st2, o2⟩ := r2
    cases o2 <;> simp only <;> first | exact h2 | exact h
  | circuit p c dst pick =>
    have h1 := step_inv cfg st (.circReq p c dst true pick) h trivial
    simp only [dstep]
    generalize step Variant.repaired cfg st (.circReq p c dst true pick) = r1 at h1 ⊢
    obtain ⟨st1, o1⟩ := r1
    cases o1 <;> simp only <;> first | exact h1 | exact h | exact step_inv cfg st1 _ h1 trivial
  | circuitFail p c dst =>
    simp only [dstep]
    have h1 := step_inv cfg st (.circReq p c dst true ((st.conns.find? (fun e => e.1 == dst && e.2.2)).map (·.2.1))) h trivial
    generalize step Variant.repaired cfg st (.circReq p c dst true _) = r1 at h1 ⊢
    obtain ⟨st1, o1⟩ := r1
    cases o1 <;> simp only <;> first | exact h1 | exact h | exact step_inv cfg st1 _ h1 trivial

/-- the model and the ledger monitor run side by side, request by request -/
def ledgerRun (cfg : Cfg) : St → List Circuit → List DOp → List String
  | _, _, [] => []
  | st, l, op :: ops =>
    let r := dstep Variant.repaired cfg st op
    let l' := ledgerStep l op r.2
    specLedger cfg l' :: ledgerRun cfg r.1 l' ops

def DContract (cfg : Cfg) : St → List DOp → Prop
  | _, [] => True
  | st, op :: ops => DOk st op ∧ DContract cfg (dstep Variant.repaired cfg st op).1 ops

theorem specLedger_of_inv (cfg : Cfg) (st : St) (h : Inv cfg st) : specLedger cfg st.circuits = "ok" := by
  unfold specLedger
  have h2 : st.circuits.all (fun k => decide (numOf st.circuits k.src ≤ cfg.maxCircPerPeer)
      && decide (numOf st.circuits k.dst ≤ cfg.maxCircPerPeer)) = true := by
    simp only [List.all_eq_true, Bool.and_eq_true, decide_eq_true_eq]
    intro k _; exact ⟨h.circPerPeer k.src, h.circPerPeer k.dst⟩
  simp [h2, h.circTotal]

/-- **the ledger Spec accepts the model**: for every request sequence within the handler contract,
the circuit limits judged on the independently kept ledger hold after every request -/
theorem spec_accepts_model_ledger (cfg : Cfg) (ops : List DOp) :
    ∀ st, Inv cfg st → LInv st → DContract cfg st ops →
      ∀ v ∈ ledgerRun cfg st st.circuits ops, v = "ok" := by
  induction ops with
  | nil => intro st _ _ _ v hv; simp [ledgerRun] at hv
  | cons op ops ih =>
    intro st hi hl hc v hv
    obtain ⟨e, hl'⟩ := ledger_tracks cfg st op hl
    have hi' := dstep_inv cfg st op hi hc.1
    simp only [ledgerRun, e] at hv
    rcases List.mem_cons.1 hv with rfl | hv
    · exact specLedger_of_inv cfg _ hi'
    · exact ih _ hi' hl' hc.2 v hv

/-! ## non-vacuity -/

/-- a trace within the contract that reaches every limit exactly -/
example : Contract ⟨2, 1, 1, 1⟩ St.empty
    [.established 0 0, .established 1 1, .resReq 0 0 false true, .resAccepted 0 0, .resReq 0 0 true true,
     .resReq 1 1 false true, .circReq 1 1 0 true (some 0), .circAccepted 0, .circRemove 0, .closed 0 0] := by
  simp [Contract, OpOk, step, Variant.repaired, exceeds, setConn, removeConn, isKey, activeOf, totalActive,
    hasPeer, hasActive, numOf, St.empty]
example : (Machine.exec (step Variant.repaired ⟨2, 1, 1, 1⟩) St.empty
    [.established 0 0, .established 1 1, .resReq 0 0 false true, .resReq 1 1 false true,
     .circReq 1 1 0 true (some 0)]).circuits.length = 1 := by decide
/-- the repaired code refuses the second reservation of the counterexample -/
example : (step Variant.repaired ⟨4, 1, 4, 1⟩ (Machine.exec (step Variant.repaired ⟨4, 1, 4, 1⟩) St.empty
    [.established 0 0, .established 0 1, .resReq 0 0 false true]) (.resReq 0 1 false true)).2 = .resDeny := by
  decide

end C47

#print axioms C47.step_inv
#print axioms C47.limits_hold
#print axioms C47.reservations_per_peer
#print axioms C47.reservations_total
#print axioms C47.circuits_per_peer
#print axioms C47.circuits_total
#print axioms C47.spec_of_inv
#print axioms C47.spec_accepts_model
#print axioms C47.per_peer_off_by_one_buggy_counterexample
#print axioms C47.per_peer_off_by_one_buggy_counterexample_circuits
#print axioms C47.dst_circuits_unchecked_buggy_counterexample
#print axioms C47.handler_race_exceeds
#print axioms C47.handler_contract
#print axioms C47.renewal_expiry_race_buggy_counterexample
#print axioms C47.renewal_expiry_race_buggy_counterexample_panic
#print axioms C47.proj_resReq
#print axioms C47.proj_resTimedOut
#print axioms C47.proj_resAccepted
#print axioms C47.proj_other
#print axioms C47.ledger_tracks
#print axioms C47.dstep_inv
#print axioms C47.spec_accepts_model_ledger
