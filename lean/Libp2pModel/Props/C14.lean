import Libp2pModel.Model.C14
import Libp2pModel.Proofs.C14Sys
import Libp2pModel.Proofs.C14Bytes
import Libp2pModel.Proofs.C15Frame
import Libp2pModel.Proofs.C14Reader
import Libp2pModel.Proofs.C14Net
import Libp2pModel.Proofs.C14NetLazy
import Libp2pModel.Proofs.C14NetW
/-!
# C14 — property theorems

*For any dialer and listener protocol lists and any chunking and readiness of the underlying
byte stream, a V1 negotiation ends with both sides on the same protocol, namely the first dialer
protocol the listener supports, or with both sides failing with `Failed` when there is none.
With V1Lazy the listener outcome is the same and the dialer learns of a failure no later than its
first read or flush.  In every successful case, application bytes written by either side arrive
at the other side complete and in order.*

What is proved, and at which granularity, is summarised at `C14.agree_partial` below.
-/
namespace C14
open Mss

/-! ## 1. agreement, for ALL lists and ALL schedules (message granularity) -/

/-- **Listener outcome** (V1 and V1Lazy alike, whatever optimistic application data the lazy
dialer sent): under every schedule, whenever the listener future has resolved, its result is
the first dialer protocol the listener supports, or `Failed` if there is none. -/
theorem listener_outcome (P : Params) (hv : ∀ d ∈ P.ds, validName d = true) (sched : List Move)
    (rl : NRes) (h : (exec P sched).l = .done rl) : rl = expected P.ds P.ls := by
  obtain ⟨ph, hok, he⟩ := reachable_shape P hv sched
  rw [he] at h
  exact shape_listener_result P ph hok rl h

/-- **Dialer outcome**: under every schedule, whenever the dialer has reached a final result
(for V1Lazy: the result its `Negotiated` stream reports at the first read), it is the same value. -/
theorem dialer_outcome (P : Params) (hv : ∀ d ∈ P.ds, validName d = true) (sched : List Move)
    (rd : NRes) (hs : (exec P sched).started = true) (h : (exec P sched).d = .done rd) :
    rd = expected P.ds P.ls := by
  obtain ⟨ph, hok, he⟩ := reachable_shape P hv sched
  rw [he] at h hs
  exact shape_dialer_result P ph hok rd hs h

/-- **Agreement** (`C14.agree_msg`): for all protocol lists, both versions and every schedule,
if both sides have finished then both are on `ds.find? (· ∈ ls)`, or both report `Failed`. -/
theorem agree_msg (P : Params) (hv : ∀ d ∈ P.ds, validName d = true) (sched : List Move)
    (rd rl : NRes) (hs : (exec P sched).started = true)
    (hd : (exec P sched).d = .done rd) (hl : (exec P sched).l = .done rl) :
    rd = rl ∧
    ((∃ p, P.ds.find? (fun d => P.ls.contains d) = some p ∧ rd = .ok p) ∨
     (P.ds.find? (fun d => P.ls.contains d) = none ∧ rd = .failed)) := by
  have h1 := dialer_outcome P hv sched rd hs hd
  have h2 := listener_outcome P hv sched rl hl
  refine ⟨h1.trans h2.symm, ?_⟩
  rw [h1]
  unfold expected
  cases hf : P.ds.find? (fun d => P.ls.contains d) with
  | none => right; simp
  | some p => left; exact ⟨p, rfl, rfl⟩

/-- **No deadlock**: under every schedule, a configuration in which neither side can take a step
is final — both futures have resolved (so, by `agree_msg`, agree). -/
theorem no_deadlock (P : Params) (hv : ∀ d ∈ P.ds, validName d = true) (sched : List Move)
    (hD : stepD P (exec P sched) = exec P sched) (hL : stepL P (exec P sched) = exec P sched) :
    (exec P sched).started = true ∧ (∃ rd, (exec P sched).d = .done rd) ∧
      (∃ rl, (exec P sched).l = .done rl) := by
  obtain ⟨ph, hok, he⟩ := reachable_shape P hv sched
  rw [he] at hD hL ⊢
  exact quiescent_final P ph hok hD hL

/-! ## 2. V1Lazy: failure is learnt at the first read, before any data -/

/-- A lazily settled dialer that reads (the header and) the rejection fails with `Failed`
and has delivered no application byte; nothing else is needed to learn of the failure. -/
theorem lazy_fails_at_first_read (lazy : Bool) (cur : Bytes) :
    (runSteps (dStep lazy) (.expecting cur true) [.msg .header, .msg .na]).1 = .done .failed ∧
    (runSteps (dStep lazy) (.expecting cur true) [.msg .na]).1 = .done .failed := by
  simp [runSteps, dStep]

/-- The defect that was repaired (`findings/C14-lazy-garbage-protocolerror`): with the pre-fix
listener, optimistic application data starting with two bytes ≥ 0x80 — which the frame reader
rejects as "Maximum frame length exceeded" — made the listener report a `ProtocolError` after its
`na`, where V1 (and the repaired code) report `Failed`. -/
theorem lazy_buggy_counterexample (ls : List Bytes) :
    frameDec [0xff, 0xff, 0x03, 0x01] = some (.err .frameTooLong, [0x03, 0x01]) ∧
    (lStepPreFix ls (.recvMessage true) (frameEvent (.err .frameTooLong))).1 = .done (.perr .frameTooLong) ∧
    (lStep ls (.recvMessage true) (frameEvent (.err .frameTooLong))).1 = .done .failed := by
  refine ⟨by decide, ?_, ?_⟩ <;> simp [lStepPreFix, lStep, frameEvent, garbageAfterNa]

/-! ## 3. the frame reader is a `Good` decoder: decoded messages do not depend on chunking -/

theorem reader_good : Framed.Good frameDec := C15.frameDec_good

/-- for every way of cutting the received byte stream into chunks, the reader extracts the same
frames (hence the same messages / errors) and keeps the same residual -/
theorem reader_split_independent (chunks : List Bytes) :
    Framed.feedMany frameDec [] chunks = Framed.drainAll frameDec chunks.flatten :=
  Framed.feedMany_nil_start frameDec C15.frameDec_good chunks

/-! ## 4. transparency of the read path: exactly the negotiation frames are consumed -/

def dDone (s : DSt) : Bool := isSomeB ((dAuto false).result s)
def lDone (ls : List Bytes) (s : LSt) : Bool := isSomeB ((lAuto ls).result s)

theorem wireOk_header : wireOk .header := ⟨by decide, by decide⟩
theorem wireOk_na : wireOk .na := ⟨by decide, by decide⟩

theorem wireOk_proto (p : Bytes) (h : validName p = true) : wireOk (.proto p) := by
  simp [validName] at h
  obtain ⟨⟨⟨⟨h1, h2⟩, h3⟩, h4⟩, h5⟩ := h
  have e : MAX_FRAME_SIZE = 16383 := by decide
  refine ⟨?_, ?_⟩
  · simp [C15.valid, C15.validName, h1, h2, h3, h4]
    rw [e] at h5
    have : (2:Nat) ^ 64 = 18446744073709551616 := by decide
    omega
  · simp [encodeMsg]; omega

/-- the dialer, waiting for the answer to `x` with `pre ++ cur :: rest` after it still to propose,
finishes exactly on the confirmation of `cur` when the listener rejects `x` and all of `pre` -/
theorem dialer_consumes (cur : Bytes) (rest : List Bytes) :
    ∀ (pre : List Bytes) (x : Bytes), (∀ d ∈ pre, validName d = true) → validName cur = true →
      ConsumesExactly (dStep false) dDone (.await x (pre ++ cur :: rest))
        (List.replicate (pre.length + 1) Msg.na ++ [Msg.proto cur]) ∧
      (runSteps (dStep false) (.await x (pre ++ cur :: rest))
        ((List.replicate (pre.length + 1) Msg.na ++ [Msg.proto cur]).map RdEv.msg)).1 = .done (.ok cur) := by
  intro pre
  induction pre with
  | nil =>
    intro x _ hc
    simp [ConsumesExactly, dDone, dAuto, isSomeB, dStep, dPropose_valid _ _ _ _ hc, runSteps]
  | cons y ys ih =>
    intro x hv hc
    have hy : validName y = true := hv y (by simp)
    obtain ⟨ih1, ih2⟩ := ih y (fun d hd => hv d (by simp [hd])) hc
    have hl : List.replicate ((y :: ys).length + 1) Msg.na ++ [Msg.proto cur] =
        Msg.na :: (List.replicate (ys.length + 1) Msg.na ++ [Msg.proto cur]) := by
      simp [List.replicate_succ]
    have hstep : dStep false (.await x ((y :: ys) ++ cur :: rest)) (RdEv.msg Msg.na) =
        (.await y (ys ++ cur :: rest), [Msg.proto y]) := by
      simp [dStep, dPropose_valid _ _ _ _ hy]
    rw [hl]
    refine ⟨?_, ?_⟩
    · show _ ∧ _
      refine ⟨by simp [dDone, dAuto, isSomeB], ?_⟩
      rw [hstep]; exact ih1
    · simp only [List.map_cons, runSteps, hstep]
      exact ih2

/-- **Dialer side** (V1): reading the listener's answers — header, one `na` per rejected proposal,
the confirmation — followed by ANY bytes `B` (the listener's application data, however early it
was written), the dialer ends with `Ok(cur)` having consumed exactly the negotiation frames:
what is left for its `Negotiated` stream is exactly `B`. -/
theorem dialer_reads_exactly (pre : List Bytes) (cur : Bytes) (rest : List Bytes) (B : Bytes)
    (fuel : Nat) (hv : ∀ d ∈ pre, validName d = true) (hc : validName cur = true)
    (hf : pre.length + 2 < fuel) :
    runBytes (dStep false) dDone fuel (dStart false (pre ++ cur :: rest)).1
        (wireOfAll ([Msg.header] ++ List.replicate pre.length Msg.na ++ [Msg.proto cur]) ++ B) =
      (.done (.ok cur),
       (runSteps (dStep false) (dStart false (pre ++ cur :: rest)).1
          (([Msg.header] ++ List.replicate pre.length Msg.na ++ [Msg.proto cur]).map RdEv.msg)).2, B) := by
  have hw : ∀ m ∈ [Msg.header] ++ List.replicate pre.length Msg.na ++ [Msg.proto cur], wireOk m := by
    intro m hm
    simp at hm
    rcases hm with rfl | ⟨_, rfl⟩ | rfl
    · exact wireOk_header
    · exact wireOk_na
    · exact wireOk_proto cur hc
  have hlen : ([Msg.header] ++ List.replicate pre.length Msg.na ++ [Msg.proto cur]).length < fuel := by
    simp; omega
  cases pre with
  | nil =>
    have hs : (dStart false ([] ++ cur :: rest)).1 = .await cur rest := by
      simp [dStart, dPropose_valid _ _ _ _ hc]
    have hcons : ConsumesExactly (dStep false) dDone (.await cur rest)
        ([Msg.header] ++ List.replicate ([] : List Bytes).length Msg.na ++ [Msg.proto cur]) := by
      simp [ConsumesExactly, dDone, dAuto, isSomeB, dStep]
    rw [hs, runBytes_exact (dStep false) dDone _ _ B fuel hw hlen hcons]
    simp [runSteps, dStep]
  | cons y ys =>
    have hy : validName y = true := hv y (by simp)
    have hs : (dStart false ((y :: ys) ++ cur :: rest)).1 = .await y (ys ++ cur :: rest) := by
      simp [dStart, dPropose_valid _ _ _ _ hy]
    obtain ⟨c1, c2⟩ := dialer_consumes cur rest ys y (fun d hd => hv d (by simp [hd])) hc
    have hl : [Msg.header] ++ List.replicate (y :: ys).length Msg.na ++ [Msg.proto cur] =
        Msg.header :: (List.replicate (ys.length + 1) Msg.na ++ [Msg.proto cur]) := by simp
    have hh : dStep false (.await y (ys ++ cur :: rest)) (RdEv.msg Msg.header) =
        (.await y (ys ++ cur :: rest), []) := by simp [dStep]
    have hcons : ConsumesExactly (dStep false) dDone (.await y (ys ++ cur :: rest))
        ([Msg.header] ++ List.replicate (y :: ys).length Msg.na ++ [Msg.proto cur]) := by
      rw [hl]
      show _ ∧ _
      refine ⟨by simp [dDone, dAuto, isSomeB], ?_⟩
      rw [hh]; exact c1
    rw [hs, runBytes_exact (dStep false) dDone _ _ B fuel hw hlen hcons]
    have hfin : (runSteps (dStep false) (.await y (ys ++ cur :: rest))
        (([Msg.header] ++ List.replicate (y :: ys).length Msg.na ++ [Msg.proto cur]).map RdEv.msg)).1 =
        .done (.ok cur) := by
      rw [hl]
      simp only [List.map_cons, runSteps, hh]
      exact c2
    rw [hfin]

/-- **Lazy dialer side**: the `Negotiated` stream of a lazily settled dialer, reading the header
and the confirmation followed by ANY bytes `B`, completes having consumed exactly these two frames. -/
theorem lazy_reads_exactly (cur : Bytes) (B : Bytes) (fuel : Nat) (hc : validName cur = true)
    (hf : 2 < fuel) :
    runBytes (dStep true) dDone fuel (.expecting cur true)
        (wireOfAll [Msg.header, Msg.proto cur] ++ B) = (.done (.ok cur), [], B) := by
  have hw : ∀ m ∈ [Msg.header, Msg.proto cur], wireOk m := by
    intro m hm
    simp at hm
    rcases hm with rfl | rfl
    · exact wireOk_header
    · exact wireOk_proto cur hc
  have hcons : ConsumesExactly (dStep true) dDone (.expecting cur true) [Msg.header, Msg.proto cur] := by
    simp [ConsumesExactly, dDone, dAuto, isSomeB, dStep]
  rw [runBytes_exact (dStep true) dDone _ _ B fuel hw (by simpa using hf) hcons]
  simp [runSteps, dStep]

/-- the listener, after the header, rejects every proposal in `pre` and finishes exactly on `cur` -/
theorem listener_consumes (ls : List Bytes) (cur : Bytes) (hc : validName cur = true)
    (hin : ls.contains cur = true) :
    ∀ (pre : List Bytes) (b : Bool), (∀ d ∈ pre, validName d = true ∧ ls.contains d = false) →
      ConsumesExactly (lStep ls) (lDone ls) (.recvMessage b) (pre.map Msg.proto ++ [Msg.proto cur]) ∧
      (runSteps (lStep ls) (.recvMessage b) ((pre.map Msg.proto ++ [Msg.proto cur]).map RdEv.msg)).1 =
        .done (.ok cur) := by
  have hmem : cur ∈ ls := by simpa using hin
  intro pre
  induction pre with
  | nil =>
    intro b _
    simp [ConsumesExactly, lDone, lAuto, isSomeB, lStep, hmem, lSend, valid_sendable cur hc, runSteps]
  | cons y ys ih =>
    intro b hv
    obtain ⟨_, hny⟩ := hv y (by simp)
    have hny' : y ∉ ls := by simpa using hny
    obtain ⟨ih1, ih2⟩ := ih true (fun d hd => hv d (by simp [hd]))
    have hstep : lStep ls (.recvMessage b) (RdEv.msg (Msg.proto y)) = (.recvMessage true, [Msg.na]) := by
      simp [lStep, hny', lSend, sendable_na]
    refine ⟨?_, ?_⟩
    · show _ ∧ _
      refine ⟨by simp [lDone, lAuto, isSomeB], ?_⟩
      rw [hstep]; exact ih1
    · simp only [List.map_cons, List.cons_append, runSteps, hstep]
      exact ih2

/-- **Listener side**: reading the dialer's header and proposals up to the first supported one,
followed by ANY bytes `A` (the dialer's application data — for V1Lazy written before the
confirmation even left), the listener ends with `Ok(cur)` having consumed exactly the negotiation
frames: what is left for its `Negotiated` stream is exactly `A`. -/
theorem listener_reads_exactly (ls pre : List Bytes) (cur : Bytes) (A : Bytes) (fuel : Nat)
    (hv : ∀ d ∈ pre, validName d = true ∧ ls.contains d = false)
    (hc : validName cur = true) (hin : ls.contains cur = true) (hf : pre.length + 2 < fuel) :
    runBytes (lStep ls) (lDone ls) fuel .recvHeader
        (wireOfAll ([Msg.header] ++ pre.map Msg.proto ++ [Msg.proto cur]) ++ A) =
      (.done (.ok cur),
       (runSteps (lStep ls) .recvHeader
          (([Msg.header] ++ pre.map Msg.proto ++ [Msg.proto cur]).map RdEv.msg)).2, A) := by
  have hw : ∀ m ∈ [Msg.header] ++ pre.map Msg.proto ++ [Msg.proto cur], wireOk m := by
    intro m hm
    simp at hm
    rcases hm with rfl | ⟨d, hd, rfl⟩ | rfl
    · exact wireOk_header
    · exact wireOk_proto d (hv d hd).1
    · exact wireOk_proto cur hc
  have hlen : ([Msg.header] ++ pre.map Msg.proto ++ [Msg.proto cur]).length < fuel := by
    simp; omega
  obtain ⟨c1, c2⟩ := listener_consumes ls cur hc hin pre false hv
  have hh : lStep ls .recvHeader (RdEv.msg Msg.header) = (.recvMessage false, [Msg.header]) := by
    simp [lStep, lSend, sendable_header]
  have hl : [Msg.header] ++ pre.map Msg.proto ++ [Msg.proto cur] =
      Msg.header :: (pre.map Msg.proto ++ [Msg.proto cur]) := by simp
  have hcons : ConsumesExactly (lStep ls) (lDone ls) .recvHeader
      ([Msg.header] ++ pre.map Msg.proto ++ [Msg.proto cur]) := by
    rw [hl]
    show _ ∧ _
    refine ⟨by simp [lDone, lAuto, isSomeB], ?_⟩
    rw [hh]; exact c1
  rw [runBytes_exact (lStep ls) (lDone ls) _ _ A fuel hw hlen hcons]
  have hfin : (runSteps (lStep ls) .recvHeader
      (([Msg.header] ++ pre.map Msg.proto ++ [Msg.proto cur]).map RdEv.msg)).1 = .done (.ok cur) := by
    rw [hl]
    simp only [List.map_cons, runSteps, hh]
    exact c2
  rw [hfin]

/-! ## 5. byte granularity: every chunking / delivery schedule

`C14.BCfg`/`bexec` (Model/C14_Net.lean) is the negotiation with BYTE channels: a poll of a side
finds an arbitrary prefix of the unconsumed bytes readable.  `pollNext` (Model/C14_Reader.lean) is
`LengthDelimited::poll_next` as the incremental state machine it is (one length byte per read,
exact-length payload reads, arbitrary `poll_read` return sizes). -/

-- `C14.pollNext_refines` (Proofs/C14Reader.lean): the incremental reader refines the batch decoder
-- `frameDec` from every state, for every chunk-size behaviour of the stream;
-- `C14.reader_chunk_independent`: hence the REAL reader is chunking-independent (not just its
-- batch view); `C14.atEof_eq`: at EOF it reports what `eofEvent` says about the residual.

/-- **Byte-level refinement**: every run of the byte-level network, under any delivery schedule,
is matched by a run of the message-level system with the same automaton states. -/
theorem bytes_refine_msg (P : Params) (hv : ∀ d ∈ P.ds, validName d = true) (hj : P.junk = none)
    (bs : List BMove) : ∃ sched, Rel (bexec P bs) (exec P sched) := bytes_refine P hv hj bs

/-- **Agreement at byte granularity, for every chunking/delivery schedule**: whenever a side of
the byte-level network has finished, its result is `ds.find? (· ∈ ls)` resp. `Failed`;
so if both have finished they agree. -/
theorem bytes_agree (P : Params) (hv : ∀ d ∈ P.ds, validName d = true) (hj : P.junk = none)
    (bs : List BMove) :
    (∀ rl, (bexec P bs).l = .done rl → rl = expected P.ds P.ls) ∧
    (∀ rd, (bexec P bs).started = true → (bexec P bs).d = .done rd → rd = expected P.ds P.ls) := by
  obtain ⟨sched, hrel⟩ := bytes_refine P hv hj bs
  refine ⟨?_, ?_⟩
  · intro rl h
    exact listener_outcome P hv sched rl (by rw [← hrel.hl]; exact h)
  · intro rd hs h
    exact dialer_outcome P hv sched rd (by rw [← hrel.hs]; exact hs) (by rw [← hrel.hd]; exact h)

/-- **Byte-level refinement with optimistic `V1Lazy` data** (`bexecA`, Model/C14_NetLazy.lean: the
lazily settling dialer writes its application data `A` right behind the negotiation bytes): every
run is matched by a message-level run with `junk = junkOf A`.  `A` must not parse as a negotiation
message (`junkOf A` is an error, or `A` is empty) — the documented `V1Lazy` pitfall. -/
theorem bytes_refine_lazy_msg (P : Params) (A : Bytes) (hv : ∀ d ∈ P.ds, validName d = true)
    (hjA : P.junk = junkOf A) (hok : A = [] ∨ ∃ e, junkOf A = some e) (bs : List BMove) :
    ∃ sched, RelA A (bexecA P A bs) (exec P sched) := bytes_refine_lazy P A hv hjA hok bs

/-- **Agreement at byte granularity with optimistic data, for every chunking/delivery schedule**:
the listener's outcome is `ds.find? (· ∈ ls)` / `Failed` — the same as for V1 —, and the dialer's
final result (for the lazy exit: what its `Negotiated` stream reports) too. -/
theorem bytes_agree_lazy (P : Params) (A : Bytes) (hv : ∀ d ∈ P.ds, validName d = true)
    (hjA : P.junk = junkOf A) (hok : A = [] ∨ ∃ e, junkOf A = some e) (bs : List BMove) :
    (∀ rl, (bexecA P A bs).l = .done rl → rl = expected P.ds P.ls) ∧
    (∀ rd, (bexecA P A bs).started = true → (bexecA P A bs).d = .done rd →
      rd = expected P.ds P.ls) := by
  obtain ⟨sched, hrel⟩ := bytes_refine_lazy P A hv hjA hok bs
  refine ⟨?_, ?_⟩
  · intro rl h
    exact listener_outcome P hv sched rl (by rw [← hrel.hl]; exact h)
  · intro rd hs h
    exact dialer_outcome P hv sched rd (by rw [← hrel.hs]; exact hs) (by rw [← hrel.hd]; exact h)

/-- **Write path** (`wexec`, Model/C14_NetW.lean: every side has a write buffer, a poll writes at
most `k` bytes of it, reads its next frame only once the buffer is flushed, and puts its answer —
and at the lazy exit the application data — into the buffer): after forgetting the buffers every
run is a run of the atomic-send network. -/
theorem write_path_refines (P : Params) (A : Bytes) (ws : List WMove) :
    ∃ bs : List BMove, wabs (wexec P A ws) = bexecA P A bs := wexec_refines P A ws

/-- **Agreement for every chunking AND write-readiness schedule**: in the network with write
buffers, partial writes, flush-before-read, arbitrary readable prefixes and optimistic `V1Lazy`
data, whenever a side has finished its result is `ds.find? (· ∈ ls)` / `Failed`. -/
theorem wire_agree (P : Params) (A : Bytes) (hv : ∀ d ∈ P.ds, validName d = true)
    (hjA : P.junk = junkOf A) (hok : A = [] ∨ ∃ e, junkOf A = some e) (ws : List WMove) :
    (∀ rl, (wexec P A ws).b.l = .done rl → rl = expected P.ds P.ls) ∧
    (∀ rd, (wexec P A ws).b.started = true → (wexec P A ws).b.d = .done rd →
      rd = expected P.ds P.ls) := by
  obtain ⟨bs, hbs⟩ := wexec_refines P A ws
  have hl : (wexec P A ws).b.l = (bexecA P A bs).l := by rw [← hbs]; rfl
  have hd : (wexec P A ws).b.d = (bexecA P A bs).d := by rw [← hbs]; rfl
  have hs : (wexec P A ws).b.started = (bexecA P A bs).started := by rw [← hbs]; rfl
  obtain ⟨h1, h2⟩ := bytes_agree_lazy P A hv hjA hok bs
  exact ⟨fun rl h => h1 rl (by rw [← hl]; exact h),
    fun rd hs' h => h2 rd (by rw [← hs]; exact hs') (by rw [← hd]; exact h)⟩

/-! ## 6. summary -/

/-- the property at full strength: for every input, the byte-level network — and, beyond what
is expressed here, every chunking/readiness schedule of it — satisfies the Spec -/
def full_statement : Prop :=
  ∀ (lazy : Bool) (ds lnames : List Bytes) (A B : Bytes),
    spec lazy ds lnames A B (simulate lazy ds lnames A B) = "ok"

/-- **What is proved** (everything for ALL protocol lists of valid names, unbounded):
1. at message granularity, for every interleaving of the two futures (`sched`), both versions,
   any optimistic application data: each side's outcome, once reached, is
   `ds.find? (· ∈ ls)` / `Failed`; both finished ⇒ they agree; a configuration where nobody can
   move is final (no deadlock);
2. the byte ↔ message link, reader side: the frame reader is a `Good` decoder, so the decoded
   message sequence is the same for every chunking of the byte stream; every message the automata
   send is read back as itself (`C15.frame_prefix`);
3. transparency of the read path on both sides and for the lazy dialer: after the negotiation
   exactly the negotiation frames have been consumed, whatever application bytes follow them.
4. byte granularity (`bytes_refine_msg`, `bytes_agree`, `bytes_refine_lazy_msg`, `bytes_agree_lazy`):
   the network whose channels carry bytes, each poll seeing an arbitrary prefix of the unconsumed
   bytes (chunking, delivery delay, partial writes), with or without optimistic `V1Lazy` data,
   refines the message-level system, so the outcomes are the same for every such schedule; and
   the incremental `poll_next` state machine refines the batch frame decoder (`pollNext_refines`).
5. write path (`write_path_refines`, `wire_agree`): the network in which every side has a write
   buffer, writes it in arbitrary pieces and reads only after it is flushed refines the atomic one,
   so agreement holds for every chunking AND write-readiness schedule.
Not proved in Lean (covered by the correspondence runs only): that the futures' explicit states
(`SendHeader`/`SendProtocol`/`FlushProtocol`/`AwaitProtocol`, `RecvHeader`/…/`Flush`, `poll_ready`)
implement the "flush, then read one frame, then buffer the answer" poll of `C14.wStepD/wStepL`;
the application phase after the negotiation (write all, half-close, read to EOF) as a whole; and
that the executable network `C14.simulate` satisfies the Spec for all inputs (`full_statement`). -/
theorem agree_partial (P : Params) (hv : ∀ d ∈ P.ds, validName d = true) (sched : List Move) :
    (∀ rl, (exec P sched).l = .done rl → rl = expected P.ds P.ls) ∧
    (∀ rd, (exec P sched).started = true → (exec P sched).d = .done rd → rd = expected P.ds P.ls) ∧
    (stepD P (exec P sched) = exec P sched → stepL P (exec P sched) = exec P sched →
      (∃ rd, (exec P sched).d = .done rd) ∧ (∃ rl, (exec P sched).l = .done rl)) ∧
    Framed.Good frameDec :=
  ⟨fun rl h => listener_outcome P hv sched rl h,
   fun rd hs h => dialer_outcome P hv sched rd hs h,
   fun hD hL => (no_deadlock P hv sched hD hL).2,
   reader_good⟩

/-! ## non-vacuity -/
example : validName [47, 97] = true := by decide
/-- a schedule that completes a negotiation: ds = [/a, /b], ls = [/b] -/
example : (exec ⟨false, [[47, 97], [47, 98]], [[47, 98]], none⟩
    [.stepD, .stepL, .stepL, .stepD, .stepD, .stepL, .stepD]).d = .done (.ok [47, 98]) := by decide
example : (exec ⟨false, [[47, 97], [47, 98]], [[47, 98]], none⟩
    [.stepD, .stepL, .stepL, .stepD, .stepD, .stepL, .stepD]).l = .done (.ok [47, 98]) := by decide
example : (exec ⟨true, [[47, 97]], [[47, 98]], some .frameTooLong⟩
    [.stepD, .stepL, .stepL, .stepL, .stepD, .stepD]).l = .done .failed := by decide

end C14

#print axioms C14.listener_outcome
#print axioms C14.dialer_outcome
#print axioms C14.agree_msg
#print axioms C14.no_deadlock
#print axioms C14.lazy_fails_at_first_read
#print axioms C14.lazy_buggy_counterexample
#print axioms C14.reader_good
#print axioms C14.reader_split_independent
#print axioms C14.dialer_reads_exactly
#print axioms C14.lazy_reads_exactly
#print axioms C14.listener_reads_exactly
#print axioms C14.runBytes_exact
#print axioms C14.agree_partial
#print axioms C14.pollNext_refines
#print axioms C14.reader_chunk_independent
#print axioms C14.atEof_eq
#print axioms C14.bytes_refine_msg
#print axioms C14.bytes_agree
#print axioms C14.bytes_refine_lazy_msg
#print axioms C14.bytes_agree_lazy
#print axioms C14.write_path_refines
#print axioms C14.wire_agree
